(* C15, part 2: importing the exported genesis gives back the same module state.
   Uses of the invariant: ids_seq, auctions_wf, bids_wf, allowed_wf, vqs_wf, mlen_inv. *)
From Coq Require Import ZArith NArith List Bool Arith Lia Permutation Sorted.
From FR Require Import Dec Types Bank Match Step Genesis Model Spec.
From FR.Proofs Require Import InvDefs GenesisSort GenesisRT.
Import ListNotations.
Open Scope Z_scope.

(* ------------------------------------------------------------------ the relation "same module state" *)
Record state_same (s s' : state) : Prop := {
  ss_auctions : st_auctions s' = st_auctions s;
  ss_aseq : st_aseq s' = st_aseq s;
  ss_bids_of : forall id, bids_of s' id = bids_of s id;
  ss_bids_perm : Permutation (st_bids s') (st_bids s);
  ss_find_allowed : forall a u, find_allowed s' a u = find_allowed s a u;
  ss_allowed_perm : Permutation (st_allowed s') (st_allowed s);
  (* what the matching reads from the allow-list of an auction: each bidder's maximum *)
  ss_caps : forall id u, caps_of (allowed_of s' id) u = caps_of (allowed_of s id) u;
  ss_vqs_of : forall id, vqs_of s' id = vqs_of s id;
  ss_vqs_perm : Permutation (st_vqs s') (st_vqs s);
  ss_bseq : forall id, st_bseq s' id = st_bseq s id;
  ss_mlen : forall id, st_mlen s' id = st_mlen s id;
  ss_params : st_params s' = st_params s;
  ss_bal : st_bal s' = st_bal s;
  ss_now : st_now s' = st_now s;
  ss_listeners : st_listeners s' = st_listeners s;
  ss_switch : st_switch s' = st_switch s;
  ss_xfers : st_xfers s' = st_xfers s;
  ss_trace : st_trace s' = st_trace s
}.

(* ------------------------------------------------------------------ find_auction *)
Lemma find_auction_eq s s' j : st_auctions s' = st_auctions s -> find_auction s' j = find_auction s j.
Proof. intros E. unfold find_auction. rewrite E. reflexivity. Qed.

Lemma find_auction_in s j a : find_auction s j = Some a -> In a (st_auctions s) /\ a_id a = j.
Proof.
  intros H. unfold find_auction in H. apply find_some in H. destruct H as [Hin E].
  apply N.eqb_eq in E. split; assumption.
Qed.

(* ------------------------------------------------------------------ per auction the store order is the export order *)
Lemma bids_of_sorted s id : bids_wf s -> StronglySorted (leP bid_le) (bids_of s id).
Proof.
  intros [_ Hids]. apply (ssorted_of_map b_id N.lt).
  - intros x y Hx Hy Hlt. unfold bids_of in Hx, Hy.
    apply filter_In in Hx. apply filter_In in Hy. destruct Hx as [_ Ex]. destruct Hy as [_ Ey].
    apply N.eqb_eq in Ex. apply N.eqb_eq in Ey.
    unfold leP, bid_le. apply lexN_intro. right. split; [congruence|lia].
  - rewrite Hids, succ_ids_upto. apply seqN_sorted.
Qed.

Lemma scheds_ok_sorted vs : forall e prev acc, scheds_ok vs e prev acc = true ->
  StronglySorted Z.lt (map s_time vs) /\ Forall (fun t => prev < t) (map s_time vs).
Proof.
  induction vs as [|v rest IH]; intros e prev acc H.
  - split; constructor.
  - cbn [scheds_ok] in H.
    apply andb_prop in H. destruct H as [H Hrest].
    apply andb_prop in H. destruct H as [H _].
    apply andb_prop in H. destruct H as [_ Hprev].
    apply Z.ltb_lt in Hprev.
    destruct (IH _ _ _ Hrest) as [Hs Hf].
    cbn [map]. split.
    + constructor; assumption.
    + constructor; [exact Hprev|]. eapply Forall_impl; [|exact Hf]. cbn beta. intros t Ht. lia.
Qed.

Lemma vqs_of_sorted s id : auctions_wf s -> vqs_wf s -> StronglySorted (leP vq_le) (vqs_of s id).
Proof.
  intros Hau [Hwf [_ Hord]].
  destruct (vqs_of s id) as [|v r] eqn:E; [constructor|]. rewrite <- E.
  assert (In v (vqs_of s id)) as Hv by (rewrite E; left; reflexivity).
  unfold vqs_of in Hv. apply filter_In in Hv. destruct Hv as [Hv Ev]. apply N.eqb_eq in Ev.
  rewrite Forall_forall in Hwf. pose proof (Hwf v Hv) as Hvw.
  destruct (vwf_auction s v Hvw) as [a [Hfa [Hst [_ [_ [Htime _]]]]]].
  rewrite Ev in Hfa. apply find_auction_in in Hfa. destruct Hfa as [Hain Eid].
  assert (a_scheds a <> []) as Hne.
  { intros En. rewrite En in Htime. exact Htime. }
  destruct (Hord a Hain Hst Hne) as [Htimes _]. rewrite Eid in Htimes.
  unfold auctions_wf in Hau. rewrite Forall_forall in Hau.
  destruct (awf_scheds a (Hau a Hain)) as [Hs|Hs]; [contradiction|].
  apply scheds_ok_sorted in Hs. destruct Hs as [Hs _].
  apply (ssorted_of_map v_time Z.lt).
  - intros x y Hx Hy Hlt. unfold vqs_of in Hx, Hy.
    apply filter_In in Hx. apply filter_In in Hy. destruct Hx as [_ Ex]. destruct Hy as [_ Ey].
    apply N.eqb_eq in Ex. apply N.eqb_eq in Ey.
    unfold leP, vq_le. apply lexZ_intro. right. split; [congruence|lia].
  - rewrite Htimes. exact Hs.
Qed.

(* ------------------------------------------------------------------ the caps map of an auction *)
Lemma caps_find l id u : NoDup (map allowed_key l) ->
  find (fun x => N.eqb (al_bidder x) u) (rev (filter (fun x => N.eqb (al_auction x) id) l))
  = find (fun x => N.eqb (al_auction x) id && N.eqb (al_bidder x) u) l.
Proof.
  intros Hnd.
  rewrite (find_filter_and (fun x => N.eqb (al_auction x) id) (fun x => N.eqb (al_bidder x) u) l).
  apply find_perm_unique; [|apply Permutation_rev].
  intros x y Hx Hy Ex Ey. apply filter_In in Hx. apply filter_In in Hy.
  destruct Hx as [Hx Ax]. destruct Hy as [Hy Ay].
  apply N.eqb_eq in Ex. apply N.eqb_eq in Ey. apply N.eqb_eq in Ax. apply N.eqb_eq in Ay.
  apply (NoDup_map_inj_in allowed_key l Hnd); [exact Hx|exact Hy|]. unfold allowed_key. congruence.
Qed.

Lemma caps_of_allowed_of s id u : NoDup (map allowed_key (st_allowed s)) ->
  caps_of (allowed_of s id) u = option_map al_max (find_allowed s id u).
Proof. intros Hnd. unfold caps_of, allowed_of, find_allowed. rewrite caps_find by exact Hnd. reflexivity. Qed.

(* ------------------------------------------------------------------ import_auctions *)
Lemma import_auctions_seq l : forall k n, map a_id l = seqN k n ->
  import_auctions l k = (l, (k + N.of_nat n)%N).
Proof.
  induction l as [|a r IH]; intros k n H.
  - destruct n as [|n]; [|discriminate]. cbn [import_auctions]. f_equal. lia.
  - destruct n as [|n]; [discriminate|]. cbn [map seqN] in H. injection H as Ea Er.
    cbn [import_auctions]. rewrite (IH _ _ Er). rewrite <- Ea.
    f_equal; [|lia]. f_equal. destruct a; reflexivity.
Qed.

(* ------------------------------------------------------------------ the allow-list *)
Definition put_entry (s : state) (x : allowed) : state := put_allowed s (al_auction x) (al_bidder x) (al_max x).

Lemma fold_put_allowed L : forall s, NoDup (map allowed_key (st_allowed s ++ L)) ->
  fold_left put_entry L s = with_allowed s (st_allowed s ++ L).
Proof.
  induction L as [|x r IH]; intros s Hnd.
  - cbn [fold_left]. rewrite app_nil_r. destruct s; reflexivity.
  - cbn [fold_left].
    assert (put_entry s x = with_allowed s (st_allowed s ++ [x])) as Eput.
    { unfold put_entry, put_allowed.
      destruct (find_allowed s (al_auction x) (al_bidder x)) as [y|] eqn:Ef.
      - exfalso. unfold find_allowed in Ef. apply find_some in Ef. destruct Ef as [Hy Ek].
        apply andb_prop in Ek. destruct Ek as [E1 E2]. apply N.eqb_eq in E1. apply N.eqb_eq in E2.
        rewrite map_app in Hnd. cbn [map] in Hnd. apply NoDup_remove_2 in Hnd. apply Hnd.
        apply in_or_app. left.
        replace (allowed_key x) with (allowed_key y) by (unfold allowed_key; congruence).
        apply in_map. exact Hy.
      - destruct x; reflexivity. }
    rewrite Eput. rewrite IH.
    + change (with_allowed s ((st_allowed s ++ [x]) ++ r) = with_allowed s (st_allowed s ++ x :: r)).
      rewrite <- app_assoc. reflexivity.
    + change (NoDup (map allowed_key ((st_allowed s ++ [x]) ++ r))). rewrite <- app_assoc. exact Hnd.
Qed.

(* ------------------------------------------------------------------ bids *)
(* the fields import_bids does not touch *)
Record rest_same (s s' : state) : Prop := {
  rs_params : st_params s' = st_params s;
  rs_auctions : st_auctions s' = st_auctions s;
  rs_allowed : st_allowed s' = st_allowed s;
  rs_vqs : st_vqs s' = st_vqs s;
  rs_aseq : st_aseq s' = st_aseq s;
  rs_mlen : st_mlen s' = st_mlen s;
  rs_bal : st_bal s' = st_bal s;
  rs_now : st_now s' = st_now s;
  rs_listeners : st_listeners s' = st_listeners s;
  rs_switch : st_switch s' = st_switch s;
  rs_xfers : st_xfers s' = st_xfers s;
  rs_trace : st_trace s' = st_trace s
}.

Definition of_auction (id : N) (b : bid) : bool := N.eqb (b_auction b) id.

Lemma filter_of_auction_cons id b r :
  filter (of_auction id) (b :: r)
  = if N.eqb (b_auction b) id then b :: filter (of_auction id) r else filter (of_auction id) r.
Proof. reflexivity. Qed.

Lemma import_bids_ok L : forall s,
  (forall b, In b L -> find_auction s (b_auction b) <> None) ->
  (forall id, map b_id (filter (of_auction id) L)
              = seqN (st_bseq s id + 1) (length (filter (of_auction id) L))) ->
  exists s', import_bids s L = Some s'
    /\ st_bids s' = st_bids s ++ L
    /\ (forall id, st_bseq s' id = (st_bseq s id + N.of_nat (length (filter (of_auction id) L)))%N)
    /\ rest_same s s'.
Proof.
  induction L as [|b r IH]; intros s Hfa Hids.
  - exists s. cbn [import_bids filter length]. split; [reflexivity|]. split; [rewrite app_nil_r; reflexivity|].
    split; [intros id; cbn [N.of_nat]; lia|]. constructor; reflexivity.
  - cbn [import_bids].
    destruct (find_auction s (b_auction b)) as [a|] eqn:Ea;
      [|exfalso; exact (Hfa b (or_introl eq_refl) Ea)].
    assert (b_id b = (st_bseq s (b_auction b) + 1)%N) as Eid.
    { pose proof (Hids (b_auction b)) as Hi. rewrite filter_of_auction_cons, N.eqb_refl in Hi.
      cbn [map length seqN] in Hi. injection Hi as E _. exact E. }
    rewrite <- Eid.
    assert (set_b_id b (b_id b) = b) as Eb by (destruct b; reflexivity). rewrite Eb.
    set (s1 := with_bids (with_bseq s (upd (st_bseq s) (b_auction b) (b_id b))) (st_bids s ++ [b])).
    destruct (IH s1) as [s' [Himp [Hbids [Hseq Hrest]]]].
    + intros b' Hb'. change (find_auction s1 (b_auction b')) with (find_auction s (b_auction b')).
      apply Hfa. right. exact Hb'.
    + intros id. pose proof (Hids id) as Hi. rewrite filter_of_auction_cons in Hi.
      change (st_bseq s1 id) with (upd (st_bseq s) (b_auction b) (b_id b) id). unfold upd.
      destruct (N.eqb_spec id (b_auction b)) as [E|E].
      * subst id. rewrite N.eqb_refl in Hi. cbn [map length seqN] in Hi.
        injection Hi as _ Hi. rewrite Eid. exact Hi.
      * destruct (N.eqb_spec (b_auction b) id) as [E'|E']; [congruence|]. exact Hi.
    + exists s'. split; [exact Himp|]. split.
      * rewrite Hbids. change (st_bids s1) with (st_bids s ++ [b]). rewrite <- app_assoc. reflexivity.
      * split.
        -- intros id. rewrite Hseq, filter_of_auction_cons.
           change (st_bseq s1 id) with (upd (st_bseq s) (b_auction b) (b_id b) id). unfold upd.
           destruct (N.eqb_spec id (b_auction b)) as [E|E].
           ++ subst id. rewrite N.eqb_refl. cbn [length]. lia.
           ++ destruct (N.eqb_spec (b_auction b) id) as [E'|E']; [congruence|]. reflexivity.
        -- destruct Hrest. constructor; assumption.
Qed.

(* ------------------------------------------------------------------ vesting queues *)
Lemma import_vqs_ok L : forall s,
  (forall v, In v L -> find_auction s (v_auction v) <> None) ->
  NoDup (map vq_key (st_vqs s ++ L)) ->
  import_vqs s L = Some (with_vqs s (st_vqs s ++ L)).
Proof.
  induction L as [|v r IH]; intros s Hfa Hnd.
  - cbn [import_vqs]. rewrite app_nil_r. destruct s; reflexivity.
  - cbn [import_vqs].
    destruct (find_auction s (v_auction v)) as [a|] eqn:Ea;
      [|exfalso; exact (Hfa v (or_introl eq_refl) Ea)].
    rewrite filter_all_true.
    + set (s1 := with_vqs s (st_vqs s ++ [v])).
      rewrite (IH s1).
      * change (Some (with_vqs s ((st_vqs s ++ [v]) ++ r)) = Some (with_vqs s (st_vqs s ++ v :: r))).
        rewrite <- app_assoc. reflexivity.
      * intros v' Hv'. change (find_auction s1 (v_auction v')) with (find_auction s (v_auction v')).
        apply Hfa. right. exact Hv'.
      * change (NoDup (map vq_key ((st_vqs s ++ [v]) ++ r))). rewrite <- app_assoc. exact Hnd.
    + intros x Hx. apply negb_true_iff.
      destruct (N.eqb (v_auction x) (v_auction v) && (v_time x =? v_time v)) eqn:Ek; [|reflexivity].
      exfalso. apply andb_prop in Ek. destruct Ek as [E1 E2]. apply N.eqb_eq in E1. apply Z.eqb_eq in E2.
      rewrite map_app in Hnd. cbn [map] in Hnd. apply NoDup_remove_2 in Hnd. apply Hnd.
      apply in_or_app. left.
      replace (vq_key v) with (vq_key x) by (unfold vq_key; congruence).
      apply in_map. exact Hx.
Qed.

(* ------------------------------------------------------------------ import, unfolded *)
Definition base_state (base : state) (aus : list auction) (seq : N) : state :=
  {| st_params := st_params base; st_auctions := aus; st_bids := []; st_allowed := [];
     st_vqs := []; st_aseq := seq; st_bseq := fun _ => 0%N; st_mlen := fun _ => 0;
     st_bal := st_bal base; st_now := st_now base; st_listeners := st_listeners base;
     st_switch := st_switch base; st_xfers := st_xfers base; st_trace := st_trace base |}.

Definition mlen_of (s : state) (bs : list bid) : N -> Z :=
  fun a => match find_auction s a with
           | Some au => match a_type au with Batch => count_matched bs a | FixedPrice => 0 end
           | None => 0 end.

Definition import_rest (base : state) (g : genesis) (aus : list auction) (seq : N) : option state :=
  match import_bids (fold_left put_entry (g_allowed g) (base_state base aus seq)) (g_bids g) with
  | None => None
  | Some s2 =>
      match import_vqs (with_mlen s2 (mlen_of s2 (g_bids g))) (g_vqs g) with
      | None => None
      | Some s3 => Some (with_params s3 (g_params g))
      end
  end.

Lemma import_eq base g :
  import base g = import_rest base g (fst (import_auctions (g_auctions g) 0%N))
                                      (snd (import_auctions (g_auctions g) 0%N)).
Proof.
  unfold import, import_rest. destruct (import_auctions (g_auctions g) 0%N) as [aus seq]. reflexivity.
Qed.

Lemma count_matched_perm l l' id : Permutation l l' -> count_matched l id = count_matched l' id.
Proof.
  intros H. unfold count_matched. f_equal. apply Permutation_length. apply perm_filter. exact H.
Qed.

(* ------------------------------------------------------------------ Theorem 2 *)
Theorem import_export_parts s :
  ids_seq s -> auctions_wf s -> bids_wf s -> allowed_wf s -> vqs_wf s -> mlen_inv s ->
  exists s', import s (export s) = Some s' /\ state_same s s'.
Proof.
  intros Hids Hau Hb Hal Hvq Hml.
  rewrite import_eq. unfold export. cbn [g_auctions g_allowed g_bids g_vqs g_params].
  rewrite (import_auctions_seq (st_auctions s) 0 (N.to_nat (st_aseq s)))
    by (rewrite <- ids_upto_seqN; exact Hids).
  cbn [fst snd]. replace (0 + N.of_nat (N.to_nat (st_aseq s)))%N with (st_aseq s) by lia.
  unfold import_rest. cbn [g_auctions g_allowed g_bids g_vqs g_params].
  set (La := sort_by allowed_le (st_allowed s)).
  set (Lb := sort_by bid_le (st_bids s)).
  set (Lv := sort_by vq_le (st_vqs s)).
  set (s0 := base_state s (st_auctions s) (st_aseq s)).
  (* allow-list *)
  assert (fold_left put_entry La s0 = with_allowed s0 La) as Eal.
  { rewrite fold_put_allowed; [reflexivity|].
    change (NoDup (map allowed_key La)). apply sort_by_NoDup_keys. apply Hal. }
  rewrite Eal. set (s1 := with_allowed s0 La).
  (* bids *)
  assert (forall id, filter (of_auction id) Lb = bids_of s id) as Efil.
  { intros id. unfold Lb. apply (filter_sort_by_sorted bid_le bid_le_total bid_le_trans).
    apply bids_of_sorted. exact Hb. }
  assert (forall id, length (bids_of s id) = N.to_nat (st_bseq s id)) as Elen.
  { intros id. destruct Hb as [_ Hb2]. rewrite <- (map_length b_id), Hb2, succ_ids_upto. apply seqN_length. }
  destruct (import_bids_ok Lb s1) as [s2 [Himp [Hbids [Hseq Hrs]]]].
  { intros b Hb'. change (find_auction s1 (b_auction b)) with (find_auction s (b_auction b)).
    apply sort_by_in in Hb'. destruct Hb as [Hb1 _]. rewrite Forall_forall in Hb1.
    destruct (bwf_auction s b (Hb1 b Hb')) as [a [Ha _]]. congruence. }
  { intros id. rewrite Efil. change (st_bseq s1 id) with 0%N.
    destruct Hb as [_ Hb2]. rewrite Hb2, succ_ids_upto, Elen. reflexivity. }
  rewrite Himp.
  change (st_bids s1) with (@nil bid) in Hbids. cbn [app] in Hbids.
  assert (st_auctions s2 = st_auctions s) as Eau2 by exact (rs_auctions _ _ Hrs).
  (* vesting queues *)
  set (s3 := with_mlen s2 (mlen_of s2 Lb)).
  assert (st_vqs s3 = []) as Evq3 by exact (rs_vqs _ _ Hrs).
  rewrite (import_vqs_ok Lv s3).
  2:{ intros v Hv. rewrite (find_auction_eq s s3) by exact Eau2.
      apply sort_by_in in Hv. destruct Hvq as [Hv1 _]. rewrite Forall_forall in Hv1.
      destruct (vwf_auction s v (Hv1 v Hv)) as [a [Ha _]]. congruence. }
  2:{ rewrite Evq3. cbn [app]. apply sort_by_NoDup_keys. apply Hvq. }
  rewrite Evq3. cbn [app].
  eexists. split; [reflexivity|].
  constructor.
  - exact Eau2.
  - exact (rs_aseq _ _ Hrs).
  - intros id. change (filter (of_auction id) (st_bids s2) = bids_of s id). rewrite Hbids. apply Efil.
  - change (Permutation (st_bids s2) (st_bids s)). rewrite Hbids. apply sort_by_perm.
  - intros a u.
    change (find (fun x => N.eqb (al_auction x) a && N.eqb (al_bidder x) u) (st_allowed s2) = find_allowed s a u).
    rewrite (rs_allowed _ _ Hrs). change (st_allowed s1) with La. unfold find_allowed.
    apply find_perm_unique; [|apply Permutation_sym; apply sort_by_perm].
    intros x y Hx Hy Ex Ey.
    apply andb_prop in Ex. destruct Ex as [Ex1 Ex2]. apply N.eqb_eq in Ex1. apply N.eqb_eq in Ex2.
    apply andb_prop in Ey. destruct Ey as [Ey1 Ey2]. apply N.eqb_eq in Ey1. apply N.eqb_eq in Ey2.
    apply (NoDup_map_inj_in allowed_key (st_allowed s)); [apply Hal|exact Hx|exact Hy|].
    unfold allowed_key. congruence.
  - change (Permutation (st_allowed s2) (st_allowed s)). rewrite (rs_allowed _ _ Hrs).
    change (st_allowed s1) with La. apply sort_by_perm.
  - intros id u. destruct Hal as [_ Hnd].
    rewrite (caps_of_allowed_of s id u) by exact Hnd.
    change (caps_of (filter (fun x => N.eqb (al_auction x) id) (st_allowed s2)) u
            = option_map al_max (find_allowed s id u)).
    rewrite (rs_allowed _ _ Hrs). change (st_allowed s1) with La.
    unfold caps_of. rewrite caps_find by (apply sort_by_NoDup_keys; exact Hnd).
    unfold find_allowed. f_equal.
    apply find_perm_unique; [|apply Permutation_sym; apply sort_by_perm].
    intros x y Hx Hy Ex Ey.
    apply andb_prop in Ex. destruct Ex as [Ex1 Ex2]. apply N.eqb_eq in Ex1. apply N.eqb_eq in Ex2.
    apply andb_prop in Ey. destruct Ey as [Ey1 Ey2]. apply N.eqb_eq in Ey1. apply N.eqb_eq in Ey2.
    apply (NoDup_map_inj_in allowed_key (st_allowed s)); [exact Hnd|exact Hx|exact Hy|].
    unfold allowed_key. congruence.
  - intros id. change (filter (fun x => N.eqb (v_auction x) id) Lv = vqs_of s id).
    unfold Lv. apply (filter_sort_by_sorted vq_le vq_le_total vq_le_trans).
    apply vqs_of_sorted; assumption.
  - change (Permutation Lv (st_vqs s)). apply sort_by_perm.
  - intros id. change (st_bseq s2 id = st_bseq s id). rewrite Hseq, Efil, Elen.
    change (st_bseq s1 id) with 0%N. lia.
  - intros id. change (mlen_of s2 Lb id = st_mlen s id). unfold mlen_of.
    rewrite (find_auction_eq s s2) by exact Eau2.
    specialize (Hml id). destruct (find_auction s id) as [a|]; [|symmetry; exact Hml].
    destruct (a_type a); [symmetry; exact Hml|].
    rewrite Hml. apply count_matched_perm. apply sort_by_perm.
  - reflexivity.
  - exact (rs_bal _ _ Hrs).
  - exact (rs_now _ _ Hrs).
  - exact (rs_listeners _ _ Hrs).
  - exact (rs_switch _ _ Hrs).
  - exact (rs_xfers _ _ Hrs).
  - exact (rs_trace _ _ Hrs).
Qed.

Theorem import_export s : Inv s -> exists s', import s (export s) = Some s' /\ state_same s s'.
Proof. intros H. apply import_export_parts; apply H. Qed.

(* ------------------------------------------------------------------ Theorem 3 *)
Theorem genesis_step s : Inv s -> exists s', step s OGenesis = (GenOk true, s') /\ state_same s s'.
Proof.
  intros H. destruct (import_export s H) as [s' [Himp Hsame]].
  exists s'. split; [|exact Hsame].
  cbn [step]. unfold genesis_roundtrip. rewrite Himp. rewrite (export_validates s H). reflexivity.
Qed.
