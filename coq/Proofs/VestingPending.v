(* C08 / C09: an auction is in the vesting status exactly as long as its LAST instalment is unreleased.
   J12  vesting_pending s :  every auction with status VestingS has a non-empty vesting queue whose last entry is
        not yet released
   is preserved by every operation (given the global invariant Inv), hence holds in every reachable state.  With
   vqs_wf (Finished => every entry released) this is the state-level reading of "an auction finishes when its last
   vesting instalment is released": no reachable state has an auction stuck in VestingS with everything paid. *)
From Coq Require Import ZArith NArith List Bool Arith Lia.
From FR Require Import Dec Types Bank Match Step Genesis Model Spec.
From FR.Proofs Require Import InvDefs FrameFacts TxFacts BlockFacts InvStaticBase InvStaticBlock.
From FR.Proofs Require VestingFacts VestingInv GenesisImport DecFacts LifeTheorems.
From FR.Proofs Require Import EscrowBase EscrowTx EscrowBlock InvAll.
Import ListNotations.
Open Scope Z_scope.

Definition last_unreleased (vs : list vq) : Prop :=
  exists l v, vs = l ++ [v] /\ v_released v = false.

Definition vesting_pending (s : state) : Prop :=
  forall a, In a (st_auctions s) -> a_status a = VestingS -> last_unreleased (vqs_of s (a_id a)).

Lemma vesting_pending_ext s s' :
  st_auctions s' = st_auctions s -> st_vqs s' = st_vqs s -> vesting_pending s -> vesting_pending s'.
Proof. intros Ha Hv H a Hin St. unfold vqs_of. rewrite Hv. rewrite Ha in Hin. apply (H a Hin St). Qed.

(* the instalments created at settlement: none released, at least one *)
Lemma split_last_unreleased a R vs : vs <> [] -> last_unreleased (split a R R vs).
Proof.
  intros Hne. pose proof (DecFacts.split_fields a R vs) as Hf. rewrite Forall_forall in Hf.
  assert (Hlen : split a R R vs <> []).
  { destruct vs as [|v r]; [contradiction|]. cbn [split]. discriminate. }
  destruct (exists_last Hlen) as (l & v & E). exists l, v. split; [exact E|].
  destruct (Hf v) as (Hr & _); [rewrite E; apply in_or_app; right; now left|exact Hr].
Qed.

(* releasing: the last entry stays as it is unless it is due *)
Lemma release_last_unreleased id t vs :
  last_unreleased vs -> last_due_rec t vs = false ->
  last_unreleased (map (VestingFacts.release_vq id t) vs).
Proof.
  intros (l & v & -> & Hr) Hd. exists (map (VestingFacts.release_vq id t) l), (VestingFacts.release_vq id t v).
  split; [rewrite map_app; reflexivity|].
  assert (Hdv : vq_due t v = false).
  { clear -Hd. induction l as [|x l IH]; cbn [app last_due_rec] in Hd; [exact Hd|].
    destruct (l ++ [v]) eqn:E; [destruct l; discriminate E|]. apply IH. exact Hd. }
  unfold VestingFacts.release_vq. rewrite Hdv, andb_false_r. exact Hr.
Qed.

(* ------------------------------------------------------------------ one auction of a block *)
Lemma process_vesting_pending t orc s a s' :
  Inv s -> vesting_pending s -> In a (st_auctions s) -> process t orc s a = Ok s' -> vesting_pending s'.
Proof.
  intros I VP Ha H x Hx Stx.
  pose proof (Inv_find_in s a I Ha) as Fa.
  pose proof (Inv_process t orc s a s' I Ha H) as I'.
  destruct (process_spec _ _ _ _ _ H) as [PE Hrel].
  destruct (N.eq_dec (a_id x) (a_id a)) as [E|Hne].
  - (* the processed auction itself *)
    destruct (Hrel Fa) as (a' & Fa' & R).
    assert (x = a').
    { pose proof (Inv_find_in s' x I' Hx) as Fx. rewrite E, Fa' in Fx. congruence. }
    subst x. rewrite E. clear E.
    unfold block_rel in R. unfold process in H. destruct (a_status a) eqn:St.
    + destruct (a_start a <=? t); subst a'; cbn [a_status set_status] in Stx; congruence.
    + destruct (last_end a <=? t); [|subst a'; congruence].
      assert (Hvq0 : vqs_of s (a_id a) = []) by (apply started_no_vqs; assumption).
      assert (Hsettle : forall a1, a_id a1 = a_id a -> a_scheds a1 = a_scheds a ->
                 VestingInv.settle_vqs s s' a1 -> a_status a' = VestingS -> a_scheds a <> [] ->
                 last_unreleased (vqs_of s' (a_id a))).
      { intros a1 Hid Hsc (r & _ & HV) _ Hne. unfold vqs_of. rewrite HV, Hsc.
        destruct (a_scheds a) as [|v vs] eqn:Es; [contradiction|].
        rewrite <- Hid. rewrite (vqs_split_of s a1 r (v :: vs)); [|rewrite Hid; exact Hvq0].
        apply split_last_unreleased. discriminate. }
      destruct (a_type a) eqn:Ty.
      * subst a'. cbn [a_status set_status] in Stx. unfold settled_st in Stx.
        destruct (a_scheds a) eqn:Es; [discriminate|].
        apply (Hsettle a eq_refl Es (VestingInv.close_fixed_vqs _ _ _ H)); [cbn; unfold settled_st; rewrite Es; reflexivity|discriminate].
      * destruct R as (order & mi & HV & HC & ->).
        rewrite (close_batch_unfold s orc a order mi HV HC) in H.
        destruct (decision s a mi).
        -- cbn [extended a_status set_ends set_matched_price] in Stx. unfold extended in Stx. cbn in Stx. congruence.
        -- cbn [a_status set_status] in Stx. unfold settled_st in Stx. cbn [a_scheds set_matched_price] in Stx.
           destruct (a_scheds a) eqn:Es; [discriminate|].
           pose proof (VestingInv.settle_batch_vqs _ _ _ _ H) as SV.
           assert (SV' : VestingInv.settle_vqs s s' (set_matched_price a (mi_price mi))).
           { destruct SV as (r & Hr & HV'). exists r. split; [exact Hr|]. exact HV'. }
           apply (Hsettle (set_matched_price a (mi_price mi)) eq_refl Es SV'); [cbn; unfold settled_st; cbn; rewrite Es; reflexivity|discriminate].
    + (* release *)
      destruct (inv_vqs _ I) as (_ & Hnd & _).
      destruct (VestingFacts.release_own_spec s a t s' Hnd H) as (_ & _ & Hown & _).
      rewrite Hown. rewrite last_due_eq in R.
      destruct (last_due_rec t (vqs_of s (a_id a))) eqn:LD; [subst a'; cbn in Stx; discriminate|].
      apply release_last_unreleased; [apply (VP a Ha St)|exact LD].
    + subst a'. congruence.
    + subst a'. congruence.
  - (* another auction: untouched *)
    destruct (pe_frame _ _ _ PE (a_id x) Hne) as [Ea _ _ Ev _ _ _].
    pose proof (Inv_find_in s' x I' Hx) as Fx. rewrite Ea in Fx.
    rewrite Ev. apply VP; [apply (find_auction_some _ _ _ Fx)|exact Stx].
Qed.

Lemma process_all_vesting_pending t orc : forall l s s',
  Inv s -> vesting_pending s -> NoDup (map a_id l) -> (forall a, In a l -> In a (st_auctions s)) ->
  process_all t orc s l = Ok s' -> vesting_pending s'.
Proof.
  induction l as [|a rest IH]; cbn [process_all]; intros s s' I VP ND Hl H.
  - injection H as <-. exact VP.
  - destruct (process t orc s a) as [s1|] eqn:E; cbn [bind] in H; [|discriminate].
    cbn [map] in ND. inversion ND as [|? ? Hn ND']; subst.
    assert (Ha : In a (st_auctions s)) by (apply Hl; left; reflexivity).
    apply (IH s1 s'); [eapply Inv_process; eassumption|eapply process_vesting_pending; eassumption|exact ND'| |exact H].
    intros x Hx. apply (process_keeps t orc s a s1 x (Inv_InvS s I) Ha E); [apply Hl; right; exact Hx|].
    intros C. apply Hn. rewrite <- C. apply in_map. exact Hx.
Qed.

(* ------------------------------------------------------------------ transactions, API calls, sends *)
Lemma tx_vesting_pending s o :
  Inv s -> vesting_pending s -> is_block o = false -> o <> OGenesis -> vesting_pending (snd (step s o)).
Proof.
  intros I VP B Hg x Hx Stx.
  pose proof (step_shape s o B Hg) as Sh.
  pose proof (VestingInv.tx_shape_vqs _ _ _ _ Sh) as Hv.
  pose proof (Inv_step s o I) as I'.
  pose proof (Inv_find_in _ x I' Hx) as Fx.
  unfold vqs_of. rewrite Hv. fold (vqs_of s (a_id x)).
  destruct (find_auction s (a_id x)) as [x0|] eqn:F0.
  - destruct (tx_auction _ _ _ _ (a_id x) x0 Sh F0) as (x' & Fx' & R).
    rewrite Fx in Fx'. injection Fx' as <-.
    pose proof (find_auction_some _ _ _ F0) as [Hin0 Hid0].
    destruct R as [->|[(St0 & _ & _ & ->)|(_ & _ & _ & y & ->)]].
    + apply (VP x0 Hin0 Stx).
    + exfalso. unfold cancel_of in Stx. destruct (a_type x0); cbn in Stx; discriminate.
    + cbn [a_id set_remaining] in *. apply (VP x0 Hin0). exact Stx.
  - (* an auction that did not exist before: created by this operation, hence waiting or open *)
    exfalso. destruct (tx_auction_list _ _ _ _ Sh) as [(a0 & C)|[Hm _]].
    + destruct C as (_ & _ & Hauc & Hid & _ & Hst & _).
      rewrite Hauc in Hx. apply in_app_or in Hx. destruct Hx as [Hx|[<-|[]]].
      * pose proof (ids_ok_find s x (Inv_ids_ok s I) Hx) as Fz. congruence.
      * rewrite Hst in Stx. destruct (a_start a0 <=? st_now s); discriminate.
    + apply find_auction_some in Fx. destruct Fx as [Fin _].
      apply (in_map a_id) in Fin. rewrite Hm in Fin. apply in_map_iff in Fin.
      destruct Fin as (z & Ez & Hz).
      pose proof (ids_ok_find s z (Inv_ids_ok s I) Hz) as Fz. rewrite Ez in Fz. congruence.
Qed.

(* ------------------------------------------------------------------ every operation, every history *)
Theorem vesting_pending_step s o : Inv s -> vesting_pending s -> vesting_pending (snd (step s o)).
Proof.
  intros I VP. destruct (is_block o) eqn:B.
  - destruct (step_block s o B) as [[_ H]|[_ (tr & ->)]].
    + unfold begin_block in H. cbv zeta in H.
      apply (process_all_vesting_pending _ _ _ _ _ (Inv_with_now s _ I)) in H; [exact H| | |auto].
      * apply (vesting_pending_ext s); [reflexivity|reflexivity|exact VP].
      * apply (Inv_ids_ok s I).
    + apply (vesting_pending_ext s); [reflexivity|reflexivity|exact VP].
  - destruct o as [m|id l|id u max|t orc|t orc k|from to d amt|ls|];
      try (apply tx_vesting_pending; [exact I|exact VP|exact B|discriminate]).
    destruct (GenesisImport.genesis_step s I) as (s' & Hs & SS). rewrite Hs. cbn [snd].
    intros x Hx Stx. rewrite (GenesisImport.ss_vqs_of _ _ SS).
    rewrite (GenesisImport.ss_auctions _ _ SS) in Hx. apply (VP x Hx Stx).
Qed.

Theorem vesting_pending_run : forall ops s, Inv s -> vesting_pending s -> vesting_pending (run s ops).
Proof.
  unfold run. induction ops as [|o ops IH]; cbn [fold_left]; intros s I VP; [exact VP|].
  apply IH; [apply Inv_step, I|apply vesting_pending_step; assumption].
Qed.

Theorem vesting_pending_reachable bal now sw p ops :
  (forall x d, 0 <= bal x d) -> coins_ok (p_cfee p) None = true -> coins_ok (p_bfee p) None = true ->
  vesting_pending (run (init_state bal now sw p) ops).
Proof.
  intros Hb H1 H2. apply vesting_pending_run; [apply Inv_init; assumption|]. intros a [].
Qed.

(* the two directions together, for every reachable state: finished <=> (settled and) the last instalment released *)
Corollary vesting_status_iff s a :
  Inv s -> vesting_pending s -> In a (st_auctions s) -> a_scheds a <> [] ->
  a_status a = VestingS \/ a_status a = Finished ->
  (a_status a = Finished <-> forall v, In v (vqs_of s (a_id a)) -> v_released v = true).
Proof.
  intros I VP Ha Hsc Hst. split.
  - intros Hf v Hv. apply in_vqs_of in Hv. destruct Hv as [Hv Hid].
    destruct (inv_vqs _ I) as (W & _). rewrite Forall_forall in W.
    destruct (vwf_auction _ _ (W v Hv)) as (a0 & Fa0 & _ & _ & _ & _ & Hfin).
    rewrite Hid, (Inv_find_in s a I Ha) in Fa0. injection Fa0 as <-. apply Hfin, Hf.
  - intros Hall. destruct Hst as [Hv|Hf]; [|exact Hf]. exfalso.
    destruct (VP a Ha Hv) as (l & v & E & Hr).
    assert (Hin : In v (vqs_of s (a_id a))) by (rewrite E; apply in_or_app; right; now left).
    rewrite (Hall v Hin) in Hr. discriminate.
Qed.

(* ------------------------------------------------------------------ the executable form (Checkers.pending_ok) *)
From FR Require Import Checkers.
Lemma pending_ok_of s : vesting_pending s -> pending_ok s = true.
Proof.
  intros VP. unfold pending_ok. apply forallb_forall. intros a Ha.
  destruct (status_eqb (a_status a) VestingS) eqn:E; [|reflexivity].
  assert (St : a_status a = VestingS) by (destruct (a_status a); try discriminate E; reflexivity).
  destruct (VP a Ha St) as (l & v & -> & Hr). rewrite rev_app_distr. cbn [rev app]. rewrite Hr. reflexivity.
Qed.

Theorem pending_ok_model s o : Inv s -> vesting_pending s -> pending_ok (t_post (model_trans s o)) = true.
Proof.
  intros I VP. unfold model_trans.
  set (s0 := with_trace (with_bank s (st_bal s) []) []).
  assert (I0 : Inv s0) by (apply (Inv_ext s); try reflexivity; exact I).
  assert (VP0 : vesting_pending s0) by (apply (vesting_pending_ext s); [reflexivity|reflexivity|exact VP]).
  pose proof (vesting_pending_step s0 o I0 VP0) as K.
  destruct (step s0 o) as [out s'] eqn:Es. cbn [t_post]. cbn [snd] in K. apply pending_ok_of, K.
Qed.
