(* C02, part 5 (ledger invariant over the ghost log of transfers).  Starting from a state with an empty log
   (init_state), in every reachable state and for every auction id:
     - what the log moved from the paying escrow into the vesting escrow is the sum of the auction's
       vesting instalments;
     - what the log moved out of the vesting escrow is the sum of the released instalments, and all of it
       went to the auctioneer, in the paying denomination.
   Hence for a Finished auction the auctioneer has received exactly what the settlement moved into the
   vesting escrow.  No axioms. *)
From Coq Require Import ZArith NArith List Bool Arith Lia.
From FR Require Import Dec Types Bank Match Step Genesis Model Spec Checkers.
From FR.Proofs Require Import InvDefs EscrowBase VestingFacts HookBase Ledger LedgerCharges LedgerSettle LedgerTerminal.
From FR.Proofs Require FrameFacts TxFacts BlockFacts LifeTheorems DecFacts EscrowBlock InvStaticBlock InvAll VestingInv
     GenesisImport PrecondBase.
Import ListNotations.
Open Scope Z_scope.

(* ------------------------------------------------------------------ the invariant *)
(* paying escrow -> vesting escrow of auction id; anything out of the vesting escrow of auction id *)
Definition pv (id : N) (x : xfer) : bool :=
  addr_eqb (x_from x) (Escrow Paying id) && addr_eqb (x_to x) (Escrow Vesting id).
Definition vout (id : N) (x : xfer) : bool := addr_eqb (x_from x) (Escrow Vesting id).
Definition amt_all (vs : list vq) : Z := sumZ (map v_amt vs).
Definition amt_rel (vs : list vq) : Z := sumZ (map v_amt (filter v_released vs)).

Record LI (s : state) : Prop := {
  li_in : forall id, sum_xfers (st_xfers s) (pv id) = amt_all (vqs_of s id);
  li_out : forall id, sum_xfers (st_xfers s) (vout id) = amt_rel (vqs_of s id);
  li_in_denom : forall x id, In x (st_xfers s) -> pv id x = true ->
      exists a, find_auction s id = Some a /\ x_denom x = a_pay_denom a;
  li_out_dest : forall x id, In x (st_xfers s) -> vout id x = true ->
      exists a, find_auction s id = Some a /\ x_to x = User (a_auctioneer a) /\ x_denom x = a_pay_denom a }.

(* the auctions of s are still there in s', with the same auctioneer and paying denomination *)
Definition auct_pres (s s' : state) : Prop :=
  forall id a, find_auction s id = Some a ->
    exists a', find_auction s' id = Some a' /\ a_auctioneer a' = a_auctioneer a /\ a_pay_denom a' = a_pay_denom a.

Lemma auct_pres_same s s' : st_auctions s' = st_auctions s -> auct_pres s s'.
Proof. intros E id a F. exists a. unfold find_auction in *. rewrite E. auto. Qed.

(* transfers that are neither paying->vesting nor out of a vesting escrow *)
Definition plain (x : xfer) : Prop := forall id, pv id x = false /\ vout id x = false.

Lemma plain_user u t d a : plain (mkx (User u) t d a).
Proof. intros id. split; reflexivity. Qed.
Lemma plain_selling id0 t d a : plain (mkx (Escrow Selling id0) t d a).
Proof. intros id. split; reflexivity. Qed.
Lemma plain_to_user r id0 u d a : r <> Vesting -> plain (mkx (Escrow r id0) (User u) d a).
Proof.
  intros Hr id. unfold pv, vout. cbn [mkx x_from x_to addr_eqb]. rewrite andb_false_r. split; [reflexivity|].
  destruct r; [reflexivity|reflexivity|congruence].
Qed.

Lemma sum_plain xs p : (forall x, In x xs -> p x = false) -> sum_xfers xs p = 0.
Proof. apply sum_xfers_none. Qed.

(* appending plain transfers, keeping the vesting queues *)
Lemma LI_plain s s' xs :
  st_xfers s' = st_xfers s ++ xs -> Forall plain xs -> (forall id, vqs_of s' id = vqs_of s id) -> auct_pres s s' ->
  LI s -> LI s'.
Proof.
  intros X Hp V A [I1 I2 I3 I4]. rewrite Forall_forall in Hp. split.
  - intros id. rewrite X, sum_xfers_app, V, I1, sum_plain; [lia|]. intros x Hx. apply (Hp x Hx id).
  - intros id. rewrite X, sum_xfers_app, V, I2, sum_plain; [lia|]. intros x Hx. apply (Hp x Hx id).
  - intros x id Hx Hpv. rewrite X in Hx. apply in_app_or in Hx. destruct Hx as [Hx|Hx].
    + destruct (I3 x id Hx Hpv) as (a & F & E). destruct (A id a F) as (a' & F' & _ & E'). exists a'. split; [exact F'|congruence].
    + destruct (Hp x Hx id) as [C _]. congruence.
  - intros x id Hx Hv. rewrite X in Hx. apply in_app_or in Hx. destruct Hx as [Hx|Hx].
    + destruct (I4 x id Hx Hv) as (a & F & E1 & E2). destruct (A id a F) as (a' & F' & E1' & E2').
      exists a'. split; [exact F'|]. split; congruence.
    + destruct (Hp x Hx id) as [_ C]. congruence.
Qed.

Lemma LI_same s s' : st_xfers s' = st_xfers s -> (forall id, vqs_of s' id = vqs_of s id) -> auct_pres s s' -> LI s -> LI s'.
Proof. intros X. apply (LI_plain s s' []); [rewrite app_nil_r; exact X|constructor]. Qed.

(* ------------------------------------------------------------------ settlement *)
Lemma Forall_payouts (Q : xfer -> Prop) from d us f :
  (forall u, Q (mkx from (User u) d (f u))) -> Forall Q (payouts from d us f).
Proof.
  intros H. unfold payouts. apply Forall_forall. intros x Hx. apply in_map_iff in Hx. destruct Hx as (u & <- & _). apply H.
Qed.

Lemma sum_xfers_send_p f t d a p : sum_xfers (send_xf f t d a) p = if p (mkx f t d a) then a else 0.
Proof.
  unfold send_xf. destruct (a =? 0) eqn:E0.
  - apply Z.eqb_eq in E0. subst a. rewrite sum_xfers_nil. destruct (p _); reflexivity.
  - rewrite sum_xfers_cons, sum_xfers_nil. cbn [mkx x_amt]. destruct (p _); lia.
Qed.

Lemma split_filter_auction a R vs id :
  filter (fun x => N.eqb (v_auction x) id) (split a R R vs) = if N.eqb id (a_id a) then split a R R vs else [].
Proof.
  destruct (N.eqb id (a_id a)) eqn:E.
  - apply N.eqb_eq in E. subst id. apply EscrowBlock.forallb_filter_id. apply forallb_forall. intros v Hv.
    apply N.eqb_eq. eapply BlockFacts.split_auction. exact Hv.
  - apply N.eqb_neq in E. induction (split a R R vs) as [|v l IH] eqn:El; [reflexivity|].
    assert (Hall : forall w, In w (v :: l) -> v_auction w = a_id a) by (intros w Hw; rewrite <- El in Hw; eapply BlockFacts.split_auction; exact Hw).
    clear IH El. induction (v :: l) as [|w r IH]; [reflexivity|]. cbn [filter].
    assert (Ew : N.eqb (v_auction w) id = false) by (apply N.eqb_neq; rewrite (Hall w (or_introl eq_refl)); congruence).
    rewrite Ew. apply IH. intros y Hy. apply Hall. now right.
Qed.

Lemma split_unreleased a R vs : filter v_released (split a R R vs) = [].
Proof.
  pose proof (DecFacts.split_fields_gen a R vs R) as Hf. induction (split a R R vs) as [|v l IH]; [reflexivity|].
  inversion Hf as [|? ? Hv Hl]; subst. cbn [filter]. destruct Hv as (Hr & _). rewrite Hr. apply IH, Hl.
Qed.

Lemma amt_all_app l1 l2 : amt_all (l1 ++ l2) = amt_all l1 + amt_all l2.
Proof. unfold amt_all. rewrite map_app, sumZ_app. reflexivity. Qed.
Lemma amt_rel_app l1 l2 : amt_rel (l1 ++ l2) = amt_rel l1 + amt_rel l2.
Proof. unfold amt_rel. rewrite filter_app, map_app, sumZ_app. reflexivity. Qed.

Lemma LI_settle s s0 a0 mi wr s' :
  EscrowBlock.settle_gen s0 a0 mi wr = Ok s' ->
  st_xfers s0 = st_xfers s -> st_vqs s0 = st_vqs s ->
  (exists a', find_auction s' (a_id a0) = Some a' /\ a_pay_denom a' = a_pay_denom a0) ->
  auct_pres s s' -> LI s -> LI s'.
Proof.
  intros H X0 V0 (a1 & F1 & Ed1) A [I1 I2 I3 I4].
  pose proof (settle_gen_vqs _ _ _ _ _ H) as V. rewrite V0 in V.
  destruct (settle_gen_xfers _ _ _ _ _ H) as (L & _). pose proof (lb_xfers _ _ _ L) as X. rewrite X0 in X.
  set (R := proceeds_of s0 a0 mi wr) in *.
  set (new := match a_scheds a0 with [] => [] | _ :: _ => split a0 R R (a_scheds a0) end) in *.
  assert (Hnew_f : forall id, vqs_of s' id = vqs_of s id ++ (if N.eqb id (a_id a0) then new else [])).
  { intros id. unfold vqs_of. rewrite V, filter_app. f_equal. unfold new. destruct (a_scheds a0) as [|v vs] eqn:Es.
    - destruct (N.eqb id (a_id a0)); reflexivity.
    - rewrite <- Es. apply split_filter_auction. }
  assert (Hnew_all : amt_all new = if match a_scheds a0 with [] => false | _ => true end then R else 0).
  { unfold new, amt_all. destruct (a_scheds a0) as [|v vs] eqn:Es; [reflexivity|]. rewrite <- Es.
    apply DecFacts.split_sum_gen. rewrite Es. discriminate. }
  assert (Hnew_rel : amt_rel new = 0).
  { unfold new, amt_rel. destruct (a_scheds a0) as [|v vs] eqn:Es; [reflexivity|]. rewrite <- Es, split_unreleased. reflexivity. }
  (* the sums over the new transfers *)
  assert (Hp13 : forall id p, (p = pv id \/ p = vout id) ->
            sum_xfers (payouts (Escrow Selling (a_id a0)) (a_sell_denom a0) (mi_bidders mi) (mi_alloc mi)) p = 0
            /\ sum_xfers (send_xf (Escrow Selling (a_id a0)) (User (a_auctioneer a0)) (a_sell_denom a0) (unsold_of s0 a0 mi)) p = 0
            /\ sum_xfers (if wr then payouts (Escrow Paying (a_id a0)) (a_pay_denom a0) (mi_bidders mi) (mi_refund mi) else []) p = 0).
  { intros id p Hp. split; [|split].
    - apply sum_plain. intros x Hx. unfold payouts in Hx. apply in_map_iff in Hx. destruct Hx as (u & <- & _).
      destruct Hp as [-> | ->]; reflexivity.
    - rewrite sum_xfers_send_p. destruct Hp as [-> | ->]; reflexivity.
    - destruct wr; [|apply sum_xfers_nil]. apply sum_plain. intros x Hx. unfold payouts in Hx. apply in_map_iff in Hx.
      destruct Hx as (u & <- & _). destruct Hp as [-> | ->]; [|reflexivity].
      unfold pv. cbn [x_from x_to addr_eqb]. apply andb_false_r. }
  assert (Hpv4 : forall id, pv id (mkx (Escrow Paying (a_id a0)) (vest_dest a0) (a_pay_denom a0) R)
                          = (match a_scheds a0 with [] => false | _ => true end) && N.eqb id (a_id a0)).
  { intros id. unfold pv, vest_dest. cbn [mkx x_from x_to]. destruct (a_scheds a0); cbn [addr_eqb role_eqb andb].
    - apply andb_false_r.
    - rewrite (N.eqb_sym (a_id a0) id). destruct (N.eqb id (a_id a0)); reflexivity. }
  unfold settle_xfers in X. fold R in X.
  split.
  - intros id. rewrite X, !sum_xfers_app, I1, Hnew_f, amt_all_app.
    destruct (Hp13 id (pv id) (or_introl eq_refl)) as (-> & -> & ->).
    rewrite sum_xfers_send_p, Hpv4.
    destruct (N.eqb id (a_id a0)); [rewrite Hnew_all|]; destruct (a_scheds a0); cbn [andb amt_all map sumZ fold_right]; lia.
  - intros id. rewrite X, !sum_xfers_app, I2, Hnew_f, amt_rel_app.
    destruct (Hp13 id (vout id) (or_intror eq_refl)) as (-> & -> & ->).
    rewrite sum_xfers_send_p. unfold vout at 1. cbn [mkx x_from addr_eqb role_eqb andb].
    destruct (N.eqb id (a_id a0)); [rewrite Hnew_rel|unfold amt_rel; cbn]; lia.
  - intros x id Hx Hpvx. rewrite X in Hx. apply in_app_or in Hx. destruct Hx as [Hx|Hx].
    + destruct (I3 x id Hx Hpvx) as (a & F & E). destruct (A id a F) as (a' & F' & _ & E'). exists a'. split; [exact F'|congruence].
    + (* a new transfer paying->vesting can only be the last one *)
      assert (Hlast : x = mkx (Escrow Paying (a_id a0)) (vest_dest a0) (a_pay_denom a0) R).
      { apply in_app_or in Hx. destruct Hx as [Hx|Hx].
        { exfalso. unfold payouts in Hx. apply in_map_iff in Hx. destruct Hx as (u & <- & _). discriminate Hpvx. }
        apply in_app_or in Hx. destruct Hx as [Hx|Hx].
        { exfalso. unfold send_xf in Hx. destruct (_ =? 0); [destruct Hx|]. destruct Hx as [<-|[]]. discriminate Hpvx. }
        apply in_app_or in Hx. destruct Hx as [Hx|Hx].
        { exfalso. destruct wr; [|destruct Hx]. unfold payouts in Hx. apply in_map_iff in Hx. destruct Hx as (u & <- & _).
          unfold pv in Hpvx. cbn [x_from x_to addr_eqb] in Hpvx. rewrite andb_false_r in Hpvx. discriminate Hpvx. }
        unfold send_xf in Hx. destruct (_ =? 0); [destruct Hx|]. destruct Hx as [<-|[]]. reflexivity. }
      subst x. rewrite Hpv4 in Hpvx. apply andb_true_iff in Hpvx. destruct Hpvx as [_ Eid]. apply N.eqb_eq in Eid. subst id.
      exists a1. split; [exact F1|]. cbn [mkx x_denom]. congruence.
  - intros x id Hx Hv. rewrite X in Hx. apply in_app_or in Hx. destruct Hx as [Hx|Hx].
    + destruct (I4 x id Hx Hv) as (a & F & E1 & E2). destruct (A id a F) as (a' & F' & E1' & E2').
      exists a'. split; [exact F'|]. split; congruence.
    + exfalso. (* no new transfer leaves a vesting escrow *)
      assert (Hsrc : exists j, x_from x = Escrow Selling j \/ x_from x = Escrow Paying j).
      { apply in_app_or in Hx. destruct Hx as [Hx|Hx].
        { unfold payouts in Hx. apply in_map_iff in Hx. destruct Hx as (u & <- & _). eexists. left. reflexivity. }
        apply in_app_or in Hx. destruct Hx as [Hx|Hx].
        { unfold send_xf in Hx. destruct (_ =? 0); [destruct Hx|]. destruct Hx as [<-|[]]. eexists. left. reflexivity. }
        apply in_app_or in Hx. destruct Hx as [Hx|Hx].
        { destruct wr; [|destruct Hx]. unfold payouts in Hx. apply in_map_iff in Hx. destruct Hx as (u & <- & _). eexists. right. reflexivity. }
        unfold send_xf in Hx. destruct (_ =? 0); [destruct Hx|]. destruct Hx as [<-|[]]. eexists. right. reflexivity. }
      destruct Hsrc as (j & [E|E]); unfold vout in Hv; rewrite E in Hv; discriminate Hv.
Qed.

(* ------------------------------------------------------------------ release *)
Lemma amt_release id t : forall vs, (forall v, In v vs -> v_auction v = id) ->
  amt_all (map (release_vq id t) vs) = amt_all vs
  /\ amt_rel (map (release_vq id t) vs) = amt_rel vs + amt_all (due_of t vs).
Proof.
  unfold amt_all, amt_rel, due_of. induction vs as [|v r IH]; intros Hid; [split; reflexivity|].
  destruct (IH (fun x Hx => Hid x (or_intror Hx))) as [IH1 IH2].
  pose proof (Hid v (or_introl eq_refl)) as Ev. cbn [map filter]. rewrite !sumZ_cons, IH1.
  destruct (release_vq_fields id t v) as (_ & _ & _ & Ea). rewrite Ea. split; [reflexivity|].
  rewrite release_vq_flag, Ev, N.eqb_refl. cbn [andb].
  assert (Ed : BlockFacts.vq_due t v = (v_time v <=? t) && negb (v_released v)) by reflexivity. rewrite Ed.
  destruct (v_released v) eqn:R; cbn [orb negb]; rewrite ?andb_false_r, ?andb_true_r.
  - cbn [map]. rewrite !sumZ_cons, IH2, Ea. lia.
  - destruct (v_time v <=? t); cbn [map]; rewrite ?sumZ_cons, IH2, ?Ea; lia.
Qed.

Lemma sum_rel_xfers_vout a t vs id :
  sum_xfers (rel_xfers a t vs) (vout id) = if N.eqb id (a_id a) then amt_all (due_of t vs) else 0.
Proof.
  unfold rel_xfers, paid_of, amt_all. rewrite <- (sumZ_drop_zero v_amt (due_of t vs)).
  induction (filter (fun v => negb (v_amt v =? 0)) (due_of t vs)) as [|v l IH]; cbn [map].
  - rewrite sum_xfers_nil. destruct (N.eqb id (a_id a)); reflexivity.
  - rewrite sum_xfers_cons, IH. unfold vout at 1. cbn [xfer_of x_from x_amt addr_eqb role_eqb andb].
    rewrite (N.eqb_sym (a_id a) id). destruct (N.eqb id (a_id a)); rewrite ?sumZ_cons; lia.
Qed.

Lemma LI_release s a t s' :
  NoDup (map vkey (st_vqs s)) -> release_loop s a t (vqs_of s (a_id a)) = Ok s' ->
  (forall v, In v (vqs_of s (a_id a)) -> v_denom v = a_pay_denom a) ->
  (exists a', find_auction s' (a_id a) = Some a' /\ a_auctioneer a' = a_auctioneer a /\ a_pay_denom a' = a_pay_denom a) ->
  auct_pres s s' -> LI s -> LI s'.
Proof.
  intros ND H Hden (a1 & F1 & Eau & Epd) A [I1 I2 I3 I4].
  destruct (release_own_spec s a t s' ND H) as (R & _ & Vown & Vother).
  pose proof (rs_xfers _ _ _ _ _ R) as X.
  assert (Hid : forall v, In v (vqs_of s (a_id a)) -> v_auction v = a_id a) by (intros v Hv; eapply BlockFacts.vqs_of_auction; exact Hv).
  destruct (amt_release (a_id a) t (vqs_of s (a_id a)) Hid) as [Aall Arel].
  assert (Hnopv : forall x id, In x (rel_xfers a t (vqs_of s (a_id a))) -> pv id x = false).
  { intros x id Hx. unfold rel_xfers in Hx. apply in_map_iff in Hx. destruct Hx as (v & <- & _). reflexivity. }
  split.
  - intros id. rewrite X, sum_xfers_app, I1, (sum_plain _ (pv id)) by (intros x Hx; apply Hnopv; exact Hx).
    destruct (N.eq_dec id (a_id a)) as [->|Hne]; [rewrite Vown, Aall|rewrite (Vother id Hne)]; lia.
  - intros id. rewrite X, sum_xfers_app, I2, sum_rel_xfers_vout.
    destruct (N.eqb id (a_id a)) eqn:E.
    + apply N.eqb_eq in E. subst id. rewrite Vown, Arel. lia.
    + apply N.eqb_neq in E. rewrite (Vother id E). lia.
  - intros x id Hx Hpvx. rewrite X in Hx. apply in_app_or in Hx. destruct Hx as [Hx|Hx].
    + destruct (I3 x id Hx Hpvx) as (a0 & F & E). destruct (A id a0 F) as (a' & F' & _ & E'). exists a'. split; [exact F'|congruence].
    + rewrite (Hnopv x id Hx) in Hpvx. discriminate Hpvx.
  - intros x id Hx Hv. rewrite X in Hx. apply in_app_or in Hx. destruct Hx as [Hx|Hx].
    + destruct (I4 x id Hx Hv) as (a0 & F & E1 & E2). destruct (A id a0 F) as (a' & F' & E1' & E2').
      exists a'. split; [exact F'|]. split; congruence.
    + unfold rel_xfers in Hx. apply in_map_iff in Hx. destruct Hx as (v & <- & Hvp).
      unfold vout in Hv. cbn [xfer_of x_from addr_eqb role_eqb andb] in Hv. apply N.eqb_eq in Hv. subst id.
      exists a1. split; [exact F1|]. cbn [xfer_of x_to x_denom]. split; [congruence|].
      rewrite Epd. apply Hden. unfold paid_of, due_of in Hvp. apply filter_In in Hvp. destruct Hvp as [Hvp _].
      apply filter_In in Hvp. apply Hvp.
Qed.

(* ------------------------------------------------------------------ one auction of a block *)
Lemma process_auct_pres t orc s a s' :
  find_auction s (a_id a) = Some a -> process t orc s a = Ok s' ->
  auct_pres s s' /\ exists a', find_auction s' (a_id a) = Some a' /\ a_auctioneer a' = a_auctioneer a /\ a_pay_denom a' = a_pay_denom a.
Proof.
  intros Fa H. destruct (BlockFacts.process_spec _ _ _ _ _ H) as [[P1 _ _ _ _] PS].
  destruct (PS Fa) as (a' & Fa' & Rel). apply LifeTheorems.block_rel_terms in Rel.
  destruct Rel as (_ & _ & Eau & _ & _ & _ & _ & Epd & _).
  split; [|exists a'; auto].
  intros id a0 F. destruct (N.eq_dec id (a_id a)) as [->|Hne].
  - rewrite Fa in F. injection F as <-. exists a'. auto.
  - exists a0. rewrite (FrameFacts.se_auction _ _ _ (P1 id Hne)). auto.
Qed.

Lemma vqs_of_ext s s' : st_vqs s' = st_vqs s -> forall id, vqs_of s' id = vqs_of s id.
Proof. intros E id. unfold vqs_of. rewrite E. reflexivity. Qed.

Theorem process_LI t orc s a s' :
  Inv s -> In a (st_auctions s) -> process t orc s a = Ok s' -> LI s -> LI s'.
Proof.
  intros I Ha H L. pose proof (InvAll.Inv_find_in s a I Ha) as Fa.
  destruct (process_auct_pres t orc s a s' Fa H) as (A & a1 & F1 & Eau & Epd).
  unfold process in H. destruct (a_status a) eqn:St.
  - destruct (a_start a <=? t); injection H as <-; (apply (LI_same s); [reflexivity|intros id; reflexivity|exact A|exact L]).
  - destruct (last_end a <=? t); [|injection H as <-; exact L].
    destruct (a_type a).
    + rewrite EscrowBlock.close_fixed_gen in H.
      eapply (LI_settle s s a); [exact H|reflexivity|reflexivity|exists a1; auto|exact A|exact L].
    + apply BlockFacts.close_batch_inv in H. destruct H as (order & mi & _ & _ & Hd).
      destruct (BlockFacts.decision s a mi).
      * subst s'. apply (LI_same s); [reflexivity|intros id; reflexivity|exact A|exact L].
      * rewrite EscrowBlock.settle_batch_gen in Hd.
        eapply (LI_settle s _ (set_matched_price a (mi_price mi))); [exact Hd|reflexivity|reflexivity|exists a1; auto|exact A|exact L].
  - destruct (inv_vqs _ I) as (W & ND & _). rewrite Forall_forall in W.
    eapply (LI_release s a t); [exact ND|exact H| |exists a1; auto|exact A|exact L].
    intros v Hv. apply EscrowBlock.in_vqs_of in Hv. destruct Hv as [Hv Eid].
    destruct (vwf_auction _ _ (W v Hv)) as (a0 & Fa0 & _ & _ & Hd & _). rewrite Eid, Fa in Fa0. injection Fa0 as <-. exact Hd.
  - injection H as <-. exact L.
  - injection H as <-. exact L.
Qed.

Theorem process_all_LI t orc : forall l s s',
  Inv s -> NoDup (map a_id l) -> (forall a, In a l -> In a (st_auctions s)) ->
  process_all t orc s l = Ok s' -> LI s -> LI s'.
Proof.
  induction l as [|a rest IH]; cbn [process_all map]; intros s s' I ND Hl H L.
  - injection H as <-. exact L.
  - destruct (process t orc s a) as [s1|] eqn:E; cbn [bind] in H; [|discriminate].
    inversion ND as [|? ? Hn ND']; subst.
    assert (Ha : In a (st_auctions s)) by (apply Hl; now left).
    apply (IH s1 s'); [eapply InvAll.Inv_process; eassumption|exact ND'| |exact H|eapply process_LI; eassumption].
    intros x Hx. apply (InvStaticBlock.process_keeps t orc s a s1 x (InvAll.Inv_InvS s I) Ha E); [apply Hl; now right|].
    intros C. apply Hn. rewrite <- C. apply in_map. exact Hx.
Qed.

Lemma LI_ext s s' :
  st_xfers s' = st_xfers s -> st_vqs s' = st_vqs s -> st_auctions s' = st_auctions s -> LI s -> LI s'.
Proof. intros X V A. apply LI_same; [exact X|apply vqs_of_ext, V|apply auct_pres_same, A]. Qed.

Theorem begin_block_LI s t orc s' : Inv s -> begin_block s t orc = Ok s' -> LI s -> LI s'.
Proof.
  unfold begin_block. cbv zeta. intros I H L.
  eapply (process_all_LI t orc _ (with_now s t)); [apply InvAll.Inv_with_now, I| | |exact H|].
  - destruct (InvAll.Inv_ids_ok s I) as [ND _]. exact ND.
  - auto.
  - apply (LI_ext s); [reflexivity|reflexivity|reflexivity|exact L].
Qed.

(* ------------------------------------------------------------------ transactions and the other operations *)
Lemma tx_xfers_plain s o : Forall plain (tx_xfers s o).
Proof.
  destruct o as [m|a l|a v max|t orc|t orc k|from to d' amt|ls|]; cbn [tx_xfers]; try constructor.
  - destruct (check_basic m) as [c|]; [|constructor]. destruct c; try constructor.
    + apply Forall_app. split; [apply Forall_coin_xfers; intros; apply plain_user|apply Forall_send_xf, plain_user].
    + apply Forall_app. split; [apply Forall_coin_xfers; intros; apply plain_user|apply Forall_send_xf, plain_user].
    + destruct (find_auction s a) as [a0|]; [|constructor]. apply Forall_send_xf, plain_selling.
    + destruct (find_auction s a) as [a0|]; [|constructor].
      apply Forall_app. split; [apply Forall_coin_xfers; intros; apply plain_user|apply Forall_send_xf, plain_user].
    + destruct (find_auction s a) as [a0|]; [|constructor]. destruct (find_bid s a b) as [b0|]; [|constructor].
      apply Forall_send_xf, plain_user.
  - apply plain_user.
  - constructor.
Qed.

Lemma step_nonblock_not_accepted s o :
  FrameFacts.is_block o = false -> fst (step s o) <> Accepted -> st_xfers (snd (step s o)) = st_xfers s.
Proof.
  intros Hb Hna. destruct o as [m|a l|a u max|t orc|t orc k|from to d amt|ls|]; try discriminate Hb; cbn [step] in *.
  - unfold deliver_tx in *. destruct (check_basic m) as [c|]; [|reflexivity]. apply commit_not_accepted, Hna.
  - apply commit_not_accepted, Hna.
  - apply commit_not_accepted, Hna.
  - apply commit_not_accepted, Hna.
  - reflexivity.
  - destruct (genesis_roundtrip s) as [[v s']|] eqn:H; cbn [snd]; [|reflexivity].
    apply genesis_same_bank in H. apply H.
Qed.

Lemma terms_auct_pres s o : FrameFacts.ids_ok s -> o <> OGenesis -> auct_pres s (snd (step s o)).
Proof.
  intros OK Hg id a F. destruct (LifeTheorems.L_C19_terms s o id a OK Hg F) as (a' & F' & T & _).
  destruct T as (_ & _ & Eau & _ & _ & _ & _ & Epd & _). exists a'. auto.
Qed.

Lemma step_LI_tx s o :
  Inv s -> LI s -> FrameFacts.is_block o = false -> o <> OGenesis -> LI (snd (step s o)).
Proof.
  intros I L B Hg.
  pose proof (TxFacts.step_shape s o B Hg) as Sh.
  pose proof (VestingInv.tx_shape_vqs _ _ _ _ Sh) as V.
  pose proof (terms_auct_pres s o (InvAll.Inv_ids_ok s I) Hg) as A.
  destruct (accepted (fst (step s o))) eqn:Ha.
  - apply accepted_iff in Ha. apply (LI_plain s _ (tx_xfers s o)).
    + rewrite <- (step_xfers_accepted s o I Ha). apply (lb_xfers _ _ _ (step_xfers_spec s o)).
    + apply tx_xfers_plain.
    + apply vqs_of_ext, V.
    + exact A.
    + exact L.
  - apply (LI_same s).
    + apply step_nonblock_not_accepted; [exact B|]. intros E. rewrite E in Ha. discriminate Ha.
    + apply vqs_of_ext, V.
    + exact A.
    + exact L.
Qed.

Theorem step_LI s o : Inv s -> LI s -> LI (snd (step s o)).
Proof.
  intros I L. destruct (FrameFacts.is_block o) eqn:B.
  - (* blocks *)
    destruct (BlockFacts.step_block s o B) as [[_ Hb]|[_ (tr & Hs)]].
    + eapply begin_block_LI; eassumption.
    + rewrite Hs. apply (LI_ext s); [reflexivity|reflexivity|reflexivity|exact L].
  - destruct o as [m|a l|a u max|t orc|t orc k|from to d amt|ls|];
      try (apply step_LI_tx; [exact I|exact L|exact B|discriminate]).
    (* GENESIS *)
    destruct (GenesisImport.genesis_step s I) as (s' & Hs & SS). rewrite Hs. cbn [snd].
    apply (LI_same s); [apply (GenesisImport.ss_xfers _ _ SS)|apply (GenesisImport.ss_vqs_of _ _ SS)| |exact L].
    apply auct_pres_same, (GenesisImport.ss_auctions _ _ SS).
Qed.

Theorem run_LI : forall ops s, Inv s -> LI s -> LI (run s ops).
Proof.
  induction ops as [|o r IH]; intros s I L; cbn [run fold_left]; [exact L|].
  apply IH; [apply InvAll.Inv_step, I|apply step_LI; assumption].
Qed.

Lemma LI_init bal now sw p : LI (init_state bal now sw p).
Proof.
  split.
  - intros id. reflexivity.
  - intros id. reflexivity.
  - intros x id [].
  - intros x id [].
Qed.

Theorem LI_reachable bal now sw p ops :
  (forall x d, 0 <= bal x d) -> coins_ok (p_cfee p) None = true -> coins_ok (p_bfee p) None = true ->
  LI (run (init_state bal now sw p) ops).
Proof. intros Hb H1 H2. apply run_LI; [apply InvAll.Inv_init; assumption|apply LI_init]. Qed.

(* ------------------------------------------------------------------ the statement over from_to *)
Theorem vesting_ledger s a :
  Inv s -> LI s -> In a (st_auctions s) ->
  let id := a_id a in
  sum_xfers (st_xfers s) (from_to (Escrow Paying id) (Escrow Vesting id) (a_pay_denom a))
  = sumZ (map v_amt (vqs_of s id))
  /\ sum_xfers (st_xfers s) (from_to (Escrow Vesting id) (User (a_auctioneer a)) (a_pay_denom a))
     = sumZ (map v_amt (filter v_released (vqs_of s id)))
  /\ (a_status a = Finished ->
      sum_xfers (st_xfers s) (from_to (Escrow Vesting id) (User (a_auctioneer a)) (a_pay_denom a))
      = sum_xfers (st_xfers s) (from_to (Escrow Paying id) (Escrow Vesting id) (a_pay_denom a))).
Proof.
  intros I [I1 I2 I3 I4] Ha id. pose proof (InvAll.Inv_find_in s a I Ha) as Fa. fold id in Fa.
  assert (E1 : sum_xfers (st_xfers s) (from_to (Escrow Paying id) (Escrow Vesting id) (a_pay_denom a))
               = sum_xfers (st_xfers s) (pv id)).
  { apply sum_xfers_ext. intros x Hx. unfold from_to. fold (pv id x). destruct (pv id x) eqn:Ep; [|reflexivity].
    destruct (I3 x id Hx Ep) as (a0 & F & Ed). rewrite Fa in F. injection F as <-. rewrite Ed, N.eqb_refl. reflexivity. }
  assert (E2 : sum_xfers (st_xfers s) (from_to (Escrow Vesting id) (User (a_auctioneer a)) (a_pay_denom a))
               = sum_xfers (st_xfers s) (vout id)).
  { apply sum_xfers_ext. intros x Hx. unfold from_to. fold (vout id x). destruct (vout id x) eqn:Ev; [|reflexivity].
    destruct (I4 x id Hx Ev) as (a0 & F & Et & Ed). rewrite Fa in F. injection F as <-.
    rewrite Et, Ed, EscrowBase.addr_eqb_refl, N.eqb_refl. reflexivity. }
  split; [rewrite E1; apply I1|]. split; [rewrite E2; apply I2|].
  intros Hfin. rewrite E1, E2, I1, I2. unfold amt_all, amt_rel.
  destruct (terminal_auctions s a I Ha (or_introl Hfin)) as (_ & Hrel & _).
  rewrite (EscrowBlock.forallb_filter_id v_released); [reflexivity|]. apply forallb_forall. exact Hrel.
Qed.
