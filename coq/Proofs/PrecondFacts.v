(* C18: every message handler accepts exactly under the flat documented precondition of Spec.v. *)
From Coq Require Import ZArith NArith List Bool Arith Lia.
From FR Require Import Dec Types Bank Match Step Genesis Model Spec.
From FR.Proofs Require Import PrecondBase.
Import ListNotations.
Open Scope Z_scope.
Opaque P.

(* ------------------------------------------------------------------ well-formedness *)
(* Exactly the facts about the pre-state the acceptance proofs use. *)
Record WF (s : state) : Prop := {
  (* balances are never negative *)
  wf_bal : forall a d, 0 <= st_bal s a d;
  (* fee coins are not negative (Genesis.coins_ok gives positive, see coins_ok_pos) *)
  wf_cfee : forall c, In c (p_cfee (st_params s)) -> 0 <= snd c;
  wf_bfee : forall c, In c (p_bfee (st_params s)) -> 0 <= snd c;
  (* a bid stored for a batch auction is a worth bid in the paying denom or a many bid in the selling denom *)
  wf_batch_bids : forall b a, In b (st_bids s) -> find_auction s (b_auction b) = Some a -> a_type a = Batch ->
      (b_type b = BWorth /\ b_denom b = a_pay_denom a) \/ (b_type b = BMany /\ b_denom b = a_sell_denom a);
  (* selling and paying denominations differ *)
  wf_denoms : forall a, In a (st_auctions s) -> a_sell_denom a <> a_pay_denom a
}.

(* used only for the monotonicity clause of C11_effects *)
Definition bids_pos (s : state) : Prop := forall b, In b (st_bids s) -> 0 < b_price b /\ 0 < b_amt b.

(* ------------------------------------------------------------------ boolean reflection *)
Lemma status_eqb_eq x y : status_eqb x y = true <-> x = y.
Proof. destruct x, y; cbn [status_eqb]; split; intros H; try reflexivity; discriminate H. Qed.
Lemma status_eqb_neq x y : status_eqb x y = false <-> x <> y.
Proof.
  rewrite <- status_eqb_eq. destruct (status_eqb x y); split; intros H; try reflexivity; try discriminate H.
  - exfalso. apply H. reflexivity.
  - intros H1. discriminate H1.
Qed.
Lemma atype_eqb_eq x y : atype_eqb x y = true <-> x = y.
Proof. destruct x, y; cbn [atype_eqb]; split; intros H; try reflexivity; discriminate H. Qed.
Lemma atype_eqb_neq x y : atype_eqb x y = false <-> x <> y.
Proof.
  rewrite <- atype_eqb_eq. destruct (atype_eqb x y); split; intros H; try reflexivity; try discriminate H.
  - exfalso. apply H. reflexivity.
  - intros H1. discriminate H1.
Qed.

Ltac b2p :=
  repeat match goal with
  | H : _ && _ = true |- _ => apply andb_true_iff in H; destruct H
  | H : _ || _ = false |- _ => apply orb_false_iff in H; destruct H
  | H : _ || _ = true |- _ => apply orb_true_iff in H; destruct H
  | H : _ && _ = false |- _ => apply andb_false_iff in H; destruct H
  | H : negb _ = true |- _ => apply negb_true_iff in H
  | H : negb _ = false |- _ => apply negb_false_iff in H
  | H : (_ <? _) = true |- _ => apply Z.ltb_lt in H
  | H : (_ <? _) = false |- _ => apply Z.ltb_ge in H
  | H : (_ <=? _) = true |- _ => apply Z.leb_le in H
  | H : (_ <=? _) = false |- _ => apply Z.leb_gt in H
  | H : (_ =? _) = true |- _ => apply Z.eqb_eq in H
  | H : (_ =? _) = false |- _ => apply Z.eqb_neq in H
  | H : N.eqb _ _ = true |- _ => apply N.eqb_eq in H
  | H : N.eqb _ _ = false |- _ => apply N.eqb_neq in H
  | H : N.leb _ _ = true |- _ => apply N.leb_le in H
  | H : N.leb _ _ = false |- _ => apply N.leb_gt in H
  | H : N.ltb _ _ = true |- _ => apply N.ltb_lt in H
  | H : N.ltb _ _ = false |- _ => apply N.ltb_ge in H
  | H : Nat.leb _ _ = true |- _ => apply Nat.leb_le in H
  | H : Nat.leb _ _ = false |- _ => apply Nat.leb_gt in H
  | H : Nat.ltb _ _ = true |- _ => apply Nat.ltb_lt in H
  | H : Nat.ltb _ _ = false |- _ => apply Nat.ltb_ge in H
  | H : status_eqb _ _ = true |- _ => apply status_eqb_eq in H
  | H : status_eqb _ _ = false |- _ => apply status_eqb_neq in H
  | H : atype_eqb _ _ = true |- _ => apply atype_eqb_eq in H
  | H : atype_eqb _ _ = false |- _ => apply atype_eqb_neq in H
  | H : true = false |- _ => discriminate H
  | H : false = true |- _ => discriminate H
  end.

Ltac p2b :=
  repeat match goal with
  | |- _ && _ = true => apply andb_true_iff; split
  | |- (_ <? _) = true => apply Z.ltb_lt
  | |- (_ <=? _) = true => apply Z.leb_le
  | |- (_ =? _) = true => apply Z.eqb_eq
  | |- N.eqb _ _ = true => apply N.eqb_eq
  | |- N.leb _ _ = true => apply N.leb_le
  | |- Nat.leb _ _ = true => apply Nat.leb_le
  | |- status_eqb _ _ = true => apply status_eqb_eq
  | |- atype_eqb _ _ = true => apply atype_eqb_eq
  | |- true = true => reflexivity
  | |- _ || _ = true => apply orb_true_iff; rewrite ?Z.ltb_lt, ?Z.leb_le, ?N.eqb_eq
  end.

(* the branch in which the handler fails: the flat precondition must be false *)
Ltac bad :=
  cbn [negb bind];
  split; intros Hbad;
  [ exfalso; exact (not_ok_Err _ _ Hbad)
  | exfalso; cbv beta iota in Hbad; b2p; try lia; try congruence ].

Lemma is_ok_bind_Ok {A B} (r : res A) (f : A -> B) : is_ok (bind r (fun x => Ok (f x))) <-> is_ok r.
Proof.
  destruct r as [x|c t]; cbn [bind]; split; intros H.
  - apply is_ok_Ok.
  - apply is_ok_Ok.
  - exfalso. exact (not_ok_Err _ _ H).
  - exfalso. exact (not_ok_Err _ _ H).
Qed.

Lemma hook_tail s0 s k args (f : state -> state) :
  st_listeners s = st_listeners s0 ->
  (is_ok (bind (call_hook s k args) (fun s1 => Ok (f s1))) <-> no_veto s0 k = true).
Proof.
  intros Hl. rewrite is_ok_bind_Ok, call_hook_ok_iff, (no_veto_ext s0 s k Hl). reflexivity.
Qed.

Lemma can_pay_snoc_b s u cs d amt :
  (forall d, 0 <= st_bal s (User u) d) -> (forall c, In c cs -> 0 <= snd c) -> 0 <= amt ->
  can_pay s u (cs ++ [(d, amt)]) = can_pay s u cs && (sumd d cs + amt <=? st_bal s (User u) d).
Proof.
  intros Hb Hcs Ha. pose proof (can_pay_snoc s u cs d amt Hb Hcs Ha) as H.
  destruct (can_pay s u (cs ++ [(d, amt)])); destruct (can_pay s u cs); cbn [andb];
    destruct (Z.leb_spec (sumd d cs + amt) (st_bal s (User u) d)) as [L|L]; try reflexivity; exfalso.
  - destruct H as [H _]. specialize (H eq_refl). lia.
  - destruct H as [H _]. specialize (H eq_refl). destruct H as [H _]. discriminate H.
  - destruct H as [H _]. specialize (H eq_refl). destruct H as [H _]. discriminate H.
  - destruct H as [_ H]. assert (false = true) as Hf by (apply H; split; [reflexivity|exact L]). discriminate Hf.
Qed.

Lemma sell_amount_mk pd au i u t p d amt m :
  sell_amount pd {| b_auction := au; b_id := i; b_bidder := u; b_type := t; b_price := p;
                    b_denom := d; b_amt := amt; b_matched := m |}
  = if N.eqb d pd then qty_of_worth amt p else amt.
Proof. reflexivity. Qed.
Lemma pay_amount_mk pd au i u t p d amt m :
  pay_amount pd {| b_auction := au; b_id := i; b_bidder := u; b_type := t; b_price := p;
                   b_denom := d; b_amt := amt; b_matched := m |}
  = if N.eqb d pd then amt else pay_of_qty amt p.
Proof. reflexivity. Qed.

(* ================================================================== MsgCancelAuction *)
Definition cancel_bank (s : state) (id : N) (a : auction) : state :=
  let bal := st_bal s (Escrow Selling id) (a_sell_denom a) in
  if bal =? 0 then s
  else with_bank s (move (st_bal s) (Escrow Selling id) (User (a_auctioneer a)) (a_sell_denom a) bal)
         (st_xfers s ++ [{| x_from := Escrow Selling id; x_to := User (a_auctioneer a);
                            x_denom := a_sell_denom a; x_amt := bal |}]).
Definition cancelled (a : auction) : auction :=
  set_status (match a_type a with FixedPrice => set_remaining a 0 | Batch => a end) Cancelled.

Lemma cancel_bank_listeners s id a : st_listeners (cancel_bank s id a) = st_listeners s.
Proof. unfold cancel_bank. cbv zeta. destruct (_ =? 0); reflexivity. Qed.

Lemma cancel_ok_iff s u up id :
  WF s ->
  (is_ok (cancel s u up id) <->
   match find_auction s id with
   | Some a => N.eqb u (a_auctioneer a) && status_eqb (a_status a) StandBy && no_veto s H_BeforeCanceled
   | None => false
   end = true).
Proof.
  intros W. unfold cancel, fail.
  destruct (find_auction s id) as [a|] eqn:Ea; [|bad].
  destruct (N.eqb (a_auctioneer a) u) eqn:Eu; cbn [negb]; [|bad].
  destruct (status_eqb (a_status a) StandBy) eqn:Es; cbn [negb]; [|bad].
  pose proof (send_cases s (Escrow Selling id) (User (a_auctioneer a)) (a_sell_denom a)
                (st_bal s (Escrow Selling id) (a_sell_denom a)) (wf_bal s W _ _) (wf_bal s W _ _)) as Hs.
  destruct (send s (Escrow Selling id) (User (a_auctioneer a)) (a_sell_denom a)
              (st_bal s (Escrow Selling id) (a_sell_denom a))) as [s1|c t]; cbn [bind].
  - destruct Hs as [_ Hs1].
    assert (Hl : st_listeners s1 = st_listeners s).
    { subst s1. exact (cancel_bank_listeners s id a). }
    rewrite (hook_tail s s1 _ _ _ Hl).
    apply N.eqb_eq in Eu. rewrite Eu, N.eqb_refl. cbn [andb]. reflexivity.
  - exfalso. lia.
Qed.

Lemma cancel_effect s u up id a s' :
  WF s -> find_auction s id = Some a -> cancel s u up id = Ok s' ->
  exists cs, s' = put_auction (with_trace (cancel_bank s id a) (st_trace s ++ cs)) (cancelled a).
Proof.
  intros W Ea. unfold cancel, fail. rewrite Ea.
  destruct (N.eqb (a_auctioneer a) u) eqn:Eu; cbn [negb]; [|intros H; discriminate H].
  destruct (status_eqb (a_status a) StandBy) eqn:Es; cbn [negb]; [|intros H; discriminate H].
  intros H. apply bind_ok in H. destruct H as (s1 & H1 & H).
  apply bind_ok in H. destruct H as (s2 & H2 & H).
  pose proof (send_cases s (Escrow Selling id) (User (a_auctioneer a)) (a_sell_denom a)
                (st_bal s (Escrow Selling id) (a_sell_denom a)) (wf_bal s W _ _) (wf_bal s W _ _)) as Hs.
  rewrite H1 in Hs. destruct Hs as [_ Hs1].
  apply call_hook_ok_inv in H2. destruct H2 as (_ & cs & Hs2).
  exists cs. inversion H as [H']. subst s2.
  assert (Ht : st_trace s1 = st_trace s).
  { subst s1. destruct (_ =? 0); reflexivity. }
  rewrite Ht. subst s1. reflexivity.
Qed.

(* ================================================================== MsgModifyBid *)
Lemma pay_amount_same pd b : b_denom b = pd -> pay_amount pd b = b_amt b.
Proof. intros H. unfold pay_amount. rewrite H, N.eqb_refl. reflexivity. Qed.
Lemma pay_amount_other pd b : b_denom b <> pd -> pay_amount pd b = pay_of_qty (b_amt b) (b_price b).
Proof. intros H. unfold pay_amount. apply N.eqb_neq in H. rewrite H. reflexivity. Qed.

Ltac fin :=
  split; intros Hfin;
  [ p2b; try assumption; try lia; try congruence
  | b2p; assumption ].

Lemma modify_ok_iff s u id bid_id price d amt :
  WF s ->
  (is_ok (modify_bid s u id bid_id price d amt) <->
   modify_precond s u id bid_id price d amt && no_veto s H_BeforeBidModified = true).
Proof.
  intros W. unfold modify_bid, modify_precond, fail.
  destruct (find_auction s id) as [a|] eqn:Ea; [|bad].
  destruct (find_bid s id bid_id) as [b|] eqn:Eb.
  2:{ split; intros H; [|discriminate H]. exfalso.
      destruct (status_eqb (a_status a) Started); cbn [negb] in H; [|exact (not_ok_Err _ _ H)].
      destruct (atype_eqb (a_type a) Batch); cbn [negb] in H; exact (not_ok_Err _ _ H). }
  destruct (status_eqb (a_status a) Started) eqn:Est; cbn [negb]; [|bad].
  destruct (atype_eqb (a_type a) Batch) eqn:Ety; cbn [negb]; [|bad].
  destruct (N.eqb (b_bidder b) u) eqn:Eu; cbn [negb]; [|bad].
  destruct (price <? a_min_price a) eqn:Emin; [bad|].
  destruct (N.eqb (b_denom b) d) eqn:Ed; cbn [negb]; [|bad].
  destruct ((price <? b_price b) || (amt <? b_amt b)) eqn:Elow; [bad|].
  destruct ((price =? b_price b) && (amt =? b_amt b)) eqn:Esame; [bad|].
  destruct (find_bid_key _ _ _ _ Eb) as (Hba & _ & Hin).
  destruct (find_auction_id _ _ _ Ea) as (_ & Hina).
  pose proof (wf_denoms s W a Hina) as Hden.
  apply N.eqb_eq in Ed. subst d.
  apply atype_eqb_eq in Ety.
  assert (Hfa : find_auction s (b_auction b) = Some a) by (rewrite Hba; exact Ea).
  destruct (wf_batch_bids s W b a Hin Hfa Ety) as [[Hbt Hbd]|[Hbt Hbd]]; rewrite Hbt; cbv beta iota.
  - (* worth bid: the amount itself is reserved, in the paying denom *)
    rewrite (pay_amount_same (a_pay_denom a) b Hbd).
    rewrite (pay_amount_same (a_pay_denom a) (set_b_terms b price amt) Hbd).
    cbn [set_b_terms b_amt]. rewrite Hbd.
    pose proof (wf_bal s W (User u) (a_pay_denom a)) as Hnn.
    destruct (0 <? amt - b_amt b) eqn:Ediff.
    + apply Z.ltb_lt in Ediff.
      pose proof (send_cases s (User u) (Escrow Paying id) (a_pay_denom a) (amt - b_amt b) Hnn ltac:(lia)) as Hs.
      destruct (send s (User u) (Escrow Paying id) (a_pay_denom a) (amt - b_amt b)) as [s1|c t]; cbn [bind].
      * destruct Hs as [Hle Hs1].
        assert (Hl : st_listeners s1 = st_listeners s).
        { subst s1. destruct (_ =? 0); reflexivity. }
        rewrite (hook_tail s s1 _ _ _ Hl). b2p; fin.
      * bad.
    + apply Z.ltb_ge in Ediff. cbn [bind].
      rewrite (hook_tail s s _ _ _ eq_refl). b2p; fin.
  - (* many bid: the ceiling of quantity times price is reserved *)
    assert (Hne : b_denom b <> a_pay_denom a) by congruence.
    rewrite (pay_amount_other (a_pay_denom a) b Hne).
    rewrite (pay_amount_other (a_pay_denom a) (set_b_terms b price amt) Hne).
    cbn [set_b_terms b_amt b_price].
    pose proof (wf_bal s W (User u) (a_pay_denom a)) as Hnn.
    destruct (0 <? pay_of_qty amt price - pay_of_qty (b_amt b) (b_price b)) eqn:Ediff.
    + apply Z.ltb_lt in Ediff.
      pose proof (send_cases s (User u) (Escrow Paying id) (a_pay_denom a)
                    (pay_of_qty amt price - pay_of_qty (b_amt b) (b_price b)) Hnn ltac:(lia)) as Hs.
      destruct (send s (User u) (Escrow Paying id) (a_pay_denom a)
                  (pay_of_qty amt price - pay_of_qty (b_amt b) (b_price b))) as [s1|c t]; cbn [bind].
      * destruct Hs as [Hle Hs1].
        assert (Hl : st_listeners s1 = st_listeners s).
        { subst s1. destruct (_ =? 0); reflexivity. }
        rewrite (hook_tail s s1 _ _ _ Hl). b2p; fin.
      * bad.
    + apply Z.ltb_ge in Ediff. cbn [bind].
      rewrite (hook_tail s s _ _ _ eq_refl). b2p; fin.
Qed.

Definition modify_bank (s : state) (u id : N) (pd : N) (diff : Z) : state :=
  if 0 <? diff
  then with_bank s (move (st_bal s) (User u) (Escrow Paying id) pd diff)
         (st_xfers s ++ [{| x_from := User u; x_to := Escrow Paying id; x_denom := pd; x_amt := diff |}])
  else s.

Lemma send_pos_inv s from to d amt s1 :
  0 < amt -> send s from to d amt = Ok s1 ->
  amt <= st_bal s from d /\
  s1 = with_bank s (move (st_bal s) from to d amt)
         (st_xfers s ++ [{| x_from := from; x_to := to; x_denom := d; x_amt := amt |}]).
Proof.
  intros Hpos. unfold send.
  destruct (amt =? 0) eqn:E0; [apply Z.eqb_eq in E0; lia|].
  destruct (amt <? 0) eqn:E1; [intros H; discriminate H|].
  destruct (st_bal s from d <? amt) eqn:E2; [intros H; discriminate H|].
  apply Z.ltb_ge in E2. intros H. inversion H. split; [exact E2|reflexivity].
Qed.

Lemma modify_effect s u id bid_id price d amt a b s' :
  WF s -> find_auction s id = Some a -> find_bid s id bid_id = Some b ->
  modify_bid s u id bid_id price d amt = Ok s' ->
  exists cs,
    s' = put_bid (with_trace (modify_bank s u id (a_pay_denom a)
                                (pay_amount (a_pay_denom a) (set_b_terms b price amt)
                                 - pay_amount (a_pay_denom a) b))
                             (st_trace s ++ cs))
                 (set_b_terms b price amt).
Proof.
  intros W Ea Eb. unfold modify_bid, fail. rewrite Ea, Eb.
  destruct (status_eqb (a_status a) Started) eqn:Est; cbn [negb]; [|intros H; discriminate H].
  destruct (atype_eqb (a_type a) Batch) eqn:Ety; cbn [negb]; [|intros H; discriminate H].
  destruct (N.eqb (b_bidder b) u) eqn:Eu; cbn [negb]; [|intros H; discriminate H].
  destruct (price <? a_min_price a) eqn:Emin; [intros H; discriminate H|].
  destruct (N.eqb (b_denom b) d) eqn:Ed; cbn [negb]; [|intros H; discriminate H].
  destruct ((price <? b_price b) || (amt <? b_amt b)) eqn:Elow; [intros H; discriminate H|].
  destruct ((price =? b_price b) && (amt =? b_amt b)) eqn:Esame; [intros H; discriminate H|].
  destruct (find_bid_key _ _ _ _ Eb) as (Hba & _ & Hin).
  destruct (find_auction_id _ _ _ Ea) as (_ & Hina).
  pose proof (wf_denoms s W a Hina) as Hden.
  apply N.eqb_eq in Ed. subst d.
  apply atype_eqb_eq in Ety.
  assert (Hfa : find_auction s (b_auction b) = Some a) by (rewrite Hba; exact Ea).
  destruct (wf_batch_bids s W b a Hin Hfa Ety) as [[Hbt Hbd]|[Hbt Hbd]]; rewrite Hbt; cbv beta iota.
  - rewrite (pay_amount_same (a_pay_denom a) b Hbd).
    rewrite (pay_amount_same (a_pay_denom a) (set_b_terms b price amt) Hbd).
    cbn [set_b_terms b_amt]. rewrite Hbd. unfold modify_bank.
    destruct (0 <? amt - b_amt b) eqn:Ediff.
    + apply Z.ltb_lt in Ediff. intros H.
      apply bind_ok in H. destruct H as (s1 & H1 & H). apply bind_ok in H. destruct H as (s2 & H2 & H).
      apply (send_pos_inv _ _ _ _ _ _ Ediff) in H1. destruct H1 as [_ Hs1].
      apply call_hook_ok_inv in H2. destruct H2 as (_ & cs & Hs2).
      exists cs. inversion H as [H']. subst s2 s1. reflexivity.
    + cbn [bind]. intros H. apply bind_ok in H. destruct H as (s2 & H2 & H).
      apply call_hook_ok_inv in H2. destruct H2 as (_ & cs & Hs2).
      exists cs. inversion H as [H']. subst s2. reflexivity.
  - assert (Hne : b_denom b <> a_pay_denom a) by congruence.
    rewrite (pay_amount_other (a_pay_denom a) b Hne).
    rewrite (pay_amount_other (a_pay_denom a) (set_b_terms b price amt) Hne).
    cbn [set_b_terms b_amt b_price]. unfold modify_bank.
    destruct (0 <? pay_of_qty amt price - pay_of_qty (b_amt b) (b_price b)) eqn:Ediff.
    + apply Z.ltb_lt in Ediff. intros H.
      apply bind_ok in H. destruct H as (s1 & H1 & H). apply bind_ok in H. destruct H as (s2 & H2 & H).
      apply (send_pos_inv _ _ _ _ _ _ Ediff) in H1. destruct H1 as [_ Hs1].
      apply call_hook_ok_inv in H2. destruct H2 as (_ & cs & Hs2).
      exists cs. inversion H as [H']. subst s2 s1. reflexivity.
    + cbn [bind]. intros H. apply bind_ok in H. destruct H as (s2 & H2 & H).
      apply call_hook_ok_inv in H2. destruct H2 as (_ & cs & Hs2).
      exists cs. inversion H as [H']. subst s2. reflexivity.
Qed.

(* ================================================================== MsgPlaceBid *)
Lemma place_fixed_iff s u id price d amt :
  WF s -> 0 <= amt -> 0 <= price ->
  (is_ok (place_bid s u id BFixed price d amt) <->
   fixed_bid_precond s u id price d amt && no_veto s H_BeforeBidPlaced = true).
Proof.
  intros W Hamt Hprice. unfold place_bid, fixed_bid_precond, fail.
  destruct (find_auction s id) as [a|] eqn:Ea; [|bad].
  destruct (find_auction_id _ _ _ Ea) as [Hid _]. subst id.
  rewrite !sell_amount_mk, !pay_amount_mk.
  set (pay := if N.eqb d (a_pay_denom a) then amt else pay_of_qty amt price).
  assert (Hpay : 0 <= pay).
  { subst pay. destruct (N.eqb d (a_pay_denom a)); [exact Hamt|apply pay_of_qty_nonneg; assumption]. }
  rewrite (can_pay_snoc_b s u (p_bfee (st_params s)) (a_pay_denom a) pay
             (fun d0 => wf_bal s W (User u) d0) (wf_bfee s W) Hpay).
  destruct (status_eqb (a_status a) Started) eqn:Est; cbn [negb]; [|bad].
  destruct (atype_eqb (a_type a) Batch && (price <? a_min_price a)) eqn:Emin; [bad|].
  unfold find_allowed in *.
  destruct (find (fun x => N.eqb (al_auction x) (a_id a) && N.eqb (al_bidder x) u) (st_allowed s))
    as [al|] eqn:Eal; [|bad].
  pose proof (fund_pool_cases s u (p_bfee (st_params s)) (wf_bal s W) (wf_bfee s W)) as Hf.
  destruct (fund_pool s u (p_bfee (st_params s))) as [s1|c1 t1]; cbn [bind]; [|bad].
  destruct Hf as (Hcp & b & x & Hs1 & Hbal & Hnn). subst s1.
  cbv zeta. unfold validate_fixed_bid, fail, find_allowed, bids_of. sp.
  rewrite !sell_amount_mk, !pay_amount_mk. cbn [b_denom b_price b_bidder].
  fold pay. rewrite Eal.
  destruct (atype_eqb (a_type a) FixedPrice) eqn:Ety; cbn [negb]; [|bad].
  destruct (negb (N.eqb d (a_pay_denom a)) && negb (N.eqb d (a_sell_denom a))) eqn:Eden; [bad|].
  destruct (price =? a_start_price a) eqn:Epr; cbn [negb]; [|bad].
  destruct (a_remaining a <? (if N.eqb d (a_pay_denom a) then qty_of_worth amt price else amt)) eqn:Erem; [bad|].
  match goal with |- context [al_max al <? ?t] => destruct (al_max al <? t) eqn:Emax; [bad|] end.
  cbn [bind].
  match goal with |- context [send ?S (User u) ?to (a_pay_denom a) pay] =>
    pose proof (send_cases S (User u) to (a_pay_denom a) pay (Hnn _) Hpay) as Hs;
    destruct (send S (User u) to (a_pay_denom a) pay) as [s2|c2 t2] eqn:Esend
  end; cbn [bind].
  - destruct (send_ok_bank _ _ _ _ _ _ Esend) as (b2 & x2 & Hs2). subst s2.
    rewrite (hook_tail s); [|reflexivity].
    sp. pose proof (Hbal (a_pay_denom a)) as Hb. destruct Hs as [Hle _]. sp.
    b2p; fin.
  - sp. pose proof (Hbal (a_pay_denom a)) as Hb. bad.
Qed.

Lemma place_worth_iff s u id price d amt :
  WF s -> 0 <= amt -> 0 <= price ->
  (is_ok (place_bid s u id BWorth price d amt) <->
   batch_bid_precond s u id BWorth price d amt && no_veto s H_BeforeBidPlaced = true).
Proof.
  intros W Hamt Hprice. unfold place_bid, batch_bid_precond, fail.
  destruct (find_auction s id) as [a|] eqn:Ea; [|bad].
  destruct (find_auction_id _ _ _ Ea) as [Hid _]. subst id.
  rewrite !sell_amount_mk, !pay_amount_mk.
  set (pay := if N.eqb d (a_pay_denom a) then amt else pay_of_qty amt price).
  assert (Hpay : 0 <= pay).
  { subst pay. destruct (N.eqb d (a_pay_denom a)); [exact Hamt|apply pay_of_qty_nonneg; assumption]. }
  rewrite (can_pay_snoc_b s u (p_bfee (st_params s)) (a_pay_denom a) pay
             (fun d0 => wf_bal s W (User u) d0) (wf_bfee s W) Hpay).
  destruct (status_eqb (a_status a) Started) eqn:Est; cbn [negb]; [|bad].
  destruct (atype_eqb (a_type a) Batch && (price <? a_min_price a)) eqn:Emin; [bad|].
  unfold find_allowed in *.
  destruct (find (fun x => N.eqb (al_auction x) (a_id a) && N.eqb (al_bidder x) u) (st_allowed s))
    as [al|] eqn:Eal; [|bad].
  pose proof (fund_pool_cases s u (p_bfee (st_params s)) (wf_bal s W) (wf_bfee s W)) as Hf.
  destruct (fund_pool s u (p_bfee (st_params s))) as [s1|c1 t1]; cbn [bind]; [|bad].
  destruct Hf as (Hcp & b & x & Hs1 & Hbal & Hnn). subst s1.
  cbv zeta. unfold validate_batch_bid, fail, find_allowed. sp.
  rewrite !sell_amount_mk. cbn [b_denom b_price b_bidder].
  rewrite Eal.
  destruct (atype_eqb (a_type a) Batch) eqn:Ety; cbn [negb]; [|bad].
  destruct (N.eqb d (a_pay_denom a)) eqn:Eden; cbn [negb]; [|bad].
  match goal with |- context [al_max al <? ?t] => destruct (al_max al <? t) eqn:Emax; [bad|] end.
  cbn [bind].
  apply N.eqb_eq in Eden. subst d. subst pay. cbv beta iota in *.
  match goal with |- context [send ?S (User u) ?to (a_pay_denom a) amt] =>
    pose proof (send_cases S (User u) to (a_pay_denom a) amt (Hnn _) Hamt) as Hs;
    destruct (send S (User u) to (a_pay_denom a) amt) as [s2|c2 t2] eqn:Esend
  end; cbn [bind].
  - destruct (send_ok_bank _ _ _ _ _ _ Esend) as (b2 & x2 & Hs2). subst s2.
    rewrite (hook_tail s); [|reflexivity].
    sp. pose proof (Hbal (a_pay_denom a)) as Hb. destruct Hs as [Hle _]. sp.
    b2p; fin.
  - sp. pose proof (Hbal (a_pay_denom a)) as Hb. bad.
Qed.

Lemma place_many_iff s u id price d amt :
  WF s -> 0 <= amt -> 0 <= price ->
  (is_ok (place_bid s u id BMany price d amt) <->
   batch_bid_precond s u id BMany price d amt && no_veto s H_BeforeBidPlaced = true).
Proof.
  intros W Hamt Hprice. unfold place_bid, batch_bid_precond, fail.
  destruct (find_auction s id) as [a|] eqn:Ea; [|bad].
  destruct (find_auction_id _ _ _ Ea) as [Hid _]. subst id.
  rewrite !sell_amount_mk, !pay_amount_mk.
  set (pay := if N.eqb d (a_pay_denom a) then amt else pay_of_qty amt price).
  assert (Hpay : 0 <= pay).
  { subst pay. destruct (N.eqb d (a_pay_denom a)); [exact Hamt|apply pay_of_qty_nonneg; assumption]. }
  rewrite (can_pay_snoc_b s u (p_bfee (st_params s)) (a_pay_denom a) pay
             (fun d0 => wf_bal s W (User u) d0) (wf_bfee s W) Hpay).
  destruct (status_eqb (a_status a) Started) eqn:Est; cbn [negb]; [|bad].
  destruct (atype_eqb (a_type a) Batch && (price <? a_min_price a)) eqn:Emin; [bad|].
  unfold find_allowed in *.
  destruct (find (fun x => N.eqb (al_auction x) (a_id a) && N.eqb (al_bidder x) u) (st_allowed s))
    as [al|] eqn:Eal; [|bad].
  pose proof (fund_pool_cases s u (p_bfee (st_params s)) (wf_bal s W) (wf_bfee s W)) as Hf.
  destruct (fund_pool s u (p_bfee (st_params s))) as [s1|c1 t1]; cbn [bind]; [|bad].
  destruct Hf as (Hcp & b & x & Hs1 & Hbal & Hnn). subst s1.
  cbv zeta. unfold validate_batch_bid, fail, find_allowed. sp.
  rewrite !sell_amount_mk, !pay_amount_mk. cbn [b_denom b_price b_bidder].
  fold pay. rewrite Eal.
  destruct (atype_eqb (a_type a) Batch) eqn:Ety; cbn [negb]; [|bad].
  destruct (N.eqb d (a_sell_denom a)) eqn:Eden; cbn [negb]; [|bad].
  match goal with |- context [al_max al <? ?t] => destruct (al_max al <? t) eqn:Emax; [bad|] end.
  cbn [bind].
  match goal with |- context [send ?S (User u) ?to (a_pay_denom a) pay] =>
    pose proof (send_cases S (User u) to (a_pay_denom a) pay (Hnn _) Hpay) as Hs;
    destruct (send S (User u) to (a_pay_denom a) pay) as [s2|c2 t2] eqn:Esend
  end; cbn [bind].
  - destruct (send_ok_bank _ _ _ _ _ _ Esend) as (b2 & x2 & Hs2). subst s2.
    rewrite (hook_tail s); [|reflexivity].
    sp. pose proof (Hbal (a_pay_denom a)) as Hb. destruct Hs as [Hle _]. sp.
    b2p; fin.
  - sp. pose proof (Hbal (a_pay_denom a)) as Hb. bad.
Qed.

(* ================================================================== MsgCreate*Auction *)
Lemma create_fixed_iff s u up price sd samt pd vs start end_ :
  WF s -> 0 <= samt ->
  (is_ok (create_fixed s u up price sd samt pd vs start end_) <->
   create_precond s u sd samt (length vs) 0 end_
   && no_veto s H_BeforeFixedCreated && no_veto s H_AfterFixedCreated = true).
Proof.
  intros W Hamt. unfold create_fixed, create_precond, fail.
  rewrite (can_pay_snoc_b s u (p_cfee (st_params s)) sd samt
             (fun d0 => wf_bal s W (User u) d0) (wf_cfee s W) Hamt).
  destruct (end_ <? st_now s) eqn:Eend; [bad|].
  destruct (Nat.ltb MaxNumVestingSchedules (length vs)) eqn:Evs; [bad|].
  cbv zeta. sp.
  pose proof (fund_pool_cases (with_aseq s (st_aseq s + 1)%N) u (p_cfee (st_params s))
                (wf_bal s W) (wf_cfee s W)) as Hf.
  change (can_pay (with_aseq s (st_aseq s + 1)%N) u (p_cfee (st_params s)))
    with (can_pay s u (p_cfee (st_params s))) in Hf.
  destruct (fund_pool (with_aseq s (st_aseq s + 1)%N) u (p_cfee (st_params s))) as [s1|c1 t1];
    cbn [bind]; [|bad].
  destruct Hf as (Hcp & b & x & Hs1 & Hbal & Hnn). subst s1. sp.
  pose proof (Hbal sd) as Hb.
  match goal with |- context [send ?S (User u) ?to sd samt] =>
    pose proof (send_cases S (User u) to sd samt (Hnn _) Hamt) as Hs;
    destruct (send S (User u) to sd samt) as [s2|c2 t2] eqn:Esend
  end; cbn [bind]; sp; [|bad].
  destruct (send_ok_bank _ _ _ _ _ _ Esend) as (b2 & x2 & Hs2). subst s2. sp.
  destruct Hs as [Hle _].
  match goal with |- context [call_hook ?S H_BeforeFixedCreated ?args] =>
    pose proof (call_hook_cases S H_BeforeFixedCreated args) as Hh;
    destruct (call_hook S H_BeforeFixedCreated args) as [s3|c3 t3]
  end; cbn [bind].
  - destruct Hh as (Hv & cs & Hs3). subst s3.
    match type of Hv with context [no_veto ?S ?k] => change (no_veto S k) with (no_veto s k) in Hv end.
    rewrite (hook_tail s _ _ _ (fun z => z)); [|reflexivity].
    b2p; fin.
  - match type of Hh with context [no_veto ?S ?k] => change (no_veto S k) with (no_veto s k) in Hh end. bad.
Qed.

Lemma create_batch_iff s u up price minp sd samt pd vs maxr rate start end_ :
  WF s -> 0 <= samt ->
  (is_ok (create_batch s u up price minp sd samt pd vs maxr rate start end_) <->
   create_precond s u sd samt (length vs) maxr end_
   && no_veto s H_BeforeBatchCreated && no_veto s H_AfterBatchCreated = true).
Proof.
  intros W Hamt. unfold create_batch, create_precond, fail.
  rewrite (can_pay_snoc_b s u (p_cfee (st_params s)) sd samt
             (fun d0 => wf_bal s W (User u) d0) (wf_cfee s W) Hamt).
  destruct (end_ <? st_now s) eqn:Eend; [bad|].
  destruct (Nat.ltb MaxNumVestingSchedules (length vs)) eqn:Evs; [bad|].
  destruct (N.ltb MaxExtendedRound maxr) eqn:Emaxr; [bad|].
  cbv zeta. sp.
  pose proof (fund_pool_cases (with_aseq s (st_aseq s + 1)%N) u (p_cfee (st_params s))
                (wf_bal s W) (wf_cfee s W)) as Hf.
  change (can_pay (with_aseq s (st_aseq s + 1)%N) u (p_cfee (st_params s)))
    with (can_pay s u (p_cfee (st_params s))) in Hf.
  destruct (fund_pool (with_aseq s (st_aseq s + 1)%N) u (p_cfee (st_params s))) as [s1|c1 t1];
    cbn [bind]; [|bad].
  destruct Hf as (Hcp & b & x & Hs1 & Hbal & Hnn). subst s1. sp.
  pose proof (Hbal sd) as Hb.
  match goal with |- context [send ?S (User u) ?to sd samt] =>
    pose proof (send_cases S (User u) to sd samt (Hnn _) Hamt) as Hs;
    destruct (send S (User u) to sd samt) as [s2|c2 t2] eqn:Esend
  end; cbn [bind]; sp; [|bad].
  destruct (send_ok_bank _ _ _ _ _ _ Esend) as (b2 & x2 & Hs2). subst s2. sp.
  destruct Hs as [Hle _].
  match goal with |- context [call_hook ?S H_BeforeBatchCreated ?args] =>
    pose proof (call_hook_cases S H_BeforeBatchCreated args) as Hh;
    destruct (call_hook S H_BeforeBatchCreated args) as [s3|c3 t3]
  end; cbn [bind].
  - destruct Hh as (Hv & cs & Hs3). subst s3.
    match type of Hv with context [no_veto ?S ?k] => change (no_veto S k) with (no_veto s k) in Hv end.
    rewrite (hook_tail s _ _ _ (fun z => z)); [|reflexivity].
    b2p; fin.
  - match type of Hh with context [no_veto ?S ?k] => change (no_veto S k) with (no_veto s k) in Hh end. bad.
Qed.

(* ================================================================== MsgAddAllowedBidder, MsgUpdateParams *)
Lemma add_allowed_iff s id ea up u max :
  (is_ok (if st_switch s then api_add s id [(ea, AGood up u, max)] else fail s E_DISABLED) <->
   st_switch s
   && match find_auction s id, max with
      | Some a, Some m => (0 <? m) && (m <=? a_sell_amt a)
      | _, _ => false
      end && no_veto s H_BeforeAllowedAdded = true).
Proof.
  unfold api_add, fail.
  destruct (st_switch s) eqn:Esw; [|bad].
  destruct (find_auction s id) as [a|] eqn:Ea; [|bad].
  match goal with |- context [call_hook s H_BeforeAllowedAdded ?args] =>
    pose proof (call_hook_cases s H_BeforeAllowedAdded args) as Hh;
    destruct (call_hook s H_BeforeAllowedAdded args) as [s1|c1 t1]
  end; cbn [bind]; [|bad].
  destruct Hh as (Hv & cs & Hs1). subst s1.
  cbn [add_entries]. unfold fail.
  destruct max as [m|]; [|bad].
  destruct (0 <? m) eqn:Epos; cbn [negb]; [|bad].
  destruct (a_sell_amt a <? m) eqn:Ecap; [bad|].
  split; intros _; [|apply is_ok_Ok]. b2p. p2b; try assumption; lia.
Qed.

Lemma update_params_iff s auth cfee bfee period :
  is_ok (update_params s auth cfee bfee period) <->
  match auth, check_coins cfee None, check_coins bfee None with
  | AuthGov, Some _, Some _ => true
  | _, _, _ => false
  end = true.
Proof.
  unfold update_params, fail.
  destruct auth as [|[up u|]].
  - destruct (check_coins cfee None) as [c|]; [|bad].
    destruct (check_coins bfee None) as [b|]; [|bad].
    split; intros _; [reflexivity|apply is_ok_Ok].
  - bad.
  - bad.
Qed.

(* ================================================================== ValidateBasic *)
Lemma check_pos_some x z : check_pos x = Some z -> 0 < z.
Proof.
  unfold check_pos. destruct x as [y|]; [|intros H; discriminate H].
  destruct (0 <? y) eqn:E; [|intros H; discriminate H].
  intros H. inversion H. subst. apply Z.ltb_lt. exact E.
Qed.
Lemma check_coin_some c d a : check_coin c = Some (d, a) -> 0 < a.
Proof.
  unfold check_coin. destruct (mc_denom c) as [d0|]; [|intros H; discriminate H].
  destruct (mc_amt c) as [a0|]; [|intros H; discriminate H].
  destruct (0 <? a0) eqn:E; [|intros H; discriminate H].
  intros H. inversion H. subst. apply Z.ltb_lt. exact E.
Qed.

Definition cmsg_ok (c : cmsg) : Prop :=
  match c with
  | CCreateFixed _ _ price _ samt _ _ _ _ => 0 < price /\ 0 < samt
  | CCreateBatch _ _ price minp _ samt _ _ _ rate _ _ => 0 < price /\ 0 < minp /\ 0 < samt /\ 0 < rate
  | CPlaceBid _ _ _ price _ amt => 0 < price /\ 0 < amt
  | CModifyBid _ _ _ price _ amt => 0 < price /\ 0 < amt
  | _ => True
  end.

Lemma check_basic_ok m c : check_basic m = Some c -> cmsg_ok c.
Proof.
  intros H. destruct m; unfold check_basic in H.
  - destruct who as [up u|]; [|discriminate H].
    destruct (check_pos price) as [p|] eqn:Ep; [|discriminate H].
    destruct (check_coin sell) as [[sd sa]|] eqn:Es; [|discriminate H].
    destruct pay as [pd|]; [|discriminate H].
    destruct (negb (N.eqb sd pd) && (start <? end_)); [|discriminate H].
    destruct (valid_scheds vs end_) as [l|]; [|discriminate H].
    inversion H. subst c. cbn [cmsg_ok].
    split; [exact (check_pos_some _ _ Ep)|exact (check_coin_some _ _ _ Es)].
  - destruct who as [up u|]; [|discriminate H].
    destruct (check_pos price) as [p|] eqn:Ep; [|discriminate H].
    destruct (check_pos minp) as [mp|] eqn:Em; [|discriminate H].
    destruct (check_coin sell) as [[sd sa]|] eqn:Es; [|discriminate H].
    destruct pay as [pd|]; [|discriminate H].
    destruct (check_pos rate) as [r|] eqn:Er; [|discriminate H].
    destruct (negb (N.eqb sd pd) && (start <? end_)); [|discriminate H].
    destruct (valid_scheds vs end_) as [l|]; [|discriminate H].
    inversion H. subst c. cbn [cmsg_ok].
    repeat split; [exact (check_pos_some _ _ Ep)|exact (check_pos_some _ _ Em)
                  |exact (check_coin_some _ _ _ Es)|exact (check_pos_some _ _ Er)].
  - destruct who as [up u|]; [|discriminate H]. inversion H. subst c. exact I.
  - destruct who as [up u|]; [|discriminate H].
    destruct (check_pos price) as [p|] eqn:Ep; [|discriminate H].
    destruct (check_coin coin) as [[d amt]|] eqn:Es; [|discriminate H].
    destruct (decode_btype bt) as [t|]; [|discriminate H].
    inversion H. subst c. cbn [cmsg_ok].
    split; [exact (check_pos_some _ _ Ep)|exact (check_coin_some _ _ _ Es)].
  - destruct who as [up u|]; [|discriminate H].
    destruct (check_pos price) as [p|] eqn:Ep; [|discriminate H].
    destruct (check_coin coin) as [[d amt]|] eqn:Es; [|discriminate H].
    inversion H. subst c. cbn [cmsg_ok].
    split; [exact (check_pos_some _ _ Ep)|exact (check_coin_some _ _ _ Es)].
  - destruct who as [up u|]; [|discriminate H]. inversion H. subst c. exact I.
  - inversion H. subst c. exact I.
Qed.

(* ================================================================== assembly *)
(* the body of Spec.precond on a message that passed ValidateBasic *)
Definition cprecond (s : state) (c : cmsg) : bool :=
  match c with
  | CCreateFixed u _ _ sd samt _ vs _ end_ =>
      create_precond s u sd samt (length vs) 0 end_ && no_veto s H_BeforeFixedCreated && no_veto s H_AfterFixedCreated
  | CCreateBatch u _ _ _ sd samt _ vs maxr _ _ end_ =>
      create_precond s u sd samt (length vs) maxr end_ && no_veto s H_BeforeBatchCreated && no_veto s H_AfterBatchCreated
  | CCancel u _ id =>
      match find_auction s id with
      | Some a => N.eqb u (a_auctioneer a) && status_eqb (a_status a) StandBy && no_veto s H_BeforeCanceled
      | None => false
      end
  | CPlaceBid u id bt price d amt =>
      match bt with
      | BFixed => fixed_bid_precond s u id price d amt
      | _ => batch_bid_precond s u id bt price d amt
      end && no_veto s H_BeforeBidPlaced
  | CModifyBid u id bid_id price d amt =>
      modify_precond s u id bid_id price d amt && no_veto s H_BeforeBidModified
  | CAddAllowed id ea up u max =>
      st_switch s
      && match find_auction s id, max with
         | Some a, Some m => (0 <? m) && (m <=? a_sell_amt a)
         | _, _ => false
         end && no_veto s H_BeforeAllowedAdded
  | CUpdateParams auth cfee bfee _ =>
      match auth, check_coins cfee None, check_coins bfee None with
      | AuthGov, Some _, Some _ => true
      | _, _, _ => false
      end
  end.

Lemma precond_unfold s m :
  precond s m = match check_basic m with None => false | Some c => cprecond s c end.
Proof. unfold precond, cprecond. destruct (check_basic m) as [c|]; [|reflexivity]. destruct c; reflexivity. Qed.

Lemma handle_ok_iff s c : WF s -> cmsg_ok c -> (is_ok (handle s c) <-> cprecond s c = true).
Proof.
  intros W Hc. destruct c; cbn [handle cprecond cmsg_ok] in *.
  - destruct Hc as [_ Hs]. apply create_fixed_iff; [exact W|lia].
  - destruct Hc as (_ & _ & Hs & _). apply create_batch_iff; [exact W|lia].
  - apply cancel_ok_iff. exact W.
  - destruct Hc as [Hp Ha]. destruct bt.
    + apply place_fixed_iff; [exact W|lia|lia].
    + apply place_worth_iff; [exact W|lia|lia].
    + apply place_many_iff; [exact W|lia|lia].
  - apply modify_ok_iff. exact W.
  - apply add_allowed_iff.
  - apply update_params_iff.
Qed.

Theorem C18_exact_proof s m : WF s -> (fst (deliver_tx s m) = Accepted <-> precond s m = true).
Proof.
  intros W. rewrite accepted_deliver, precond_unfold.
  destruct (check_basic m) as [c|] eqn:Ec.
  - pose proof (handle_ok_iff s c W (check_basic_ok m c Ec)) as H. split.
    + intros (c' & Hc' & Hok). inversion Hc'. subst c'. apply H. exact Hok.
    + intros Hp. exists c. split; [reflexivity|]. apply H. exact Hp.
  - split.
    + intros (c' & Hc' & _). discriminate Hc'.
    + intros Hp. discriminate Hp.
Qed.

Theorem C18_rejected_unchanged_proof s m c :
  fst (deliver_tx s m) = Rejected c ->
  let s' := snd (deliver_tx s m) in
  st_params s' = st_params s /\ st_auctions s' = st_auctions s /\ st_bids s' = st_bids s /\
  st_allowed s' = st_allowed s /\ st_vqs s' = st_vqs s /\ st_aseq s' = st_aseq s /\
  st_bseq s' = st_bseq s /\ st_mlen s' = st_mlen s /\ st_bal s' = st_bal s /\ st_now s' = st_now s /\
  st_listeners s' = st_listeners s /\ st_switch s' = st_switch s /\ st_xfers s' = st_xfers s.
Proof.
  unfold deliver_tx. destruct (check_basic m) as [cm|].
  - destruct (handle s cm) as [s1|c1 t1]; cbn [commit fst snd].
    + intros H. discriminate H.
    + intros _. repeat split; reflexivity.
  - cbn [fst snd]. intros _. repeat split; reflexivity.
Qed.

(* per message kind, at the level of the delivered transaction *)
Lemma accept_cancel_iff s who id :
  WF s -> (fst (deliver_tx s (MCancel who id)) = Accepted <-> precond s (MCancel who id) = true).
Proof. intros W. apply C18_exact_proof. exact W. Qed.
Lemma accept_modify_iff s who a b price coin :
  WF s -> (fst (deliver_tx s (MModifyBid who a b price coin)) = Accepted <->
           precond s (MModifyBid who a b price coin) = true).
Proof. intros W. apply C18_exact_proof. exact W. Qed.
Lemma accept_place_iff s who a bt price coin :
  WF s -> (fst (deliver_tx s (MPlaceBid who a bt price coin)) = Accepted <->
           precond s (MPlaceBid who a bt price coin) = true).
Proof. intros W. apply C18_exact_proof. exact W. Qed.
Lemma accept_create_fixed_iff s who price sell pay vs start end_ :
  WF s -> (fst (deliver_tx s (MCreateFixed who price sell pay vs start end_)) = Accepted <->
           precond s (MCreateFixed who price sell pay vs start end_) = true).
Proof. intros W. apply C18_exact_proof. exact W. Qed.
Lemma accept_create_batch_iff s who price minp sell pay vs maxr rate start end_ :
  WF s -> (fst (deliver_tx s (MCreateBatch who price minp sell pay vs maxr rate start end_)) = Accepted <->
           precond s (MCreateBatch who price minp sell pay vs maxr rate start end_) = true).
Proof. intros W. apply C18_exact_proof. exact W. Qed.
Lemma accept_add_allowed_iff s a ea who max :
  fst (deliver_tx s (MAddAllowed a ea who max)) = Accepted <-> precond s (MAddAllowed a ea who max) = true.
Proof.
  rewrite accepted_deliver, precond_unfold.
  destruct (check_basic (MAddAllowed a ea who max)) as [c|] eqn:Ec.
  - assert (H : is_ok (handle s c) <-> cprecond s c = true).
    { unfold check_basic in Ec. destruct who as [up u|]; [|discriminate Ec].
      inversion Ec. subst c. cbn [handle cprecond]. apply add_allowed_iff. }
    split.
    + intros (c' & Hc' & Hok). inversion Hc'. subst c'. apply H. exact Hok.
    + intros Hp. exists c. split; [reflexivity|]. apply H. exact Hp.
  - split; [intros (c' & Hc' & _); discriminate Hc'|intros Hp; discriminate Hp].
Qed.
Lemma accept_update_params_iff s auth cfee bfee period :
  fst (deliver_tx s (MUpdateParams auth cfee bfee period)) = Accepted <->
  precond s (MUpdateParams auth cfee bfee period) = true.
Proof.
  rewrite accepted_deliver, precond_unfold. unfold check_basic. split.
  - intros (c' & Hc' & Hok). inversion Hc'. subst c'. cbn [handle cprecond] in *.
    exact (proj1 (update_params_iff s auth cfee bfee period) Hok).
  - intros Hp. eexists. split; [reflexivity|]. cbn [handle cprecond] in *.
    exact (proj2 (update_params_iff s auth cfee bfee period) Hp).
Qed.
(* the two kinds of MsgPlaceBid, by the wire value of the bid type (1 fixed price, 2 batch worth, 3 batch many) *)
Lemma accept_place_fixed_iff s who a price coin :
  WF s -> (fst (deliver_tx s (MPlaceBid who a 1%N price coin)) = Accepted <->
           precond s (MPlaceBid who a 1%N price coin) = true).
Proof. intros W. apply C18_exact_proof. exact W. Qed.
Lemma accept_place_batch_iff s who a bt price coin :
  WF s -> bt = 2%N \/ bt = 3%N ->
  (fst (deliver_tx s (MPlaceBid who a bt price coin)) = Accepted <->
   precond s (MPlaceBid who a bt price coin) = true).
Proof. intros W _. apply C18_exact_proof. exact W. Qed.
