(* C13: the executable statement c13_count (the recorded count of matched bids changes in blocks only) holds of every
   model transition.  With Chk13.c13_ok_model this gives the link for c13_all. *)
From Coq Require Import ZArith NArith List Bool Arith Lia.
From FR Require Import Dec Types Bank Match Step Genesis Model Spec Checkers.
From FR.Proofs Require Import InvDefs FrameFacts TxFacts InvAll FixedFacts.
From FR.Proofs Require Chk13.
Import ListNotations.
Open Scope Z_scope.

Lemma tx_shape_mlen s o out s' : tx_shape s o out s' -> st_mlen s' = st_mlen s.
Proof. intros Sh. shape_cases Sh; reflexivity. Qed.

Theorem c13_count_model s o : c13_count (model_trans s o) = true.
Proof.
  unfold model_trans. fold (ghost_reset s). destruct (step (ghost_reset s) o) as [out s'] eqn:Es.
  unfold c13_count. cbn [t_op t_post t_pre].
  assert (H : FrameFacts.is_block o = false -> o <> OGenesis -> st_mlen s' = st_mlen s).
  { intros B G. pose proof (step_shape (ghost_reset s) o B G) as Sh. rewrite Es in Sh. cbn [fst snd] in Sh.
    apply tx_shape_mlen in Sh. exact Sh. }
  destruct o as [m|id l|id u max|t orc|t orc k|from to d amt|ls|]; try reflexivity;
    (rewrite H by (reflexivity || discriminate); apply forallb_forall; intros j _; apply Z.eqb_refl).
Qed.

Theorem c13_all_model s o : Inv s -> c13_all (model_trans s o) = true.
Proof. intros I. unfold c13_all. rewrite (Chk13.c13_ok_model s o I), (c13_count_model s o). reflexivity. Qed.
