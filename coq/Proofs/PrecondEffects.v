(* C12 (cancellation) and C11 (bid modification): acceptance conditions spelled out and the exact effects. *)
From Coq Require Import ZArith NArith List Bool Arith Lia.
From FR Require Import Dec Types Bank Match Step Genesis Model Spec.
From FR.Proofs Require Import PrecondBase PrecondFacts.
Import ListNotations.
Open Scope Z_scope.
Opaque P.

(* ------------------------------------------------------------------ replacing one element of a keyed list *)
Lemma find_map_hit {A} (p : A -> bool) (v : A) (l : list A) :
  p v = true ->
  find p (map (fun x => if p x then v else x) l) = match find p l with Some _ => Some v | None => None end.
Proof.
  intros Hv. induction l as [|x r IH]; cbn [map find].
  - reflexivity.
  - destruct (p x) eqn:Ex.
    + rewrite Hv. reflexivity.
    + rewrite Ex. exact IH.
Qed.

Lemma find_map_miss {A} (p q : A -> bool) (v : A) (l : list A) :
  q v = false -> (forall x, p x = true -> q x = false) ->
  find q (map (fun x => if p x then v else x) l) = find q l.
Proof.
  intros Hv Hpq. induction l as [|x r IH]; cbn [map find].
  - reflexivity.
  - destruct (p x) eqn:Ex.
    + rewrite Hv, (Hpq x Ex). exact IH.
    + destruct (q x); [reflexivity|exact IH].
Qed.

(* ------------------------------------------------------------------ outcome of a delivered message *)
Lemma deliver_outcome s m : fst (deliver_tx s m) = Accepted \/ exists c, fst (deliver_tx s m) = Rejected c.
Proof.
  unfold deliver_tx. destruct (check_basic m) as [cm|].
  - destruct (handle s cm) as [s1|c t]; cbn [commit fst]; [left; reflexivity|right; exists c; reflexivity].
  - right. exists E_BASIC. reflexivity.
Qed.

Lemma deliver_accepted_inv s m :
  fst (deliver_tx s m) = Accepted ->
  exists c s1, check_basic m = Some c /\ handle s c = Ok s1 /\ snd (deliver_tx s m) = s1.
Proof.
  unfold deliver_tx. destruct (check_basic m) as [cm|].
  - destruct (handle s cm) as [s1|c t] eqn:Eh; cbn [commit fst snd]; intros H; [|discriminate H].
    exists cm, s1. split; [reflexivity|]. split; [exact Eh|reflexivity].
  - cbn [fst]. intros H. discriminate H.
Qed.

(* ================================================================== C12 *)
Lemma C12_cancel_iff_proof s who id :
  WF s ->
  (fst (deliver_tx s (MCancel who id)) = Accepted <->
   exists up u a, who = AGood up u /\ find_auction s id = Some a /\ u = a_auctioneer a /\
                  a_status a = StandBy /\ no_veto s H_BeforeCanceled = true).
Proof.
  intros W. rewrite (accept_cancel_iff s who id W), precond_unfold. unfold check_basic.
  destruct who as [up u|].
  - cbn [cprecond]. destruct (find_auction s id) as [a|] eqn:Ea.
    + split.
      * intros H. b2p. exists up, u, a. repeat split; assumption.
      * intros (up' & u' & a' & Hw & Ha & Hu & Hst & Hv).
        injection Hw as Hup Huu. injection Ha as Haa. subst a'.
        rewrite Huu, Hu, Hv, Hst, N.eqb_refl. reflexivity.
    + split; [intros H; discriminate H|].
      intros (up' & u' & a' & _ & Ha & _). discriminate Ha.
  - split; [intros H; discriminate H|].
    intros (up' & u' & a' & Hw & _). discriminate Hw.
Qed.

Lemma cancelled_id a : a_id (cancelled a) = a_id a.
Proof. unfold cancelled. destruct (a_type a); reflexivity. Qed.

Lemma cancelled_fields a (Q : Prop) :
  Q ->
  a_status (cancelled a) = Cancelled /\
  (a_type a = FixedPrice -> a_remaining (cancelled a) = 0) /\
  (a_type a = Batch -> a_remaining (cancelled a) = a_remaining a) /\
  a_id (cancelled a) = a_id a /\ a_type (cancelled a) = a_type a /\
  a_auctioneer (cancelled a) = a_auctioneer a /\ a_upper (cancelled a) = a_upper a /\
  a_start_price (cancelled a) = a_start_price a /\ a_sell_denom (cancelled a) = a_sell_denom a /\
  a_sell_amt (cancelled a) = a_sell_amt a /\ a_pay_denom (cancelled a) = a_pay_denom a /\
  a_scheds (cancelled a) = a_scheds a /\ a_start (cancelled a) = a_start a /\
  a_ends (cancelled a) = a_ends a /\ a_min_price (cancelled a) = a_min_price a /\
  a_matched_price (cancelled a) = a_matched_price a /\ a_max_round (cancelled a) = a_max_round a /\
  a_rate (cancelled a) = a_rate a /\ Q.
Proof.
  intros HQ. unfold cancelled.
  destruct (a_type a) eqn:Ety;
    cbn [set_status set_remaining a_status a_remaining a_id a_type a_auctioneer a_upper a_start_price
         a_sell_denom a_sell_amt a_pay_denom a_scheds a_start a_ends a_min_price a_matched_price
         a_max_round a_rate];
    repeat split; try reflexivity; try (intros Hx; discriminate Hx); try exact Ety; exact HQ.
Qed.

Lemma cancel_bank_store s id a :
  st_params (cancel_bank s id a) = st_params s /\ st_auctions (cancel_bank s id a) = st_auctions s /\
  st_bids (cancel_bank s id a) = st_bids s /\ st_allowed (cancel_bank s id a) = st_allowed s /\
  st_vqs (cancel_bank s id a) = st_vqs s /\ st_aseq (cancel_bank s id a) = st_aseq s /\
  st_bseq (cancel_bank s id a) = st_bseq s /\ st_mlen (cancel_bank s id a) = st_mlen s /\
  st_now (cancel_bank s id a) = st_now s /\ st_listeners (cancel_bank s id a) = st_listeners s /\
  st_switch (cancel_bank s id a) = st_switch s.
Proof. unfold cancel_bank. cbv zeta. destruct (_ =? 0); repeat split; reflexivity. Qed.

Lemma deliver_cancel_post s who id a :
  WF s -> fst (deliver_tx s (MCancel who id)) = Accepted -> find_auction s id = Some a ->
  exists cs, snd (deliver_tx s (MCancel who id))
             = put_auction (with_trace (cancel_bank s id a) (st_trace s ++ cs)) (cancelled a).
Proof.
  intros W Hacc Ea. destruct (deliver_accepted_inv _ _ Hacc) as (c & s1 & Hc & Hh & Hs). rewrite Hs.
  unfold check_basic in Hc. destruct who as [up u|]; [|discriminate Hc]. inversion Hc. subst c.
  cbn [handle] in Hh. exact (cancel_effect s u up id a s1 W Ea Hh).
Qed.

Theorem C12_effects_proof s who id a :
  WF s -> fst (deliver_tx s (MCancel who id)) = Accepted -> find_auction s id = Some a ->
  let s' := snd (deliver_tx s (MCancel who id)) in
  let bal := st_bal s (Escrow Selling id) (a_sell_denom a) in
  (* the cancelled auction *)
  (exists a', find_auction s' id = Some a' /\ a_status a' = Cancelled /\
     (a_type a = FixedPrice -> a_remaining a' = 0) /\ (a_type a = Batch -> a_remaining a' = a_remaining a) /\
     a_id a' = a_id a /\ a_type a' = a_type a /\ a_auctioneer a' = a_auctioneer a /\ a_upper a' = a_upper a /\
     a_start_price a' = a_start_price a /\ a_sell_denom a' = a_sell_denom a /\ a_sell_amt a' = a_sell_amt a /\
     a_pay_denom a' = a_pay_denom a /\ a_scheds a' = a_scheds a /\ a_start a' = a_start a /\
     a_ends a' = a_ends a /\ a_min_price a' = a_min_price a /\ a_matched_price a' = a_matched_price a /\
     a_max_round a' = a_max_round a /\ a_rate a' = a_rate a /\
     (* the list of auctions changes only at id *)
     st_auctions s' = map (fun x => if N.eqb (a_id x) id then a' else x) (st_auctions s)) /\
  (forall j, j <> id -> find_auction s' j = find_auction s j) /\
  (* nothing else in the store changes *)
  st_params s' = st_params s /\ st_bids s' = st_bids s /\ st_allowed s' = st_allowed s /\
  st_vqs s' = st_vqs s /\ st_aseq s' = st_aseq s /\ st_bseq s' = st_bseq s /\ st_mlen s' = st_mlen s /\
  st_now s' = st_now s /\ st_listeners s' = st_listeners s /\ st_switch s' = st_switch s /\
  (* the whole selling escrow goes back to the auctioneer, in one transfer (none when it is empty) *)
  st_xfers s' = st_xfers s ++
                (if bal =? 0 then []
                 else [{| x_from := Escrow Selling id; x_to := User (a_auctioneer a);
                          x_denom := a_sell_denom a; x_amt := bal |}]) /\
  st_bal s' (Escrow Selling id) (a_sell_denom a) = 0 /\
  st_bal s' (User (a_auctioneer a)) (a_sell_denom a) = st_bal s (User (a_auctioneer a)) (a_sell_denom a) + bal.
Proof.
  intros W Hacc Ea. cbv zeta.
  destruct (deliver_cancel_post s who id a W Hacc Ea) as (cs & ->).
  destruct (find_auction_id _ _ _ Ea) as [Hid _].
  destruct (cancel_bank_store s id a) as (E1 & E2 & E3 & E4 & E5 & E6 & E7 & E8 & E9 & E10 & E11).
  assert (Hauc : st_auctions (put_auction (with_trace (cancel_bank s id a) (st_trace s ++ cs)) (cancelled a))
                 = map (fun x => if N.eqb (a_id x) id then cancelled a else x) (st_auctions s)).
  { sp. rewrite E2, cancelled_id, Hid. reflexivity. }
  split; [|split].
  - exists (cancelled a). split.
    + unfold find_auction. rewrite Hauc.
      rewrite (find_map_hit (fun x => N.eqb (a_id x) id) (cancelled a)).
      * unfold find_auction in Ea. rewrite Ea. reflexivity.
      * rewrite cancelled_id, Hid. apply N.eqb_refl.
    + apply cancelled_fields. exact Hauc.
  - intros j Hj. unfold find_auction. rewrite Hauc.
    apply find_map_miss.
    + rewrite cancelled_id, Hid. apply N.eqb_neq. congruence.
    + intros x Hx. apply N.eqb_eq in Hx. apply N.eqb_neq. congruence.
  - sp. repeat split; try assumption.
    + unfold cancel_bank. cbv zeta. destruct (_ =? 0); sp; [rewrite app_nil_r|]; reflexivity.
    + unfold cancel_bank. cbv zeta.
      destruct (st_bal s (Escrow Selling id) (a_sell_denom a) =? 0) eqn:E0; sp.
      * apply Z.eqb_eq. exact E0.
      * rewrite move_from by reflexivity. rewrite N.eqb_refl. lia.
    + unfold cancel_bank. cbv zeta.
      destruct (st_bal s (Escrow Selling id) (a_sell_denom a) =? 0) eqn:E0; sp.
      * apply Z.eqb_eq in E0. lia.
      * unfold move, bal_upd. rewrite addr_eqb_refl, N.eqb_refl. cbn [andb].
        replace (addr_eqb (User (a_auctioneer a)) (Escrow Selling id)) with false by reflexivity.
        cbn [andb]. lia.
Qed.

Theorem C12_never_after_open_proof s id a who :
  find_auction s id = Some a -> a_status a <> StandBy ->
  exists c, fst (deliver_tx s (MCancel who id)) = Rejected c.
Proof.
  intros Ea Hst. destruct (deliver_outcome s (MCancel who id)) as [Hacc|Hrej]; [|exact Hrej].
  exfalso. destruct (deliver_accepted_inv _ _ Hacc) as (c & s1 & Hc & Hh & _).
  unfold check_basic in Hc. destruct who as [up u|]; [|discriminate Hc]. inversion Hc. subst c.
  cbn [handle] in Hh. unfold cancel, fail in Hh. rewrite Ea in Hh.
  destruct (N.eqb (a_auctioneer a) u); cbn [negb] in Hh; [|discriminate Hh].
  destruct (status_eqb (a_status a) StandBy) eqn:Es; cbn [negb] in Hh; [|discriminate Hh].
  apply status_eqb_eq in Es. exact (Hst Es).
Qed.

(* ================================================================== C11 *)
Lemma check_basic_modify who id bid_id price coin c :
  check_basic (MModifyBid who id bid_id price coin) = Some c <->
  exists up u p d amt,
    who = AGood up u /\ price = Some p /\ 0 < p /\ mc_denom coin = Some d /\ mc_amt coin = Some amt /\
    0 < amt /\ c = CModifyBid u id bid_id p d amt.
Proof.
  unfold check_basic, check_pos, check_coin. split.
  - intros H. destruct who as [up u|]; [|discriminate H].
    destruct price as [p|]; [|discriminate H].
    destruct (0 <? p) eqn:Ep; [|discriminate H].
    destruct (mc_denom coin) as [d|]; [|discriminate H].
    destruct (mc_amt coin) as [amt|]; [|discriminate H].
    destruct (0 <? amt) eqn:Ea; [|discriminate H].
    apply Z.ltb_lt in Ep. apply Z.ltb_lt in Ea. inversion H.
    exists up, u, p, d, amt. repeat split; assumption.
  - intros (up & u & p & d & amt & -> & -> & Hp & -> & -> & Ha & ->).
    apply Z.ltb_lt in Hp. apply Z.ltb_lt in Ha. rewrite Hp, Ha. reflexivity.
Qed.

Theorem C11_modify_iff_proof s who id bid_id price coin :
  WF s ->
  (fst (deliver_tx s (MModifyBid who id bid_id price coin)) = Accepted <->
   exists up u p d amt a b,
     (* a well-formed message *)
     who = AGood up u /\ price = Some p /\ 0 < p /\ mc_denom coin = Some d /\ mc_amt coin = Some amt /\ 0 < amt /\
     (* a started batch auction and one of the signer's bids in it *)
     find_auction s id = Some a /\ find_bid s id bid_id = Some b /\
     a_type a = Batch /\ a_status a = Started /\ b_bidder b = u /\
     (* the new terms *)
     a_min_price a <= p /\ d = b_denom b /\ b_price b <= p /\ b_amt b <= amt /\
     (b_price b < p \/ b_amt b < amt) /\
     (* the signer can pay the increase of the reservation *)
     pay_amount (a_pay_denom a) (set_b_terms b p amt) - pay_amount (a_pay_denom a) b
       <= st_bal s (User u) (a_pay_denom a) /\
     no_veto s H_BeforeBidModified = true).
Proof.
  intros W. rewrite accepted_deliver. split.
  - intros (c & Hc & Hok). apply check_basic_modify in Hc.
    destruct Hc as (up & u & p & d & amt & Hw & Hpr & Hp & Hd & Ham & Ha & ->).
    cbn [handle] in Hok. apply (modify_ok_iff s u id bid_id p d amt W) in Hok.
    unfold modify_precond in Hok.
    destruct (find_auction s id) as [a|] eqn:Ea; [|discriminate Hok].
    destruct (find_bid s id bid_id) as [b|] eqn:Eb; [|discriminate Hok].
    b2p; exists up, u, p, d, amt, a, b; repeat split; try assumption; try lia; try congruence.
  - intros (up & u & p & d & amt & a & b & Hw & Hpr & Hp & Hd & Ham & Ha & Ea & Eb & Hty & Hst & Hu & Hmin &
            Hden & Hpl & Hal & Hstrict & Hfunds & Hv).
    exists (CModifyBid u id bid_id p d amt). split.
    + apply check_basic_modify. exists up, u, p, d, amt. repeat split; assumption.
    + cbn [handle]. apply (modify_ok_iff s u id bid_id p d amt W). unfold modify_precond.
      rewrite Ea, Eb. p2b; try assumption; try lia; try congruence.
Qed.

Lemma modify_bank_store s u id pd diff :
  st_params (modify_bank s u id pd diff) = st_params s /\ st_auctions (modify_bank s u id pd diff) = st_auctions s /\
  st_bids (modify_bank s u id pd diff) = st_bids s /\ st_allowed (modify_bank s u id pd diff) = st_allowed s /\
  st_vqs (modify_bank s u id pd diff) = st_vqs s /\ st_aseq (modify_bank s u id pd diff) = st_aseq s /\
  st_bseq (modify_bank s u id pd diff) = st_bseq s /\ st_mlen (modify_bank s u id pd diff) = st_mlen s /\
  st_now (modify_bank s u id pd diff) = st_now s /\ st_listeners (modify_bank s u id pd diff) = st_listeners s /\
  st_switch (modify_bank s u id pd diff) = st_switch s.
Proof. unfold modify_bank. destruct (0 <? diff); repeat split; reflexivity. Qed.

Theorem C11_effects_proof s up u id bid_id p d amt a b :
  WF s -> bids_pos s ->
  let m := MModifyBid (AGood up u) id bid_id (Some p) {| mc_denom := Some d; mc_amt := Some amt |} in
  fst (deliver_tx s m) = Accepted -> find_auction s id = Some a -> find_bid s id bid_id = Some b ->
  let s' := snd (deliver_tx s m) in
  let b' := set_b_terms b p amt in
  let pd := a_pay_denom a in
  let diff := pay_amount pd b' - pay_amount pd b in
  (* the bid carries the new terms, everything else about it is unchanged *)
  find_bid s' id bid_id = Some b' /\
  b_auction b' = b_auction b /\ b_id b' = b_id b /\ b_bidder b' = b_bidder b /\ b_type b' = b_type b /\
  b_denom b' = b_denom b /\ b_matched b' = b_matched b /\ b_price b' = p /\ b_amt b' = amt /\
  (* no bid is removed or added, every other bid is unchanged *)
  st_bids s' = map (fun x => if N.eqb (b_auction x) id && N.eqb (b_id x) bid_id then b' else x) (st_bids s) /\
  length (st_bids s') = length (st_bids s) /\
  (forall i j, i <> id \/ j <> bid_id -> find_bid s' i j = find_bid s i j) /\
  (* the rest of the store is unchanged *)
  st_params s' = st_params s /\ st_auctions s' = st_auctions s /\ st_allowed s' = st_allowed s /\
  st_vqs s' = st_vqs s /\ st_aseq s' = st_aseq s /\ st_bseq s' = st_bseq s /\ st_mlen s' = st_mlen s /\
  st_now s' = st_now s /\ st_listeners s' = st_listeners s /\ st_switch s' = st_switch s /\
  (* the reservation never decreases; exactly its increase is moved into the paying escrow *)
  0 <= diff /\
  st_xfers s' = st_xfers s ++
                (if 0 <? diff
                 then [{| x_from := User u; x_to := Escrow Paying id; x_denom := pd; x_amt := diff |}]
                 else []) /\
  st_bal s' (User u) pd = st_bal s (User u) pd - diff /\
  st_bal s' (Escrow Paying id) pd = st_bal s (Escrow Paying id) pd + diff.
Proof.
  intros W Hpos. cbv zeta. intros Hacc Ea Eb.
  destruct (deliver_accepted_inv _ _ Hacc) as (c & s1 & Hc & Hh & Hs). rewrite Hs. clear Hs.
  apply check_basic_modify in Hc.
  destruct Hc as (up' & u' & p' & d' & amt' & Hw & Hpr & Hp & Hd & Ham & Hamt & ->).
  cbn [mc_denom mc_amt] in Hd, Ham.
  injection Hw as Hup Hu. injection Hpr as Hpp. injection Hd as Hdd. injection Ham as Haa.
  subst up' u' p' d' amt'. cbn [handle] in Hh.
  (* the acceptance conditions *)
  assert (Hok : is_ok (modify_bid s u id bid_id p d amt)) by (exists s1; exact Hh).
  apply (modify_ok_iff s u id bid_id p d amt W) in Hok. unfold modify_precond in Hok.
  rewrite Ea, Eb in Hok.
  destruct (modify_effect s u id bid_id p d amt a b s1 W Ea Eb Hh) as (cs & ->).
  destruct (find_bid_key _ _ _ _ Eb) as (Hba & Hbi & Hin).
  destruct (find_auction_id _ _ _ Ea) as (_ & Hina).
  destruct (modify_bank_store s u id (a_pay_denom a)
              (pay_amount (a_pay_denom a) (set_b_terms b p amt) - pay_amount (a_pay_denom a) b))
    as (E1 & E2 & E3 & E4 & E5 & E6 & E7 & E8 & E9 & E10 & E11).
  set (diff := pay_amount (a_pay_denom a) (set_b_terms b p amt) - pay_amount (a_pay_denom a) b) in *.
  assert (Hdiff : 0 <= diff).
  { assert (Hfacts : a_type a = Batch /\ b_price b <= p /\ b_amt b <= amt).
    { clear - Hok. b2p; repeat split; assumption. }
    destruct Hfacts as (Hty & Hc3 & Hc2).
    assert (Hfa : find_auction s (b_auction b) = Some a) by (rewrite Hba; exact Ea).
    destruct (Hpos b Hin) as [Hbp Hbam].
    subst diff.
    destruct (wf_batch_bids s W b a Hin Hfa Hty) as [[Hbt Hbd]|[Hbt Hbd]].
    - rewrite (pay_amount_same (a_pay_denom a) b Hbd).
      rewrite (pay_amount_same (a_pay_denom a) (set_b_terms b p amt) Hbd).
      cbn [set_b_terms b_amt]. lia.
    - pose proof (wf_denoms s W a Hina) as Hden.
      assert (Hne : b_denom b <> a_pay_denom a) by congruence.
      rewrite (pay_amount_other (a_pay_denom a) b Hne).
      rewrite (pay_amount_other (a_pay_denom a) (set_b_terms b p amt) Hne).
      cbn [set_b_terms b_amt b_price].
      pose proof (pay_of_qty_mono (b_amt b) (b_price b) amt p ltac:(lia) ltac:(lia) Hc2 Hc3). lia. }
  assert (Hbids : st_bids (put_bid (with_trace (modify_bank s u id (a_pay_denom a) diff) (st_trace s ++ cs))
                             (set_b_terms b p amt))
                  = map (fun x => if N.eqb (b_auction x) id && N.eqb (b_id x) bid_id
                                  then set_b_terms b p amt else x) (st_bids s)).
  { sp. rewrite E3. cbn [set_b_terms b_auction b_id]. rewrite Hba, Hbi. reflexivity. }
  split.
  { unfold find_bid. rewrite Hbids.
    rewrite (find_map_hit (fun x => N.eqb (b_auction x) id && N.eqb (b_id x) bid_id) (set_b_terms b p amt)).
    - unfold find_bid in Eb. rewrite Eb. reflexivity.
    - cbn [set_b_terms b_auction b_id]. rewrite Hba, Hbi, !N.eqb_refl. reflexivity. }
  do 8 (split; [reflexivity|]).
  split; [exact Hbids|].
  split; [rewrite Hbids; apply map_length|].
  split.
  { intros i j Hij. unfold find_bid. rewrite Hbids. apply find_map_miss.
    - cbn [set_b_terms b_auction b_id]. rewrite Hba, Hbi. apply andb_false_iff.
      destruct Hij as [Hi|Hj]; [left|right]; apply N.eqb_neq; congruence.
    - intros x Hx. apply andb_true_iff in Hx. destruct Hx as [Hx1 Hx2].
      apply N.eqb_eq in Hx1. apply N.eqb_eq in Hx2. apply andb_false_iff.
      destruct Hij as [Hi|Hj]; [left|right]; apply N.eqb_neq; congruence. }
  sp. do 10 (split; [assumption|]).
  split; [exact Hdiff|].
  unfold modify_bank. destruct (0 <? diff) eqn:Ed; sp.
  - split; [reflexivity|]. split.
    + rewrite move_from by reflexivity. rewrite N.eqb_refl. reflexivity.
    + unfold move, bal_upd. rewrite addr_eqb_refl, N.eqb_refl. cbn [andb].
      replace (addr_eqb (Escrow Paying id) (User u)) with false by reflexivity. cbn [andb]. reflexivity.
  - apply Z.ltb_ge in Ed. assert (diff = 0) as -> by lia.
    split; [rewrite app_nil_r; reflexivity|]. split; lia.
Qed.
