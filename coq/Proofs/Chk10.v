(* Checker link for C10: Checkers.c10_ok never fires on a transition of the model from a state satisfying Inv.
   (1) every bid of the post-state belongs to an account that had an allow-list entry in the pre-state
       (AllowFacts.step_step_rel + the invariant part bids_allowed);
   (2) with the switch off no transaction changes the allow-list (AllowFacts.gate_tx);
   (3) with the switch off MsgAddAllowedBidder is rejected (AllowFacts.gate_add_rejected). *)
From Coq Require Import ZArith NArith List Bool Arith Lia.
From FR Require Import Dec Types Bank Match Step Genesis Model Spec Checkers.
From FR.Proofs Require Import InvDefs InvAll FixedFacts AllowFacts Chk18.
Import ListNotations.
Open Scope Z_scope.

(* (1) *)
Lemma c10_entries s o b' :
  InvDefs.bids_allowed s -> In b' (st_bids (snd (step s o))) ->
  find_allowed s (b_auction b') (b_bidder b') <> None.
Proof.
  intros BA Hb'. destruct (step_step_rel s o) as [_ H].
  destruct (H b' Hb') as [(b & Hb & Ea & Eu)|K]; [|exact K].
  rewrite <- Ea, <- Eu. apply BA. exact Hb.
Qed.

Theorem c10_ok_model s o : Inv s -> c10_ok (model_trans s o) = true.
Proof.
  intros I. pose proof (Inv_ghost_reset s I) as I0.
  unfold model_trans. fold (ghost_reset s).
  destruct (step (ghost_reset s) o) as [out s'] eqn:Es.
  assert (Es1 : fst (step (ghost_reset s) o) = out) by (rewrite Es; reflexivity).
  assert (Es2 : snd (step (ghost_reset s) o) = s') by (rewrite Es; reflexivity).
  unfold c10_ok. cbn [t_post t_pre t_op t_class].
  apply andb_true_iff. split; [apply andb_true_iff; split|].
  - apply forallb_forall. intros b' Hb'. apply orb_true_iff. right.
    assert (K : find_allowed s (b_auction b') (b_bidder b') <> None).
    { apply (c10_entries (ghost_reset s) o b' (inv_bids_allowed _ I0)). rewrite Es2. exact Hb'. }
    destruct o; try reflexivity;
      (destruct (find_allowed s (b_auction b') (b_bidder b')); [reflexivity|exfalso; apply K; reflexivity]).
  - destruct o as [m| | | | | | |]; try reflexivity.
    destruct (st_switch s) eqn:Sw; [reflexivity|]. cbn [orb].
    cbn [step] in Es2. rewrite <- Es2.
    rewrite (gate_tx (ghost_reset s) Sw m). apply same_allowed_refl.
  - destruct o as [m| | | | | | |]; try (destruct (class_of out); reflexivity).
    destruct m as [| | | | |a ea who max|]; try (destruct (class_of out); reflexivity).
    destruct (st_switch s) eqn:Sw; [destruct (class_of out); reflexivity|].
    cbn [step] in Es1. rewrite (gate_add_rejected (ghost_reset s) Sw a ea who max) in Es1.
    cbn [fst] in Es1. rewrite <- Es1. reflexivity.
Qed.
