(* Checker links, common part for the fixed price clauses of c04_ok and c05_ok: everything an accepted fixed price
   bid does - the record appended, the remainder, the allowance it was accepted under, the transfers.  No axioms. *)
From Coq Require Import ZArith NArith List Bool Arith Lia.
From FR Require Import Dec Types Bank Match Step Genesis Model Spec Checkers.
From FR.Proofs Require Import InvDefs EscrowBase Ledger LedgerCharges.
From FR.Proofs Require FrameFacts TxFacts InvAll FixedFacts LifeTheorems PublishFacts PrecondFacts PrecondBase
     LedgerChecker.
Import ListNotations.
Open Scope Z_scope.

Lemma sell_amount_ext pd b b' :
  b_denom b = b_denom b' -> b_amt b = b_amt b' -> b_price b = b_price b' -> sell_amount pd b = sell_amount pd b'.
Proof. intros E1 E2 E3. unfold sell_amount. rewrite E1, E2, E3. reflexivity. Qed.

Lemma find_allowed_of (l : list allowed) id u :
  find (fun x => N.eqb (al_bidder x) u) (filter (fun x => N.eqb (al_auction x) id) l)
  = find (fun x => N.eqb (al_auction x) id && N.eqb (al_bidder x) u) l.
Proof.
  induction l as [|x r IH]; [reflexivity|]. cbn [filter find].
  destruct (N.eqb (al_auction x) id); cbn [andb find]; [|exact IH].
  destruct (N.eqb (al_bidder x) u); [reflexivity|exact IH].
Qed.

Lemma cap_of_find_allowed s id u :
  cap_of (allowed_of s id) u = match find_allowed s id u with Some al => al_max al | None => 0 end.
Proof. unfold cap_of, allowed_of, find_allowed. rewrite find_allowed_of. reflexivity. Qed.

Theorem fixed_bid_effect s m u id price d amt :
  Inv s -> check_basic m = Some (CPlaceBid u id BFixed price d amt) -> fst (step s (OTx m)) = Accepted ->
  let s' := snd (step s (OTx m)) in
  exists a a' nb,
    find_auction s id = Some a /\ find_auction s' id = Some a'
    /\ a_type a = FixedPrice /\ a_status a = Started /\ LifeTheorems.terms0_eq a a'
    /\ bids_of s' id = bids_of s id ++ [nb]
    /\ b_bidder nb = u /\ b_price nb = price /\ b_denom nb = d /\ b_amt nb = amt
    /\ (d = a_pay_denom a \/ d = a_sell_denom a) /\ price = a_start_price a
    /\ 0 < price /\ 0 < amt
    /\ a_remaining a' = a_remaining a - sell_amount (a_pay_denom a) nb
    /\ sumZ (map (sell_amount (a_pay_denom a)) (filter (fun x => N.eqb (b_bidder x) u) (bids_of s id)))
       + sell_amount (a_pay_denom a) nb <= cap_of (allowed_of s id) u
    /\ step_xfers s (OTx m)
       = coin_xfers (User u) Pool (p_bfee (st_params s))
         ++ send_xf (User u) (Escrow Paying id) (a_pay_denom a) (pay_amount (a_pay_denom a) nb).
Proof.
  intros I CB Hacc s'. subst s'.
  pose proof (LedgerCharges.step_xfers_accepted s (OTx m) I Hacc) as Ex.
  pose proof (InvAll.Inv_step s (OTx m) I) as I'.
  assert (Hpre : precond s m = true).
  { cbn [step] in Hacc. apply (PrecondFacts.C18_exact_proof s m (FixedFacts.Inv_WF s I)). exact Hacc. }
  assert (Hpos : 0 < price /\ 0 < amt).
  { destruct m as [| | |who id' btn price' coin| | |]; cbn [check_basic] in CB; try discriminate;
      try (destruct who; discriminate);
      try (repeat match type of CB with context [match ?x with _ => _ end] => destruct x end; discriminate).
    destruct who as [up u'|]; [|discriminate].
    destruct (check_pos price') as [p|] eqn:Ep; [|discriminate].
    destruct (check_coin coin) as [[d' amt']|] eqn:Ec; [|discriminate].
    destruct (decode_btype btn) as [t|] eqn:Dt; [|discriminate]. injection CB as -> -> -> -> -> ->.
    unfold check_pos in Ep. destruct price' as [z|]; [|discriminate]. destruct (0 <? z) eqn:Ez; [|discriminate].
    injection Ep as ->. unfold check_coin in Ec. destruct (mc_denom coin); [|discriminate].
    destruct (mc_amt coin) as [z|]; [|discriminate]. destruct (0 <? z) eqn:Ez'; [|discriminate]. injection Ec as -> ->.
    split; apply Z.ltb_lt; assumption. }
  assert (Hs : exists s1, place_bid s u id BFixed price d amt = Ok s1 /\ snd (step s (OTx m)) = s1).
  { cbn [step] in *. unfold deliver_tx in *. rewrite CB in *. cbn [handle] in *.
    apply LedgerCharges.commit_accepted in Hacc. exact Hacc. }
  destruct Hs as (s1 & Hp & Es1).
  destruct (PublishFacts.place_bid_flag _ _ _ _ _ _ _ _ Hp)
    as (a & nb & Fa & St & Eb & B1 & _ & B3 & _ & B5 & B6 & B7 & Ty & _ & Dn & Pr).
  destruct (LifeTheorems.L_C19_terms s (OTx m) id a (InvAll.Inv_ids_ok s I) ltac:(discriminate) Fa) as (a' & Fa' & T & _).
  exists a, a', nb. rewrite Es1 in *.
  assert (Ebids : bids_of s1 id = bids_of s id ++ [nb]).
  { unfold bids_of. rewrite Eb, filter_app. cbn [filter]. rewrite B1, N.eqb_refl. reflexivity. }
  destruct (PrecondBase.find_auction_id _ _ _ Fa) as [Ida Ina].
  destruct (PrecondBase.find_auction_id _ _ _ Fa') as [Ida' Ina'].
  destruct T as (T1 & T2 & T3 & T4 & T5 & T6 & T7 & T8 & T9) .
  split; [exact Fa|]. split; [exact Fa'|]. split; [exact Ty|]. split; [exact St|].
  split; [repeat split; try assumption; apply T9|].
  split; [exact Ebids|]. split; [exact B3|]. split; [exact B5|]. split; [exact B6|]. split; [exact B7|].
  split; [exact Dn|]. split; [exact Pr|]. split; [apply Hpos|]. split; [apply Hpos|].
  split; [|split].
  - (* the remainder, from the invariant before and after *)
    pose proof (inv_remaining _ I a Ina Ty) as R. rewrite St in R. cbn [status_eqb] in R. rewrite Ida in R.
    assert (Ty' : a_type a' = FixedPrice) by congruence.
    pose proof (inv_remaining _ I' a' Ina' Ty') as R'. rewrite Ida' in R'.
    assert (St' : a_status a' = Started).
    { assert (F1 : find_auction (snd (step s (OTx m))) id = Some a') by (rewrite Es1; exact Fa').
      destruct (LifeTheorems.L_C08_only_block_or_cancel s (OTx m) id a a' ltac:(discriminate) eq_refl Fa F1)
        as [E|(_ & _ & E & _)]; congruence. }
    rewrite St' in R'. cbn [status_eqb] in R'. rewrite Ebids, map_app, EscrowBase.sumZ_app in R'.
    cbn [map] in R'. rewrite EscrowBase.sumZ_cons in R'. cbn [sumZ fold_right] in R'. rewrite T7, T8 in R'. lia.
  - (* the allowance *)
    unfold precond in Hpre. rewrite CB in Hpre. apply andb_true_iff in Hpre. destruct Hpre as [Hf _].
    unfold fixed_bid_precond in Hf. rewrite Fa in Hf. cbv zeta in Hf.
    repeat (apply andb_true_iff in Hf; destruct Hf as [Hf ?]).
    rewrite cap_of_find_allowed. destruct (find_allowed s id u) as [al|]; [|discriminate].
    match goal with H : (_ <=? al_max al) = true |- _ => apply Z.leb_le in H; rename H into Hal end.
    rewrite (sell_amount_ext (a_pay_denom a) nb
               {| b_auction := id; b_id := 0; b_bidder := u; b_type := BFixed; b_price := price; b_denom := d;
                  b_amt := amt; b_matched := false |}) by (cbn; assumption).
    exact Hal.
  - rewrite Ex. cbn [tx_xfers]. rewrite CB, Fa. f_equal. f_equal.
    apply LedgerCharges.pay_amount_ext; cbn; congruence.
Qed.

(* the same for the monitored transition *)
Lemma model_trans_accepted s o :
  t_class (model_trans s o) = KOk -> fst (step (FixedFacts.ghost_reset s) o) = Accepted.
Proof.
  destruct (LedgerChecker.model_trans_fields s o) as (_ & _ & E & _). rewrite E. intros H.
  apply FixedFacts.class_ok_iff. change (LedgerChecker.fresh_logs s) with (FixedFacts.ghost_reset s) in H.
  rewrite H. reflexivity.
Qed.
