(* The module's own three invariants (keeper/invariants.go: selling-, paying- and vesting-pool-reserve-amount, which
   compare with >= and are never registered with the application) transcribed as predicates over the model state, and
   proved for every reachable state as corollaries of the escrow part of the global invariant.  They are strictly
   weaker than C01 (exact equality up to third-party deposits, Properties/C01.v). *)
From Coq Require Import ZArith NArith List Bool Lia.
From FR Require Import Dec Types Bank Match Step Genesis Model Spec.
From FR Require Import Checkers.
From FR.Proofs Require Import InvDefs InvAll EscrowBase FixedFacts.
From FR.Proofs Require ExcessAll.
Import ListNotations.
Open Scope Z_scope.

(* SellingPoolReserveAmountInvariant: every started auction's selling reserve holds at least the selling coin *)
Definition selling_pool_reserve_amount (s : state) : Prop :=
  forall a, In a (st_auctions s) -> a_status a = Started ->
    a_sell_amt a <= st_bal s (Escrow Selling (a_id a)) (a_sell_denom a).

(* PayingPoolReserveAmountInvariant: every auction's paying reserve holds at least the paying amounts of its bids
   (counted only while the auction is started) *)
Definition paying_pool_reserve_amount (s : state) : Prop :=
  forall a, In a (st_auctions s) ->
    (if status_eqb (a_status a) Started then sumZ (map (pay_amount (a_pay_denom a)) (bids_of s (a_id a))) else 0)
    <= st_bal s (Escrow Paying (a_id a)) (a_pay_denom a).

(* VestingPoolReserveAmountInvariant: every auction's vesting reserve holds at least its unreleased instalments
   (counted only while the auction is vesting) *)
Definition vesting_pool_reserve_amount (s : state) : Prop :=
  forall a, In a (st_auctions s) ->
    (if status_eqb (a_status a) VestingS
     then sumZ (map v_amt (filter (fun v => negb (v_released v)) (vqs_of s (a_id a)))) else 0)
    <= st_bal s (Escrow Vesting (a_id a)) (a_pay_denom a).

Theorem module_invariants_hold : forall s, Inv s ->
  selling_pool_reserve_amount s /\ paying_pool_reserve_amount s /\ vesting_pool_reserve_amount s.
Proof.
  intros s I. destruct (inv_escrow _ I) as [B E]. repeat split.
  - intros a Ha St. specialize (E Selling (a_id a) (a_sell_denom a)). unfold owed in E.
    rewrite (Inv_find_in s a I Ha), N.eqb_refl, St in E. exact E.
  - intros a Ha. specialize (E Paying (a_id a) (a_pay_denom a)). unfold owed in E.
    rewrite (Inv_find_in s a I Ha), N.eqb_refl in E. cbn [andb] in E.
    destruct (status_eqb (a_status a) Started); [exact E|apply B].
  - intros a Ha. specialize (E Vesting (a_id a) (a_pay_denom a)). unfold owed in E.
    rewrite (Inv_find_in s a I Ha), N.eqb_refl in E. cbn [andb] in E.
    destruct (status_eqb (a_status a) VestingS); [exact E|apply B].
Qed.

(* the executable versions evaluated by the driver say the same *)
Lemma selling_pool_b_spec s : selling_pool_b s = true <-> selling_pool_reserve_amount s.
Proof.
  unfold selling_pool_b, selling_pool_reserve_amount. rewrite forallb_forall. split.
  - intros H a Ha St. specialize (H a Ha). rewrite St in H. cbn in H. apply Z.leb_le. exact H.
  - intros H a Ha. destruct (status_eqb (a_status a) Started) eqn:E; [|reflexivity]. cbn.
    apply Z.leb_le, H; [exact Ha|]. destruct (a_status a); try discriminate E; reflexivity.
Qed.
Lemma paying_pool_b_spec s : paying_pool_b s = true <-> paying_pool_reserve_amount s.
Proof.
  unfold paying_pool_b, paying_pool_reserve_amount. rewrite forallb_forall.
  split; intros H a Ha; specialize (H a Ha); apply Z.leb_le; exact H.
Qed.
Lemma vesting_pool_b_spec s : vesting_pool_b s = true <-> vesting_pool_reserve_amount s.
Proof.
  unfold vesting_pool_b, vesting_pool_reserve_amount. rewrite forallb_forall.
  split; intros H a Ha; specialize (H a Ha); apply Z.leb_le; exact H.
Qed.

Theorem module_invariants_b_hold s : Inv s -> module_invariants_b s = true.
Proof.
  intros I. destruct (module_invariants_hold s I) as (A & B & C). unfold module_invariants_b.
  rewrite (proj2 (selling_pool_b_spec s) A), (proj2 (paying_pool_b_spec s) B), (proj2 (vesting_pool_b_spec s) C). reflexivity.
Qed.

(* link for the checker c01_all evaluated by the driver on every implementation transition *)
Theorem c01_all_model s o : Inv s -> c01_all (model_trans s o) = true.
Proof.
  intros I. unfold c01_all. rewrite (ExcessAll.c01_ok_model s o I). cbn [andb].
  unfold c01_mi, model_trans. fold (ghost_reset s).
  pose proof (Inv_step (ghost_reset s) o (Inv_ghost_reset s I)) as I'.
  destruct (step (ghost_reset s) o) as [out s'] eqn:Es. cbn [t_post]. apply module_invariants_b_hold. exact I'.
Qed.
