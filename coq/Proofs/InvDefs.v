(* The global invariant of reachable states, as a conjunction of named parts.  Definitions only;
   the preservation proofs are in Proofs/Inv*.v.  Each part is phrased so that it can be preserved on
   its own, possibly assuming earlier parts. *)
From Coq Require Import ZArith NArith List Bool Arith.
From FR Require Import Dec Types Bank Match Step Genesis Model Spec.
Import ListNotations.
Open Scope Z_scope.

(* J1  auction ids are 0, 1, 2, ... in store order *)
Definition ids_seq (s : state) : Prop := map a_id (st_auctions s) = ids_upto (st_aseq s).

(* J2  static well-formedness of an auction record *)
Definition scheds_wf (a : auction) : Prop :=
  a_scheds a = [] \/ scheds_ok (a_scheds a) (first_end a) year1_ns 0 = true.
Record auction_wf (a : auction) : Prop := {
  awf_price : 0 < a_start_price a;
  awf_amt : 0 < a_sell_amt a;
  awf_denoms : a_sell_denom a <> a_pay_denom a;
  awf_ends : (1 <= length (a_ends a) <= N.to_nat (a_max_round a) + 1)%nat;
  awf_maxr : (a_max_round a <= MaxExtendedRound)%N;
  awf_scheds : scheds_wf a;
  awf_nscheds : (length (a_scheds a) <= MaxNumVestingSchedules)%nat;
  awf_batch : a_type a = Batch -> 0 < a_min_price a /\ 0 < a_rate a /\ a_remaining a = 0 /\ 0 <= a_matched_price a;
  awf_fixed : a_type a = FixedPrice ->
              a_min_price a = 0 /\ a_rate a = 0 /\ a_max_round a = 0%N /\ a_matched_price a = 0
              /\ 0 <= a_remaining a <= a_sell_amt a
}.
Definition auctions_wf (s : state) : Prop := Forall auction_wf (st_auctions s).

(* J3  bids *)
Record bid_wf (s : state) (b : bid) : Prop := {
  bwf_price : 0 < b_price b;
  bwf_amt : 0 < b_amt b;
  bwf_id : (1 <= b_id b <= st_bseq s (b_auction b))%N;
  bwf_auction : exists a, find_auction s (b_auction b) = Some a
      /\ match a_type a with
         | FixedPrice => b_type b = BFixed /\ (b_denom b = a_pay_denom a \/ b_denom b = a_sell_denom a)
                         /\ b_price b = a_start_price a
                         /\ b_matched b = (0 <? sell_amount (a_pay_denom a) b)
         | Batch => ((b_type b = BWorth /\ b_denom b = a_pay_denom a) \/ (b_type b = BMany /\ b_denom b = a_sell_denom a))
                    /\ a_min_price a <= b_price b
         end
      /\ a_status a <> StandBy /\ a_status a <> Cancelled
}.
Definition bids_wf (s : state) : Prop :=
  Forall (bid_wf s) (st_bids s)
  (* per auction the ids are exactly 1, 2, ..., bid_seq in store order *)
  /\ forall id, map b_id (bids_of s id) = map N.succ (ids_upto (st_bseq s id)).

(* J4  allow-list *)
Definition allowed_wf (s : state) : Prop :=
  Forall (fun x => 0 < al_max x) (st_allowed s)
  /\ NoDup (map (fun x => (al_auction x, al_bidder x)) (st_allowed s)).

(* J5  every recorded bid belongs to an allow-listed account (C10) *)
Definition bids_allowed (s : state) : Prop :=
  forall b, In b (st_bids s) -> find_allowed s (b_auction b) (b_bidder b) <> None.

(* J6  fixed price: the published remainder is exact (C06) *)
Definition remaining_inv (s : state) : Prop :=
  forall a, In a (st_auctions s) -> a_type a = FixedPrice ->
    if status_eqb (a_status a) Cancelled then a_remaining a = 0
    else a_remaining a = a_sell_amt a - sumZ (map (sell_amount (a_pay_denom a)) (bids_of s (a_id a))).

(* J7  vesting queues *)
Record vq_wf (s : state) (v : vq) : Prop := {
  vwf_amt : 0 <= v_amt v;
  vwf_auction : exists a, find_auction s (v_auction v) = Some a
      /\ (a_status a = VestingS \/ a_status a = Finished)
      /\ v_auctioneer v = a_auctioneer a /\ v_denom v = a_pay_denom a
      /\ In (v_time v) (map s_time (a_scheds a))
      /\ (a_status a = Finished -> v_released v = true)
}.
Definition vqs_wf (s : state) : Prop :=
  Forall (vq_wf s) (st_vqs s)
  /\ NoDup (map (fun v => (v_auction v, v_time v)) (st_vqs s))
  (* per auction: release times as in the schedule (hence ascending); released flags form a prefix *)
  /\ forall a, In a (st_auctions s) -> (a_status a = VestingS \/ a_status a = Finished) ->
       a_scheds a <> [] ->
       map v_time (vqs_of s (a_id a)) = map s_time (a_scheds a)
       /\ exists k, map v_released (vqs_of s (a_id a))
                    = repeat true k ++ repeat false (length (a_scheds a) - k).

(* J8  escrow accounts hold at least what the records owe, and no balance is negative (C01, inequality form;
   the exact form is the step-wise excess equation of Checkers.c01_ok) *)
Definition is_open (st : status) : bool := status_eqb st StandBy || status_eqb st Started.
Definition owed (s : state) (r : role) (id : N) (d : N) : Z :=
  match find_auction s id with
  | None => 0
  | Some a =>
      match r with
      | Selling => if N.eqb d (a_sell_denom a) && is_open (a_status a) then a_sell_amt a else 0
      | Paying => if N.eqb d (a_pay_denom a) && status_eqb (a_status a) Started
                  then sumZ (map (pay_amount (a_pay_denom a)) (bids_of s id)) else 0
      | Vesting => if N.eqb d (a_pay_denom a) && status_eqb (a_status a) VestingS
                   then sumZ (map v_amt (filter (fun v => negb (v_released v)) (vqs_of s id))) else 0
      end
  end.
Definition escrow_inv (s : state) : Prop :=
  (forall x d, 0 <= st_bal s x d) /\ forall r id d, owed s r id d <= st_bal s (Escrow r id) d.

(* J9  the recorded number of matched bids of a batch auction is the number of its flagged bids *)
Definition mlen_inv (s : state) : Prop :=
  forall id, match find_auction s id with
             | Some a => match a_type a with
                         | Batch => st_mlen s id = count_matched (st_bids s) id
                         | FixedPrice => st_mlen s id = 0
                         end
             | None => st_mlen s id = 0
             end.

(* J10  parameters *)
Definition params_wf (s : state) : Prop :=
  coins_ok (p_cfee (st_params s)) None = true /\ coins_ok (p_bfee (st_params s)) None = true.

(* J11  counters of auctions that do not exist yet are zero; an auction waiting to open has no bids *)
Definition fresh_inv (s : state) : Prop :=
  (forall id, (st_aseq s <= id)%N -> st_bseq s id = 0%N /\ bids_of s id = [] /\ allowed_of s id = [] /\ vqs_of s id = [] /\ st_mlen s id = 0)
  /\ forall a, In a (st_auctions s) -> a_status a = StandBy \/ a_status a = Cancelled -> bids_of s (a_id a) = [].

Record Inv (s : state) : Prop := {
  inv_ids : ids_seq s;
  inv_auctions : auctions_wf s;
  inv_bids : bids_wf s;
  inv_allowed : allowed_wf s;
  inv_bids_allowed : bids_allowed s;
  inv_remaining : remaining_inv s;
  inv_vqs : vqs_wf s;
  inv_escrow : escrow_inv s;
  inv_mlen : mlen_inv s;
  inv_params : params_wf s;
  inv_fresh : fresh_inv s
}.

(* the empty module state over any non-negative bank *)
Definition init_state (bal : addr -> N -> Z) (now : Z) (sw : bool) (p : params) : state :=
  {| st_params := p; st_auctions := []; st_bids := []; st_allowed := []; st_vqs := [];
     st_aseq := 0%N; st_bseq := fun _ => 0%N; st_mlen := fun _ => 0; st_bal := bal; st_now := now;
     st_listeners := []; st_switch := sw; st_xfers := []; st_trace := [] |}.

(* the oracle of a block is valid when it lists, for every batch auction that is due, a valid sweep order *)
Definition oracle_ok (s : state) (o : op) : Prop :=
  match o with
  | OBlock t orc | OFaultBlock t orc _ =>
      forall a, In a (st_auctions s) -> a_type a = Batch -> a_status a = Started -> last_end a <= t ->
        exists ids order, find (fun x => N.eqb (fst x) (a_id a)) orc = Some (a_id a, ids)
                          /\ valid_order (bids_of s (a_id a)) ids = Some order
  | _ => True
  end.
