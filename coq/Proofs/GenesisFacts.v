(* The GENESIS operation and the auction list: under the invariant that the auction ids are exactly
   0 .. st_aseq - 1 in order, export / import gives back the same auction records and counter. *)
From Coq Require Import ZArith NArith List Bool Arith Lia.
From FR Require Import Dec Types Bank Match Step Genesis Model Spec.
From FR.Proofs Require Import FrameFacts TxFacts BlockFacts LifeTheorems.
Import ListNotations.
Open Scope Z_scope.

Definition gen_ok (s : state) : Prop := map a_id (st_auctions s) = ids_upto (st_aseq s).

Lemma gen_ok_length s : gen_ok s -> N.of_nat (length (st_auctions s)) = st_aseq s.
Proof.
  unfold gen_ok, ids_upto. intros H. apply (f_equal (@length N)) in H.
  rewrite !map_length, seq_length in H. lia.
Qed.

Lemma NoDup_map_inj {A B} (f : A -> B) l : (forall x y, f x = f y -> x = y) -> NoDup l -> NoDup (map f l).
Proof.
  intros Hf. induction l as [|x l IH]; cbn [map]; intros ND; [constructor|].
  inversion ND as [|? ? Hn ND']; subst. constructor; [|apply IH; exact ND'].
  intros HI. apply in_map_iff in HI. destruct HI as (y & Hy & HI). apply Hf in Hy. subst y. contradiction.
Qed.

Lemma gen_ok_ids_ok s : gen_ok s -> ids_ok s.
Proof.
  unfold gen_ok, ids_ok, ids_upto. intros H. split.
  - rewrite H. apply NoDup_map_inj; [intros x y E; lia|apply seq_NoDup].
  - rewrite Forall_forall. intros a Ha.
    assert (HI : In (a_id a) (map a_id (st_auctions s))) by (apply in_map; exact Ha).
    rewrite H in HI. apply in_map_iff in HI. destruct HI as (i & Hi & HI). apply in_seq in HI. lia.
Qed.

Lemma import_auctions_same : forall l n,
  map a_id l = map N.of_nat (seq n (length l)) ->
  import_auctions l (N.of_nat n) = (l, N.of_nat (n + length l)).
Proof.
  induction l as [|a r IH]; cbn [import_auctions length map seq]; intros n H.
  - rewrite Nat.add_0_r. reflexivity.
  - injection H as Ha Hr. replace (N.of_nat n + 1)%N with (N.of_nat (S n)) by lia.
    rewrite (IH (S n) Hr). rewrite <- Ha, set_id_eta. f_equal. f_equal. lia.
Qed.

Lemma fold_put_allowed_auctions l : forall s,
  let s' := fold_left (fun s x => put_allowed s (al_auction x) (al_bidder x) (al_max x)) l s in
  st_auctions s' = st_auctions s /\ st_aseq s' = st_aseq s.
Proof.
  induction l as [|x l IH]; cbn [fold_left]; intros s; [split; reflexivity|].
  destruct (IH (put_allowed s (al_auction x) (al_bidder x) (al_max x))) as [H1 H2].
  cbv zeta. rewrite H1, H2. rewrite put_allowed_eq. split; reflexivity.
Qed.

Lemma import_bids_auctions l : forall s s',
  import_bids s l = Some s' -> st_auctions s' = st_auctions s /\ st_aseq s' = st_aseq s.
Proof.
  induction l as [|b l IH]; cbn [import_bids]; intros s s' H.
  - injection H as <-. split; reflexivity.
  - destruct (find_auction s (b_auction b)); [|discriminate H]. cbv zeta in H.
    apply IH in H. exact H.
Qed.

Lemma import_vqs_auctions l : forall s s',
  import_vqs s l = Some s' -> st_auctions s' = st_auctions s /\ st_aseq s' = st_aseq s.
Proof.
  induction l as [|v l IH]; cbn [import_vqs]; intros s s' H.
  - injection H as <-. split; reflexivity.
  - destruct (find_auction s (v_auction v)); [|discriminate H]. cbv zeta in H.
    apply IH in H. exact H.
Qed.

Lemma import_auctions_gen s s' :
  gen_ok s -> import s (export s) = Some s' -> st_auctions s' = st_auctions s /\ st_aseq s' = st_aseq s.
Proof.
  intros G H. unfold import in H. cbn [g_auctions g_allowed g_bids g_vqs g_params export] in H.
  assert (E : import_auctions (st_auctions s) 0 = (st_auctions s, st_aseq s)).
  { change 0%N with (N.of_nat 0). rewrite import_auctions_same.
    - rewrite Nat.add_0_l, (gen_ok_length s G). reflexivity.
    - unfold gen_ok, ids_upto in G. rewrite G. f_equal. f_equal. pose proof (gen_ok_length s G). lia. }
  rewrite E in H. cbv zeta in H.
  match type of H with context [fold_left ?f ?l ?s0] =>
    pose proof (fold_put_allowed_auctions l s0) as HF; cbv zeta in HF;
    set (sa := fold_left f l s0) in *
  end.
  cbn [st_auctions st_aseq] in HF. destruct HF as [F1 F2].
  destruct (import_bids sa (sort_by bid_le (st_bids s))) as [sb|] eqn:EB; [|discriminate H].
  apply import_bids_auctions in EB. destruct EB as [B1 B2].
  match type of H with context [import_vqs ?s0 ?l] =>
    destruct (import_vqs s0 l) as [sv|] eqn:EV; [|discriminate H]
  end.
  apply import_vqs_auctions in EV. destruct EV as [V1 V2]. cbn [st_auctions st_aseq with_mlen] in V1, V2.
  injection H as <-. cbn [st_auctions st_aseq with_params]. split; congruence.
Qed.

Lemma L_genesis_auctions s :
  gen_ok s -> st_auctions (snd (step s OGenesis)) = st_auctions s /\ st_aseq (snd (step s OGenesis)) = st_aseq s.
Proof.
  intros G. cbn [step]. unfold genesis_roundtrip. cbv zeta.
  destruct (import s (export s)) as [s'|] eqn:E; cbn [snd]; [|split; reflexivity].
  apply import_auctions_gen; assumption.
Qed.

(* gen_ok is an invariant of every step *)
Lemma L_gen_ok_step s o : gen_ok s -> gen_ok (snd (step s o)).
Proof.
  intros G. destruct o as [m|id l|id u max|t orc|t orc k|from to d amt|ls|] eqn:Eo;
    try (rewrite <- Eo; assert (Hg : o <> OGenesis) by (rewrite Eo; discriminate);
         destruct (step_ids s o (gen_ok_ids_ok s G) Hg) as [(a & C)|[H1 H2]];
         [ destruct C as (_ & _ & C1 & C2 & C3 & _); unfold gen_ok in *; rewrite C1, C3, map_app, G; cbn [map];
           rewrite C2; unfold ids_upto; replace (N.to_nat (st_aseq s + 1)) with (S (N.to_nat (st_aseq s))) by lia;
           rewrite seq_S, map_app; cbn [map]; rewrite Nat.add_0_l, N2Nat.id; reflexivity
         | unfold gen_ok in *; rewrite H1, H2; exact G ]).
  destruct (L_genesis_auctions s G) as [H1 H2]. unfold gen_ok in *. rewrite H1, H2. exact G.
Qed.

(* the auction-level statements for every operation, GENESIS included *)
Lemma L_genesis_find s id : gen_ok s -> find_auction (snd (step s OGenesis)) id = find_auction s id.
Proof. intros G. apply find_auction_conv. apply L_genesis_auctions. exact G. Qed.

Lemma L_C08_forward_all s o id a :
  gen_ok s -> find_auction s id = Some a ->
  exists a', find_auction (snd (step s o)) id = Some a' /\ forward (a_status a) (a_status a') = true.
Proof.
  intros G F. destruct o as [m|id0 l|id0 u max|t orc|t orc k|from to d amt|ls|] eqn:Eo;
    try (rewrite <- Eo; apply L_C08_forward; [apply gen_ok_ids_ok; exact G|rewrite Eo; discriminate|exact F]).
  exists a. split; [rewrite L_genesis_find; assumption|apply forward_refl].
Qed.

Lemma L_C13_bounded_all s o : gen_ok s -> bounded s -> bounded (snd (step s o)).
Proof.
  intros G B. destruct o as [m|id0 l|id0 u max|t orc|t orc k|from to d amt|ls|] eqn:Eo;
    try (rewrite <- Eo; apply L_C13_bounded; [apply gen_ok_ids_ok; exact G|rewrite Eo; discriminate|exact B]).
  unfold bounded in *. destruct (L_genesis_auctions s G) as [-> _]. exact B.
Qed.

Lemma L_C19_aseq_mono_all s o : gen_ok s -> (st_aseq s <= st_aseq (snd (step s o)))%N.
Proof.
  intros G. destruct o as [m|id0 l|id0 u max|t orc|t orc k|from to d amt|ls|] eqn:Eo;
    try (rewrite <- Eo; apply L_C19_aseq_mono; [apply gen_ok_ids_ok; exact G|rewrite Eo; discriminate]).
  destruct (L_genesis_auctions s G) as [_ ->]. lia.
Qed.

Lemma L_run_invariants_all ops : forall s, gen_ok s -> bounded s -> gen_ok (run s ops) /\ bounded (run s ops).
Proof.
  unfold run. induction ops as [|o ops IH]; cbn [fold_left]; intros s G B; [auto|].
  apply IH; [apply L_gen_ok_step|apply L_C13_bounded_all]; assumption.
Qed.

Lemma L_C19_terms_all s o id a :
  gen_ok s -> find_auction s id = Some a ->
  exists a', find_auction (snd (step s o)) id = Some a' /\ terms0_eq a a'
             /\ (a_ends a <> [] -> first_end a' = first_end a).
Proof.
  intros G F. destruct o as [m|id0 l|id0 u max|t orc|t orc k|from to d amt|ls|] eqn:Eo;
    try (rewrite <- Eo; apply L_C19_terms; [apply gen_ok_ids_ok; exact G|rewrite Eo; discriminate|exact F]).
  exists a. split; [rewrite L_genesis_find; assumption|]. split; [apply terms0_refl|reflexivity].
Qed.

Lemma L_C13_ends_grow_all s o id a :
  gen_ok s -> find_auction s id = Some a ->
  exists a', find_auction (snd (step s o)) id = Some a' /\ ends_rel s o a a'.
Proof.
  intros G F. destruct o as [m|id0 l|id0 u max|t orc|t orc k|from to d amt|ls|] eqn:Eo;
    try (rewrite <- Eo; apply L_C13_ends_grow; [apply gen_ok_ids_ok; exact G|rewrite Eo; discriminate|exact F]).
  exists a. split; [rewrite L_genesis_find; assumption|]. left. reflexivity.
Qed.

Lemma gen_ok_empty s : st_auctions s = [] -> st_aseq s = 0%N -> gen_ok s.
Proof. unfold gen_ok. intros -> ->. reflexivity. Qed.
