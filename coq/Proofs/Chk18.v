(* Checker link for C18: Checkers.c18_ok never fires on a transition of the model from a state satisfying Inv.
   Also: reflexivity / extensionality lemmas for the boolean equalities of Checkers.v (reused by Chk19). *)
From Coq Require Import ZArith NArith List Bool Arith Lia.
From FR Require Import Dec Types Bank Match Step Genesis Model Spec Checkers.
From FR.Proofs Require Import InvDefs InvAll FixedFacts.
From FR.Proofs Require PrecondBase PrecondFacts.
Import ListNotations.
Open Scope Z_scope.

(* ------------------------------------------------------------------ boolean equalities are reflexive *)
Lemma list_eqb_refl {A} (eqb : A -> A -> bool) (l : list A) :
  (forall x, In x l -> eqb x x = true) -> list_eqb eqb l l = true.
Proof.
  induction l as [|x r IH]; intros H; [reflexivity|]. cbn [list_eqb].
  rewrite (H x (or_introl eq_refl)). apply IH. intros y Hy. apply H. right. exact Hy.
Qed.

Lemma status_eqb_refl x : status_eqb x x = true. Proof. destruct x; reflexivity. Qed.
Lemma atype_eqb_refl x : atype_eqb x x = true. Proof. destruct x; reflexivity. Qed.
Lemma btype_eqb_refl x : btype_eqb x x = true. Proof. destruct x; reflexivity. Qed.
Lemma bool_eqb_refl x : Bool.eqb x x = true. Proof. destruct x; reflexivity. Qed.
Lemma sched_eqb_refl x : sched_eqb x x = true.
Proof. unfold sched_eqb. rewrite !Z.eqb_refl. reflexivity. Qed.

Lemma auction_terms_eqb_refl a : auction_terms_eqb a a = true.
Proof.
  unfold auction_terms_eqb.
  rewrite !N.eqb_refl, !Z.eqb_refl, atype_eqb_refl, bool_eqb_refl.
  rewrite (list_eqb_refl sched_eqb) by (intros; apply sched_eqb_refl). reflexivity.
Qed.
Lemma auction_eqb_refl a : auction_eqb a a = true.
Proof.
  unfold auction_eqb. rewrite auction_terms_eqb_refl, status_eqb_refl, !Z.eqb_refl.
  rewrite (list_eqb_refl Z.eqb) by (intros; apply Z.eqb_refl). reflexivity.
Qed.
Lemma allowed_eqb_refl x : allowed_eqb x x = true.
Proof. unfold allowed_eqb. rewrite !N.eqb_refl, Z.eqb_refl. reflexivity. Qed.
Lemma vq_eqb_refl x : vq_eqb x x = true.
Proof. unfold vq_eqb. rewrite !N.eqb_refl, !Z.eqb_refl, bool_eqb_refl. reflexivity. Qed.
Lemma coins_eqb_refl x : coins_eqb x x = true.
Proof.
  unfold coins_eqb. apply list_eqb_refl. intros c _. rewrite N.eqb_refl, Z.eqb_refl. reflexivity.
Qed.
Lemma same_bids_refl l : same_bids l l = true.
Proof. unfold same_bids. apply list_eqb_refl. intros; apply bid_eqb_refl. Qed.
Lemma same_allowed_refl l : same_allowed l l = true.
Proof. unfold same_allowed. apply list_eqb_refl. intros; apply allowed_eqb_refl. Qed.
Lemma same_vqs_refl l : same_vqs l l = true.
Proof. unfold same_vqs. apply list_eqb_refl. intros; apply vq_eqb_refl. Qed.
Lemma auctions_eqb_refl l : list_eqb auction_eqb l l = true.
Proof. apply list_eqb_refl. intros; apply auction_eqb_refl. Qed.

(* two states with the same store are equal for the monitor *)
Lemma module_state_eqb_same s1 s2 :
  st_params s2 = st_params s1 -> st_auctions s2 = st_auctions s1 -> st_bids s2 = st_bids s1 ->
  st_allowed s2 = st_allowed s1 -> st_vqs s2 = st_vqs s1 -> st_aseq s2 = st_aseq s1 ->
  st_bseq s2 = st_bseq s1 -> st_mlen s2 = st_mlen s1 ->
  module_state_eqb s1 s2 = true.
Proof.
  intros Hp Ha Hb Hal Hv Hs Hbs Hm. unfold module_state_eqb.
  rewrite Hp, Ha, Hb, Hal, Hv, Hs, Hbs, Hm.
  rewrite auctions_eqb_refl, same_bids_refl, same_allowed_refl, same_vqs_refl, N.eqb_refl, !coins_eqb_refl, Z.eqb_refl.
  cbn [andb]. rewrite !andb_true_r.
  apply forallb_forall. intros a _. rewrite N.eqb_refl, Z.eqb_refl. reflexivity.
Qed.

Lemma balances_eqb_same s1 s2 : st_bal s2 = st_bal s1 -> balances_eqb s1 s2 = true.
Proof.
  intros Hb. unfold balances_eqb. rewrite Hb.
  apply forallb_forall. intros a _. apply forallb_forall. intros d _. apply Z.eqb_refl.
Qed.

(* ------------------------------------------------------------------ classes *)
Lemma class_rej_iff out : oclass_eqb (class_of out) KRej = true <-> exists c, out = Rejected c.
Proof.
  destruct out; cbn; split; intros H; try discriminate H; try (destruct H as [? H]; discriminate H).
  - eauto.
  - reflexivity.
  - destruct (N.eqb code E_PANIC); discriminate H.
Qed.

(* ------------------------------------------------------------------ the link *)
Theorem c18_ok_model s o : Inv s -> c18_ok (model_trans s o) = true.
Proof.
  intros I. pose proof (Inv_ghost_reset s I) as I0.
  unfold model_trans. fold (ghost_reset s).
  destruct (step (ghost_reset s) o) as [out s'] eqn:Es.
  unfold c18_ok. cbn [t_post t_pre t_op t_class t_xfers].
  destruct o as [m| | | | | | |]; try reflexivity.
  cbn [step] in Es.
  assert (Es1 : fst (deliver_tx (ghost_reset s) m) = out) by (rewrite Es; reflexivity).
  assert (Es2 : snd (deliver_tx (ghost_reset s) m) = s') by (rewrite Es; reflexivity).
  apply andb_true_iff. split.
  - pose proof (PrecondFacts.C18_exact_proof (ghost_reset s) m (Inv_WF _ I0)) as Hacc.
    rewrite Es1 in Hacc. change (precond (ghost_reset s) m) with (precond s m) in Hacc.
    destruct (precond s m) eqn:Epre.
    + assert (Ho : out = Accepted) by (apply Hacc; reflexivity). rewrite Ho. reflexivity.
    + destruct (oclass_eqb (class_of out) KOk) eqn:Ek; [|reflexivity].
      apply class_ok_iff in Ek. apply Hacc in Ek. discriminate Ek.
  - destruct (oclass_eqb (class_of out) KRej) eqn:Ek; [|reflexivity].
    apply class_rej_iff in Ek. destruct Ek as [c ->].
    pose proof (PrecondFacts.C18_rejected_unchanged_proof (ghost_reset s) m c Es1) as H.
    cbv zeta in H. rewrite Es2 in H.
    destruct H as (Hp & Ha & Hb & Hal & Hv & Hs & Hbs & Hm & Hbal & _ & _ & _ & Hx).
    rewrite (module_state_eqb_same s s'); [|assumption..].
    rewrite (balances_eqb_same s s' Hbal). rewrite Hx. reflexivity.
Qed.
