(* C15, part 0: generic facts about the insertion sort of Genesis.v (`insert`, `sort_by`), about `nodup_by`,
   and about lists with unique keys.  Nothing here mentions the state. *)
From Coq Require Import ZArith NArith List Bool Arith Lia Permutation Sorted.
From FR Require Import Dec Types Bank Match Step Genesis.
Import ListNotations.

(* ------------------------------------------------------------------ small list facts *)
Lemma perm_filter {A} (p : A -> bool) (l l' : list A) :
  Permutation l l' -> Permutation (filter p l) (filter p l').
Proof.
  intros H. induction H as [|x l l' H IH|x y l|l l' l'' H1 IH1 H2 IH2].
  - constructor.
  - cbn [filter]. destruct (p x); [constructor|]; exact IH.
  - cbn [filter]. destruct (p x), (p y); try apply Permutation_refl. apply perm_swap.
  - eapply Permutation_trans; eassumption.
Qed.

Lemma filter_all_true {A} (p : A -> bool) (l : list A) :
  (forall x, In x l -> p x = true) -> filter p l = l.
Proof.
  induction l as [|x r IH]; intros H; [reflexivity|].
  cbn [filter]. rewrite (H x (or_introl eq_refl)). f_equal. apply IH.
  intros y Hy. apply H. right. exact Hy.
Qed.

Lemma find_filter_and {A} (p q : A -> bool) (l : list A) :
  find (fun x => p x && q x) l = find q (filter p l).
Proof.
  induction l as [|x r IH]; [reflexivity|].
  cbn [find filter]. destruct (p x) eqn:Ep; cbn [andb find].
  - destruct (q x); [reflexivity|exact IH].
  - exact IH.
Qed.

Lemma NoDup_map_inj_in {A K} (f : A -> K) (l : list A) :
  NoDup (map f l) -> forall x y, In x l -> In y l -> f x = f y -> x = y.
Proof.
  induction l as [|z r IH]; intros Hnd x y Hx Hy E; [destruct Hx|].
  cbn [map] in Hnd. apply NoDup_cons_iff in Hnd. destruct Hnd as [Hnotin Hnd].
  destruct Hx as [Hx|Hx], Hy as [Hy|Hy].
  - congruence.
  - subst z. exfalso. apply Hnotin. rewrite E. apply in_map. exact Hy.
  - subst z. exfalso. apply Hnotin. rewrite <- E. apply in_map. exact Hx.
  - apply IH; assumption.
Qed.

(* a `find` by a predicate that at most one element satisfies does not depend on the order *)
Lemma find_perm_unique {A} (p : A -> bool) (l l' : list A) :
  (forall x y, In x l -> In y l -> p x = true -> p y = true -> x = y) ->
  Permutation l l' -> find p l' = find p l.
Proof.
  intros Hu Hp.
  destruct (find p l) as [x|] eqn:E; destruct (find p l') as [y|] eqn:E'; try reflexivity.
  - apply find_some in E. apply find_some in E'. destruct E as [Hx Hpx]. destruct E' as [Hy Hpy].
    f_equal. apply Hu; try assumption. eapply Permutation_in; [apply Permutation_sym; exact Hp|exact Hy].
  - apply find_some in E. destruct E as [Hx Hpx].
    pose proof (find_none _ _ E' x (Permutation_in _ Hp Hx)) as Hn. congruence.
  - apply find_some in E'. destruct E' as [Hy Hpy].
    pose proof (find_none _ _ E y (Permutation_in _ (Permutation_sym Hp) Hy)) as Hn. congruence.
Qed.

(* `nodup_by` with an equality test that implies equality of keys *)
Lemma nodup_by_of_NoDup {A K} (key : A -> K) (eqb : A -> A -> bool) :
  (forall x y, eqb x y = true -> key x = key y) ->
  forall l, NoDup (map key l) -> nodup_by eqb l = true.
Proof.
  intros Hk. induction l as [|x r IH]; intros Hnd; [reflexivity|].
  cbn [map] in Hnd. apply NoDup_cons_iff in Hnd. destruct Hnd as [Hnotin Hnd].
  cbn [nodup_by]. rewrite (IH Hnd), andb_true_r.
  destruct (existsb (eqb x) r) eqn:E; [|reflexivity].
  apply existsb_exists in E. destruct E as [y [Hy Hxy]].
  exfalso. apply Hnotin. rewrite (Hk _ _ Hxy). apply in_map. exact Hy.
Qed.

Lemma NoDup_of_nodup_by {A K} (key : A -> K) (eqb : A -> A -> bool) :
  (forall x y, key x = key y -> eqb x y = true) ->
  forall l, nodup_by eqb l = true -> NoDup (map key l).
Proof.
  intros Hk. induction l as [|x r IH]; intros H; [constructor|].
  cbn [nodup_by] in H. apply andb_prop in H. destruct H as [Hx Hr].
  cbn [map]. constructor; [|apply IH; exact Hr].
  intros Hin. apply in_map_iff in Hin. destruct Hin as [y [Ey Hy]].
  apply negb_true_iff in Hx.
  assert (existsb (eqb x) r = true) as Ht.
  { apply existsb_exists. exists y. split; [exact Hy|]. apply Hk. symmetry. exact Ey. }
  congruence.
Qed.

(* keys (f x, g x) are unique when, for each value a of f, the g's of the elements with f = a are unique *)
Lemma NoDup_pair_keys {A} (f g : A -> N) (l : list A) :
  (forall a, NoDup (map g (filter (fun x => N.eqb (f x) a) l))) ->
  NoDup (map (fun x => (f x, g x)) l).
Proof.
  induction l as [|x r IH]; intros H; [constructor|].
  cbn [map]. constructor.
  - intros Hin. apply in_map_iff in Hin. destruct Hin as [y [Ey Hy]].
    injection Ey as Ef Eg.
    specialize (H (f x)). cbn [filter] in H. rewrite N.eqb_refl in H. cbn [map] in H.
    apply NoDup_cons_iff in H. destruct H as [Hnotin _]. apply Hnotin.
    rewrite <- Eg. apply in_map. apply filter_In. split; [exact Hy|]. apply N.eqb_eq. exact Ef.
  - apply IH. intros a. specialize (H a). cbn [filter] in H.
    destruct (N.eqb (f x) a); [|exact H].
    cbn [map] in H. apply NoDup_cons_iff in H. apply H.
Qed.

(* ------------------------------------------------------------------ the numbers a, a+1, ..., a+n-1 *)
Fixpoint seqN (a : N) (n : nat) : list N :=
  match n with O => [] | S m => a :: seqN (a + 1) m end.

Lemma seqN_length a n : length (seqN a n) = n.
Proof. revert a. induction n as [|n IH]; intros a; [reflexivity|]. cbn [seqN length]. rewrite IH. reflexivity. Qed.

Lemma map_of_nat_seq a n : map N.of_nat (seq a n) = seqN (N.of_nat a) n.
Proof.
  revert a. induction n as [|n IH]; intros a; [reflexivity|].
  cbn [seq map seqN]. f_equal. rewrite IH. f_equal. lia.
Qed.

Lemma map_succ_seqN a n : map N.succ (seqN a n) = seqN (a + 1) n.
Proof.
  revert a. induction n as [|n IH]; intros a; [reflexivity|].
  cbn [seqN map]. rewrite IH. f_equal. lia.
Qed.

Lemma seqN_lower a n : Forall (fun x => (a <= x)%N) (seqN a n).
Proof.
  revert a. induction n as [|n IH]; intros a; [constructor|].
  cbn [seqN]. constructor; [lia|].
  eapply Forall_impl; [|apply IH]. cbn beta. intros x Hx. lia.
Qed.

Lemma seqN_sorted a n : StronglySorted N.lt (seqN a n).
Proof.
  revert a. induction n as [|n IH]; intros a; [constructor|].
  cbn [seqN]. constructor; [apply IH|].
  eapply Forall_impl; [|apply seqN_lower]. cbn beta. intros x Hx. lia.
Qed.

Lemma ssorted_lt_NoDup (l : list N) : StronglySorted N.lt l -> NoDup l.
Proof.
  induction l as [|x r IH]; intros H; [constructor|].
  apply StronglySorted_inv in H. destruct H as [Hr Hx].
  constructor; [|apply IH; exact Hr].
  intros Hin. rewrite Forall_forall in Hx. specialize (Hx x Hin). lia.
Qed.

Lemma seqN_NoDup a n : NoDup (seqN a n).
Proof. apply ssorted_lt_NoDup. apply seqN_sorted. Qed.

(* a list is strongly sorted for Q when its image under f is strongly sorted for R and R on images gives Q *)
Lemma ssorted_of_map {A B} (f : A -> B) (R : B -> B -> Prop) (Q : A -> A -> Prop) (l : list A) :
  (forall x y, In x l -> In y l -> R (f x) (f y) -> Q x y) ->
  StronglySorted R (map f l) -> StronglySorted Q l.
Proof.
  induction l as [|x r IH]; intros HQ H; [constructor|].
  cbn [map] in H. apply StronglySorted_inv in H. destruct H as [Hr Hx].
  constructor.
  - apply IH; [|exact Hr]. intros y z Hy Hz. apply HQ; right; assumption.
  - rewrite Forall_forall in *. intros y Hy. apply HQ; [left; reflexivity|right; exact Hy|].
    apply Hx. apply in_map. exact Hy.
Qed.

Lemma ssorted_filter {A} (R : A -> A -> Prop) (p : A -> bool) (l : list A) :
  StronglySorted R l -> StronglySorted R (filter p l).
Proof.
  induction l as [|x r IH]; intros H; [constructor|].
  apply StronglySorted_inv in H. destruct H as [Hr Hx].
  cbn [filter]. destruct (p x); [|apply IH; exact Hr].
  constructor; [apply IH; exact Hr|].
  rewrite Forall_forall in *. intros y Hy. apply Hx. apply filter_In in Hy. apply Hy.
Qed.

(* ------------------------------------------------------------------ insertion sort *)
Section SortFacts.
  Context {A : Type} (le : A -> A -> bool).

  Definition le_total : Prop := forall x y, le x y = false -> le y x = true.
  Definition le_trans : Prop := forall x y z, le x y = true -> le y z = true -> le x z = true.
  Definition leP (x y : A) : Prop := le x y = true.

  Lemma insert_perm x l : Permutation (insert le x l) (x :: l).
  Proof.
    induction l as [|y r IH]; [apply Permutation_refl|].
    cbn [insert]. destruct (le x y); [apply Permutation_refl|].
    eapply Permutation_trans; [apply perm_skip; exact IH|apply perm_swap].
  Qed.

  (* the sorted list is a rearrangement of the input *)
  Lemma sort_by_perm l : Permutation (sort_by le l) l.
  Proof.
    induction l as [|x r IH]; [constructor|].
    unfold sort_by in *. cbn [fold_right].
    eapply Permutation_trans; [apply insert_perm|]. constructor. exact IH.
  Qed.

  Lemma sort_by_in x l : In x (sort_by le l) <-> In x l.
  Proof.
    split; apply Permutation_in; [|apply Permutation_sym]; apply sort_by_perm.
  Qed.

  Lemma sort_by_length l : length (sort_by le l) = length l.
  Proof. apply Permutation_length. apply sort_by_perm. Qed.

  Lemma sort_by_Forall (Q : A -> Prop) l : Forall Q l -> Forall Q (sort_by le l).
  Proof. apply Permutation_Forall. apply Permutation_sym. apply sort_by_perm. Qed.

  Lemma sort_by_NoDup_keys {K} (key : A -> K) l : NoDup (map key l) -> NoDup (map key (sort_by le l)).
  Proof.
    apply Permutation_NoDup. apply Permutation_map. apply Permutation_sym. apply sort_by_perm.
  Qed.

  Lemma insert_head x l : (forall z, In z l -> le x z = true) -> insert le x l = x :: l.
  Proof.
    destruct l as [|y r]; intros H; [reflexivity|].
    cbn [insert]. rewrite (H y (or_introl eq_refl)). reflexivity.
  Qed.

  Section Order.
    Hypothesis Htot : le_total.
    Hypothesis Htr : le_trans.

    Lemma insert_sorted x l : StronglySorted leP l -> StronglySorted leP (insert le x l).
    Proof.
      induction l as [|y r IH]; intros H.
      - cbn [insert]. constructor; constructor.
      - pose proof (StronglySorted_inv H) as [Hr Hy].
        cbn [insert]. destruct (le x y) eqn:E.
        + constructor; [exact H|]. constructor; [exact E|].
          eapply Forall_impl; [|exact Hy]. intros z Hz. eapply Htr; [exact E|exact Hz].
        + constructor; [apply IH; exact Hr|].
          rewrite Forall_forall in *. intros z Hz.
          apply (Permutation_in _ (insert_perm x r)) in Hz. destruct Hz as [<-|Hz].
          * apply Htot. exact E.
          * apply Hy. exact Hz.
    Qed.

    (* the result is sorted (every element is below all later ones) *)
    Lemma sort_by_sorted l : StronglySorted leP (sort_by le l).
    Proof.
      induction l as [|x r IH]; [constructor|].
      unfold sort_by in *. cbn [fold_right]. apply insert_sorted. exact IH.
    Qed.

    Lemma sort_by_locally_sorted l : Sorted leP (sort_by le l).
    Proof. apply StronglySorted_Sorted. apply sort_by_sorted. Qed.

    (* a sorted list is left alone *)
    Lemma sort_by_id l : StronglySorted leP l -> sort_by le l = l.
    Proof.
      induction l as [|x r IH]; intros H; [reflexivity|].
      apply StronglySorted_inv in H. destruct H as [Hr Hx].
      unfold sort_by in *. cbn [fold_right]. rewrite (IH Hr).
      apply insert_head. rewrite Forall_forall in Hx. exact Hx.
    Qed.

    Lemma sort_by_idem l : sort_by le (sort_by le l) = sort_by le l.
    Proof. apply sort_by_id. apply sort_by_sorted. Qed.

    (* selecting a sub-collection commutes with sorting (the sort is stable) *)
    Lemma filter_insert (p : A -> bool) x l : StronglySorted leP l ->
      filter p (insert le x l) = if p x then insert le x (filter p l) else filter p l.
    Proof.
      induction l as [|y r IH]; intros H.
      - cbn [insert filter]. destruct (p x); reflexivity.
      - pose proof (StronglySorted_inv H) as [Hr Hy].
        cbn [insert]. destruct (le x y) eqn:E.
        + change (filter p (x :: y :: r)) with (if p x then x :: filter p (y :: r) else filter p (y :: r)).
          destruct (p x); [|reflexivity].
          symmetry. apply insert_head. intros z Hz. apply filter_In in Hz. destruct Hz as [Hz _].
          destruct Hz as [<-|Hz]; [exact E|].
          rewrite Forall_forall in Hy. eapply Htr; [exact E|apply Hy; exact Hz].
        + cbn [filter]. rewrite (IH Hr). destruct (p y) eqn:Ey; [|reflexivity].
          destruct (p x); [|reflexivity]. cbn [insert]. rewrite E. reflexivity.
    Qed.

    Lemma filter_sort_by (p : A -> bool) l : filter p (sort_by le l) = sort_by le (filter p l).
    Proof.
      induction l as [|x r IH]; [reflexivity|].
      change (sort_by le (x :: r)) with (insert le x (sort_by le r)).
      rewrite filter_insert by apply sort_by_sorted. rewrite IH.
      cbn [filter]. destruct (p x); reflexivity.
    Qed.

    (* a sub-collection that is already in order is found unchanged inside the sorted list *)
    Lemma filter_sort_by_sorted (p : A -> bool) l :
      StronglySorted leP (filter p l) -> filter p (sort_by le l) = filter p l.
    Proof. intros H. rewrite filter_sort_by. apply sort_by_id. exact H. Qed.

    (* two sorted rearrangements of the same elements coincide when the order is antisymmetric on them *)
    Lemma sorted_perm_unique l1 : forall l2,
      (forall x y, In x l1 -> In y l1 -> le x y = true -> le y x = true -> x = y) ->
      StronglySorted leP l1 -> StronglySorted leP l2 -> Permutation l1 l2 -> l1 = l2.
    Proof.
      induction l1 as [|x r1 IH]; intros l2 Hanti H1 H2 Hp.
      - symmetry. apply Permutation_nil. exact Hp.
      - destruct l2 as [|y r2].
        + apply Permutation_sym in Hp. apply Permutation_nil in Hp. discriminate.
        + apply StronglySorted_inv in H1. destruct H1 as [Hr1 Hx].
          apply StronglySorted_inv in H2. destruct H2 as [Hr2 Hy].
          rewrite Forall_forall in Hx, Hy.
          assert (x = y) as Exy.
          { pose proof (Permutation_in x Hp (or_introl eq_refl)) as Hxin.
            pose proof (Permutation_in y (Permutation_sym Hp) (or_introl eq_refl)) as Hyin.
            destruct Hxin as [Hxin|Hxin]; [congruence|].
            destruct Hyin as [Hyin|Hyin]; [congruence|].
            apply Hanti; [left; reflexivity|right; exact Hyin|apply Hx; exact Hyin|apply Hy; exact Hxin]. }
          subst y. f_equal. apply Permutation_cons_inv in Hp.
          apply IH; try assumption.
          intros a b Ha Hb. apply Hanti; right; assumption.
    Qed.

    (* for a collection whose keys are unique the sorted list is determined by the set of elements *)
    Lemma sort_by_perm_unique l l' :
      (forall x y, In x l -> In y l -> le x y = true -> le y x = true -> x = y) ->
      Permutation l l' -> sort_by le l = sort_by le l'.
    Proof.
      intros Hanti Hp. apply sorted_perm_unique.
      - intros x y Hx Hy. apply Hanti; apply sort_by_in; assumption.
      - apply sort_by_sorted.
      - apply sort_by_sorted.
      - eapply Permutation_trans; [apply sort_by_perm|].
        eapply Permutation_trans; [exact Hp|]. apply Permutation_sym. apply sort_by_perm.
    Qed.
  End Order.
End SortFacts.

(* ------------------------------------------------------------------ the three store orders *)
Ltac bool_to_prop :=
  repeat match goal with
  | H : _ || _ = true |- _ => apply orb_true_iff in H
  | H : _ && _ = true |- _ => apply andb_true_iff in H
  | H : _ || _ = false |- _ => apply orb_false_iff in H
  | H : _ && _ = false |- _ => apply andb_false_iff in H
  | H : _ /\ _ |- _ => destruct H
  | H : _ \/ _ |- _ => destruct H
  | H : N.ltb _ _ = true |- _ => apply N.ltb_lt in H
  | H : N.ltb _ _ = false |- _ => apply N.ltb_ge in H
  | H : N.eqb _ _ = true |- _ => apply N.eqb_eq in H
  | H : N.eqb _ _ = false |- _ => apply N.eqb_neq in H
  | H : N.leb _ _ = true |- _ => apply N.leb_le in H
  | H : N.leb _ _ = false |- _ => apply N.leb_gt in H
  | H : Z.leb _ _ = true |- _ => apply Z.leb_le in H
  | H : Z.leb _ _ = false |- _ => apply Z.leb_gt in H
  end.

Lemma lexN_intro a1 a2 b1 b2 :
  (a1 < a2 \/ (a1 = a2 /\ b1 <= b2))%N -> N.ltb a1 a2 || (N.eqb a1 a2 && N.leb b1 b2) = true.
Proof.
  intros [H|[H1 H2]]; apply orb_true_iff.
  - left. apply N.ltb_lt. exact H.
  - right. apply andb_true_iff. split; [apply N.eqb_eq; exact H1|apply N.leb_le; exact H2].
Qed.
Lemma lexZ_intro a1 a2 (b1 b2 : Z) :
  ((a1 < a2)%N \/ (a1 = a2 /\ (b1 <= b2)%Z)) -> N.ltb a1 a2 || (N.eqb a1 a2 && Z.leb b1 b2) = true.
Proof.
  intros [H|[H1 H2]]; apply orb_true_iff.
  - left. apply N.ltb_lt. exact H.
  - right. apply andb_true_iff. split; [apply N.eqb_eq; exact H1|apply Z.leb_le; exact H2].
Qed.

Lemma bid_le_total : le_total bid_le.
Proof. intros x y H. unfold bid_le in *. apply lexN_intro. bool_to_prop; lia. Qed.
Lemma bid_le_trans : le_trans bid_le.
Proof. intros x y z H1 H2. unfold bid_le in *. apply lexN_intro. bool_to_prop; lia. Qed.
Lemma bid_le_antisym x y : bid_le x y = true -> bid_le y x = true ->
  b_auction x = b_auction y /\ b_id x = b_id y.
Proof. intros H1 H2. unfold bid_le in *. bool_to_prop; lia. Qed.

Lemma allowed_le_total : le_total allowed_le.
Proof. intros x y H. unfold allowed_le in *. apply lexN_intro. bool_to_prop; lia. Qed.
Lemma allowed_le_trans : le_trans allowed_le.
Proof. intros x y z H1 H2. unfold allowed_le in *. apply lexN_intro. bool_to_prop; lia. Qed.
Lemma allowed_le_antisym x y : allowed_le x y = true -> allowed_le y x = true ->
  al_auction x = al_auction y /\ al_bidder x = al_bidder y.
Proof. intros H1 H2. unfold allowed_le in *. bool_to_prop; lia. Qed.

Lemma vq_le_total : le_total vq_le.
Proof. intros x y H. unfold vq_le in *. apply lexZ_intro. bool_to_prop; lia. Qed.
Lemma vq_le_trans : le_trans vq_le.
Proof. intros x y z H1 H2. unfold vq_le in *. apply lexZ_intro. bool_to_prop; lia. Qed.
Lemma vq_le_antisym x y : vq_le x y = true -> vq_le y x = true ->
  v_auction x = v_auction y /\ v_time x = v_time y.
Proof. intros H1 H2. unfold vq_le in *. bool_to_prop; lia. Qed.
