(* C10: the allow-list.  Which operations can change it, a bid needs an entry, entries are never
   removed, and every stored bid has an entry in every reachable state.  No axioms. *)
From Coq Require Import ZArith NArith List Bool Arith Lia.
From FR Require Import Dec Types Bank Match Step Genesis Model Spec Checkers.
From FR.Proofs Require Import HookBase HookFacts HookSites.
Import ListNotations.
Open Scope Z_scope.

(* ================================================================== frame: allow-list and bid keys *)
(* every bid of bs' has the auction and the bidder of some bid of bs *)
Definition bsub (bs bs' : list bid) : Prop :=
  forall b', In b' bs' -> exists b, In b bs /\ b_auction b = b_auction b' /\ b_bidder b = b_bidder b'.

Lemma bsub_refl : forall bs, bsub bs bs.
Proof. intros bs b Hb. exists b. repeat split; assumption. Qed.

Lemma bsub_trans : forall b1 b2 b3, bsub b1 b2 -> bsub b2 b3 -> bsub b1 b3.
Proof.
  intros b1 b2 b3 H12 H23 b3' Hb3. apply H23 in Hb3 as [b2' [Hb2 [Ha2 Hu2]]].
  apply H12 in Hb2 as [b1' [Hb1 [Ha1 Hu1]]]. exists b1'. repeat split; congruence.
Qed.

Lemma bsub_map : forall (f : bid -> bid) bs,
  (forall b, In b bs -> (f b = b \/ exists b0, In b0 bs /\ b_auction (f b) = b_auction b0 /\ b_bidder (f b) = b_bidder b0)) ->
  bsub bs (map f bs).
Proof.
  intros f bs Hf b' Hb'. apply in_map_iff in Hb' as [b [<- Hb]].
  destruct (Hf b Hb) as [He|[b0 [Hb0 [Ha Hu]]]].
  - rewrite He. exists b. repeat split; assumption.
  - exists b0. repeat split; congruence.
Qed.

(* on success the allow-list is unchanged and no bid key is new *)
Definition keepsL (al : list allowed) (bs : list bid) (r : res state) : Prop :=
  match r with
  | Ok s' => st_allowed s' = al /\ bsub bs (st_bids s')
  | Err _ _ => True
  end.
Notation keeps s r := (keepsL (st_allowed s) (st_bids s) r).

Lemma keeps_conv : forall al bs al' bs' r, keepsL al' bs' r -> al' = al -> bs' = bs -> keepsL al bs r.
Proof. intros al bs al' bs' r H -> ->. exact H. Qed.

Lemma keeps_weaken : forall al bs bs0 r, keepsL al bs r -> bsub bs0 bs -> keepsL al bs0 r.
Proof.
  intros al bs bs0 r H Hs. destruct r as [s'|c tr]; [|exact I].
  destruct H as [Ha Hb]. split; [exact Ha | eapply bsub_trans; eassumption].
Qed.

Lemma keeps_bind : forall al bs (r : res state) (f : state -> res state),
  keepsL al bs r -> (forall s1, r = Ok s1 -> keeps s1 (f s1)) -> keepsL al bs (bind r f).
Proof.
  intros al bs r f Hr Hf. destruct r as [s1|c tr]; cbn [bind]; [|exact I].
  destruct Hr as [Ha Hb]. specialize (Hf s1 eq_refl).
  destruct (f s1) as [s2|c tr]; [|exact I]. destruct Hf as [Ha2 Hb2].
  split; [congruence | eapply bsub_trans; eassumption].
Qed.

Lemma keeps_ok : forall al bs s', st_allowed s' = al -> bsub bs (st_bids s') -> keepsL al bs (Ok s').
Proof. intros al bs s' Ha Hb. split; assumption. Qed.

Lemma keeps_nobank : forall s r, (forall s', r = Ok s' -> nobank s s') -> keeps s r.
Proof.
  intros s r H. destruct r as [s'|c tr]; [|exact I]. specialize (H s' eq_refl).
  split; [apply (nb_allowed _ _ H)|]. rewrite (nb_bids _ _ H). apply bsub_refl.
Qed.

Create HintDb keeps.

Lemma send_keeps : forall s from to d amt, keeps s (send s from to d amt).
Proof. intros. apply keeps_nobank. intros s' H. eapply send_ok; exact H. Qed.
Lemma fund_pool_keeps : forall s u cs, keeps s (fund_pool s u cs).
Proof. intros. apply keeps_nobank. intros s' H. eapply fund_pool_ok; exact H. Qed.
Lemma pay_out_keeps : forall s from d us f, keeps s (pay_out s from d us f).
Proof. intros. apply keeps_nobank. intros s' H. eapply pay_out_ok; exact H. Qed.
Lemma call_hook_keeps : forall s kind args, keeps s (call_hook s kind args).
Proof.
  intros s kind args. unfold call_hook.
  destruct (dispatch (st_listeners s) 0 kind args) as [ok cs]. destruct ok; [|exact I].
  apply keeps_ok; [reflexivity | apply bsub_refl].
Qed.
#[export] Hint Resolve send_keeps fund_pool_keeps pay_out_keeps call_hook_keeps : keeps.

Ltac klem := eapply keeps_conv; [solve [eauto 2 with keeps nocore] | reflexivity | reflexivity].

Ltac kstep :=
  cbv beta;
  match goal with
  | |- keepsL _ _ (fail _ _) => exact I
  | |- keepsL _ _ (Err _ _) => exact I
  | |- keepsL _ _ (Ok _) => apply keeps_ok; [reflexivity | try (sproj; apply bsub_refl)]
  | |- keepsL _ _ (let _ := _ in _) => cbv zeta
  | |- keepsL _ _ (bind _ _) => apply keeps_bind; [ klem | intros ? ?]
  | |- keepsL _ _ (if ?b then _ else _) => destruct b eqn:?
  | |- keepsL _ _ (match ?x with _ => _ end) => destruct x eqn:?
  | |- keepsL _ _ _ => klem
  end.

Lemma create_fixed_keeps : forall s u up price sd samt pd vs start end_,
  keeps s (create_fixed s u up price sd samt pd vs start end_).
Proof. intros. unfold create_fixed. repeat kstep. Qed.

Lemma create_batch_keeps : forall s u up price minp sd samt pd vs maxr rate start end_,
  keeps s (create_batch s u up price minp sd samt pd vs maxr rate start end_).
Proof. intros. unfold create_batch. repeat kstep. Qed.

Lemma cancel_keeps : forall s u up id, keeps s (cancel s u up id).
Proof. intros. unfold cancel. repeat kstep. Qed.

Lemma put_bid_bsub : forall s b b0,
  In b0 (st_bids s) -> b_auction b = b_auction b0 -> b_bidder b = b_bidder b0 ->
  bsub (st_bids s) (st_bids (put_bid s b)).
Proof.
  intros s b b0 Hin Ha Hu. unfold put_bid. sproj. apply bsub_map. intros x Hx.
  destruct (N.eqb (b_auction x) (b_auction b) && N.eqb (b_id x) (b_id b)); [|left; reflexivity].
  right. exists b0. repeat split; assumption.
Qed.

Lemma find_bid_In : forall s a i b, find_bid s a i = Some b -> In b (st_bids s) /\ b_auction b = a /\ b_id b = i.
Proof.
  intros s a i b H. unfold find_bid in H. apply find_some in H as [Hin Hk].
  apply andb_true_iff in Hk as [Ha Hi]. apply N.eqb_eq in Ha. apply N.eqb_eq in Hi. repeat split; assumption.
Qed.

Lemma modify_bid_keeps : forall s u id bid_id price d amt, keeps s (modify_bid s u id bid_id price d amt).
Proof.
  intros. destruct (modify_bid s u id bid_id price d amt) as [s'|c tr] eqn:H; [|exact I].
  apply modify_bid_ok in H as [a [b [s1 [_ [Hfb [_ [Hnb [_ ->]]]]]]]].
  apply find_bid_In in Hfb as [Hin [Ha Hi]].
  split; [sproj; apply (nb_allowed _ _ Hnb)|].
  rewrite <- (nb_bids _ _ Hnb).
  apply (put_bid_bsub (with_trace s1 _) _ b); [sproj; rewrite (nb_bids _ _ Hnb); exact Hin | reflexivity | reflexivity].
Qed.

Lemma update_params_keeps : forall s auth cfee bfee period, keeps s (update_params s auth cfee bfee period).
Proof. intros. unfold update_params. repeat kstep. Qed.

#[export] Hint Resolve create_fixed_keeps create_batch_keeps cancel_keeps modify_bid_keeps update_params_keeps : keeps.

(* ---- BeginBlocker ---- *)
Lemma allocate_keeps : forall s a mi w, keeps s (allocate s a mi w).
Proof. intros. unfold allocate. repeat kstep. Qed.
Lemma refund_selling_keeps : forall s a, keeps s (refund_selling s a).
Proof. intros. unfold refund_selling. repeat kstep. Qed.
Lemma apply_vesting_keeps : forall s a, keeps s (apply_vesting s a).
Proof. intros. unfold apply_vesting. repeat kstep. Qed.
#[export] Hint Resolve allocate_keeps refund_selling_keeps apply_vesting_keeps : keeps.

Lemma close_fixed_keeps : forall s a, keeps s (close_fixed s a).
Proof. intros. unfold close_fixed. repeat kstep. Qed.
Lemma settle_batch_keeps : forall s a mi, keeps s (settle_batch s a mi).
Proof. intros. unfold settle_batch. repeat kstep. Qed.
Lemma extend_round_keeps : forall s a, keeps s (extend_round s a).
Proof. intros. unfold extend_round. repeat kstep. Qed.
#[export] Hint Resolve close_fixed_keeps settle_batch_keeps extend_round_keeps : keeps.

Lemma set_flags_bsub : forall s id m, bsub (st_bids s) (st_bids (set_flags s id m)).
Proof.
  intros s id m. unfold set_flags. sproj. apply bsub_map. intros b Hb.
  destruct (N.eqb (b_auction b) id); [|left; reflexivity].
  right. exists b. repeat split; [exact Hb].
Qed.

Lemma close_batch_keeps : forall s orc a, keeps s (close_batch s orc a).
Proof.
  intros. unfold close_batch. cbv zeta.
  destruct (valid_order (bids_of s (a_id a)) _) as [order|]; [|exact I].
  destruct (calc_batch a (bids_of s (a_id a)) order (allowed_of s (a_id a))) as [mi|]; [|exact I].
  assert (Hw : forall r, keeps (set_flags s (a_id a) (mi_matched mi)) r -> keeps s r).
  { intros r Hr. eapply keeps_weaken; [exact Hr | apply set_flags_bsub]. }
  repeat match goal with |- keepsL _ _ (if ?b then _ else _) => destruct b end;
    apply Hw; first [apply settle_batch_keeps | apply extend_round_keeps].
Qed.

Lemma release_loop_keeps : forall vs s a t, keeps s (release_loop s a t vs).
Proof.
  induction vs as [|v rest IH]; intros s a t; cbn [release_loop].
  - repeat kstep.
  - destruct ((v_time v <=? t) && negb (v_released v)); [|apply IH].
    apply keeps_bind; [klem|]. intros s1 _. cbv beta zeta.
    eapply keeps_conv; [apply IH | |]; destruct rest; reflexivity.
Qed.
#[export] Hint Resolve close_batch_keeps release_loop_keeps : keeps.

Lemma process_keeps : forall t orc s a, keeps s (process t orc s a).
Proof. intros. unfold process. repeat kstep. Qed.
#[export] Hint Resolve process_keeps : keeps.

Lemma process_all_keeps : forall l t orc s, keeps s (process_all t orc s l).
Proof.
  induction l as [|a rest IH]; intros t orc s; cbn [process_all].
  - repeat kstep.
  - apply keeps_bind; [klem|]. intros s1 _. apply IH.
Qed.

Lemma begin_block_keeps : forall s t orc, keeps s (begin_block s t orc).
Proof.
  intros. unfold begin_block. cbv zeta.
  eapply keeps_conv; [apply process_all_keeps | reflexivity | reflexivity].
Qed.

(* ================================================================== put_allowed and find_allowed *)
Definition akey (a u : N) (x : allowed) : bool := N.eqb (al_auction x) a && N.eqb (al_bidder x) u.

Lemma akey_true : forall a u x, akey a u x = true <-> al_auction x = a /\ al_bidder x = u.
Proof.
  intros a u x. unfold akey. rewrite andb_true_iff, !N.eqb_eq. reflexivity.
Qed.

Lemma find_replace_same : forall a u e l,
  akey a u e = true ->
  find (akey a u) (map (fun x => if akey a u x then e else x) l) =
  match find (akey a u) l with Some _ => Some e | None => None end.
Proof.
  intros a u e l He. induction l as [|x r IH]; [reflexivity|].
  cbn [map find]. destruct (akey a u x) eqn:Hx.
  - rewrite He. reflexivity.
  - rewrite Hx. exact IH.
Qed.

Lemma find_replace_other : forall a u a' u' e l,
  akey a u e = true -> N.eqb a' a && N.eqb u' u = false ->
  find (akey a' u') (map (fun x => if akey a u x then e else x) l) = find (akey a' u') l.
Proof.
  intros a u a' u' e l He Hne.
  assert (Hd : forall x, akey a u x = true -> akey a' u' x = false).
  { intros x Hx. apply akey_true in Hx as [Hxa Hxu]. unfold akey. rewrite Hxa, Hxu.
    rewrite (N.eqb_sym a a'), (N.eqb_sym u u'). exact Hne. }
  induction l as [|x r IH]; [reflexivity|].
  cbn [map find]. destruct (akey a u x) eqn:Hx.
  - rewrite (Hd e He), (Hd x Hx). exact IH.
  - destruct (akey a' u' x); [reflexivity | exact IH].
Qed.

Lemma find_app_single : forall {A} (p : A -> bool) l e,
  find p (l ++ [e]) = match find p l with Some x => Some x | None => if p e then Some e else None end.
Proof.
  intros A p l e. induction l as [|x r IH]; [reflexivity|].
  cbn [app find]. destruct (p x); [reflexivity | exact IH].
Qed.

(* AddAllowedBidders / UpdateAllowedBidder on one key: that key gets the new entry, every other key is untouched *)
Lemma find_put_allowed : forall s a u m a' u',
  find_allowed (put_allowed s a u m) a' u' =
  if N.eqb a' a && N.eqb u' u then Some {| al_auction := a; al_bidder := u; al_max := m |}
  else find_allowed s a' u'.
Proof.
  intros s a u m a' u'. unfold put_allowed.
  set (e := {| al_auction := a; al_bidder := u; al_max := m |}).
  assert (He : akey a u e = true) by (unfold akey, e; cbn; now rewrite !N.eqb_refl).
  change (find_allowed s a u) with (find (akey a u) (st_allowed s)).
  destruct (N.eqb a' a && N.eqb u' u) eqn:Hk.
  - apply andb_true_iff in Hk as [Ha Hu]. apply N.eqb_eq in Ha. apply N.eqb_eq in Hu. subst a' u'.
    destruct (find (akey a u) (st_allowed s)) as [x|] eqn:Hf; unfold find_allowed; sproj.
    + change (fun x0 => N.eqb (al_auction x0) a && N.eqb (al_bidder x0) u) with (akey a u).
      rewrite (find_replace_same a u e _ He), Hf. reflexivity.
    + change (fun x0 => N.eqb (al_auction x0) a && N.eqb (al_bidder x0) u) with (akey a u).
      rewrite find_app_single, Hf, He. reflexivity.
  - assert (He' : akey a' u' e = false).
    { unfold akey, e. cbn. rewrite (N.eqb_sym a a'), (N.eqb_sym u u'). exact Hk. }
    destruct (find (akey a u) (st_allowed s)) as [x|] eqn:Hf; unfold find_allowed; sproj.
    + change (fun x0 => N.eqb (al_auction x0) a && N.eqb (al_bidder x0) u) with (akey a u).
      change (fun x0 => N.eqb (al_auction x0) a' && N.eqb (al_bidder x0) u') with (akey a' u').
      apply (find_replace_other a u a' u' e _ He Hk).
    + change (fun x0 => N.eqb (al_auction x0) a' && N.eqb (al_bidder x0) u') with (akey a' u').
      rewrite find_app_single, He'. destruct (find (akey a' u') (st_allowed s)); reflexivity.
Qed.

(* entries are never removed *)
Definition apersist (s s' : state) : Prop :=
  forall a u, find_allowed s a u <> None -> find_allowed s' a u <> None.

Lemma apersist_refl : forall s, apersist s s.
Proof. intros s a u H. exact H. Qed.
Lemma apersist_trans : forall s1 s2 s3, apersist s1 s2 -> apersist s2 s3 -> apersist s1 s3.
Proof. intros s1 s2 s3 H12 H23 a u H. apply H23, H12, H. Qed.
Lemma apersist_eq : forall s s', st_allowed s' = st_allowed s -> apersist s s'.
Proof. intros s s' E a u H. unfold find_allowed in *. rewrite E. exact H. Qed.

Lemma put_allowed_persist : forall s a u m, apersist s (put_allowed s a u m).
Proof.
  intros s a u m a' u' H. rewrite find_put_allowed.
  destruct (N.eqb a' a && N.eqb u' u); [discriminate | exact H].
Qed.

Lemma put_allowed_other : forall s a u m a' u',
  a' <> a -> find_allowed (put_allowed s a u m) a' u' = find_allowed s a' u'.
Proof.
  intros s a u m a' u' Hne. rewrite find_put_allowed.
  destruct (N.eqb a' a) eqn:E; [apply N.eqb_eq in E; contradiction | reflexivity].
Qed.

Lemma add_entries_persist : forall l s a s', add_entries s a l = Ok s' ->
  apersist s s' /\ (forall a' u', a' <> a_id a -> find_allowed s' a' u' = find_allowed s a' u').
Proof.
  induction l as [|[[ea who] max] rest IH]; intros s a s' H; cbn [add_entries] in H.
  - injection H as <-. split; [apply apersist_refl | reflexivity].
  - destruct who as [up u|]; [|discriminate]. destruct max as [m|]; [|discriminate].
    destruct (negb (0 <? m)); [discriminate|]. destruct (a_sell_amt a <? m); [discriminate|].
    apply IH in H as [Hp Ho]. split.
    + eapply apersist_trans; [apply put_allowed_persist | exact Hp].
    + intros a' u' Hne. rewrite Ho by exact Hne. apply put_allowed_other. exact Hne.
Qed.

(* ================================================================== 6. the gate *)
Lemma keeps_ok_allowed : forall s r s', keeps s r -> r = Ok s' -> st_allowed s' = st_allowed s.
Proof. intros s r s' K ->. exact (proj1 K). Qed.

Lemma place_bid_allowed : forall s u id bt price d amt s',
  place_bid s u id bt price d amt = Ok s' -> st_allowed s' = st_allowed s.
Proof.
  intros s u id bt price d amt s' H.
  apply place_bid_ok in H as [a [e [s2 [b [_ [_ [_ [_ [_ [_ [_ [_ [_ [_ [_ [F2 [_ [_ [_ [_ [_ ->]]]]]]]]]]]]]]]]]]]]].
  sproj. exact F2.
Qed.

Lemma handle_allowed : forall s c s',
  handle s c = Ok s' ->
  match c with CAddAllowed _ _ _ _ _ => st_switch s = false | _ => True end ->
  st_allowed s' = st_allowed s.
Proof.
  intros s c s' H Hc. destruct c; cbn [handle] in H.
  - eapply keeps_ok_allowed; [apply create_fixed_keeps | exact H].
  - eapply keeps_ok_allowed; [apply create_batch_keeps | exact H].
  - eapply keeps_ok_allowed; [apply cancel_keeps | exact H].
  - eapply place_bid_allowed; exact H.
  - eapply keeps_ok_allowed; [apply modify_bid_keeps | exact H].
  - rewrite Hc in H. discriminate.
  - eapply keeps_ok_allowed; [apply update_params_keeps | exact H].
Qed.

Lemma check_basic_add : forall m a ea up u max,
  check_basic m = Some (CAddAllowed a ea up u max) -> m = MAddAllowed a ea (AGood up u) max.
Proof.
  intros m a ea up u max H. destruct m; cbn [check_basic] in H;
    repeat match type of H with context [match ?x with _ => _ end] => destruct x end;
    try discriminate.
  injection H as <- <- <- <- <-. reflexivity.
Qed.

Lemma deliver_tx_allowed : forall s m,
  (forall a ea who max, m = MAddAllowed a ea who max -> st_switch s = false) ->
  st_allowed (snd (deliver_tx s m)) = st_allowed s.
Proof.
  intros s m Hm. unfold deliver_tx. destruct (check_basic m) as [c|] eqn:Hc; [|reflexivity].
  destruct (handle s c) as [s'|code tr] eqn:Hh; cbn [commit snd]; [|reflexivity].
  eapply handle_allowed; [exact Hh|].
  destruct c; try exact I. apply check_basic_add in Hc. eapply Hm. exact Hc.
Qed.

(* with the switch off no transaction changes the allow-list *)
Theorem gate_tx : forall s, st_switch s = false ->
  forall m, st_allowed (snd (deliver_tx s m)) = st_allowed s.
Proof. intros s Hs m. apply deliver_tx_allowed. intros; exact Hs. Qed.

Lemma with_trace_same : forall s, with_trace s (st_trace s) = s.
Proof. intros s. destruct s; reflexivity. Qed.

(* ... and MsgAddAllowedBidder is rejected, leaving the state as it is *)
Theorem gate_add_rejected : forall s, st_switch s = false ->
  forall a ea who max,
    deliver_tx s (MAddAllowed a ea who max) =
    (Rejected (match who with AGood _ _ => E_DISABLED | ABad => E_BASIC end), s).
Proof.
  intros s Hs a ea who max. unfold deliver_tx. destruct who as [up u|]; cbn [check_basic]; [|reflexivity].
  cbn [handle]. rewrite Hs. unfold fail, commit. rewrite with_trace_same. reflexivity.
Qed.

(* the only operations that can change the allow-list *)
Definition may_change_allowed (s : state) (o : op) : Prop :=
  match o with
  | OApiAdd _ _ | OApiUpdate _ _ _ | OGenesis => True
  | OTx (MAddAllowed _ _ _ _) => st_switch s = true
  | _ => False
  end.

Lemma block_allowed : forall s t orc s', begin_block s t orc = Ok s' -> st_allowed s' = st_allowed s.
Proof. intros s t orc s' H. eapply keeps_ok_allowed; [apply begin_block_keeps | exact H]. Qed.

Theorem allowed_frame_step : forall s o,
  ~ may_change_allowed s o -> st_allowed (snd (step s o)) = st_allowed s.
Proof.
  intros s o Hn. destruct o as [m|a l|a u max|t orc|t orc k|from to d amt|ls|]; cbn [step].
  - apply deliver_tx_allowed. intros a ea who max ->. cbn in Hn.
    destruct (st_switch s); [exfalso; apply Hn; reflexivity | reflexivity].
  - exfalso. apply Hn. exact I.
  - exfalso. apply Hn. exact I.
  - destruct (begin_block s t orc) as [s'|c tr] eqn:Hb; cbn [snd]; [|reflexivity].
    eapply block_allowed; exact Hb.
  - destruct (begin_block s t orc) as [s'|c tr] eqn:Hb; cbn [snd]; [|reflexivity].
    destruct (Nat.ltb k (length (st_xfers s') - length (st_xfers s))); cbn [snd]; [reflexivity|].
    eapply block_allowed; exact Hb.
  - destruct (0 <? amt).
    + destruct (send s (User from) to d amt) as [s'|c tr] eqn:Hs; cbn [commit snd]; [|reflexivity].
      apply send_ok in Hs. apply (nb_allowed _ _ Hs).
    + reflexivity.
  - reflexivity.
  - exfalso. apply Hn. exact I.
Qed.

(* ================================================================== 7. a bid needs an entry *)
Theorem bid_requires_entry : forall s who id bt price coin,
  fst (step s (OTx (MPlaceBid who id bt price coin))) = Accepted ->
  exists up u, who = AGood up u /\ find_allowed s id u <> None /\
    exists b, st_bids (snd (step s (OTx (MPlaceBid who id bt price coin)))) = st_bids s ++ [b]
              /\ b_bidder b = u /\ b_auction b = id.
Proof.
  intros s who id bt price coin H. cbn [step] in *. unfold deliver_tx in *.
  destruct who as [up u|]; cbn [check_basic] in *; [|discriminate].
  destruct (check_pos price) as [p|]; [|discriminate].
  destruct (check_coin coin) as [[d amt]|]; [|discriminate].
  destruct (decode_btype bt) as [t|]; [|discriminate].
  cbn [handle] in *.
  destruct (place_bid s u id t p d amt) as [s'|c tr] eqn:Hp; cbn [commit fst snd] in *; [|discriminate].
  exists up, u. split; [reflexivity|].
  pose proof Hp as Hp'.
  apply place_bid_ok in Hp' as [a [e [s2 [b [_ [_ [Hal _]]]]]]].
  split; [congruence|].
  apply place_bid_hooks in Hp as [b' [Hb [B1 [B2 _]]]]. exists b'. repeat split; assumption.
Qed.

(* ================================================================== 8./9. persistence and the invariant *)
Definition bids_allowed (s : state) : Prop :=
  forall b, In b (st_bids s) -> find_allowed s (b_auction b) (b_bidder b) <> None.

(* what one step guarantees: no entry disappears, and every bid of the post-state either has
   the key of an old bid or an entry in the pre-state *)
Definition step_rel (s s' : state) : Prop :=
  apersist s s' /\
  forall b', In b' (st_bids s') ->
    (exists b, In b (st_bids s) /\ b_auction b = b_auction b' /\ b_bidder b = b_bidder b')
    \/ find_allowed s (b_auction b') (b_bidder b') <> None.

Lemma step_rel_inv : forall s s', step_rel s s' -> bids_allowed s -> bids_allowed s'.
Proof.
  intros s s' [Hp Hb] Hinv b' Hb'. apply Hp.
  destruct (Hb b' Hb') as [[b [Hin [Ha Hu]]]|H]; [|exact H].
  rewrite <- Ha, <- Hu. apply Hinv. exact Hin.
Qed.

Lemma step_rel_keeps : forall s s',
  st_allowed s' = st_allowed s -> bsub (st_bids s) (st_bids s') -> step_rel s s'.
Proof.
  intros s s' Ha Hb. split; [apply apersist_eq; exact Ha|].
  intros b' Hb'. left. apply Hb. exact Hb'.
Qed.

Lemma step_rel_same : forall s s', st_allowed s' = st_allowed s -> st_bids s' = st_bids s -> step_rel s s'.
Proof. intros s s' Ha Hb. apply step_rel_keeps; [exact Ha | rewrite Hb; apply bsub_refl]. Qed.

Lemma commit_rel : forall s r,
  (forall s', r = Ok s' -> step_rel s s') -> step_rel s (snd (commit s r)).
Proof.
  intros s r H. destruct r as [s'|c tr]; cbn [commit snd]; [apply H; reflexivity|].
  apply step_rel_same; reflexivity.
Qed.

Lemma keeps_rel : forall s r s', keeps s r -> r = Ok s' -> step_rel s s'.
Proof. intros s r s' K ->. destruct K as [Ha Hb]. apply step_rel_keeps; assumption. Qed.

Lemma place_bid_rel : forall s u id bt price d amt s',
  place_bid s u id bt price d amt = Ok s' -> step_rel s s'.
Proof.
  intros s u id bt price d amt s' H. pose proof (place_bid_allowed _ _ _ _ _ _ _ _ H) as Ha.
  pose proof H as H'. apply place_bid_ok in H' as [a [e [s2 [b0 [_ [_ [Hal _]]]]]]].
  apply place_bid_hooks in H as [b [Hb [B1 [B2 _]]]].
  split; [apply apersist_eq; exact Ha|].
  intros b' Hb'. rewrite Hb in Hb'. apply in_app_or in Hb' as [Hin|[<-|[]]].
  - left. exists b'. repeat split; [exact Hin].
  - right. rewrite B1, B2, Hal. discriminate.
Qed.

Lemma api_add_rel : forall s id l s', api_add s id l = Ok s' -> step_rel s s'.
Proof.
  intros s id l s' H. apply api_add_ok in H as [a [_ [_ [_ [_ H]]]]].
  pose proof (add_entries_shape _ _ _ _ H) as [x Hx].
  apply add_entries_persist in H as [Hp _]. split.
  - intros a0 u0 Hf. apply Hp. exact Hf.
  - intros b' Hb'. left. exists b'. rewrite Hx in Hb'. repeat split; [exact Hb'].
Qed.

Lemma api_update_rel : forall s id u max s', api_update s id u max = Ok s' -> step_rel s s'.
Proof.
  intros s id u max s' H. apply api_update_ok in H as [a [e [m [_ [_ [_ [_ [_ ->]]]]]]]]. split.
  - intros a0 u0 Hf. apply put_allowed_persist. exact Hf.
  - intros b' Hb'. left. exists b'.
    destruct (put_allowed_shape (with_trace s (st_trace s ++ all_calls s H_BeforeAllowedUpdated [zN id; zN u; m])) id u m)
      as [x Hx]. rewrite Hx in Hb'. repeat split; [exact Hb'].
Qed.

Lemma handle_rel : forall s c s', handle s c = Ok s' -> step_rel s s'.
Proof.
  intros s c s' H. destruct c; cbn [handle] in H.
  - eapply keeps_rel; [apply create_fixed_keeps | exact H].
  - eapply keeps_rel; [apply create_batch_keeps | exact H].
  - eapply keeps_rel; [apply cancel_keeps | exact H].
  - eapply place_bid_rel; exact H.
  - eapply keeps_rel; [apply modify_bid_keeps | exact H].
  - destruct (st_switch s); [eapply api_add_rel; exact H | discriminate].
  - eapply keeps_rel; [apply update_params_keeps | exact H].
Qed.

(* ---- genesis export / import ---- *)
Lemma insert_In : forall {A} (le : A -> A -> bool) x y l, In y (insert le x l) <-> y = x \/ In y l.
Proof.
  intros A le x y l. induction l as [|z r IH]; cbn [insert].
  - cbn. intuition congruence.
  - destruct (le x z); cbn [In]; [intuition congruence|]. rewrite IH. intuition congruence.
Qed.

Lemma sort_by_In : forall {A} (le : A -> A -> bool) l y, In y (sort_by le l) <-> In y l.
Proof.
  intros A le l y. induction l as [|x r IH]; cbn [sort_by fold_right]; [reflexivity|].
  change (fold_right (insert le) [] r) with (sort_by le r). rewrite insert_In, IH. cbn [In]. intuition congruence.
Qed.

Definition reput (s : state) (x : allowed) : state := put_allowed s (al_auction x) (al_bidder x) (al_max x).

Lemma fold_reput_bids : forall l s0, st_bids (fold_left reput l s0) = st_bids s0.
Proof.
  induction l as [|x r IH]; intros s0; cbn [fold_left]; [reflexivity|].
  rewrite IH. unfold reput. destruct (put_allowed_shape s0 (al_auction x) (al_bidder x) (al_max x)) as [y ->]. reflexivity.
Qed.

Lemma fold_reput_find : forall l s0 a u,
  (find_allowed s0 a u <> None \/ exists x, In x l /\ al_auction x = a /\ al_bidder x = u) ->
  find_allowed (fold_left reput l s0) a u <> None.
Proof.
  induction l as [|x r IH]; intros s0 a u H; cbn [fold_left].
  - destruct H as [H|[x [[] _]]]. exact H.
  - apply IH. destruct H as [H|[y [[<-|Hy] [Ha Hu]]]].
    + left. apply put_allowed_persist. exact H.
    + left. unfold reput. rewrite find_put_allowed, Ha, Hu, !N.eqb_refl. discriminate.
    + right. exists y. repeat split; assumption.
Qed.

(* when the key (a, u) determines the entry, the import re-creates exactly that entry *)
Lemma fold_reput_exact : forall l s0 a u e,
  al_auction e = a -> al_bidder e = u ->
  (forall x, In x l -> al_auction x = a -> al_bidder x = u -> x = e) ->
  (find_allowed s0 a u = Some e \/ In e l) ->
  find_allowed (fold_left reput l s0) a u = Some e.
Proof.
  induction l as [|x r IH]; intros s0 a u e Ha Hu Huniq H; cbn [fold_left].
  - destruct H as [H|[]]. exact H.
  - apply IH; [exact Ha | exact Hu | intros y Hy; apply Huniq; right; exact Hy |].
    unfold reput. rewrite find_put_allowed.
    destruct (N.eqb a (al_auction x) && N.eqb u (al_bidder x)) eqn:Hk.
    + apply andb_true_iff in Hk as [Hka Hku]. apply N.eqb_eq in Hka. apply N.eqb_eq in Hku.
      assert (Hx : x = e) by (apply Huniq; [left; reflexivity | congruence | congruence]).
      left. subst x. destruct e; reflexivity.
    + destruct H as [H|[Hx|Hr]]; [left; exact H | | right; exact Hr].
      subst x. rewrite Ha, Hu, !N.eqb_refl in Hk. discriminate.
Qed.

Lemma import_bids_spec : forall l s0 s1, import_bids s0 l = Some s1 ->
  st_allowed s1 = st_allowed s0 /\
  forall b', In b' (st_bids s1) ->
    In b' (st_bids s0) \/ exists b, In b l /\ b_auction b' = b_auction b /\ b_bidder b' = b_bidder b.
Proof.
  induction l as [|b r IH]; intros s0 s1 H; cbn [import_bids] in H.
  - injection H as <-. split; [reflexivity | intros b' Hb'; left; exact Hb'].
  - destruct (find_auction s0 (b_auction b)); [|discriminate].
    apply IH in H as [Ha Hb]. sproj_in Ha. split; [exact Ha|].
    intros b' Hb'. destruct (Hb b' Hb') as [Hin|[b0 [Hin [E1 E2]]]].
    + sproj_in Hin. apply in_app_or in Hin as [Hin|[<-|[]]]; [left; exact Hin|].
      right. exists b. split; [left; reflexivity | split; reflexivity].
    + right. exists b0. split; [right; exact Hin | split; assumption].
Qed.

Lemma import_vqs_spec : forall l s0 s1, import_vqs s0 l = Some s1 ->
  st_allowed s1 = st_allowed s0 /\ st_bids s1 = st_bids s0.
Proof.
  induction l as [|v r IH]; intros s0 s1 H; cbn [import_vqs] in H.
  - injection H as <-. split; reflexivity.
  - destruct (find_auction s0 (v_auction v)); [|discriminate].
    apply IH in H as [Ha Hb]. split; [exact Ha | exact Hb].
Qed.

Lemma genesis_shape : forall s v s', genesis_roundtrip s = Some (v, s') ->
  exists base s1,
    st_allowed base = [] /\ st_bids base = [] /\
    st_allowed s' = st_allowed (fold_left reput (sort_by allowed_le (st_allowed s)) base) /\
    import_bids (fold_left reput (sort_by allowed_le (st_allowed s)) base) (sort_by bid_le (st_bids s)) = Some s1 /\
    st_bids s' = st_bids s1.
Proof.
  intros s v s' H. unfold genesis_roundtrip in H.
  destruct (import s (export s)) as [s2|] eqn:Hi; [|discriminate]. injection H as _ <-.
  unfold import in Hi. destruct (import_auctions (g_auctions (export s)) 0%N) as [aus seq].
  cbn [g_allowed g_bids g_vqs g_params export] in Hi.
  match type of Hi with context [fold_left ?f ?l ?b] =>
    change (fold_left f l b) with (fold_left reput l b) in Hi; set (base := b) in *;
    set (s0 := fold_left reput l base) in * end.
  destruct (import_bids s0 (sort_by bid_le (st_bids s))) as [s1|] eqn:Hb; [|discriminate].
  match type of Hi with context [import_vqs ?x ?l] => destruct (import_vqs x l) as [s3|] eqn:Hv; [|discriminate] end.
  injection Hi as <-. apply import_vqs_spec in Hv as [Hva Hvb]. sproj_in Hva. sproj_in Hvb.
  pose proof (import_bids_spec _ _ _ Hb) as [Hba _].
  exists base, s1. split; [reflexivity|]. split; [reflexivity|]. sproj.
  split; [rewrite Hva, Hba; reflexivity|]. split; [exact Hb | exact Hvb].
Qed.

Lemma find_allowed_In : forall s a u e, find_allowed s a u = Some e ->
  In e (st_allowed s) /\ al_auction e = a /\ al_bidder e = u.
Proof.
  intros s a u e H. unfold find_allowed in H. apply find_some in H as [Hin Hk].
  apply andb_true_iff in Hk as [Ha Hu]. apply N.eqb_eq in Ha. apply N.eqb_eq in Hu. repeat split; assumption.
Qed.

Lemma genesis_rel : forall s v s', genesis_roundtrip s = Some (v, s') -> step_rel s s'.
Proof.
  intros s v s' H. apply genesis_shape in H as [base [s1 [Hba [Hbb [Ha [Hib Hb]]]]]].
  assert (Hp : apersist s s').
  { intros a u Hf. unfold find_allowed at 1. rewrite Ha.
    apply fold_reput_find. right.
    destruct (find_allowed s a u) as [e|] eqn:He; [|contradiction].
    apply find_allowed_In in He as [Hin [Hea Heu]]. exists e. split; [apply sort_by_In; exact Hin | split; assumption]. }
  split; [exact Hp|].
  intros b' Hb'. rewrite Hb in Hb'. apply import_bids_spec in Hib as [_ Hib].
  destruct (Hib b' Hb') as [Hin|[b [Hin [E1 E2]]]].
  - rewrite fold_reput_bids, Hbb in Hin. destruct Hin.
  - left. exists b. apply sort_by_In in Hin. repeat split; [exact Hin | congruence | congruence].
Qed.

(* ---- every step ---- *)
Theorem step_step_rel : forall s o, step_rel s (snd (step s o)).
Proof.
  intros s o. destruct o as [m|a l|a u max|t orc|t orc k|from to d amt|ls|]; cbn [step].
  - unfold deliver_tx. destruct (check_basic m) as [c|]; [|apply step_rel_same; reflexivity].
    apply commit_rel. apply handle_rel.
  - apply commit_rel. apply api_add_rel.
  - apply commit_rel. apply api_update_rel.
  - destruct (begin_block s t orc) as [s'|c tr] eqn:Hb; cbn [snd]; [|apply step_rel_same; reflexivity].
    eapply keeps_rel; [apply begin_block_keeps | exact Hb].
  - destruct (begin_block s t orc) as [s'|c tr] eqn:Hb; cbn [snd]; [|apply step_rel_same; reflexivity].
    destruct (Nat.ltb k (length (st_xfers s') - length (st_xfers s))); cbn [snd]; [apply step_rel_same; reflexivity|].
    eapply keeps_rel; [apply begin_block_keeps | exact Hb].
  - apply commit_rel. intros s' Hs. destruct (0 <? amt); [|discriminate].
    eapply keeps_rel; [apply send_keeps | exact Hs].
  - apply step_rel_same; reflexivity.
  - destruct (genesis_roundtrip s) as [[v s']|] eqn:Hg; cbn [snd]; [|apply step_rel_same; reflexivity].
    eapply genesis_rel; exact Hg.
Qed.

(* 8. no operation (OGenesis included) removes an allow-list entry *)
Theorem entries_persist : forall s o a u e,
  find_allowed s a u = Some e -> exists e', find_allowed (snd (step s o)) a u = Some e'.
Proof.
  intros s o a u e H. destruct (step_step_rel s o) as [Hp _].
  specialize (Hp a u). rewrite H in Hp.
  destruct (find_allowed (snd (step s o)) a u) as [e'|]; [exists e'; reflexivity|].
  exfalso. apply Hp; [discriminate | reflexivity].
Qed.

(* 9. the invariant *)
Theorem bids_allowed_step : forall s o, bids_allowed s -> bids_allowed (snd (step s o)).
Proof. intros s o. apply step_rel_inv. apply step_step_rel. Qed.

Lemma bids_allowed_nobids : forall s, st_bids s = [] -> bids_allowed s.
Proof. intros s H b Hb. rewrite H in Hb. destruct Hb. Qed.

Theorem bids_allowed_run : forall ops s0, bids_allowed s0 -> bids_allowed (run s0 ops).
Proof.
  induction ops as [|o r IH]; intros s0 H; cbn [run fold_left]; [exact H|].
  apply IH. apply bids_allowed_step. exact H.
Qed.

(* ---- 8, sharper: the cap of (a, u) can change only through the allow-list API on auction a ---- *)
Definition touches_cap (a : N) (o : op) : Prop :=
  match o with
  | OApiAdd a' _ | OApiUpdate a' _ _ | OTx (MAddAllowed a' _ _ _) => a' = a
  | OGenesis => True
  | _ => False
  end.

Lemma api_add_other : forall s id l s' a u,
  api_add s id l = Ok s' -> a <> id -> find_allowed s' a u = find_allowed s a u.
Proof.
  intros s id l s' a u H Hne. apply api_add_ok in H as [a0 [_ [_ [Hid [_ H]]]]].
  apply add_entries_persist in H as [_ Ho]. rewrite Ho by congruence. reflexivity.
Qed.

Lemma api_update_other : forall s id u0 max s' a u,
  api_update s id u0 max = Ok s' -> a <> id -> find_allowed s' a u = find_allowed s a u.
Proof.
  intros s id u0 max s' a u H Hne. apply api_update_ok in H as [a0 [e [m [_ [_ [_ [_ [_ ->]]]]]]]].
  rewrite put_allowed_other by exact Hne. reflexivity.
Qed.

Lemma find_allowed_eq : forall s s' a u, st_allowed s' = st_allowed s -> find_allowed s' a u = find_allowed s a u.
Proof. intros s s' a u H. unfold find_allowed. now rewrite H. Qed.

Theorem cap_unchanged : forall s o a u,
  ~ touches_cap a o -> find_allowed (snd (step s o)) a u = find_allowed s a u.
Proof.
  intros s o a u Hn.
  destruct o as [m|a' l|a' u' max|t orc|t orc k|from to d amt|ls|].
  - cbn [step]. unfold deliver_tx. destruct (check_basic m) as [c|] eqn:Hc; [|reflexivity].
    destruct (handle s c) as [s'|code tr] eqn:Hh; cbn [commit snd]; [|reflexivity].
    destruct c as [| | | | |a' ea up u' max|];
      try (apply find_allowed_eq; eapply handle_allowed; [exact Hh | exact I]).
    apply check_basic_add in Hc. subst m. cbn in Hn. cbn [handle] in Hh.
    destruct (st_switch s); [|discriminate]. eapply api_add_other; [exact Hh | congruence].
  - cbn [step]. destruct (api_add s a' l) as [s'|code tr] eqn:Hh; cbn [commit snd]; [|reflexivity].
    eapply api_add_other; [exact Hh | cbn in Hn; congruence].
  - cbn [step]. destruct (api_update s a' u' max) as [s'|code tr] eqn:Hh; cbn [commit snd]; [|reflexivity].
    eapply api_update_other; [exact Hh | cbn in Hn; congruence].
  - apply find_allowed_eq. apply allowed_frame_step. intros [].
  - apply find_allowed_eq. apply allowed_frame_step. intros [].
  - apply find_allowed_eq. apply allowed_frame_step. intros [].
  - apply find_allowed_eq. apply allowed_frame_step. intros [].
  - exfalso. apply Hn. exact I.
Qed.

(* genesis export/import re-creates every entry exactly when keys determine entries *)
Definition unique_keys (s : state) : Prop :=
  forall x y, In x (st_allowed s) -> In y (st_allowed s) ->
    al_auction x = al_auction y -> al_bidder x = al_bidder y -> x = y.

Theorem genesis_entries_exact : forall s a u e,
  unique_keys s -> find_allowed s a u = Some e ->
  find_allowed (snd (step s OGenesis)) a u = Some e.
Proof.
  intros s a u e Hu Hf. cbn [step].
  destruct (genesis_roundtrip s) as [[v s']|] eqn:Hg; cbn [snd]; [|exact Hf].
  apply genesis_shape in Hg as [base [s1 [Hba [_ [Ha _]]]]].
  unfold find_allowed at 1. rewrite Ha.
  apply find_allowed_In in Hf as [Hin [Hea Heu]].
  apply fold_reput_exact; [exact Hea | exact Heu | | right; apply sort_by_In; exact Hin].
  intros x Hx Hxa Hxu. apply sort_by_In in Hx. apply Hu; [exact Hx | exact Hin | congruence | congruence].
Qed.

(* all operations together: an entry survives every step with its cap, unless the step is an
   allow-list API call on its auction *)
Theorem entries_persist_exact : forall s o a u e,
  unique_keys s ->
  match o with
  | OApiAdd a' _ | OApiUpdate a' _ _ | OTx (MAddAllowed a' _ _ _) => a' <> a
  | _ => True
  end ->
  find_allowed s a u = Some e -> find_allowed (snd (step s o)) a u = Some e.
Proof.
  intros s o a u e Hu Ho Hf.
  destruct o as [m|a' l|a' u' max|t orc|t orc k|from to d amt|ls|];
    try solve [rewrite cap_unchanged; [exact Hf | cbn; tauto]].
  - rewrite cap_unchanged; [exact Hf|]. destruct m; cbn; tauto.
  - apply genesis_entries_exact; assumption.
Qed.

Lemma may_change_dec : forall s o, may_change_allowed s o \/ ~ may_change_allowed s o.
Proof.
  intros s o. destruct o as [m| | | | | | |]; cbn; try tauto.
  destruct m; cbn; try tauto. destruct (st_switch s); [left; reflexivity | right; discriminate].
Qed.

Theorem allowed_changes_only_by : forall s o,
  st_allowed (snd (step s o)) <> st_allowed s -> may_change_allowed s o.
Proof.
  intros s o H. destruct (may_change_dec s o) as [Hm|Hm]; [exact Hm|].
  exfalso. apply H. apply allowed_frame_step. exact Hm.
Qed.

Lemma no_genesis_run : forall ops s0, bids_allowed s0 -> Forall (fun o => o <> OGenesis) ops -> bids_allowed (run s0 ops).
Proof. intros ops s0 H _. apply bids_allowed_run. exact H. Qed.

(* ---- histories: an operation that is not the allow-list API, MsgAddAllowedBidder or a genesis round trip never
        changes the allow-list, so no sequence of them does *)
Definition user_op (o : op) : Prop :=
  match o with
  | OApiAdd _ _ | OApiUpdate _ _ _ | OGenesis | OTx (MAddAllowed _ _ _ _) => False
  | _ => True
  end.

Lemma user_op_frame : forall s o, user_op o -> ~ may_change_allowed s o.
Proof.
  intros s o H. destruct o as [m| | | | | | |]; cbn in *; try tauto.
  destruct m; cbn in *; tauto.
Qed.

Theorem allowed_frame_run : forall ops s, Forall user_op ops -> st_allowed (run s ops) = st_allowed s.
Proof.
  unfold run. induction ops as [|o ops IH]; intros s H; cbn [fold_left]; [reflexivity|].
  inversion H as [|? ? Ho Hops]; subst. rewrite (IH _ Hops). apply allowed_frame_step, user_op_frame, Ho.
Qed.
