(* Basic facts about results, hooks and the bank used by the precondition proofs (C18, C12, C11). *)
From Coq Require Import ZArith NArith List Bool Arith Lia.
From FR Require Import Dec Types Bank Match Step Genesis Model Spec.
Import ListNotations.
Open Scope Z_scope.

Lemma P_pos : 0 < P. Proof. reflexivity. Qed.
Opaque P.

(* ------------------------------------------------------------------ results *)
Definition is_ok {A} (r : res A) : Prop := exists x, r = Ok x.

Lemma bind_ok {A B} (r : res A) (f : A -> res B) y :
  bind r f = Ok y <-> exists x, r = Ok x /\ f x = Ok y.
Proof.
  destruct r as [x|c t]; cbn [bind]; split.
  - intros H. exists x. split; [reflexivity|exact H].
  - intros (x' & Hx & Hf). inversion Hx. subst. exact Hf.
  - intros H. discriminate H.
  - intros (x' & Hx & _). discriminate Hx.
Qed.

Lemma is_ok_Ok {A} (x : A) : is_ok (Ok x).
Proof. exists x. reflexivity. Qed.
Lemma not_ok_Err {A} c t : ~ is_ok (@Err A c t).
Proof. intros (x & H). discriminate H. Qed.
Lemma not_ok_fail {A} s c : ~ is_ok (@fail A s c).
Proof. apply not_ok_Err. Qed.

Lemma accepted_commit s r : fst (commit s r) = Accepted <-> is_ok r.
Proof.
  destruct r as [x|c t]; cbn [commit fst]; split; intros H.
  - apply is_ok_Ok.
  - reflexivity.
  - discriminate H.
  - exfalso. exact (not_ok_Err _ _ H).
Qed.

Lemma accepted_deliver s m :
  fst (deliver_tx s m) = Accepted <-> exists c, check_basic m = Some c /\ is_ok (handle s c).
Proof.
  unfold deliver_tx. destruct (check_basic m) as [c|].
  - rewrite accepted_commit. split.
    + intros H. exists c. split; [reflexivity|exact H].
    + intros (c' & Hc & H). inversion Hc. subst. exact H.
  - cbn [fst]. split.
    + intros H. discriminate H.
    + intros (c' & Hc & _). discriminate Hc.
Qed.

Lemma commit_ok s r s' : r = Ok s' -> commit s r = (Accepted, s').
Proof. intros ->. reflexivity. Qed.

(* projections through the state updates *)
Ltac sp :=
  cbn [st_params st_auctions st_bids st_allowed st_vqs st_aseq st_bseq st_mlen st_bal st_now
       st_listeners st_switch st_xfers st_trace
       with_auctions with_bids with_allowed with_vqs with_aseq with_bseq with_mlen with_bank with_now
       with_listeners with_trace with_params put_auction put_bid] in *.

(* ------------------------------------------------------------------ hooks *)
Lemma dispatch_ok ls : forall i k args,
  fst (dispatch ls i k args) = negb (existsb (fun l => existsb (N.eqb k) l) ls).
Proof.
  induction ls as [|l rest IH]; intros i k args; cbn [dispatch existsb].
  - reflexivity.
  - destruct (existsb (N.eqb k) l) eqn:El; cbn [orb negb fst].
    + reflexivity.
    + specialize (IH (i + 1)%N k args).
      destruct (dispatch rest (i + 1)%N k args) as [ok cs]. cbn [fst] in *. exact IH.
Qed.

Lemma call_hook_cases s k args :
  match call_hook s k args with
  | Ok s1 => no_veto s k = true /\ exists cs, s1 = with_trace s (st_trace s ++ cs)
  | Err c t => no_veto s k = false
  end.
Proof.
  unfold call_hook, no_veto. pose proof (dispatch_ok (st_listeners s) 0%N k args) as H.
  destruct (dispatch (st_listeners s) 0%N k args) as [ok cs]. cbn [fst] in H.
  rewrite <- H. destruct ok.
  - split; [reflexivity|]. exists cs. reflexivity.
  - reflexivity.
Qed.

Lemma call_hook_ok_iff s k args : is_ok (call_hook s k args) <-> no_veto s k = true.
Proof.
  pose proof (call_hook_cases s k args) as H. destruct (call_hook s k args) as [s1|c t].
  - split; intros _; [exact (proj1 H)|apply is_ok_Ok].
  - split; intros H1; [exfalso; exact (not_ok_Err _ _ H1)|congruence].
Qed.

Lemma call_hook_ok_inv s k args s1 :
  call_hook s k args = Ok s1 -> no_veto s k = true /\ exists cs, s1 = with_trace s (st_trace s ++ cs).
Proof. intros H. pose proof (call_hook_cases s k args) as H1. rewrite H in H1. exact H1. Qed.

Lemma call_hook_ok_intro s k args :
  no_veto s k = true -> exists cs, call_hook s k args = Ok (with_trace s (st_trace s ++ cs)).
Proof.
  intros H. pose proof (call_hook_cases s k args) as H1.
  destruct (call_hook s k args) as [s1|c t].
  - destruct H1 as (_ & cs & ->). exists cs. reflexivity.
  - congruence.
Qed.

Lemma no_veto_ext s s' k : st_listeners s' = st_listeners s -> no_veto s' k = no_veto s k.
Proof. unfold no_veto. intros ->. reflexivity. Qed.

(* ------------------------------------------------------------------ send *)
Lemma send_cases s from to d amt :
  0 <= st_bal s from d -> 0 <= amt ->
  match send s from to d amt with
  | Ok s1 => amt <= st_bal s from d /\
             s1 = (if amt =? 0 then s
                   else with_bank s (move (st_bal s) from to d amt)
                          (st_xfers s ++ [{| x_from := from; x_to := to; x_denom := d; x_amt := amt |}]))
  | Err c t => st_bal s from d < amt
  end.
Proof.
  intros Hb Ha. unfold send.
  destruct (amt =? 0) eqn:E0.
  - apply Z.eqb_eq in E0. split; [lia|reflexivity].
  - apply Z.eqb_neq in E0. destruct (amt <? 0) eqn:E1.
    + apply Z.ltb_lt in E1. lia.
    + destruct (st_bal s from d <? amt) eqn:E2.
      * apply Z.ltb_lt in E2. exact E2.
      * apply Z.ltb_ge in E2. split; [exact E2|reflexivity].
Qed.

(* the general characterisation of a single send *)
Lemma send_ok_iff s from to d amt :
  is_ok (send s from to d amt) <-> amt = 0 \/ (0 < amt /\ amt <= st_bal s from d).
Proof.
  unfold send. destruct (amt =? 0) eqn:E0.
  - apply Z.eqb_eq in E0. split; intros _; [left; exact E0|apply is_ok_Ok].
  - apply Z.eqb_neq in E0. destruct (amt <? 0) eqn:E1.
    + apply Z.ltb_lt in E1. split; intros H; [exfalso; exact (not_ok_Err _ _ H)|lia].
    + apply Z.ltb_ge in E1. destruct (st_bal s from d <? amt) eqn:E2.
      * apply Z.ltb_lt in E2. split; intros H; [exfalso; exact (not_ok_Err _ _ H)|lia].
      * apply Z.ltb_ge in E2. split; intros _; [right; lia|apply is_ok_Ok].
Qed.

Lemma send_ok_bank s from to d amt s1 :
  send s from to d amt = Ok s1 -> exists b x, s1 = with_bank s b x.
Proof.
  unfold send. destruct (amt =? 0).
  - intros H. inversion H. subst. exists (st_bal s1), (st_xfers s1). destruct s1; reflexivity.
  - destruct (amt <? 0); [discriminate|]. destruct (st_bal s from d <? amt); [discriminate|].
    intros H. inversion H. eexists; eexists; reflexivity.
Qed.

Lemma with_bank_id s : with_bank s (st_bal s) (st_xfers s) = s.
Proof. destruct s; reflexivity. Qed.

(* ------------------------------------------------------------------ sequential payments *)
Definition sumd (d : N) (l : list (N * Z)) : Z :=
  sumZ (map snd (filter (fun c => N.eqb (fst c) d) l)).

Lemma can_pay_unfold s u l :
  can_pay s u l = forallb (fun d => sumd d l <=? st_bal s (User u) d) (map fst l).
Proof. reflexivity. Qed.

Lemma sumd_nil d : sumd d [] = 0.
Proof. reflexivity. Qed.
Lemma sumd_cons d d0 a l : sumd d ((d0, a) :: l) = (if N.eqb d0 d then a else 0) + sumd d l.
Proof.
  unfold sumd. cbn [filter fst]. destruct (N.eqb d0 d); cbn [map snd sumZ fold_right]; unfold sumZ; lia.
Qed.
Lemma sumd_app d l1 l2 : sumd d (l1 ++ l2) = sumd d l1 + sumd d l2.
Proof.
  induction l1 as [|[d0 a] r IH]; cbn [app].
  - rewrite sumd_nil. lia.
  - rewrite !sumd_cons, IH. lia.
Qed.
Lemma sumd_nonneg d l : (forall c, In c l -> 0 <= snd c) -> 0 <= sumd d l.
Proof.
  induction l as [|[d0 a] r IH]; intros H.
  - rewrite sumd_nil. lia.
  - rewrite sumd_cons. assert (0 <= a) by (apply (H (d0, a)); left; reflexivity).
    assert (0 <= sumd d r) by (apply IH; intros c Hc; apply H; right; exact Hc).
    destruct (N.eqb d0 d); lia.
Qed.
Lemma sumd_notin d l : ~ In d (map fst l) -> sumd d l = 0.
Proof.
  induction l as [|[d0 a] r IH]; intros H.
  - reflexivity.
  - rewrite sumd_cons. cbn [map fst In] in H.
    destruct (N.eqb d0 d) eqn:E.
    + apply N.eqb_eq in E. exfalso. apply H. left. exact E.
    + rewrite IH; [lia|]. intros Hin. apply H. right. exact Hin.
Qed.

Lemma can_pay_iff s u l :
  (forall d, 0 <= st_bal s (User u) d) ->
  (can_pay s u l = true <-> forall d, sumd d l <= st_bal s (User u) d).
Proof.
  intros Hb. rewrite can_pay_unfold, forallb_forall. split.
  - intros H d. destruct (in_dec N.eq_dec d (map fst l)) as [Hin|Hnin].
    + apply Z.leb_le. apply H. exact Hin.
    + rewrite (sumd_notin d l Hnin). apply Hb.
  - intros H d _. apply Z.leb_le. apply H.
Qed.

Lemma can_pay_snoc s u cs d amt :
  (forall d, 0 <= st_bal s (User u) d) -> (forall c, In c cs -> 0 <= snd c) -> 0 <= amt ->
  (can_pay s u (cs ++ [(d, amt)]) = true <->
   can_pay s u cs = true /\ sumd d cs + amt <= st_bal s (User u) d).
Proof.
  intros Hb Hcs Ha. rewrite !can_pay_iff by exact Hb. split.
  - intros H. split.
    + intros d'. specialize (H d'). rewrite sumd_app, sumd_cons, sumd_nil in H.
      destruct (N.eqb d d'); lia.
    + specialize (H d). rewrite sumd_app, sumd_cons, sumd_nil, N.eqb_refl in H. lia.
  - intros [H1 H2] d'. rewrite sumd_app, sumd_cons, sumd_nil.
    destruct (N.eqb d d') eqn:E.
    + apply N.eqb_eq in E. subst d'. lia.
    + specialize (H1 d'). lia.
Qed.

Lemma addr_eqb_refl a : addr_eqb a a = true.
Proof.
  destruct a as [u|r a|]; cbn [addr_eqb].
  - apply N.eqb_refl.
  - rewrite N.eqb_refl. destruct r; reflexivity.
  - reflexivity.
Qed.

Lemma move_from b from to d amt d' :
  addr_eqb from to = false ->
  move b from to d amt from d' = (if N.eqb d' d then b from d' - amt else b from d').
Proof.
  intros Hne. unfold move, bal_upd. rewrite Hne, addr_eqb_refl. cbn [andb].
  destruct (N.eqb d' d) eqn:E; [|reflexivity].
  apply N.eqb_eq in E. subst. reflexivity.
Qed.

Lemma send_coins_spec cs : forall s u to,
  addr_eqb (User u) to = false ->
  (forall d, 0 <= st_bal s (User u) d) -> (forall c, In c cs -> 0 <= snd c) ->
  match send_coins s (User u) to cs with
  | Ok s1 => (forall d, sumd d cs <= st_bal s (User u) d) /\
             exists b x, s1 = with_bank s b x /\
                         forall d, b (User u) d = st_bal s (User u) d - sumd d cs
  | Err c t => ~ (forall d, sumd d cs <= st_bal s (User u) d)
  end.
Proof.
  induction cs as [|[d0 a] rest IH]; intros s u to Hto Hb Hcs; cbn [send_coins].
  - split.
    + intros d. rewrite sumd_nil. apply Hb.
    + exists (st_bal s), (st_xfers s). split; [symmetry; apply with_bank_id|].
      intros d. rewrite sumd_nil. lia.
  - assert (Ha : 0 <= a) by (apply (Hcs (d0, a)); left; reflexivity).
    assert (Hrest : forall c, In c rest -> 0 <= snd c) by (intros c Hc; apply Hcs; right; exact Hc).
    pose proof (send_cases s (User u) to d0 a (Hb d0) Ha) as Hs.
    destruct (send s (User u) to d0 a) as [s1|c t]; cbn [bind].
    + destruct Hs as [Hle Hs1].
      assert (Hb1 : forall d, st_bal s1 (User u) d = st_bal s (User u) d - (if N.eqb d0 d then a else 0)).
      { intros d. subst s1. destruct (a =? 0) eqn:E0.
        - apply Z.eqb_eq in E0. subst a. destruct (N.eqb d0 d); lia.
        - sp. rewrite move_from by exact Hto. rewrite (N.eqb_sym d d0). destruct (N.eqb d0 d); lia. }
      assert (Hb1' : forall d, 0 <= st_bal s1 (User u) d).
      { intros d. rewrite Hb1. destruct (N.eqb d0 d) eqn:E.
        - apply N.eqb_eq in E. subst d. lia.
        - specialize (Hb d). lia. }
      specialize (IH s1 u to Hto Hb1' Hrest).
      destruct (send_coins s1 (User u) to rest) as [s2|c t].
      * destruct IH as [Hall (b & x & Hs2 & Hbal)]. split.
        -- intros d. rewrite sumd_cons. specialize (Hall d). rewrite Hb1 in Hall. lia.
        -- exists b, x. split.
           ++ subst s2. destruct (send_ok_bank s (User u) to d0 a s1) as (b1 & x1 & ->).
              ** unfold send. destruct (a =? 0) eqn:E0; [congruence|].
                 apply Z.eqb_neq in E0. destruct (a <? 0) eqn:E1; [apply Z.ltb_lt in E1; lia|].
                 destruct (st_bal s (User u) d0 <? a) eqn:E2; [apply Z.ltb_lt in E2; lia|]. congruence.
              ** reflexivity.
           ++ intros d. rewrite Hbal, Hb1, sumd_cons. lia.
      * intros Hall. apply IH. intros d. specialize (Hall d). rewrite sumd_cons in Hall.
        rewrite Hb1. lia.
    + intros Hall. specialize (Hall d0). rewrite sumd_cons, N.eqb_refl in Hall.
      pose proof (sumd_nonneg d0 rest Hrest). lia.
Qed.

(* fund_pool followed by one more payment of the same user: the pattern of every paying handler *)
Lemma fund_pool_cases s u cs :
  (forall a d, 0 <= st_bal s a d) -> (forall c, In c cs -> 0 <= snd c) ->
  match fund_pool s u cs with
  | Ok s1 => can_pay s u cs = true /\
             exists b x, s1 = with_bank s b x /\
                         (forall d, b (User u) d = st_bal s (User u) d - sumd d cs) /\
                         (forall d, 0 <= b (User u) d)
  | Err c t => can_pay s u cs = false
  end.
Proof.
  intros Hb Hcs. unfold fund_pool.
  pose proof (send_coins_spec cs s u Pool eq_refl (fun d => Hb (User u) d) Hcs) as H.
  destruct (send_coins s (User u) Pool cs) as [s1|c t].
  - destruct H as [Hall (b & x & Hs1 & Hbal)]. split.
    + apply can_pay_iff; [intros d; apply Hb|exact Hall].
    + exists b, x. split; [exact Hs1|]. split; [exact Hbal|].
      intros d. rewrite Hbal. specialize (Hall d). lia.
  - destruct (can_pay s u cs) eqn:E; [|reflexivity].
    exfalso. apply H. apply can_pay_iff; [intros d; apply Hb|exact E].
Qed.

(* ------------------------------------------------------------------ arithmetic of the reservation *)
Lemma ceil_int_eq d : 0 <= d -> ceil_int d = if d mod P =? 0 then d / P else d / P + 1.
Proof.
  intros Hd. pose proof P_pos as HP. unfold ceil_int.
  rewrite Z.rem_mod_nonneg, Z.quot_div_nonneg by lia.
  destruct (d mod P =? 0) eqn:E0; [reflexivity|].
  destruct (d mod P <? 0) eqn:E1; [|reflexivity].
  apply Z.ltb_lt in E1. pose proof (Z.mod_pos_bound d P HP). lia.
Qed.

Lemma ceil_int_nonneg d : 0 <= d -> 0 <= ceil_int d.
Proof.
  intros Hd. pose proof P_pos as HP. rewrite ceil_int_eq by exact Hd.
  pose proof (Z.div_pos d P Hd HP). destruct (d mod P =? 0); lia.
Qed.

Lemma ceil_int_mono d1 d2 : 0 <= d1 -> d1 <= d2 -> ceil_int d1 <= ceil_int d2.
Proof.
  intros H1 H2. pose proof P_pos as HP. rewrite !ceil_int_eq by lia.
  pose proof (Z.div_mod d1 P ltac:(lia)) as E1. pose proof (Z.div_mod d2 P ltac:(lia)) as E2.
  pose proof (Z.mod_pos_bound d1 P HP) as B1. pose proof (Z.mod_pos_bound d2 P HP) as B2.
  pose proof (Z.div_le_mono d1 d2 P HP H2) as Hq.
  destruct (Z.eqb_spec (d1 mod P) 0) as [Z1|Z1]; destruct (Z.eqb_spec (d2 mod P) 0) as [Z2|Z2]; try lia.
  (* d1 has a remainder, d2 has none *)
  assert (d1 / P < d2 / P); [|lia].
  apply Z.lt_nge. intros Hge. assert (d1 / P = d2 / P) by lia. nia.
Qed.

Lemma pay_of_qty_nonneg a p : 0 <= a -> 0 <= p -> 0 <= pay_of_qty a p.
Proof. intros Ha Hp. unfold pay_of_qty. apply ceil_int_nonneg. nia. Qed.

Lemma pay_of_qty_mono a p a' p' :
  0 <= a -> 0 <= p -> a <= a' -> p <= p' -> pay_of_qty a p <= pay_of_qty a' p'.
Proof. intros Ha Hp Ha' Hp'. unfold pay_of_qty. apply ceil_int_mono; nia. Qed.

Lemma pay_of_qty_pos a p : 0 < a -> 0 < p -> 0 < pay_of_qty a p.
Proof.
  intros Ha Hp. unfold pay_of_qty. pose proof P_pos as HP.
  assert (Hd : 0 < a * p) by nia. rewrite ceil_int_eq by lia.
  pose proof (Z.div_mod (a * p) P ltac:(lia)) as E.
  pose proof (Z.div_pos (a * p) P ltac:(lia) HP) as Hq.
  destruct (a * p mod P =? 0) eqn:Z0; [|lia].
  apply Z.eqb_eq in Z0. nia.
Qed.

(* ------------------------------------------------------------------ finds *)
Lemma find_auction_id s id a : find_auction s id = Some a -> a_id a = id /\ In a (st_auctions s).
Proof.
  unfold find_auction. intros H. apply find_some in H. destruct H as [Hin He].
  apply N.eqb_eq in He. split; assumption.
Qed.

Lemma find_bid_key s id i b :
  find_bid s id i = Some b -> b_auction b = id /\ b_id b = i /\ In b (st_bids s).
Proof.
  unfold find_bid. intros H. apply find_some in H. destruct H as [Hin He].
  apply andb_true_iff in He. destruct He as [H1 H2].
  apply N.eqb_eq in H1. apply N.eqb_eq in H2. repeat split; assumption.
Qed.

Lemma coins_ok_pos l : forall low, coins_ok l low = true -> forall c, In c l -> 0 < snd c.
Proof.
  induction l as [|[d a] r IH]; intros low H c Hc.
  - destruct Hc.
  - cbn [coins_ok] in H. apply andb_true_iff in H. destruct H as [H H3].
    apply andb_true_iff in H. destruct H as [H1 _]. destruct Hc as [<-|Hc].
    + cbn [snd]. apply Z.ltb_lt. exact H1.
    + exact (IH _ H3 c Hc).
Qed.
