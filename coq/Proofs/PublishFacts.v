(* C16, first sentence: the published flags and numbers say what happened.
   set_flags / close_batch (matched flags, matched length, matched price), place_bid (fixed price flag),
   and the queries. *)
From Coq Require Import ZArith NArith List Bool Arith Lia Permutation.
From FR Require Import Dec Types Bank Match Step Genesis Model Spec.
From FR.Proofs Require Import FrameFacts TxFacts BlockFacts MatchBase MatchSweep MatchDemand MatchSearch MatchBatch
     MatchConseq.
Import ListNotations.
Open Scope Z_scope.

(* ------------------------------------------------------------------ (e) set_flags *)
Definition flag_with (m : list N) (b : bid) : bid := set_b_matched b (existsb (N.eqb (b_id b)) m).

Lemma existsb_eqb_in (i : N) m : existsb (N.eqb i) m = true <-> In i m.
Proof.
  rewrite existsb_exists. split.
  - intros (x & Hx & E). apply N.eqb_eq in E. subst. exact Hx.
  - intros H. exists i. split; [exact H|apply N.eqb_refl].
Qed.

Lemma flag_with_keys m b : bid_keys_eq b (flag_with m b).
Proof. repeat split. Qed.
Lemma flag_with_matched m b : b_matched (flag_with m b) = true <-> In (b_id b) m.
Proof. unfold flag_with. cbn [b_matched set_b_matched]. apply existsb_eqb_in. Qed.
Lemma flag_with_terms m b :
  b_auction (flag_with m b) = b_auction b /\ b_id (flag_with m b) = b_id b /\ b_bidder (flag_with m b) = b_bidder b
  /\ b_type (flag_with m b) = b_type b /\ b_price (flag_with m b) = b_price b /\ b_denom (flag_with m b) = b_denom b
  /\ b_amt (flag_with m b) = b_amt b.
Proof. repeat split. Qed.

Lemma set_flags_bids s id m :
  st_bids (set_flags s id m) = map (fun b => if N.eqb (b_auction b) id then flag_with m b else b) (st_bids s).
Proof. reflexivity. Qed.

Lemma filter_map_if {A} (p : A -> bool) (g : A -> A) l :
  (forall x, p (g x) = p x) -> filter p (map (fun x => if p x then g x else x) l) = map g (filter p l).
Proof.
  intros H. induction l as [|x l IH]; cbn [map filter]; [reflexivity|].
  destruct (p x) eqn:E.
  - rewrite H, E. cbn [map]. rewrite IH. reflexivity.
  - rewrite E. exact IH.
Qed.

(* the bids of the auction: same bids, in the same order, flags rewritten *)
Lemma set_flags_bids_of s id m : bids_of (set_flags s id m) id = map (flag_with m) (bids_of s id).
Proof.
  unfold bids_of. rewrite set_flags_bids.
  apply (filter_map_if (fun b => N.eqb (b_auction b) id) (flag_with m)). intros x. reflexivity.
Qed.
Lemma set_flags_bids_other s id m j : j <> id -> bids_of (set_flags s id m) j = bids_of s j.
Proof. intros Hj. apply (se_bids _ _ _ (frame_set_flags id s m j Hj)). Qed.
Lemma set_flags_mlen s id m : st_mlen (set_flags s id m) id = Z.of_nat (length m).
Proof. unfold set_flags. cbn [st_mlen with_mlen]. unfold upd. rewrite N.eqb_refl. reflexivity. Qed.
Lemma set_flags_mlen_other s id m j : j <> id -> st_mlen (set_flags s id m) j = st_mlen s j.
Proof. intros Hj. apply (se_mlen _ _ _ (frame_set_flags id s m j Hj)). Qed.

(* afterwards a bid of the auction is flagged iff its id is in the list *)
Lemma set_flags_flag s id m b :
  In b (bids_of (set_flags s id m) id) -> (b_matched b = true <-> In (b_id b) m).
Proof.
  rewrite set_flags_bids_of. intros H. apply in_map_iff in H. destruct H as (b0 & <- & _).
  exact (flag_with_matched m b0).
Qed.

Lemma count_matched_bids_of s id :
  count_matched (st_bids s) id = Z.of_nat (length (filter b_matched (bids_of s id))).
Proof. unfold count_matched, bids_of. rewrite filter_filter. reflexivity. Qed.

Lemma count_flagged m bs :
  NoDup m -> incl m (map b_id bs) -> NoDup (map b_id bs) ->
  length (filter b_matched (map (flag_with m) bs)) = length m.
Proof.
  intros NDm Hincl NDbs.
  assert (E : map b_id (filter b_matched (map (flag_with m) bs))
              = map b_id (filter (fun b => existsb (N.eqb (b_id b)) m) bs)).
  { clear. induction bs as [|b bs IH]; cbn [map filter]; [reflexivity|].
    change (b_matched (flag_with m b)) with (existsb (N.eqb (b_id b)) m).
    destruct (existsb (N.eqb (b_id b)) m); cbn [map]; rewrite IH; reflexivity. }
  rewrite <- (map_length b_id), E. symmetry. apply Permutation_length. apply NoDup_Permutation.
  - exact NDm.
  - apply NoDup_map_filter. exact NDbs.
  - intros i. rewrite in_map_iff. split.
    + intros Hi. pose proof (Hincl i Hi) as Hb. apply in_map_iff in Hb. destruct Hb as (b & <- & Hb).
      exists b. split; [reflexivity|]. apply filter_In. split; [exact Hb|]. apply existsb_eqb_in. exact Hi.
    + intros (b & <- & Hb). apply filter_In in Hb. apply existsb_eqb_in. apply Hb.
Qed.

(* ... so the recorded length is the number of flagged bids (mlen_inv for this auction) *)
Theorem set_flags_count s id m :
  NoDup m -> incl m (map b_id (bids_of s id)) -> NoDup (map b_id (bids_of s id)) ->
  count_matched (st_bids (set_flags s id m)) id = Z.of_nat (length m)
  /\ st_mlen (set_flags s id m) id = count_matched (st_bids (set_flags s id m)) id.
Proof.
  intros NDm Hincl NDbs.
  assert (C : count_matched (st_bids (set_flags s id m)) id = Z.of_nat (length m)).
  { rewrite count_matched_bids_of, set_flags_bids_of. f_equal. apply count_flagged; assumption. }
  split; [exact C|]. rewrite C. apply set_flags_mlen.
Qed.
Lemma set_flags_count_other s id m j :
  j <> id -> count_matched (st_bids (set_flags s id m)) j = count_matched (st_bids s) j.
Proof. intros Hj. rewrite !count_matched_bids_of, set_flags_bids_other by exact Hj. reflexivity. Qed.

(* ------------------------------------------------------------------ (f) what calc_batch publishes *)
Lemma sumZ_pos_iff {A} (f : A -> Z) l :
  (forall x, In x l -> 0 <= f x) -> (0 < sumZ (map f l) <-> exists x, In x l /\ 0 < f x).
Proof.
  induction l as [|a l IH]; intros H; cbn [map].
  - rewrite sumZ_nil. split; [lia|intros (x & [] & _)].
  - rewrite sumZ_cons. pose proof (H a (or_introl eq_refl)) as Ha.
    specialize (IH (fun x Hx => H x (or_intror Hx))).
    pose proof (sumZ_map_nonneg f l (fun x Hx => H x (or_intror Hx))) as Hs. split.
    + intros Hp. destruct (Z.ltb_spec 0 (f a)) as [Hfa|Hfa].
      * exists a. split; [left; reflexivity|exact Hfa].
      * assert (Hl : 0 < sumZ (map f l)) by lia. apply IH in Hl. destruct Hl as (x & Hx & Hfx).
        exists x. split; [right; exact Hx|exact Hfx].
    + intros (x & [<-|Hx] & Hfx); [lia|].
      assert (0 < sumZ (map f l)) by (apply IH; exists x; split; assumption). lia.
Qed.

Definition spec_price (bs : list bid) (al : list allowed) (supply : Z) : Z :=
  match clearing_spec bs al supply with Some p => p | None => 0 end.

Theorem batch_flag_facts a bs ids order al mi :
  book_wf bs al -> valid_order bs ids = Some order -> 0 <= a_sell_amt a ->
  calc_batch a bs order al = Some mi ->
  (* the published price is the clearing price of the specification, 0 when there is none *)
  mi_price mi = spec_price bs al (a_sell_amt a) /\
  (* the matched ids are those of the final sweep *)
  mi_matched mi = match clearing_spec bs al (a_sell_amt a) with
                  | Some p => matched_ids (batch_asg order al p) | None => [] end /\
  NoDup (mi_matched mi) /\ incl (mi_matched mi) (map b_id bs) /\ NoDup (map b_id bs) /\
  (* ... i.e. of the bids that got a positive amount in it *)
  (forall p, clearing_spec bs al (a_sell_amt a) = Some p -> forall b, In b bs ->
     (In (b_id b) (mi_matched mi) <-> exists m, In (b, m) (batch_asg order al p) /\ 0 < m)) /\
  (* a matched bid is priced at or above the published price *)
  (forall b, In b bs -> In (b_id b) (mi_matched mi) -> mi_price mi <= b_price b) /\
  (* a bidder has a matched bid iff he is allocated something *)
  (forall u, 0 < mi_alloc mi u <-> exists b, In b bs /\ b_bidder b = u /\ In (b_id b) (mi_matched mi)) /\
  (* price 0 iff nothing matched *)
  (mi_price mi = 0 <-> mi_matched mi = []) /\
  (mi_matched mi = [] <-> forall b, In b bs -> ~ In (b_id b) (mi_matched mi)).
Proof.
  intros WF VO Hs Hc.
  destruct (batch_matched_ids a bs ids order al mi WF VO Hs Hc) as (NDm & Hincl).
  destruct (valid_order_ids_nodup bs ids order VO) as (NDbs & _).
  destruct (calc_batch_full a bs ids order al WF VO Hs) as (mi' & E & _ & H).
  rewrite Hc in E. inversion E; subst mi'. clear E.
  assert (Hempty : mi_matched mi = [] <-> forall b, In b bs -> ~ In (b_id b) (mi_matched mi)).
  { split; [intros -> b _ []|]. intros Hno. destruct (mi_matched mi) as [|i l] eqn:Em; [reflexivity|].
    exfalso. assert (Hi : In i (map b_id bs)) by (apply Hincl; left; reflexivity).
    apply in_map_iff in Hi. destruct Hi as (b & <- & Hb). apply (Hno b Hb). left. reflexivity. }
  unfold spec_price. destruct (clearing_spec bs al (a_sell_amt a)) as [p|] eqn:CS.
  - destruct H as (Hp & Hd & Ep & Et & Em & Hne & Ha & Hr).
    assert (Hpp : 0 < p).
    { apply in_map_iff in Hp. destruct Hp as (b & <- & Hb). apply (wf_price _ _ WF b Hb). }
    destruct (batch_asg_facts bs al ids order p WF VO Hpp) as (A1 & A2 & A3). cbv zeta in A1, A2, A3.
    set (asg := batch_asg order al p) in *.
    assert (Hiff : forall b, In b bs ->
              (In (b_id b) (mi_matched mi) <-> exists m, In (b, m) asg /\ 0 < m)).
    { intros b Hb. rewrite Em. unfold matched_ids. rewrite in_map_iff. split.
      - intros (x & Ex & Hx). apply filter_In in Hx. destruct Hx as [Hx Hpos]. apply Z.ltb_lt in Hpos.
        destruct (A1 x Hx) as (Hfb & _).
        assert (fst x = b) by (apply (nodup_key_inj b_id bs); assumption).
        exists (snd x). split; [|exact Hpos]. subst b. destruct x; exact Hx.
      - intros (m & Hx & Hm). exists (b, m). split; [reflexivity|]. apply filter_In. split; [exact Hx|].
        apply Z.ltb_lt. exact Hm. }
    split; [exact Ep|]. split; [exact Em|]. split; [exact NDm|]. split; [exact Hincl|]. split; [exact NDbs|].
    split; [intros q Hq; injection Hq as <-; exact Hiff|]. split; [|split; [|split; [|exact Hempty]]].
    + intros b Hb Hi. apply (Hiff b Hb) in Hi. destruct Hi as (m & Hx & _). rewrite Ep.
      apply (A1 (b, m) Hx).
    + intros u. rewrite Ha, <- A2. unfold got. rewrite sumZ_pos_iff.
      2:{ intros x Hx. apply filter_In in Hx. apply (A1 x), Hx. }
      split.
      * intros (x & Hx & Hpos). unfold of_bidder in Hx. apply filter_In in Hx. destruct Hx as [Hx Hu].
        apply N.eqb_eq in Hu. destruct (A1 x Hx) as (Hfb & _). exists (fst x).
        split; [exact Hfb|]. split; [exact Hu|]. apply (Hiff _ Hfb). exists (snd x).
        split; [destruct x; exact Hx|exact Hpos].
      * intros (b & Hb & Hu & Hi). apply (Hiff b Hb) in Hi. destruct Hi as (m & Hx & Hm).
        exists (b, m). split; [|exact Hm]. unfold of_bidder. apply filter_In. split; [exact Hx|].
        apply N.eqb_eq. exact Hu.
    + rewrite Ep. split; [lia|]. intros C. contradiction.
  - destruct H as (Ep & Et & Em & Ha & Hr).
    split; [exact Ep|]. split; [exact Em|]. split; [exact NDm|]. split; [exact Hincl|]. split; [exact NDbs|].
    split; [intros q Hq; discriminate Hq|]. split; [|split; [|split; [|exact Hempty]]].
    + intros b _ Hi. rewrite Em in Hi. destruct Hi.
    + intros u. rewrite Ha, Em. split; [lia|]. intros (b & _ & _ & []).
    + split; intros _; assumption.
Qed.

(* ------------------------------------------------------------------ (f) close_batch publishes what it computed *)
Lemma settle_shape_fields s s' a :
  settle_shape s s' a -> st_bids s' = st_bids s /\ st_mlen s' = st_mlen s /\ st_allowed s' = st_allowed s.
Proof.
  intros (s1 & (b & xs & tr & -> & K) & (b' & xs' & K' & [(_ & ->)|(vs & Hv & ->)])); repeat split.
Qed.

Definition closed_record (s : state) (a : auction) (mi : minfo) : auction :=
  if decision s a mi then extended s a mi
  else set_status (set_matched_price a (mi_price mi)) (settled_st a).

Lemma close_batch_state s orc a s' :
  find_auction s (a_id a) = Some a -> close_batch s orc a = Ok s' ->
  exists order mi,
    valid_order (bids_of s (a_id a)) (oracle_ids orc (a_id a)) = Some order /\
    calc_batch a (bids_of s (a_id a)) order (allowed_of s (a_id a)) = Some mi /\
    find_auction s' (a_id a) = Some (closed_record s a mi) /\
    a_matched_price (closed_record s a mi) = mi_price mi /\
    st_bids s' = st_bids (set_flags s (a_id a) (mi_matched mi)) /\
    st_mlen s' = st_mlen (set_flags s (a_id a) (mi_matched mi)).
Proof.
  intros F H. apply close_batch_inv in H. destruct H as (order & mi & HV & HC & H).
  exists order, mi. split; [exact HV|]. split; [exact HC|]. unfold closed_record.
  destruct (decision s a mi).
  - subst s'. split; [|repeat split].
    apply (find_after_put (set_flags s (a_id a) (mi_matched mi)) _ a (extended s a mi)); [reflexivity|reflexivity|exact F].
  - apply settle_batch_inv in H. pose proof (settle_auctions _ _ _ H) as HA.
    destruct (settle_shape_fields _ _ _ H) as (HB & HM & _).
    split; [|split; [reflexivity|split; assumption]].
    apply (find_after_put (set_flags s (a_id a) (mi_matched mi)) s' a); [exact HA|reflexivity|exact F].
Qed.

Theorem close_batch_publishes s orc a s' :
  find_auction s (a_id a) = Some a ->
  book_wf (bids_of s (a_id a)) (allowed_of s (a_id a)) -> 0 <= a_sell_amt a ->
  close_batch s orc a = Ok s' ->
  let id := a_id a in
  let bs := bids_of s id in
  let al := allowed_of s id in
  exists order mi a',
    valid_order bs (oracle_ids orc id) = Some order /\ calc_batch a bs order al = Some mi /\
    find_auction s' id = Some a' /\
    (* the published price *)
    a_matched_price a' = spec_price bs al (a_sell_amt a) /\ a_matched_price a' = mi_price mi /\
    (* the flags: same bids, in the same order, flagged iff matched; other auctions untouched *)
    bids_of s' id = map (flag_with (mi_matched mi)) bs /\
    (forall j, j <> id -> bids_of s' j = bids_of s j) /\
    (forall b, In b (bids_of s' id) -> (b_matched b = true <-> In (b_id b) (mi_matched mi))) /\
    (* the recorded length is the number of flagged bids *)
    st_mlen s' id = Z.of_nat (length (mi_matched mi)) /\
    st_mlen s' id = count_matched (st_bids s') id /\
    (* flagged iff the bid got a positive amount in the final sweep *)
    (forall p, clearing_spec bs al (a_sell_amt a) = Some p -> forall b, In b (bids_of s' id) ->
       (b_matched b = true <-> exists b0 m, In (b0, m) (batch_asg order al p) /\ 0 < m /\ b = flag_with (mi_matched mi) b0)) /\
    (* every flagged bid is priced at or above the published price *)
    (forall b, In b (bids_of s' id) -> b_matched b = true -> a_matched_price a' <= b_price b) /\
    (* a bidder holds a flagged bid iff he is allocated something *)
    (forall u, 0 < mi_alloc mi u <-> exists b, In b (bids_of s' id) /\ b_bidder b = u /\ b_matched b = true) /\
    (* the published price is 0 iff no bid is flagged *)
    (a_matched_price a' = 0 <-> forall b, In b (bids_of s' id) -> b_matched b = false).
Proof.
  intros F WF Hs H id bs al.
  destruct (close_batch_state s orc a s' F H) as (order & mi & HV & HC & F' & HP & HB & HM).
  fold id bs al in HV, HC, F'.
  destruct (batch_flag_facts a bs _ order al mi WF HV Hs HC)
    as (B1 & B2 & NDm & Hincl & NDbs & B3 & B4 & B5 & B6 & B7).
  assert (HBO : bids_of s' id = map (flag_with (mi_matched mi)) bs).
  { unfold bids_of at 1. rewrite HB. apply set_flags_bids_of. }
  assert (Hflag : forall b, In b (bids_of s' id) -> (b_matched b = true <-> In (b_id b) (mi_matched mi))).
  { intros b Hb. rewrite HBO in Hb. apply in_map_iff in Hb. destruct Hb as (b0 & <- & _).
    exact (flag_with_matched _ b0). }
  exists order, mi, (closed_record s a mi).
  split; [exact HV|]. split; [exact HC|]. split; [exact F'|]. split; [rewrite HP; exact B1|]. split; [exact HP|].
  split; [exact HBO|]. split.
  { intros j Hj. unfold bids_of at 1. rewrite HB. apply set_flags_bids_other. exact Hj. }
  split; [exact Hflag|]. split; [rewrite HM; apply set_flags_mlen|]. split.
  { rewrite HM, HB. apply set_flags_count; assumption. }
  split; [|split; [|split]].
  - intros p CS b Hb. rewrite (Hflag b Hb). rewrite HBO in Hb. apply in_map_iff in Hb.
    destruct Hb as (b0 & <- & Hb0). change (b_id (flag_with (mi_matched mi) b0)) with (b_id b0).
    rewrite (B3 p CS b0 Hb0). split.
    + intros (m & Hx & Hm). exists b0, m. repeat split; assumption.
    + intros (b1 & m & Hx & Hm & E). exists m. split; [|exact Hm].
      assert (b1 = b0); [|subst; exact Hx].
      destruct (batch_asg_facts bs al _ order p WF HV) as (A1 & _).
      { destruct (clearing_spec_some _ _ _ _ CS) as (Hp & _). apply in_map_iff in Hp.
        destruct Hp as (x & <- & Hx'). apply (wf_price _ _ WF x Hx'). }
      cbv zeta in A1. destruct (A1 _ Hx) as (Hb1 & _). cbn [fst] in Hb1.
      apply (nodup_key_inj b_id bs); try assumption.
      apply (f_equal b_id) in E. exact (eq_sym E).
  - intros b Hb Hm. rewrite HP. apply (Hflag b Hb) in Hm. rewrite HBO in Hb. apply in_map_iff in Hb.
    destruct Hb as (b0 & <- & Hb0). apply (B4 b0 Hb0 Hm).
  - intros u. rewrite B5. split.
    + intros (b0 & Hb0 & Hu & Hi). exists (flag_with (mi_matched mi) b0).
      split; [rewrite HBO; apply in_map; exact Hb0|]. split; [exact Hu|]. apply flag_with_matched. exact Hi.
    + intros (b & Hb & Hu & Hm). apply (Hflag b Hb) in Hm. rewrite HBO in Hb. apply in_map_iff in Hb.
      destruct Hb as (b0 & <- & Hb0). exists b0. repeat split; assumption.
  - rewrite HP, B6, B7. split.
    + intros Hno b Hb. destruct (b_matched b) eqn:Em; [|reflexivity]. exfalso.
      apply (Hflag b Hb) in Em. rewrite HBO in Hb. apply in_map_iff in Hb. destruct Hb as (b0 & <- & Hb0).
      exact (Hno b0 Hb0 Em).
    + intros Hno b0 Hb0 Hi.
      assert (Hb : In (flag_with (mi_matched mi) b0) (bids_of s' id)) by (rewrite HBO; apply in_map; exact Hb0).
      pose proof (Hno _ Hb) as Hf. apply (flag_with_matched _ b0) in Hi. congruence.
Qed.

(* ------------------------------------------------------------------ (g) the flag of a freshly placed bid *)
Lemma atype_eqb_eq x y : atype_eqb x y = true <-> x = y.
Proof. destruct x, y; cbn; split; intros H; try reflexivity; try discriminate. Qed.

Lemma sell_amount_set_matched pd b x : sell_amount pd (set_b_matched b x) = sell_amount pd b.
Proof. reflexivity. Qed.

Lemma validate_fixed_bid_ok s a b :
  validate_fixed_bid s a b = Ok tt ->
  a_type a = FixedPrice /\ (b_denom b = a_pay_denom a \/ b_denom b = a_sell_denom a) /\ b_price b = a_start_price a
  /\ sell_amount (a_pay_denom a) b <= a_remaining a.
Proof.
  unfold validate_fixed_bid. cbv zeta. intros H.
  inv_step H; [inv_step H|]. inv_step H; [inv_step H|]. inv_step H; [inv_step H|]. inv_step H; [inv_step H|].
  apply negb_false_iff in E. apply atype_eqb_eq in E. apply negb_false_iff in E1. apply Z.eqb_eq in E1.
  apply Z.ltb_ge in E2. split; [exact E|]. split; [|split; assumption].
  destruct (N.eqb (b_denom b) (a_pay_denom a)) eqn:D1; [left; apply N.eqb_eq; exact D1|].
  destruct (N.eqb (b_denom b) (a_sell_denom a)) eqn:D2; [right; apply N.eqb_eq; exact D2|].
  cbn in E0. discriminate E0.
Qed.

Lemma validate_batch_bid_ok s a b want :
  validate_batch_bid s a b want = Ok tt -> a_type a = Batch /\ b_denom b = want.
Proof.
  unfold validate_batch_bid. intros H. inv_step H; [inv_step H|]. inv_step H; [inv_step H|].
  apply negb_false_iff in E. apply atype_eqb_eq in E. apply negb_false_iff in E0. apply N.eqb_eq in E0.
  split; assumption.
Qed.

Theorem place_bid_flag s u id bt price d amt s' :
  place_bid s u id bt price d amt = Ok s' ->
  exists a nb, find_auction s id = Some a /\ a_status a = Started /\ st_bids s' = st_bids s ++ [nb] /\
    b_auction nb = id /\ b_id nb = (st_bseq s id + 1)%N /\ b_bidder nb = u /\ b_type nb = bt /\
    b_price nb = price /\ b_denom nb = d /\ b_amt nb = amt /\
    match bt with
    | BFixed => a_type a = FixedPrice /\ b_matched nb = (0 <? sell_amount (a_pay_denom a) nb)
                /\ (d = a_pay_denom a \/ d = a_sell_denom a) /\ price = a_start_price a
    | BWorth => a_type a = Batch /\ b_matched nb = false /\ d = a_pay_denom a /\ a_min_price a <= price
    | BMany => a_type a = Batch /\ b_matched nb = false /\ d = a_sell_denom a /\ a_min_price a <= price
    end.
Proof.
  unfold place_bid. cbv zeta. intros H.
  inv_step H; [|inv_step H]. inv_step H; [inv_step H|]. inv_step H; [inv_step H|].
  inv_step H; [|inv_step H].
  inv_step H. inv_fund_as id E3 b1 xs1 K1.
  inv_step H. destruct s0 as [s2 nb].
  inv_step H. inv_hook_as E4 tr1. inv_step H. subst s'.
  apply negb_false_iff in E0. apply status_eqb_eq in E0.
  exists a. destruct bt.
  - inv_step E3. match goal with HH : validate_fixed_bid _ _ _ = Ok ?x |- _ => destruct x end.
    apply validate_fixed_bid_ok in E4. destruct E4 as (T & Dn & Pr & _).
    inv_step E3. inv_send_as id E4 b2 xs2 K2. injection E3 as <- Hnb.
    exists nb. split; [reflexivity|]. split; [exact E0|]. subst nb. do 8 (split; [reflexivity|]).
    split; [exact T|]. split; [reflexivity|]. split; [exact Dn|exact Pr].
  - inv_step E3. match goal with HH : validate_batch_bid _ _ _ _ = Ok ?x |- _ => destruct x end.
    apply validate_batch_bid_ok in E4. destruct E4 as (T & Dn).
    inv_step E3. inv_send_as id E4 b2 xs2 K2. injection E3 as <- Hnb.
    exists nb. split; [reflexivity|]. split; [exact E0|]. subst nb. do 8 (split; [reflexivity|]).
    split; [exact T|]. split; [reflexivity|]. split; [exact Dn|].
    rewrite T in E1. cbn [atype_eqb andb] in E1. apply Z.ltb_ge in E1. exact E1.
  - inv_step E3. match goal with HH : validate_batch_bid _ _ _ _ = Ok ?x |- _ => destruct x end.
    apply validate_batch_bid_ok in E4. destruct E4 as (T & Dn).
    inv_step E3. inv_send_as id E4 b2 xs2 K2. injection E3 as <- Hnb.
    exists nb. split; [reflexivity|]. split; [exact E0|]. subst nb. do 8 (split; [reflexivity|]).
    split; [exact T|]. split; [reflexivity|]. split; [exact Dn|].
    rewrite T in E1. cbn [atype_eqb andb] in E1. apply Z.ltb_ge in E1. exact E1.
Qed.

(* settlement of a fixed price auction leaves all bids (and their flags) alone *)
Lemma close_fixed_bids s a s' : close_fixed s a = Ok s' -> st_bids s' = st_bids s /\ st_mlen s' = st_mlen s.
Proof.
  intros H. apply close_fixed_inv in H. destruct (settle_shape_fields _ _ _ H) as (H1 & H2 & _). split; assumption.
Qed.

(* ------------------------------------------------------------------ (i) queries *)
Lemma opt_match_N f x : opt_match N.eqb f x = true <-> (forall y, f = Some y -> x = y).
Proof.
  destruct f as [y|]; cbn [opt_match].
  - rewrite N.eqb_eq. split; [intros -> z Hz; congruence|intros H; apply H; reflexivity].
  - split; [intros _ y Hy; discriminate Hy|reflexivity].
Qed.
Lemma opt_match_bool f x : opt_match Bool.eqb f x = true <-> (forall y, f = Some y -> x = y).
Proof.
  destruct f as [y|]; cbn [opt_match].
  - rewrite Bool.eqb_true_iff. split; [intros -> z Hz; congruence|intros H; apply H; reflexivity].
  - split; [intros _ y Hy; discriminate Hy|reflexivity].
Qed.
Lemma opt_match_status f x : opt_match status_eqb f x = true <-> (forall y, f = Some y -> x = y).
Proof.
  destruct f as [y|]; cbn [opt_match].
  - rewrite status_eqb_eq. split; [intros -> z Hz; congruence|intros H; apply H; reflexivity].
  - split; [intros _ y Hy; discriminate Hy|reflexivity].
Qed.
Lemma opt_match_atype f x : opt_match atype_eqb f x = true <-> (forall y, f = Some y -> x = y).
Proof.
  destruct f as [y|]; cbn [opt_match].
  - rewrite atype_eqb_eq. split; [intros -> z Hz; congruence|intros H; apply H; reflexivity].
  - split; [intros _ y Hy; discriminate Hy|reflexivity].
Qed.

Theorem query_get_bid s a i :
  run_query s (QGetBid a i) = match find_bid s a i with Some b => RBids [b] | None => RNotFound end
  /\ (forall b, find_bid s a i = Some b -> In b (st_bids s) /\ b_auction b = a /\ b_id b = i)
  /\ (find_bid s a i = None -> forall b, In b (st_bids s) -> ~ (b_auction b = a /\ b_id b = i)).
Proof.
  split; [reflexivity|]. split; [apply find_bid_some|].
  intros HN b Hb [Ha Hi]. unfold find_bid in HN. pose proof (find_none _ _ HN b Hb) as Hc. cbn beta in Hc.
  rewrite Ha, Hi, !N.eqb_refl in Hc. discriminate Hc.
Qed.

Theorem query_list_bid s a u m :
  exists l, run_query s (QListBid a u m) = RBids l /\
    l = filter (fun b => opt_match N.eqb u (b_bidder b) && opt_match Bool.eqb m (b_matched b)) (bids_of s a) /\
    (forall b, In b l <-> In b (st_bids s) /\ b_auction b = a
                          /\ (forall x, u = Some x -> b_bidder b = x) /\ (forall x, m = Some x -> b_matched b = x)).
Proof.
  eexists. split; [reflexivity|]. split; [reflexivity|]. intros b.
  rewrite filter_In, andb_true_iff, opt_match_N, opt_match_bool. unfold bids_of. rewrite filter_In, N.eqb_eq.
  tauto.
Qed.

Lemma insert_perm {A} (le : A -> A -> bool) x l : Permutation (insert le x l) (x :: l).
Proof.
  induction l as [|y l IH]; cbn [insert]; [apply Permutation_refl|].
  destruct (le x y); [apply Permutation_refl|].
  eapply Permutation_trans; [apply perm_skip; exact IH|apply perm_swap].
Qed.
Lemma sort_by_perm {A} (le : A -> A -> bool) l : Permutation (sort_by le l) l.
Proof.
  induction l as [|x l IH]; cbn [sort_by fold_right]; [apply Permutation_refl|].
  eapply Permutation_trans; [apply insert_perm|apply perm_skip; exact IH].
Qed.

Theorem query_list_allowed s a :
  exists l, run_query s (QListAllowed a) = RAllowed l /\ Permutation l (allowed_of s a) /\
    (forall x, In x l <-> In x (st_allowed s) /\ al_auction x = a).
Proof.
  eexists. split; [reflexivity|]. split; [apply sort_by_perm|]. intros x. split.
  - intros H. apply (Permutation_in _ (sort_by_perm allowed_le (allowed_of s a))) in H.
    unfold allowed_of in H. apply filter_In in H. rewrite N.eqb_eq in H. exact H.
  - intros H. apply (Permutation_in _ (Permutation_sym (sort_by_perm allowed_le (allowed_of s a)))).
    unfold allowed_of. apply filter_In. rewrite N.eqb_eq. exact H.
Qed.

Theorem query_list_vesting s a :
  run_query s (QListVesting a) = RVqs (vqs_of s a) /\
  (forall v, In v (vqs_of s a) <-> In v (st_vqs s) /\ v_auction v = a).
Proof. split; [reflexivity|]. intros v. unfold vqs_of. rewrite filter_In, N.eqb_eq. reflexivity. Qed.

Theorem query_list_auction s st ty :
  exists l, run_query s (QListAuction st ty) = RAuctions l /\
    l = filter (fun a => opt_match status_eqb st (a_status a) && opt_match atype_eqb ty (a_type a)) (st_auctions s) /\
    (forall a, In a l <-> In a (st_auctions s) /\ (forall x, st = Some x -> a_status a = x)
                          /\ (forall x, ty = Some x -> a_type a = x)).
Proof.
  eexists. split; [reflexivity|]. split; [reflexivity|]. intros a.
  rewrite filter_In, andb_true_iff, opt_match_status, opt_match_atype. tauto.
Qed.

Theorem query_get_auction s a :
  run_query s (QGetAuction a) = match find_auction s a with Some x => RAuctions [x] | None => RNotFound end
  /\ (forall x, find_auction s a = Some x -> In x (st_auctions s) /\ a_id x = a).
Proof. split; [reflexivity|apply find_auction_some]. Qed.

Theorem query_get_allowed s a u :
  run_query s (QGetAllowed a u) = match find_allowed s a u with Some x => RAllowed [x] | None => RNotFound end
  /\ (forall x, find_allowed s a u = Some x -> In x (st_allowed s) /\ al_auction x = a /\ al_bidder x = u).
Proof.
  split; [reflexivity|]. unfold find_allowed. intros x H. apply find_some in H. destruct H as [H1 H2].
  apply andb_true_iff in H2. rewrite !N.eqb_eq in H2. tauto.
Qed.
