(* C05: the executable statement c05_grants (after an accepted allow-list operation the stored maximum of every
   account it names is the one granted last) holds of every model transition; with Chk05.c05_ok_model this gives the
   link for c05_all. *)
From Coq Require Import ZArith NArith List Bool Arith Lia.
From FR Require Import Dec Types Bank Match Step Genesis Model Spec Checkers.
From FR.Proofs Require Import InvDefs EscrowTx InvAll FixedFacts.
From FR.Proofs Require AllowFacts PrecondBase Chk05.
Import ListNotations.
Open Scope Z_scope.

Lemma optZ_eqb_refl x : optZ_eqb x x = true.
Proof. destruct x; cbn; [apply Z.eqb_refl|reflexivity]. Qed.

Lemma stored_max_put s a u m a' u' :
  stored_max (put_allowed s a u m) a' u' = if N.eqb a' a && N.eqb u' u then Some m else stored_max s a' u'.
Proof.
  unfold stored_max. rewrite AllowFacts.find_put_allowed. destruct (N.eqb a' a && N.eqb u' u); reflexivity.
Qed.

Lemma stored_max_trace s tr a u : stored_max (with_trace s tr) a u = stored_max s a u.
Proof. reflexivity. Qed.

(* granted, as a left fold with an explicit start value *)
Definition granted_from (acc : option Z) (l : list (N * addr_str * option Z)) (u : N) : option Z :=
  fold_left (fun acc e => match e with
                          | (_, AGood _ v, Some m) => if N.eqb v u then Some m else acc
                          | _ => acc end) l acc.

(* after add_entries the stored maximum of u is what the list grants u last, or what it was before *)
Lemma add_entries_stored a : forall l s s' u,
  add_entries s a l = Ok s' ->
  stored_max s' (a_id a) u = granted_from (stored_max s (a_id a) u) l u.
Proof.
  induction l as [|[[ea who] max] rest IH]; intros s s' u H; cbn [add_entries] in H.
  - injection H as <-. reflexivity.
  - destruct who as [up v|]; [|discriminate]. destruct max as [m|]; [|discriminate].
    destruct (negb (0 <? m)); [discriminate|]. destruct (a_sell_amt a <? m); [discriminate|].
    rewrite (IH _ _ u H). unfold granted_from at 2. cbn [fold_left]. fold (granted_from (if N.eqb v u then Some m else stored_max s (a_id a) u) rest u).
    f_equal. rewrite stored_max_put, N.eqb_refl. cbn [andb]. rewrite N.eqb_sym. reflexivity.
Qed.

(* an account named by the list is granted something by it, whatever the start value *)
Lemma granted_from_named : forall l acc acc' u ea up max,
  In (ea, AGood up u, max) l -> (forall e, In e l -> match e with (_, AGood _ _, Some _) => True | _ => False end) ->
  granted_from acc l u = granted_from acc' l u.
Proof.
  induction l as [|[[ea0 who0] max0] rest IH]; intros acc acc' u ea up max Hin Hall; [destruct Hin|].
  unfold granted_from. cbn [fold_left].
  pose proof (Hall _ (or_introl eq_refl)) as H0. destruct who0 as [up0 v|]; [|contradiction]. destruct max0 as [m0|]; [|contradiction].
  destruct Hin as [E|Hin].
  - injection E as -> -> ->. rewrite N.eqb_refl. reflexivity.
  - destruct (N.eqb v u); [reflexivity|].
    apply (IH acc acc' u ea up max Hin). intros e He. apply Hall. now right.
Qed.

Lemma add_entries_all_good a : forall l s s', add_entries s a l = Ok s' ->
  forall e, In e l -> match e with (_, AGood _ _, Some _) => True | _ => False end.
Proof.
  induction l as [|[[ea who] max] rest IH]; intros s s' H e He; [destruct He|]. cbn [add_entries] in H.
  destruct who as [up v|]; [|discriminate]. destruct max as [m|]; [|discriminate].
  destruct (negb (0 <? m)); [discriminate|]. destruct (a_sell_amt a <? m); [discriminate|].
  destruct He as [<-|He]; [exact I|]. eapply IH; eassumption.
Qed.

Lemma api_add_grants s id l s' :
  api_add s id l = Ok s' ->
  forallb (fun e => match e with
                    | (_, AGood _ u, _) => optZ_eqb (stored_max s' id u) (granted l u)
                    | _ => true end) l = true.
Proof.
  unfold api_add. destruct l as [|e0 l0] eqn:El; [discriminate|]. rewrite <- El in *. clear El e0 l0.
  destruct (find_auction s id) as [a|] eqn:Fa; [|discriminate]. intros H.
  apply bind_inv in H. destruct H as [s1 [H1 H]].
  apply PrecondBase.call_hook_ok_inv in H1. destruct H1 as (_ & cs & ->).
  pose proof (FrameFacts.find_auction_some _ _ _ Fa) as [_ Hid]. subst id.
  pose proof (add_entries_all_good a l _ _ H) as Hall.
  apply forallb_forall. intros [[ea who] max] He. destruct who as [up u|]; [|reflexivity].
  rewrite (add_entries_stored a l _ _ u H). unfold granted. fold (granted_from None l u).
  rewrite (granted_from_named l _ None u ea up max He Hall). apply optZ_eqb_refl.
Qed.

Lemma api_update_grants s id u max s' : api_update s id u max = Ok s' -> optZ_eqb (stored_max s' id u) max = true.
Proof.
  unfold api_update. destruct (find_auction s id); [|discriminate]. destruct (find_allowed s id u); [|discriminate].
  destruct (check_pos max) as [m|] eqn:Em; [|discriminate]. intros H.
  apply bind_inv in H. destruct H as [s1 [H1 H]].
  apply PrecondBase.call_hook_ok_inv in H1. destruct H1 as (_ & cs & ->). injection H as <-.
  rewrite stored_max_put, !N.eqb_refl. cbn [andb].
  unfold check_pos in Em. destruct max as [z|]; [|discriminate]. destruct (0 <? z); [|discriminate]. injection Em as <-.
  cbn. apply Z.eqb_refl.
Qed.

Theorem c05_grants_model s o : c05_grants (model_trans s o) = true.
Proof.
  unfold model_trans. fold (ghost_reset s). destruct (step (ghost_reset s) o) as [out s'] eqn:Es.
  unfold c05_grants. cbn [t_op t_class t_post].
  destruct o as [m|id l|id u max|t orc|t orc k|from to d amt|ls|]; try reflexivity.
  - destruct m as [| | | | |id ea who max|]; try reflexivity. destruct who as [up u|]; [|reflexivity].
    destruct (oclass_eqb (class_of out) KOk) eqn:Ek; [|destruct (class_of out); try reflexivity; discriminate Ek].
    apply class_ok_iff in Ek. subst out. assert (Hk : class_of Accepted = KOk) by reflexivity. rewrite Hk.
    cbn [step] in Es. unfold deliver_tx in Es. cbn [check_basic] in Es. cbn [handle] in Es.
    destruct (st_switch (ghost_reset s)); [|cbn [fail commit] in Es; discriminate Es].
    destruct (api_add (ghost_reset s) id [(ea, AGood up u, max)]) as [s1|c tr] eqn:Ea; cbn [commit] in Es; [|discriminate Es].
    injection Es as <-. pose proof (api_add_grants _ _ _ _ Ea) as G. cbn [forallb] in G. rewrite andb_true_r in G.
    unfold granted in G. cbn [fold_left] in G. destruct max as [mx|].
    + rewrite N.eqb_refl in G. exact G.
    + (* a nil maximum is never accepted *)
      exfalso. unfold api_add in Ea. destruct (find_auction (ghost_reset s) id); [|discriminate].
      apply bind_inv in Ea. destruct Ea as [s2 [_ Ea]]. cbn [add_entries] in Ea. discriminate.
  - destruct (oclass_eqb (class_of out) KOk) eqn:Ek; [|destruct (class_of out); try reflexivity; discriminate Ek].
    apply class_ok_iff in Ek. subst out. assert (Hk : class_of Accepted = KOk) by reflexivity. rewrite Hk.
    cbn [step] in Es. destruct (api_add (ghost_reset s) id l) as [s1|c tr] eqn:Ea; cbn [commit] in Es; [|discriminate Es].
    injection Es as <-. eapply api_add_grants; exact Ea.
  - destruct (oclass_eqb (class_of out) KOk) eqn:Ek; [|destruct (class_of out); try reflexivity; discriminate Ek].
    apply class_ok_iff in Ek. subst out. assert (Hk : class_of Accepted = KOk) by reflexivity. rewrite Hk.
    cbn [step] in Es. destruct (api_update (ghost_reset s) id u max) as [s1|c tr] eqn:Ea; cbn [commit] in Es; [|discriminate Es].
    injection Es as <-. eapply api_update_grants; exact Ea.
Qed.

Lemma oclass_eqb_refl c : oclass_eqb c c = true.
Proof. destruct c; reflexivity. Qed.

Theorem c05_api_model s o : c05_api (model_trans s o) = true.
Proof.
  unfold model_trans. destruct (step (with_trace (with_bank s (st_bal s) []) []) o) as [out s'] eqn:Es.
  unfold c05_api. cbn [t_op t_class t_pre].
  destruct o; try reflexivity; rewrite Es; cbn [fst]; apply oclass_eqb_refl.
Qed.

Theorem c05_all_model s o : Inv s -> oracle_ok s o -> c05_all (model_trans s o) = true.
Proof.
  intros I Ho. unfold c05_all. rewrite (Chk05.c05_ok_model s o I Ho), (c05_grants_model s o), (c05_api_model s o). reflexivity.
Qed.
