(* C19: the executable statement c19_release_own holds of every model transition: it is the release clause of c09_ok.
   With Chk19.c19_ok_model this gives the link for c19_all. *)
From Coq Require Import ZArith NArith List Bool Arith Lia.
From FR Require Import Dec Types Bank Match Step Genesis Model Spec Checkers.
From FR.Proofs Require Import InvDefs InvAll.
From FR.Proofs Require Chk09 Chk19.
Import ListNotations.
Open Scope Z_scope.

Lemma c09_ok_release_own t : c09_ok t = true -> c19_release_own t = true.
Proof. unfold c09_ok. intros H. apply andb_true_iff in H. destruct H as [_ H]. exact H. Qed.

Theorem c19_all_model s o : Inv s -> oracle_ok s o -> c19_all (model_trans s o) = true.
Proof.
  intros I Ho. unfold c19_all. rewrite (Chk19.c19_ok_model s o I).
  rewrite (c09_ok_release_own _ (Chk09.c09_ok_model s o I Ho)). reflexivity.
Qed.
