(* C15, part 1: the genesis exported from a state satisfying the invariant passes Validate.
   Uses of the invariant: ids_seq, auctions_wf, bids_wf, allowed_wf, vqs_wf, params_wf. *)
From Coq Require Import ZArith NArith List Bool Arith Lia Permutation Sorted.
From FR Require Import Dec Types Bank Match Step Genesis Model Spec.
From FR.Proofs Require Import InvDefs GenesisSort.
Import ListNotations.
Open Scope Z_scope.

(* ------------------------------------------------------------------ ids_upto *)
Lemma ids_upto_seqN k : ids_upto k = seqN 0 (N.to_nat k).
Proof. unfold ids_upto. exact (map_of_nat_seq 0 (N.to_nat k)). Qed.

Lemma succ_ids_upto k : map N.succ (ids_upto k) = seqN 1 (N.to_nat k).
Proof. rewrite ids_upto_seqN, map_succ_seqN. reflexivity. Qed.

Lemma ids_upto_NoDup k : NoDup (ids_upto k).
Proof. rewrite ids_upto_seqN. apply seqN_NoDup. Qed.

Lemma ids_upto_length k : length (ids_upto k) = N.to_nat k.
Proof. rewrite ids_upto_seqN. apply seqN_length. Qed.

(* ------------------------------------------------------------------ unique keys from the invariant *)
Definition bid_key (b : bid) : N * N := (b_auction b, b_id b).
Definition allowed_key (x : allowed) : N * N := (al_auction x, al_bidder x).
Definition vq_key (v : vq) : N * Z := (v_auction v, v_time v).

Lemma bid_keys_NoDup s : bids_wf s -> NoDup (map bid_key (st_bids s)).
Proof.
  intros [_ Hids]. unfold bid_key. apply (NoDup_pair_keys b_auction b_id). intros a.
  change (filter (fun x => N.eqb (b_auction x) a) (st_bids s)) with (bids_of s a).
  rewrite Hids, succ_ids_upto. apply seqN_NoDup.
Qed.

Lemma auction_ids_NoDup s : ids_seq s -> NoDup (map a_id (st_auctions s)).
Proof. intros H. rewrite H. apply ids_upto_NoDup. Qed.

(* ------------------------------------------------------------------ the per-record checks *)
Lemma auction_ok_of_wf a : auction_wf a -> auction_ok a = true.
Proof.
  intros H. unfold auction_ok.
  pose proof (awf_price a H) as Hp. pose proof (awf_amt a H) as Ha.
  pose proof (awf_denoms a H) as Hd. pose proof (awf_scheds a H) as Hs.
  apply Z.ltb_lt in Hp. rewrite Hp.
  assert (0 <=? a_sell_amt a = true) as Ha' by (apply Z.leb_le; lia). rewrite Ha'.
  apply N.eqb_neq in Hd. rewrite Hd. cbn [andb negb].
  destruct Hs as [Hs|Hs]; [rewrite Hs; reflexivity|].
  destruct (a_scheds a); [reflexivity|exact Hs].
Qed.

Lemma bid_ok_of_wf s b : bid_wf s b -> bid_ok b = true.
Proof.
  intros H. unfold bid_ok. apply andb_true_intro. split; apply Z.ltb_lt; [apply (bwf_price s b H)|apply (bwf_amt s b H)].
Qed.

Lemma forallb_sort_by {A} (le : A -> A -> bool) (f : A -> bool) (Q : A -> Prop) (l : list A) :
  (forall x, Q x -> f x = true) -> Forall Q l -> forallb f (sort_by le l) = true.
Proof.
  intros HQ HF. apply forallb_forall. intros x Hx. apply sort_by_in in Hx.
  rewrite Forall_forall in HF. apply HQ. apply HF. exact Hx.
Qed.

Lemma Forall_forallb {A} (f : A -> bool) (Q : A -> Prop) (l : list A) :
  (forall x, Q x -> f x = true) -> Forall Q l -> forallb f l = true.
Proof.
  intros HQ HF. apply forallb_forall. intros x Hx. rewrite Forall_forall in HF. apply HQ. apply HF. exact Hx.
Qed.

(* ------------------------------------------------------------------ Theorem 1 *)
Theorem export_validates_parts s :
  ids_seq s -> auctions_wf s -> bids_wf s -> allowed_wf s -> vqs_wf s -> params_wf s ->
  validate (export s) = true.
Proof.
  intros Hids Hau Hb Hal Hvq Hpa.
  unfold validate, export. cbn [g_allowed g_vqs g_bids g_auctions g_params].
  assert (nodup_by (fun x y => N.eqb (al_auction x) (al_auction y) && N.eqb (al_bidder x) (al_bidder y))
                   (sort_by allowed_le (st_allowed s)) = true) as H1.
  { apply (nodup_by_of_NoDup allowed_key).
    - intros x y E. apply andb_prop in E. destruct E as [E1 E2].
      apply N.eqb_eq in E1. apply N.eqb_eq in E2. unfold allowed_key. congruence.
    - apply sort_by_NoDup_keys. apply Hal. }
  assert (forallb allowed_ok (sort_by allowed_le (st_allowed s)) = true) as H2.
  { apply (forallb_sort_by _ _ (fun x => 0 < al_max x)); [|apply Hal].
    intros x Hx. unfold allowed_ok. apply Z.ltb_lt. exact Hx. }
  assert (nodup_by (fun x y => N.eqb (v_auction x) (v_auction y) && (v_time x =? v_time y))
                   (sort_by vq_le (st_vqs s)) = true) as H3.
  { apply (nodup_by_of_NoDup vq_key).
    - intros x y E. apply andb_prop in E. destruct E as [E1 E2].
      apply N.eqb_eq in E1. apply Z.eqb_eq in E2. unfold vq_key. congruence.
    - apply sort_by_NoDup_keys. apply Hvq. }
  assert (forallb vq_ok (sort_by vq_le (st_vqs s)) = true) as H4.
  { apply (forallb_sort_by _ _ (vq_wf s)); [|apply Hvq].
    intros v Hv. unfold vq_ok. apply Z.leb_le. apply (vwf_amt s v Hv). }
  assert (nodup_by (fun x y => N.eqb (b_auction x) (b_auction y) && N.eqb (b_id x) (b_id y))
                   (sort_by bid_le (st_bids s)) = true) as H5.
  { apply (nodup_by_of_NoDup bid_key).
    - intros x y E. apply andb_prop in E. destruct E as [E1 E2].
      apply N.eqb_eq in E1. apply N.eqb_eq in E2. unfold bid_key. congruence.
    - apply sort_by_NoDup_keys. apply bid_keys_NoDup. exact Hb. }
  assert (forallb bid_ok (sort_by bid_le (st_bids s)) = true) as H6.
  { apply (forallb_sort_by _ _ (bid_wf s)); [|apply Hb]. apply bid_ok_of_wf. }
  assert (nodup_by (fun x y => N.eqb (a_id x) (a_id y)) (st_auctions s) = true) as H7.
  { apply (nodup_by_of_NoDup a_id).
    - intros x y E. apply N.eqb_eq. exact E.
    - apply auction_ids_NoDup. exact Hids. }
  assert (forallb auction_ok (st_auctions s) = true) as H8.
  { apply (Forall_forallb _ auction_wf); [apply auction_ok_of_wf|exact Hau]. }
  destruct Hpa as [H9 H10].
  rewrite H1, H2, H3, H4, H5, H6, H7, H8, H9, H10. reflexivity.
Qed.

Theorem export_validates s : Inv s -> validate (export s) = true.
Proof.
  intros H. apply export_validates_parts; apply H.
Qed.
