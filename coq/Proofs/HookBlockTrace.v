(* C17, the hook trace of a whole successful block: one BeforeAllocated hook (every listener once,
   in order) per closing auction, for a subsequence of the Started-and-due auctions, in store order;
   nothing else.  No axioms. *)
From Coq Require Import ZArith NArith List Bool Arith Lia.
From FR Require Import Dec Types Bank Match Step Genesis Model Spec Checkers.
From FR.Proofs Require Import HookBase HookFacts HookSites HookVeto HookBlock.
Import ListNotations.
Open Scope Z_scope.

Inductive subseq {A : Type} : list A -> list A -> Prop :=
| sub_nil : forall l, subseq [] l
| sub_skip : forall x l1 l2, subseq l1 l2 -> subseq l1 (x :: l2)
| sub_take : forall x l1 l2, subseq l1 l2 -> subseq (x :: l1) (x :: l2).

Definition alloc_hook (h : auction * minfo * bool) : N * list Z :=
  (H_BeforeAllocated, alloc_args (fst (fst h)) (snd (fst h)) (snd h)).

Lemma expected_trace_app : forall s e1 e2,
  expected_trace s (e1 ++ e2) = expected_trace s e1 ++ expected_trace s e2.
Proof. intros s e1 e2. unfold expected_trace. apply flat_map_app. Qed.

Lemma process_listeners : forall t orc s a s', process t orc s a = Ok s' -> st_listeners s' = st_listeners s.
Proof.
  intros t orc s a s' H. pose proof (process_good t orc s a) as G. rewrite H in G.
  destruct G as [Hl _]. exact Hl.
Qed.

Lemma process_all_trace : forall l t orc s s',
  process_all t orc s l = Ok s' ->
  exists hs sub,
    st_trace s' = st_trace s ++ expected_trace s (map alloc_hook hs) /\
    subseq sub l /\ map (fun h => a_id (fst (fst h))) hs = map a_id sub /\
    Forall (fun a => a_status a = Started /\ last_end a <= t) sub.
Proof.
  induction l as [|a rest IH]; intros t orc s s' H; cbn [process_all] in H.
  - injection H as <-. exists [], []. cbn. rewrite app_nil_r.
    split; [reflexivity|]. split; [constructor|]. split; [reflexivity | constructor].
  - apply bind_ok_inv in H as [s1 [H1 H]].
    pose proof (process_listeners _ _ _ _ _ H1) as Hl.
    apply IH in H as [hs [sub [Ht [Hsub [Hids Hall]]]]].
    rewrite (expected_trace_listeners s s1) in Ht by exact Hl.
    apply process_hooks in H1 as [Ht1|[Hst [Hdue [a' [mi [w [Hid [_ [Ht1 _]]]]]]]]].
    + exists hs, sub. split; [congruence|]. split; [apply sub_skip; exact Hsub|]. split; assumption.
    + exists ((a', mi, w) :: hs), (a :: sub). split.
      * rewrite Ht, Ht1. cbn [map]. rewrite (expected_trace_cons s (alloc_hook (a', mi, w))).
        unfold alloc_hook at 1. cbn [fst snd]. rewrite expected_trace_cons. cbn [fst snd expected_trace flat_map].
        rewrite app_nil_r, <- app_assoc. reflexivity.
      * split; [apply sub_take; exact Hsub|]. split; [cbn [map fst]; congruence|].
        constructor; [split; assumption | exact Hall].
Qed.

Theorem block_trace : forall s t orc,
  fst (step s (OBlock t orc)) = BlockOk ->
  exists hs sub,
    st_trace (snd (step s (OBlock t orc))) = st_trace s ++ expected_trace s (map alloc_hook hs) /\
    subseq sub (st_auctions s) /\ map (fun h => a_id (fst (fst h))) hs = map a_id sub /\
    Forall (fun a => a_status a = Started /\ last_end a <= t) sub.
Proof.
  intros s t orc Hok. cbn [step] in *. unfold begin_block in *. cbv zeta in *.
  destruct (process_all t orc (with_now s t) (st_auctions (with_now s t))) as [s'|c tr] eqn:Hp;
    cbn [fst snd] in *; [|discriminate].
  apply process_all_trace in Hp as [hs [sub [Ht [Hsub [Hids Hall]]]]].
  exists hs, sub. split; [exact Ht|]. split; [exact Hsub|]. split; assumption.
Qed.
