(* E. calc_batch against clearing_spec. *)
From Coq Require Import ZArith NArith List Bool Arith Lia Permutation Sorting.
From FR Require Import Dec Types Match Spec.
From FR.Proofs Require Import MatchBase MatchSweep MatchDemand MatchSearch.
Import ListNotations.
Open Scope Z_scope.
Opaque P.

(* ------------------------------------------------------------------ *)
(* distinct_prices of a price-descending list: strictly descending, same elements *)

Lemma distinct_prices_cons2 b b' l :
  distinct_prices (b :: b' :: l) =
  if b_price b =? b_price b' then distinct_prices (b' :: l) else b_price b :: distinct_prices (b' :: l).
Proof. reflexivity. Qed.

Lemma prices_desc_cons2 b b' l :
  prices_desc (b :: b' :: l) = (b_price b' <=? b_price b) && prices_desc (b' :: l).
Proof. reflexivity. Qed.

Lemma prices_desc_head l : forall b,
  prices_desc (b :: l) = true -> forall x, In x l -> b_price x <= b_price b.
Proof.
  induction l as [|b' l IH]; intros b H x Hx; [destruct Hx|].
  rewrite prices_desc_cons2 in H. apply andb_prop in H. destruct H as [H1 H2]. apply Z.leb_le in H1.
  destruct Hx as [<-|Hx]; [exact H1|]. specialize (IH b' H2 x Hx). lia.
Qed.

Lemma distinct_prices_in l x : In x (distinct_prices l) <-> In x (map b_price l).
Proof.
  induction l as [|b l IH]; [reflexivity|].
  destruct l as [|b' l]; [reflexivity|].
  rewrite distinct_prices_cons2. change (map b_price (b :: b' :: l)) with (b_price b :: map b_price (b' :: l)).
  destruct (Z.eqb_spec (b_price b) (b_price b')) as [E|NE].
  - rewrite IH. split; [intros H; right; exact H|]. intros [<-|H]; [|exact H]. rewrite E. left. reflexivity.
  - cbn [In]. rewrite IH. reflexivity.
Qed.

Definition zgt (a b : Z) : Prop := b < a.

Lemma distinct_prices_sorted l : prices_desc l = true -> StronglySorted zgt (distinct_prices l).
Proof.
  induction l as [|b l IH]; intros H; [constructor|].
  destruct l as [|b' l]; [cbn [distinct_prices]; constructor; constructor|].
  rewrite distinct_prices_cons2. pose proof H as H'.
  rewrite prices_desc_cons2 in H. apply andb_prop in H. destruct H as [H1 H2]. apply Z.leb_le in H1.
  specialize (IH H2).
  destruct (Z.eqb_spec (b_price b) (b_price b')) as [E|NE]; [exact IH|].
  constructor; [exact IH|]. apply Forall_forall. intros y Hy. apply distinct_prices_in in Hy.
  apply in_map_iff in Hy. destruct Hy as (x & <- & Hx). unfold zgt.
  pose proof (prices_desc_head _ _ H' x Hx). destruct Hx as [<-|Hx]; [lia|].
  pose proof (prices_desc_head _ _ H2 x Hx). lia.
Qed.

Lemma sorted_nth l : StronglySorted zgt l ->
  forall i j, (i < j < length l)%nat -> nth j l 0 < nth i l 0.
Proof.
  induction 1 as [|a l HS IH HF]; intros i j Hij; [cbn [length] in Hij; lia|].
  cbn [length] in Hij. destruct j as [|j]; [lia|]. cbn [nth]. destruct i as [|i].
  - rewrite Forall_forall in HF. apply (HF (nth j l 0)). apply nth_In. lia.
  - apply IH. lia.
Qed.

(* the price probed by index h: lowest price first *)
Definition price_at (prices : list Z) (h : nat) : Z := nth (length prices - 1 - h) prices 0.

Lemma price_at_mono prices h h' :
  StronglySorted zgt prices -> (h <= h' < length prices)%nat -> price_at prices h <= price_at prices h'.
Proof.
  intros HS Hh. unfold price_at. destruct (Nat.eq_dec h h') as [->|NE]; [lia|].
  pose proof (sorted_nth prices HS (length prices - 1 - h') (length prices - 1 - h) ltac:(lia)). lia.
Qed.

Lemma price_at_in prices h : (h < length prices)%nat -> In (price_at prices h) prices.
Proof. intros Hh. unfold price_at. apply nth_In. lia. Qed.

Lemma price_at_ex prices q : In q prices -> exists h, (h < length prices)%nat /\ price_at prices h = q.
Proof.
  intros Hq. destruct (In_nth prices q 0 Hq) as (k & Hk & E).
  exists (length prices - 1 - k)%nat. split; [lia|]. unfold price_at.
  replace (length prices - 1 - (length prices - 1 - k))%nat with k by lia. exact E.
Qed.

Lemma fold_min_spec r : forall p0,
  In (fold_left Z.min r p0) (p0 :: r) /\ forall x, In x (p0 :: r) -> fold_left Z.min r p0 <= x.
Proof.
  induction r as [|a r IH]; intros p0; cbn [fold_left].
  - split; [left; reflexivity|]. intros x [<-|[]]. lia.
  - destruct (IH (Z.min p0 a)) as [I L]. set (m := fold_left Z.min r (Z.min p0 a)) in *. clearbody m. split.
    + destruct I as [E|I]; [|right; right; exact I]. subst m.
      destruct (Z.min_spec p0 a) as [[_ E']|[_ E']]; rewrite E'; [left|right; left]; reflexivity.
    + intros x Hx. pose proof (L (Z.min p0 a) (or_introl eq_refl)) as L0.
      destruct Hx as [<-|[<-|Hx]]; [lia|lia|]. apply L. right. exact Hx.
Qed.

(* ------------------------------------------------------------------ *)
(* calc_batch, restated with named parts *)

Definition probe_of (a : auction) (order : list bid) (al : list allowed) (h : nat) : sweep_out :=
  match_at (price_at (distinct_prices order) h) (a_sell_amt a) order al.

Definition empty_mres : mres := {| mr_total := 0; mr_matched := []; mr_bidders := [] |}.

Definition mi_of (a : auction) (bs : list bid) (prices : list Z) (best : option (nat * mres)) : minfo :=
  let price := match best with Some (h, _) => nth (length prices - 1 - h) prices 0 | None => 0 end in
  let r := match best with Some (_, r) => r | None => empty_mres end in
  {| mi_price := price; mi_matched := mr_matched r; mi_total := mr_total r;
     mi_bidders := bidders_of bs;
     mi_alloc := fun u => match lookup_bidder (mr_bidders r) u with Some (m, _) => m | None => 0 end;
     mi_refund := fun u => reserved_of (a_pay_denom a) bs u -
                           match lookup_bidder (mr_bidders r) u with Some (_, p) => p | None => 0 end |}.

Lemma calc_batch_unfold a bs order al :
  calc_batch a bs order al =
  match search (S (length (distinct_prices order))) (probe_of a order al) 0
               (length (distinct_prices order)) None with
  | None => None
  | Some best => Some (mi_of a bs (distinct_prices order) best)
  end.
Proof. reflexivity. Qed.

Lemma alloc_getb l u : match lookup_bidder l u with Some (m, _) => m | None => 0 end = fst (getb l u).
Proof. unfold getb. destruct (lookup_bidder l u) as [[m q]|]; reflexivity. Qed.
Lemma refund_getb l u : match lookup_bidder l u with Some (_, q) => q | None => 0 end = snd (getb l u).
Proof. unfold getb. destruct (lookup_bidder l u) as [[m q]|]; reflexivity. Qed.

(* the assignment of the sweep at price p *)
Definition batch_asg (order : list bid) (al : list allowed) (p : Z) : list (bid * Z) :=
  assign p (filter (fun b => p <=? b_price b) order) (cap_of al).

(* everything calc_batch returns, against the specification *)
Definition batch_result (a : auction) (bs order : list bid) (al : list allowed) (mi : minfo) : Prop :=
  mi_bidders mi = bidders_of bs /\
  match clearing_spec bs al (a_sell_amt a) with
  | Some p =>
      In p (map b_price bs) /\ 0 < total_demand bs al p <= a_sell_amt a /\
      mi_price mi = p /\ mi_total mi = total_demand bs al p /\
      mi_matched mi = matched_ids (batch_asg order al p) /\ mi_matched mi <> [] /\
      (forall u, mi_alloc mi u = demand_of bs (cap_of al u) u p) /\
      (forall u, mi_refund mi u = reserved_of (a_pay_denom a) bs u - paid_in p u (batch_asg order al p))
  | None =>
      mi_price mi = 0 /\ mi_total mi = 0 /\ mi_matched mi = [] /\ (forall u, mi_alloc mi u = 0) /\
      (forall u, mi_refund mi u = reserved_of (a_pay_denom a) bs u)
  end.

Lemma mi_of_none a bs prices :
  let mi := mi_of a bs prices None in
  mi_price mi = 0 /\ mi_total mi = 0 /\ mi_matched mi = [] /\ (forall u, mi_alloc mi u = 0) /\
  (forall u, mi_refund mi u = reserved_of (a_pay_denom a) bs u).
Proof.
  cbv zeta. unfold mi_of. cbn [mi_price mi_total mi_matched mi_alloc mi_refund empty_mres
                               mr_total mr_matched mr_bidders lookup_bidder].
  repeat split; intros; lia.
Qed.

Theorem calc_batch_full a bs ids order al :
  book_wf bs al -> valid_order bs ids = Some order -> 0 <= a_sell_amt a ->
  exists mi, calc_batch a bs order al = Some mi /\ batch_result a bs order al mi.
Proof.
  intros WF VO Hs.
  destruct (valid_order_spec bs ids order VO) as (Pm & Hdesc & _ & _).
  set (supply := a_sell_amt a) in *.
  set (prices := distinct_prices order).
  set (n := length prices).
  assert (Hamt : forall b, In b bs -> 0 <= b_amt b) by (intros b Hb; pose proof (wf_amt _ _ WF b Hb); lia).
  assert (HSS : StronglySorted zgt prices) by (apply distinct_prices_sorted; exact Hdesc).
  assert (Hbp : forall q, In q prices <-> In q (map b_price bs)).
  { intros q. subst prices. rewrite distinct_prices_in. split; apply Permutation_in, Permutation_map.
    - exact Pm.
    - apply Permutation_sym. exact Pm. }
  assert (Hpos : forall q, In q (map b_price bs) -> 0 < q).
  { intros q Hq. apply in_map_iff in Hq. destruct Hq as (b & <- & Hb). apply (wf_price _ _ WF b Hb). }
  assert (P1 : forall h, (h < n)%nat -> In (price_at prices h) (map b_price bs)).
  { intros h Hh. apply Hbp. apply price_at_in. exact Hh. }
  assert (HB : forall h, (h < n)%nat ->
     match probe_of a order al h with
     | SPanic => False
     | SExceed => supply < total_demand bs al (price_at prices h)
     | SFit r =>
         total_demand bs al (price_at prices h) <= supply /\
         mr_total r = total_demand bs al (price_at prices h) /\
         mr_matched r = matched_ids (batch_asg order al (price_at prices h)) /\
         (mr_matched r = [] <-> total_demand bs al (price_at prices h) = 0) /\
         (forall u, getb (mr_bidders r) u =
                    (demand_of bs (cap_of al u) u (price_at prices h),
                     paid_in (price_at prices h) u (batch_asg order al (price_at prices h))))
     end).
  { intros h Hh.
    pose proof (match_at_spec bs al ids order (price_at prices h) supply WF VO (Hpos _ (P1 h Hh)) Hs) as H.
    cbv zeta in H. exact H. }
  assert (Hnp : forall h, (h < n)%nat -> probe_of a order al h <> SPanic).
  { intros h Hh E. specialize (HB h Hh). rewrite E in HB. exact HB. }
  assert (Hanti : forall x y, (x <= y < n)%nat ->
            total_demand bs al (price_at prices y) <= total_demand bs al (price_at prices x)).
  { intros x y Hxy. apply total_demand_antitone; [exact Hamt|]. split.
    - apply Hpos, P1. lia.
    - apply price_at_mono; [exact HSS|exact Hxy]. }
  assert (Hfm : forall x y rx, (x <= y < n)%nat -> probe_of a order al x = SFit rx ->
            exists ry, probe_of a order al y = SFit ry).
  { intros x y rx Hxy Ex. pose proof (HB x ltac:(lia)) as Hx. rewrite Ex in Hx. destruct Hx as (Hx & _).
    pose proof (HB y ltac:(lia)) as Hy. pose proof (Hanti x y Hxy).
    destruct (probe_of a order al y) as [ry| |]; [exists ry; reflexivity|lia|destruct Hy]. }
  assert (Hem : forall x y rx ry, (x <= y < n)%nat -> probe_of a order al x = SFit rx ->
            probe_of a order al y = SFit ry -> mr_matched rx = [] -> mr_matched ry = []).
  { intros x y rx ry Hxy Ex Ey Em. pose proof (HB x ltac:(lia)) as Hx. rewrite Ex in Hx.
    pose proof (HB y ltac:(lia)) as Hy. rewrite Ey in Hy.
    destruct Hx as (_ & _ & _ & Ix & _). destruct Hy as (_ & _ & _ & Iy & _).
    apply Iy. apply Ix in Em. pose proof (Hanti x y Hxy).
    pose proof (total_demand_nonneg bs al (price_at prices y) Hamt (wf_al_pos _ _ WF)
                  (Hpos _ (P1 y ltac:(lia)))). lia. }
  destruct (search_spec n (probe_of a order al) Hnp Hfm Hem) as (best & Es & Hbest).
  rewrite calc_batch_unfold. fold prices. fold n. rewrite Es.
  exists (mi_of a bs prices best). split; [reflexivity|]. split; [reflexivity|].
  fold supply. unfold clearing_spec.
  destruct (filter (fun p => total_demand bs al p <=? supply) (map b_price bs)) as [|p0 r] eqn:Ef.
  - (* no bid price fits *)
    destruct Hbest as [[-> _]|(h0 & r0 & Hh0 & E0 & _ & _)]; [apply mi_of_none|].
    exfalso. pose proof (HB h0 Hh0) as H0. rewrite E0 in H0. destruct H0 as (H0 & _).
    assert (Hin : In (price_at prices h0) (filter (fun p => total_demand bs al p <=? supply) (map b_price bs))).
    { apply filter_In. split; [apply P1; exact Hh0|apply Z.leb_le; exact H0]. }
    rewrite Ef in Hin. destruct Hin.
  - (* some bid price fits: pm is the least one *)
    destruct (fold_min_spec r p0) as [Hin Hmin]. set (pm := fold_left Z.min r p0) in *.
    rewrite <- Ef in Hin, Hmin. apply filter_In in Hin. destruct Hin as [Hpm Hfit]. apply Z.leb_le in Hfit.
    destruct (price_at_ex prices pm (proj2 (Hbp pm) Hpm)) as (h & Hh & Eh). fold n in Hh.
    pose proof (HB h Hh) as Hprobe. rewrite Eh in Hprobe.
    destruct Hbest as [[_ Hall]|(h0 & r0 & Hh0 & E0 & Hlow & Hst)].
    { rewrite (Hall h Hh) in Hprobe. lia. }
    assert (Hle : (h0 <= h)%nat).
    { destruct (Nat.le_gt_cases h0 h) as [L|L]; [exact L|]. rewrite (Hlow h L) in Hprobe. lia. }
    pose proof (HB h0 Hh0) as H0. rewrite E0 in H0.
    assert (E : price_at prices h0 = pm).
    { pose proof (price_at_mono prices h0 h HSS ltac:(fold n; lia)) as M. rewrite Eh in M.
      destruct H0 as (H0 & _).
      assert (Hin : In (price_at prices h0) (filter (fun p => total_demand bs al p <=? supply) (map b_price bs))).
      { apply filter_In. split; [apply P1; exact Hh0|apply Z.leb_le; exact H0]. }
      specialize (Hmin _ Hin). lia. }
    rewrite E in H0. destruct H0 as (F1 & F2 & F3 & F4 & F5).
    pose proof (total_demand_nonneg bs al pm Hamt (wf_al_pos _ _ WF) (Hpos _ Hpm)) as Hnn.
    destruct (Z.ltb_spec 0 (total_demand bs al pm)) as [Hd|Hd].
    + assert (Hne : mr_matched r0 <> []) by (intros C; apply F4 in C; lia).
      assert (Hb : best = Some (h0, r0)).
      { rewrite Hst. unfold stored. destruct (mr_matched r0); [contradiction|reflexivity]. }
      rewrite Hb. unfold mi_of. cbn [mi_price mi_total mi_matched mi_alloc mi_refund].
      fold (price_at prices h0). rewrite E.
      split; [exact Hpm|]. split; [lia|]. split; [reflexivity|]. split; [exact F2|].
      split; [exact F3|]. split; [exact Hne|]. split.
      * intros u. rewrite alloc_getb, F5. reflexivity.
      * intros u. rewrite refund_getb, F5. reflexivity.
    + assert (Hb : best = None).
      { rewrite Hst. unfold stored. rewrite (proj2 F4 ltac:(lia)). reflexivity. }
      rewrite Hb. apply mi_of_none.
Qed.

(* E, as stated in the task *)
Theorem calc_batch_spec a bs ids order al :
  book_wf bs al -> valid_order bs ids = Some order -> 0 <= a_sell_amt a ->
  exists mi, calc_batch a bs order al = Some mi /\
    match clearing_spec bs al (a_sell_amt a) with
    | Some p => mi_price mi = p /\ (forall u, mi_alloc mi u = demand_of bs (cap_of al u) u p) /\
                mi_matched mi <> []
    | None => mi_price mi = 0 /\ (forall u, mi_alloc mi u = 0) /\ mi_matched mi = [] /\
              (forall u, mi_refund mi u = reserved_of (a_pay_denom a) bs u)
    end.
Proof.
  intros WF VO Hs. destruct (calc_batch_full a bs ids order al WF VO Hs) as (mi & E & _ & H).
  exists mi. split; [exact E|].
  destruct (clearing_spec bs al (a_sell_amt a)) as [p|].
  - destruct H as (_ & _ & H1 & _ & _ & H2 & H3 & _). repeat split; assumption.
  - destruct H as (H1 & _ & H2 & H3 & H4). repeat split; assumption.
Qed.

(* the allocation is the specification's allocation *)
Corollary calc_batch_spec_alloc a bs ids order al :
  book_wf bs al -> valid_order bs ids = Some order -> 0 <= a_sell_amt a ->
  exists mi, calc_batch a bs order al = Some mi /\
             forall u, mi_alloc mi u = spec_alloc bs al (a_sell_amt a) u.
Proof.
  intros WF VO Hs. destruct (calc_batch_spec a bs ids order al WF VO Hs) as (mi & E & H).
  exists mi. split; [exact E|]. intros u. unfold spec_alloc.
  destruct (clearing_spec bs al (a_sell_amt a)) as [p|].
  - destruct H as (_ & H & _). apply H.
  - destruct H as (_ & H & _). apply H.
Qed.

(* what clearing_spec returns: the least bid price whose demand fits, if that demand is positive *)
Lemma clearing_spec_some bs al supply p :
  clearing_spec bs al supply = Some p ->
  In p (map b_price bs) /\ 0 < total_demand bs al p <= supply /\
  forall q, In q (map b_price bs) -> total_demand bs al q <= supply -> p <= q.
Proof.
  unfold clearing_spec.
  destruct (filter (fun p => total_demand bs al p <=? supply) (map b_price bs)) as [|p0 r] eqn:Ef; [discriminate|].
  destruct (fold_min_spec r p0) as [Hin Hmin]. set (pm := fold_left Z.min r p0) in *.
  destruct (Z.ltb_spec 0 (total_demand bs al pm)) as [Hd|Hd]; [|discriminate].
  intros H. inversion H; subst p. rewrite <- Ef in Hin, Hmin. apply filter_In in Hin.
  destruct Hin as [H1 H2]. apply Z.leb_le in H2. split; [exact H1|]. split; [lia|].
  intros q Hq Hf. apply Hmin. apply filter_In. split; [exact Hq|apply Z.leb_le; exact Hf].
Qed.
