(* C17, item 5 for blocks, semantic form: a successful block in which no auction settles (no auction
   that was Started ends up in VestingS / Finished) makes no hook call.  Needs unique auction ids.
   No axioms. *)
From Coq Require Import ZArith NArith List Bool Arith Lia.
From FR Require Import Dec Types Bank Match Step Genesis Model Spec Checkers.
From FR.Proofs Require Import HookBase HookFacts HookSites HookBlock.
Import ListNotations.
Open Scope Z_scope.

(* ------------------------------------------------------------------ put_auction on the list *)
Definition putl (a : auction) (l : list auction) : list auction :=
  map (fun x => if N.eqb (a_id x) (a_id a) then a else x) l.

Lemma putl_ids : forall a l, map a_id (putl a l) = map a_id l.
Proof.
  intros a l. unfold putl. rewrite map_map. apply map_ext. intros x.
  destruct (N.eqb (a_id x) (a_id a)) eqn:E; [apply N.eqb_eq in E; congruence | reflexivity].
Qed.

Lemma putl_find_other : forall a l j, j <> a_id a ->
  find (fun x => N.eqb (a_id x) j) (putl a l) = find (fun x => N.eqb (a_id x) j) l.
Proof.
  intros a l j Hne. induction l as [|x r IH]; [reflexivity|].
  cbn [putl map find]. fold (putl a r). destruct (N.eqb (a_id x) (a_id a)) eqn:E.
  - apply N.eqb_eq in E.
    assert (E1 : N.eqb (a_id a) j = false) by (apply N.eqb_neq; congruence).
    assert (E2 : N.eqb (a_id x) j = false) by (apply N.eqb_neq; congruence).
    rewrite E1, E2. exact IH.
  - destruct (N.eqb (a_id x) j); [reflexivity | exact IH].
Qed.

Lemma putl_find_same : forall a l, In (a_id a) (map a_id l) ->
  find (fun x => N.eqb (a_id x) (a_id a)) (putl a l) = Some a.
Proof.
  intros a l Hin. induction l as [|x r IH]; [destruct Hin|].
  cbn [putl map find]. fold (putl a r). destruct (N.eqb (a_id x) (a_id a)) eqn:E.
  - rewrite N.eqb_refl. reflexivity.
  - rewrite E. apply IH. destruct Hin as [Hx|Hr]; [apply N.eqb_neq in E; congruence | exact Hr].
Qed.

(* ------------------------------------------------------------------ only the auction with id i changes *)
Definition onlyA (i : N) (s s' : state) : Prop :=
  map a_id (st_auctions s') = map a_id (st_auctions s) /\
  forall j, j <> i -> find_auction s' j = find_auction s j.

Lemma onlyA_same : forall i s s', st_auctions s' = st_auctions s -> onlyA i s s'.
Proof. intros i s s' E. unfold onlyA, find_auction. rewrite E. split; reflexivity. Qed.

Lemma onlyA_trans : forall i s1 s2 s3, onlyA i s1 s2 -> onlyA i s2 s3 -> onlyA i s1 s3.
Proof.
  intros i s1 s2 s3 [I1 F1] [I2 F2]. split; [congruence|].
  intros j Hj. rewrite F2, F1 by exact Hj. reflexivity.
Qed.

Lemma onlyA_put : forall i s a, a_id a = i -> onlyA i s (put_auction s a).
Proof.
  intros i s a <-. unfold onlyA, find_auction, put_auction. sproj. fold (putl a (st_auctions s)).
  split; [apply putl_ids | intros j Hj; apply putl_find_other; exact Hj].
Qed.

Definition onlyR (i : N) (s : state) (r : res state) : Prop :=
  match r with Ok s' => onlyA i s s' | Err _ _ => True end.

Lemma onlyR_bind : forall i s (r : res state) (f : state -> res state),
  onlyR i s r -> (forall s1, r = Ok s1 -> onlyR i s1 (f s1)) -> onlyR i s (bind r f).
Proof.
  intros i s r f Hr Hf. destruct r as [s1|c tr]; cbn [bind]; [|exact I].
  specialize (Hf s1 eq_refl). destruct (f s1) as [s2|c tr]; [|exact I].
  eapply onlyA_trans; eassumption.
Qed.

Lemma onlyR_nobank : forall i s r, (forall s', r = Ok s' -> nobank s s') -> onlyR i s r.
Proof.
  intros i s r H. destruct r as [s'|c tr]; [|exact I]. apply onlyA_same. apply (nb_auctions _ _ (H s' eq_refl)).
Qed.

Lemma onlyR_shift : forall i s0 s r, st_auctions s0 = st_auctions s -> onlyR i s0 r -> onlyR i s r.
Proof.
  intros i s0 s r E H. destruct r as [s'|c tr]; [|exact I]. cbn [onlyR] in *.
  unfold onlyA, find_auction in *. rewrite <- E. exact H.
Qed.

Lemma send_only : forall i s from to d amt, onlyR i s (send s from to d amt).
Proof. intros. apply onlyR_nobank. intros s' H. eapply send_ok; exact H. Qed.
Lemma pay_out_only : forall i s from d us f, onlyR i s (pay_out s from d us f).
Proof. intros. apply onlyR_nobank. intros s' H. eapply pay_out_ok; exact H. Qed.

Lemma allocate_only : forall i s a mi w, onlyR i s (allocate s a mi w).
Proof.
  intros. destruct (allocate s a mi w) as [s'|c tr] eqn:H; [|exact I].
  apply allocate_ok in H as [_ [Hnb _]]. apply onlyA_same. rewrite (nb_auctions _ _ Hnb). reflexivity.
Qed.

Lemma refund_selling_only : forall i s a, onlyR i s (refund_selling s a).
Proof. intros. unfold refund_selling. apply send_only. Qed.

(* ApplyVestingSchedules ends by storing the auction as Finished or VestingS *)
Lemma apply_vesting_shape : forall s a s', apply_vesting s a = Ok s' ->
  exists s1 st, s' = put_auction s1 (set_status a st) /\ settled st = true /\ st_auctions s1 = st_auctions s.
Proof.
  intros s a s' H. unfold apply_vesting in H. destruct (a_scheds a) as [|v vs].
  - apply bind_ok_inv in H as [s1 [H1 H]]. injection H as <-. apply send_ok in H1.
    exists s1, Finished. split; [reflexivity|]. split; [reflexivity | apply (nb_auctions _ _ H1)].
  - apply bind_ok_inv in H as [s1 [H1 H]]. injection H as <-. apply send_ok in H1.
    eexists (with_vqs s1 _), VestingS. split; [reflexivity|]. split; [reflexivity | apply (nb_auctions _ _ H1)].
Qed.

Lemma apply_vesting_only : forall s a, onlyR (a_id a) s (apply_vesting s a).
Proof.
  intros. destruct (apply_vesting s a) as [s'|c tr] eqn:H; [|exact I].
  apply apply_vesting_shape in H as [s1 [st [-> [_ E]]]].
  eapply onlyA_trans; [apply onlyA_same; exact E | apply onlyA_put; reflexivity].
Qed.

Lemma close_fixed_only : forall s a, onlyR (a_id a) s (close_fixed s a).
Proof.
  intros. unfold close_fixed. apply onlyR_bind; [apply allocate_only|]. intros s1 _.
  apply onlyR_bind; [apply refund_selling_only|]. intros s2 _. apply apply_vesting_only.
Qed.

Lemma settle_batch_only : forall s a mi, onlyR (a_id a) s (settle_batch s a mi).
Proof.
  intros. unfold settle_batch. apply onlyR_bind; [apply allocate_only|]. intros s1 _.
  apply onlyR_bind; [apply refund_selling_only|]. intros s2 _.
  apply onlyR_bind; [apply pay_out_only|]. intros s3 _. apply apply_vesting_only.
Qed.

Lemma close_batch_only : forall s orc a, onlyR (a_id a) s (close_batch s orc a).
Proof.
  intros. unfold close_batch. cbv zeta.
  destruct (valid_order (bids_of s (a_id a)) _) as [order|]; [|exact I].
  destruct (calc_batch a (bids_of s (a_id a)) order (allowed_of s (a_id a))) as [mi|]; [|exact I].
  assert (Hs : onlyR (a_id a) s (settle_batch (set_flags s (a_id a) (mi_matched mi)) (set_matched_price a (mi_price mi)) mi)).
  { eapply onlyR_shift; [|apply (settle_batch_only _ (set_matched_price a (mi_price mi)))]. reflexivity. }
  assert (He : onlyR (a_id a) s (extend_round (set_flags s (a_id a) (mi_matched mi)) (set_matched_price a (mi_price mi)))).
  { unfold extend_round. cbn [onlyR].
    eapply onlyA_trans; [apply (onlyA_same _ s (set_flags s (a_id a) (mi_matched mi))); reflexivity|].
    apply onlyA_put. reflexivity. }
  repeat match goal with |- onlyR _ _ (if ?b then _ else _) => destruct b end; assumption.
Qed.

Lemma release_loop_only : forall vs s a t, onlyR (a_id a) s (release_loop s a t vs).
Proof.
  induction vs as [|v rest IH]; intros s a t; cbn [release_loop].
  - apply onlyA_same. reflexivity.
  - destruct ((v_time v <=? t) && negb (v_released v)); [|apply IH].
    apply onlyR_bind; [apply send_only|]. intros s1 _. cbv zeta.
    destruct rest as [|v2 rest2].
    + cbn [release_loop onlyR]. apply (onlyA_put (a_id a) (with_vqs s1 _)). reflexivity.
    + eapply onlyR_shift; [|apply IH]. reflexivity.
Qed.

Lemma process_only : forall t orc s a, onlyR (a_id a) s (process t orc s a).
Proof.
  intros. unfold process. destruct (a_status a).
  - destruct (a_start a <=? t); [apply onlyA_put; reflexivity | apply onlyA_same; reflexivity].
  - destruct (last_end a <=? t); [|apply onlyA_same; reflexivity].
    destruct (a_type a); [apply close_fixed_only | apply close_batch_only].
  - apply release_loop_only.
  - apply onlyA_same. reflexivity.
  - apply onlyA_same. reflexivity.
Qed.

(* ------------------------------------------------------------------ a hook call means the auction settles *)
Lemma settles_shape_find : forall s1 a st s,
  map a_id (st_auctions s1) = map a_id (st_auctions s) -> In (a_id a) (map a_id (st_auctions s)) ->
  find_auction (put_auction s1 (set_status a st)) (a_id a) = Some (set_status a st).
Proof.
  intros s1 a st s Hids Hin. unfold find_auction, put_auction. sproj.
  apply (putl_find_same (set_status a st)). cbn [a_id set_status]. rewrite Hids. exact Hin.
Qed.

Lemma close_fixed_settles : forall s a s', close_fixed s a = Ok s' ->
  In (a_id a) (map a_id (st_auctions s)) ->
  exists x, find_auction s' (a_id a) = Some x /\ settled (a_status x) = true.
Proof.
  intros s a s' H Hin. unfold close_fixed in H.
  apply bind_ok_inv in H as [s1 [H1 H]]. apply bind_ok_inv in H as [s2 [H2 H]].
  pose proof (allocate_only (a_id a) s a (calc_fixed a (bids_of s (a_id a))) false) as O1. rewrite H1 in O1.
  pose proof (refund_selling_only (a_id a) s1 a) as O2. rewrite H2 in O2.
  destruct (onlyA_trans _ _ _ _ O1 O2) as [Hids _].
  apply apply_vesting_shape in H as [s3 [st [-> [Hst E]]]].
  exists (set_status a st). split; [|exact Hst].
  apply (settles_shape_find s3 a st s); [rewrite E; exact Hids | exact Hin].
Qed.

Lemma settle_batch_settles : forall s a mi s', settle_batch s a mi = Ok s' ->
  In (a_id a) (map a_id (st_auctions s)) ->
  exists x, find_auction s' (a_id a) = Some x /\ settled (a_status x) = true.
Proof.
  intros s a mi s' H Hin. unfold settle_batch in H.
  apply bind_ok_inv in H as [s1 [H1 H]]. apply bind_ok_inv in H as [s2 [H2 H]].
  apply bind_ok_inv in H as [s3 [H3 H]].
  pose proof (allocate_only (a_id a) s a mi true) as O1. rewrite H1 in O1.
  pose proof (refund_selling_only (a_id a) s1 a) as O2. rewrite H2 in O2.
  pose proof (pay_out_only (a_id a) s2 (Escrow Paying (a_id a)) (a_pay_denom a) (mi_bidders mi) (mi_refund mi)) as O3.
  rewrite H3 in O3.
  destruct (onlyA_trans _ _ _ _ (onlyA_trans _ _ _ _ O1 O2) O3) as [Hids _].
  apply apply_vesting_shape in H as [s4 [st [-> [Hst E]]]].
  exists (set_status a st). split; [|exact Hst].
  apply (settles_shape_find s4 a st s); [rewrite E; exact Hids | exact Hin].
Qed.

Lemma close_batch_settles : forall s orc a s', close_batch s orc a = Ok s' ->
  In (a_id a) (map a_id (st_auctions s)) ->
  st_trace s' = st_trace s \/ exists x, find_auction s' (a_id a) = Some x /\ settled (a_status x) = true.
Proof.
  intros s orc a s' H Hin. unfold close_batch in H. cbv zeta in H.
  destruct (valid_order (bids_of s (a_id a)) _) as [order|]; [|discriminate].
  destruct (calc_batch a (bids_of s (a_id a)) order (allowed_of s (a_id a))) as [mi|]; [|discriminate].
  assert (Hs : settle_batch (set_flags s (a_id a) (mi_matched mi)) (set_matched_price a (mi_price mi)) mi = Ok s' ->
               exists x, find_auction s' (a_id a) = Some x /\ settled (a_status x) = true).
  { intros H1. apply (settle_batch_settles _ (set_matched_price a (mi_price mi))) in H1; [exact H1 | exact Hin]. }
  destruct (N.eqb _ _); [right; apply Hs; exact H|].
  destruct (st_mlen s (a_id a) =? 0); [left; injection H as <-; reflexivity|].
  destruct (extend_rule _ _ _); [left; injection H as <-; reflexivity | right; apply Hs; exact H].
Qed.

Lemma process_settles : forall t orc s a s', process t orc s a = Ok s' ->
  In (a_id a) (map a_id (st_auctions s)) ->
  st_trace s' = st_trace s \/
  (a_status a = Started /\ exists x, find_auction s' (a_id a) = Some x /\ settled (a_status x) = true).
Proof.
  intros t orc s a s' H Hin.
  destruct (a_status a) eqn:Hst;
    try (left; pose proof (process_quiet t orc s a) as Q; rewrite H in Q; apply Q; rewrite Hst; discriminate).
  unfold process in H. rewrite Hst in H.
  destruct (last_end a <=? t); [|left; injection H as <-; reflexivity].
  destruct (a_type a).
  - right. split; [reflexivity|]. eapply close_fixed_settles; eassumption.
  - apply close_batch_settles in H as [H|H]; [left; exact H | right; split; [reflexivity | exact H] | exact Hin].
Qed.

(* ------------------------------------------------------------------ the whole block *)
Lemma process_all_other : forall l t orc s s' j,
  process_all t orc s l = Ok s' -> ~ In j (map a_id l) -> find_auction s' j = find_auction s j.
Proof.
  induction l as [|a rest IH]; intros t orc s s' j H Hj; cbn [process_all] in H.
  - injection H as <-. reflexivity.
  - apply bind_ok_inv in H as [s1 [H1 H]].
    pose proof (process_only t orc s a) as O. rewrite H1 in O. destruct O as [_ F].
    rewrite (IH t orc s1 s' j H); [|intros Hin; apply Hj; right; exact Hin].
    apply F. intros ->. apply Hj. left. reflexivity.
Qed.

Lemma process_all_settles : forall l t orc s s',
  NoDup (map a_id l) -> (forall a, In a l -> In (a_id a) (map a_id (st_auctions s))) ->
  process_all t orc s l = Ok s' ->
  st_trace s' = st_trace s \/
  exists a x, In a l /\ a_status a = Started /\ find_auction s' (a_id a) = Some x /\ settled (a_status x) = true.
Proof.
  induction l as [|a rest IH]; intros t orc s s' Hnd Hin H; cbn [process_all] in H.
  - injection H as <-. left. reflexivity.
  - apply bind_ok_inv in H as [s1 [H1 H]]. inversion Hnd as [|i r Hni Hnd']; subst.
    pose proof (process_only t orc s a) as O. rewrite H1 in O. destruct O as [Hids _].
    destruct (process_settles t orc s a s1 H1 (Hin a (or_introl eq_refl))) as [Ht1|[Hst [x [Hf Hx]]]].
    + destruct (IH t orc s1 s' Hnd') as [Ht|[a2 [x [Ha2 [Hst [Hf Hx]]]]]]; [| exact H | |].
      * intros a2 Ha2. rewrite Hids. apply Hin. right. exact Ha2.
      * left. congruence.
      * right. exists a2, x. split; [right; exact Ha2|]. repeat split; assumption.
    + right. exists a, x. split; [left; reflexivity|]. split; [exact Hst|]. split; [|exact Hx].
      rewrite (process_all_other rest t orc s1 s' (a_id a) H Hni). exact Hf.
Qed.

Theorem block_no_settle_no_hooks : forall s t orc,
  NoDup (map a_id (st_auctions s)) ->
  fst (step s (OBlock t orc)) = BlockOk ->
  (forall a x, In a (st_auctions s) -> a_status a = Started ->
               find_auction (snd (step s (OBlock t orc))) (a_id a) = Some x -> settled (a_status x) = false) ->
  st_trace (snd (step s (OBlock t orc))) = st_trace s.
Proof.
  intros s t orc Hnd Hok Hns. cbn [step] in *. unfold begin_block in *. cbv zeta in *.
  destruct (process_all t orc (with_now s t) (st_auctions (with_now s t))) as [s'|c tr] eqn:Hp;
    cbn [fst snd] in *; [|discriminate].
  apply process_all_settles in Hp as [Ht|[a [x [Ha [Hst [Hf Hx]]]]]].
  - exact Ht.
  - rewrite (Hns a x Ha Hst Hf) in Hx. discriminate.
  - exact Hnd.
  - intros a Ha. apply in_map. exact Ha.
Qed.
