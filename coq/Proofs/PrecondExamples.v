(* A small concrete state satisfying WF, used by the Examples of Properties/C18.v, C12.v, C11.v. *)
From Coq Require Import ZArith NArith List Bool.
From FR Require Import Dec Types Bank Match Step Genesis Model Spec.
From FR.Proofs Require Import PrecondBase PrecondFacts.
Import ListNotations.
Open Scope Z_scope.

Definition ex_fixed : auction :=
  {| a_id := 0; a_type := FixedPrice; a_auctioneer := 7; a_upper := false; a_start_price := P / 2;
     a_sell_denom := 1; a_sell_amt := 1000; a_pay_denom := 2; a_scheds := []; a_start := 0; a_ends := [100];
     a_status := Started; a_remaining := 1000; a_min_price := 0; a_matched_price := 0; a_max_round := 0; a_rate := 0 |}.
Definition ex_batch : auction :=
  {| a_id := 1; a_type := Batch; a_auctioneer := 7; a_upper := false; a_start_price := P;
     a_sell_denom := 1; a_sell_amt := 1000; a_pay_denom := 2; a_scheds := []; a_start := 0; a_ends := [100];
     a_status := Started; a_remaining := 0; a_min_price := P / 10; a_matched_price := 0; a_max_round := 2; a_rate := P / 10 |}.
Definition ex_standby : auction :=
  {| a_id := 2; a_type := FixedPrice; a_auctioneer := 7; a_upper := false; a_start_price := P;
     a_sell_denom := 1; a_sell_amt := 50; a_pay_denom := 2; a_scheds := []; a_start := 60; a_ends := [100];
     a_status := StandBy; a_remaining := 50; a_min_price := 0; a_matched_price := 0; a_max_round := 0; a_rate := 0 |}.
Definition ex_bid : bid :=
  {| b_auction := 1; b_id := 1; b_bidder := 8; b_type := BWorth; b_price := P; b_denom := 2; b_amt := 10;
     b_matched := false |}.
Definition ex_state : state :=
  {| st_params := {| p_cfee := [(2%N, 5)]; p_bfee := [(2%N, 1)]; p_period := 1 |};
     st_auctions := [ex_fixed; ex_batch; ex_standby]; st_bids := [ex_bid];
     st_allowed := [{| al_auction := 0; al_bidder := 8; al_max := 100 |};
                    {| al_auction := 1; al_bidder := 8; al_max := 100 |}];
     st_vqs := []; st_aseq := 3; st_bseq := fun a => if N.eqb a 1 then 1%N else 0%N; st_mlen := fun _ => 0;
     st_bal := fun _ _ => 40; st_now := 50; st_listeners := [[9%N]]; st_switch := true;
     st_xfers := []; st_trace := [] |}.

Example ex_state_WF : WF ex_state.
Proof.
  constructor.
  - intros a d. cbn. discriminate.
  - intros c [<-|[]]. cbn. discriminate.
  - intros c [<-|[]]. cbn. discriminate.
  - intros b a [<-|[]] Hf _. vm_compute in Hf. inversion Hf. left. split; reflexivity.
  - intros a [<-|[<-|[<-|[]]]]; cbn; discriminate.
Qed.


Definition coin (d : N) (a : Z) : mcoin := {| mc_denom := Some d; mc_amt := Some a |}.

Lemma ex_state_bids_pos : bids_pos ex_state.
Proof. intros b [<-|[]]. split; reflexivity. Qed.
