(* C01, exact form: the excess of an escrow account (balance minus what the records owe) only changes by
   third-party deposits, and drops to zero when the escrow is swept.  Definitions and the generic lemmas. *)
From Coq Require Import ZArith NArith List Bool Arith Lia.
From FR Require Import Dec Types Bank Match Step Genesis Model Spec.
From FR.Proofs Require Import InvDefs FrameFacts TxFacts EscrowBase.
Import ListNotations.
Open Scope Z_scope.

Definition excess (s : state) (r : role) (id d : N) : Z := st_bal s (Escrow r id) d - owed s r id d.

(* the operation sweeps escrow (r,id) in denom d: selling when the auction leaves stand-by/started,
   paying when it settles *)
Definition sweepsP (s s' : state) (r : role) (id d : N) : bool :=
  match find_auction s id, find_auction s' id with
  | Some a, Some a' =>
      match r with
      | Selling => N.eqb d (a_sell_denom a) && is_open (a_status a) && negb (is_open (a_status a'))
      | Paying => N.eqb d (a_pay_denom a) && status_eqb (a_status a) Started
                  && (status_eqb (a_status a') VestingS || status_eqb (a_status a') Finished)
      | Vesting => false
      end
  | _, _ => false
  end.

Definition donation (o : op) (out : outcome) (r : role) (id d : N) : Z :=
  match o, out with
  | OSend _ to d' amt, Accepted => if addr_eqb to (Escrow r id) && N.eqb d d' then amt else 0
  | _, _ => 0
  end.

(* the equation for one step without a donation *)
Definition exc_rel (s s' : state) : Prop :=
  forall r id d, excess s' r id d = if sweepsP s s' r id d then 0 else excess s r id d.

(* ------------------------------------------------------------------ sweepsP *)
Lemma sweepsP_same s s' r id d : find_auction s' id = find_auction s id -> sweepsP s s' r id d = false.
Proof.
  intros E. unfold sweepsP. rewrite E. destruct (find_auction s id) as [a|]; [|reflexivity].
  destruct r; [| |reflexivity].
  - destruct (is_open (a_status a)); cbn [negb andb]; rewrite ?andb_false_r; reflexivity.
  - destruct (a_status a); cbn [status_eqb andb orb]; rewrite ?andb_false_r; reflexivity.
Qed.

Lemma sweepsP_none s s' r id d : find_auction s id = None -> sweepsP s s' r id d = false.
Proof. intros E. unfold sweepsP. rewrite E. reflexivity. Qed.

Lemma sweepsP_conv_l s1 s2 s' r id d :
  find_auction s2 id = find_auction s1 id -> sweepsP s2 s' r id d = sweepsP s1 s' r id d.
Proof. intros E. unfold sweepsP. rewrite E. reflexivity. Qed.
Lemma sweepsP_conv_r s s1 s2 r id d :
  find_auction s2 id = find_auction s1 id -> sweepsP s s2 r id d = sweepsP s s1 r id d.
Proof. intros E. unfold sweepsP. rewrite E. reflexivity. Qed.

(* ------------------------------------------------------------------ excess *)
Lemma excess_slice j s s' r d : slice_eq j s s' -> excess s' r j d = excess s r j d.
Proof.
  intros [Ha Hb _ Hv _ _ Hbal]. unfold excess. rewrite Hbal. f_equal. unfold owed. now rewrite Ha, Hb, Hv.
Qed.

Lemma excess_ext s s' :
  st_auctions s' = st_auctions s -> st_bids s' = st_bids s -> st_vqs s' = st_vqs s -> st_bal s' = st_bal s ->
  forall r id d, excess s' r id d = excess s r id d.
Proof.
  intros Ha Hb Hv Hbal r id d. unfold excess. rewrite Hbal, (owed_ext s s' Ha Hb Hv). reflexivity.
Qed.

Lemma exc_rel_ext s s' :
  st_auctions s' = st_auctions s -> st_bids s' = st_bids s -> st_vqs s' = st_vqs s -> st_bal s' = st_bal s ->
  exc_rel s s'.
Proof.
  intros Ha Hb Hv Hbal r id d. rewrite sweepsP_same by (unfold find_auction; now rewrite Ha).
  now apply excess_ext.
Qed.

Lemma exc_rel_refl s : exc_rel s s.
Proof. now apply exc_rel_ext. Qed.

(* the other auctions by the frame, the target by hand *)
Lemma exc_rel_by_frame tid s s' :
  frame tid s s' ->
  (forall r d, excess s' r tid d = if sweepsP s s' r tid d then 0 else excess s r tid d) ->
  exc_rel s s'.
Proof.
  intros F H r id d. destruct (N.eq_dec id tid) as [->|Hne]; [apply H|].
  pose proof (F id Hne) as Sl. rewrite (sweepsP_same s s' r id d (se_auction _ _ _ Sl)).
  now apply excess_slice.
Qed.

(* pre-composition with a state that looks the same *)
Lemma exc_rel_pre s0 s s' :
  st_auctions s = st_auctions s0 -> st_bids s = st_bids s0 -> st_vqs s = st_vqs s0 -> st_bal s = st_bal s0 ->
  exc_rel s s' -> exc_rel s0 s'.
Proof.
  intros Ha Hb Hv Hbal H r id d. rewrite (H r id d).
  rewrite (sweepsP_conv_l s0 s s' r id d) by (unfold find_auction; now rewrite Ha).
  rewrite (excess_ext s0 s Ha Hb Hv Hbal). reflexivity.
Qed.
Lemma exc_rel_post s s1 s' :
  st_auctions s' = st_auctions s1 -> st_bids s' = st_bids s1 -> st_vqs s' = st_vqs s1 -> st_bal s' = st_bal s1 ->
  exc_rel s s1 -> exc_rel s s'.
Proof.
  intros Ha Hb Hv Hbal H r id d. rewrite (excess_ext s1 s' Ha Hb Hv Hbal).
  rewrite (sweepsP_conv_r s s1 s' r id d) by (unfold find_auction; now rewrite Ha). apply H.
Qed.

(* unfolding owed for a known record *)
Lemma owed_some s r id d a :
  find_auction s id = Some a ->
  owed s r id d =
    match r with
    | Selling => if N.eqb d (a_sell_denom a) && is_open (a_status a) then a_sell_amt a else 0
    | Paying => if N.eqb d (a_pay_denom a) && status_eqb (a_status a) Started
                then sumZ (map (pay_amount (a_pay_denom a)) (bids_of s id)) else 0
    | Vesting => if N.eqb d (a_pay_denom a) && status_eqb (a_status a) VestingS
                 then sumZ (map v_amt (filter (fun v => negb (v_released v)) (vqs_of s id))) else 0
    end.
Proof. intros F. unfold owed. rewrite F. reflexivity. Qed.

Lemma owed_none s r id d : find_auction s id = None -> owed s r id d = 0.
Proof. intros F. unfold owed. rewrite F. reflexivity. Qed.

Lemma sweepsP_some s s' r id d a a' :
  find_auction s id = Some a -> find_auction s' id = Some a' ->
  sweepsP s s' r id d =
    match r with
    | Selling => N.eqb d (a_sell_denom a) && is_open (a_status a) && negb (is_open (a_status a'))
    | Paying => N.eqb d (a_pay_denom a) && status_eqb (a_status a) Started
                && (status_eqb (a_status a') VestingS || status_eqb (a_status a') Finished)
    | Vesting => false
    end.
Proof. intros F F'. unfold sweepsP. rewrite F, F'. reflexivity. Qed.

