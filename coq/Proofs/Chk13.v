(* Checker link for C13 (extended rounds): Checkers.c13_ok can never fire on a transition of the model taken from a
   state satisfying the global invariant. *)
From Coq Require Import ZArith NArith List Bool Arith Lia.
From FR Require Import Dec Types Bank Match Step Genesis Model Spec Checkers.
From FR.Proofs Require Import InvDefs FrameFacts TxFacts BlockFacts LifeTheorems InvAll FixedFacts Chk08.
From FR.Proofs Require GenesisImport.
Import ListNotations.
Open Scope Z_scope.

(* ------------------------------------------------------------------ small facts *)
Lemma maxr_eqb a n : (N.to_nat (a_max_round a) + 1 =? n)%nat = N.eqb (a_max_round a + 1) (N.of_nat n).
Proof.
  destruct (Nat.eqb_spec (N.to_nat (a_max_round a) + 1) n) as [E|E];
    destruct (N.eqb_spec (a_max_round a + 1) (N.of_nat n)) as [E'|E']; try reflexivity; exfalso; lia.
Qed.

Lemma settle_mlen s s' a : settle_shape s s' a -> st_mlen s' = st_mlen s.
Proof.
  intros (s1 & (b & xs & tr & -> & K) & (b' & xs' & K' & [(_ & ->)|(vs & Hv & ->)])); reflexivity.
Qed.

Lemma firstn_len_app {A} (l : list A) x : firstn (length l) (l ++ x) = l.
Proof. rewrite firstn_app, Nat.sub_diag, firstn_all. cbn [firstn]. apply app_nil_r. Qed.

(* ------------------------------------------------------------------ a due batch auction in a successful block *)
Lemma batch_due_result s t orc s' a :
  ids_ok s -> begin_block s t orc = Ok s' -> In a (st_auctions s) ->
  a_status a = Started -> a_type a = Batch -> last_end a <= t ->
  exists mi,
    find_auction s' (a_id a)
    = Some (if decision s a mi then extended s a mi
            else set_status (set_matched_price a (mi_price mi)) (settled_st a))
    /\ st_mlen s' (a_id a) = Z.of_nat (length (mi_matched mi)).
Proof.
  intros OK H Ha St Ty Due.
  destruct (L_C19_block_independent s t orc s' a OK H Ha) as (s1 & s2 & S1 & F1 & Ep & _ & _ & Pr & S2).
  unfold process in Pr. rewrite St, Ty in Pr. apply Z.leb_le in Due. rewrite Due in Pr.
  apply close_batch_inv in Pr. destruct Pr as (order & mi & _ & _ & Pr).
  assert (Ed : decision s1 a mi = decision s a mi) by (unfold decision; rewrite (se_mlen _ _ _ S1); reflexivity).
  assert (Ee : extended s1 a mi = extended s a mi) by (unfold extended; rewrite Ep; reflexivity).
  rewrite Ed in Pr. exists mi.
  rewrite (se_auction _ _ _ S2), (se_mlen _ _ _ S2).
  assert (F1' : find_auction (set_flags s1 (a_id a) (mi_matched mi)) (a_id a) = Some a) by exact F1.
  destruct (decision s a mi).
  - subst s2. rewrite Ee. split.
    + eapply find_after_put; [reflexivity|reflexivity|exact F1'].
    + cbn [put_auction set_flags st_mlen with_auctions with_mlen]. unfold upd. rewrite N.eqb_refl. reflexivity.
  - apply settle_batch_inv in Pr. split.
    + apply (find_after_put (set_flags s1 (a_id a) (mi_matched mi)) s2 a
               (set_status (set_matched_price a (mi_price mi)) (settled_st a)));
        [rewrite (settle_auctions _ _ _ Pr); reflexivity|reflexivity|exact F1'].
    + rewrite (settle_mlen _ _ _ Pr). cbn [set_flags st_mlen with_mlen]. unfold upd. rewrite N.eqb_refl. reflexivity.
Qed.

(* ------------------------------------------------------------------ one pair *)
Lemma pair13_ok s o out s' a a' :
  Inv s -> step (ghost_reset s) o = (out, s') ->
  In a (st_auctions s) -> find_auction s' (a_id a) = Some a' ->
  (let n := length (a_ends a) in
   Nat.leb (length (a_ends a')) (N.to_nat (a_max_round a') + 1)
   && list_eqb Z.eqb (a_ends a) (firstn n (a_ends a'))
   && Nat.leb (length (a_ends a')) (S n)
   && match a_type a with
      | FixedPrice => (length (a_ends a') =? n)%nat
      | Batch =>
          if Checkers.is_block o && oclass_eqb (class_of out) KBlockOk && status_eqb (a_status a) Started
             && (last_end a <=? Checkers.block_time o) then
            let last_len := st_mlen s (a_id a) in
            let cur := st_mlen s' (a_id a) in
            let must_extend :=
              if (N.to_nat (a_max_round a) + 1 =? n)%nat then false
              else if last_len =? 0 then true
              else extend_rule cur last_len (a_rate a) in
            if must_extend then
              status_eqb (a_status a') Started
              && list_eqb Z.eqb (a_ends a') (a_ends a ++ [last_end a + p_period (st_params s) * day_ns])
            else settled (a_status a') && (length (a_ends a') =? n)%nat
          else (length (a_ends a') =? n)%nat
      end) = true.
Proof.
  intros I Es Ha F'. cbv zeta. pose proof (Inv_find_in s a I Ha) as F.
  pose proof (Inv_ghost_reset s I) as I0. pose proof (Inv_ids_ok _ I0) as OK0.
  assert (Es1 : fst (step (ghost_reset s) o) = out) by (rewrite Es; reflexivity).
  assert (Es2 : snd (step (ghost_reset s) o) = s') by (rewrite Es; reflexivity).
  assert (I' : Inv s') by (rewrite <- Es2; apply Inv_step, I0).
  assert (W' : auction_wf a').
  { pose proof (inv_auctions _ I') as W. unfold auctions_wf in W. rewrite Forall_forall in W.
    apply W. apply (find_auction_some _ _ _ F'). }
  pose proof (awf_ends _ W') as [_ Hle].
  assert (B1 : Nat.leb (length (a_ends a')) (N.to_nat (a_max_round a') + 1) = true) by (apply Nat.leb_le; exact Hle).
  rewrite B1. cbn [andb].
  destruct (op_eq_genesis_dec o) as [Eo|Hg].
  - subst o. destruct (genesis_same _ _ _ I Es) as [_ SS].
    assert (a' = a).
    { unfold find_auction in F'. rewrite (GenesisImport.ss_auctions _ _ SS) in F'.
      change (find_auction s (a_id a) = Some a') in F'. congruence. }
    subst a'. rewrite firstn_all, list_eqb_Z_refl. cbn [andb Checkers.is_block].
    rewrite (proj2 (Nat.leb_le _ _) (Nat.le_succ_diag_r _)), Nat.eqb_refl. cbn [andb].
    destruct (a_type a); reflexivity.
  - destruct (step_auction (ghost_reset s) o (a_id a) a OK0 Hg F) as (a'' & F'' & R).
    rewrite Es2 in F''. assert (a'' = a') by congruence. subst a''.
    pose proof (step_arel_ends _ _ _ _ R) as E. unfold ends_rel in E. rewrite Es1 in E.
    change (st_params (ghost_reset s)) with (st_params s) in E.
    change (Checkers.is_block o) with (FrameFacts.is_block o).
    change (Checkers.block_time o) with (FrameFacts.block_time o).
    (* the structural part *)
    assert (B23 : list_eqb Z.eqb (a_ends a) (firstn (length (a_ends a)) (a_ends a')) = true
                  /\ Nat.leb (length (a_ends a')) (S (length (a_ends a))) = true).
    { destruct E as [->|(-> & _)].
      - rewrite firstn_all, list_eqb_Z_refl. split; [reflexivity|]. apply Nat.leb_le. lia.
      - rewrite firstn_len_app, list_eqb_Z_refl. split; [reflexivity|]. apply Nat.leb_le.
        rewrite app_length. cbn [length]. lia. }
    destruct B23 as [B2 B3]. rewrite B2, B3. cbn [andb].
    destruct (a_type a) eqn:Ty.
    + destruct E as [->|(_ & Hty & _)]; [apply Nat.eqb_refl|congruence].
    + destruct (FrameFacts.is_block o && oclass_eqb (class_of out) KBlockOk && status_eqb (a_status a) Started
                && (last_end a <=? FrameFacts.block_time o)) eqn:C.
      * apply andb_true_iff in C. destruct C as [C Due]. apply andb_true_iff in C. destruct C as [C St].
        apply andb_true_iff in C. destruct C as [B Ho].
        apply class_blockok_iff in Ho. apply TxFacts.status_eqb_eq in St. apply Z.leb_le in Due.
        destruct (step_block (ghost_reset s) o B) as [[_ Hb]|[(c & Hc) _]]; [|rewrite Es1, Ho in Hc; discriminate Hc].
        rewrite Es2 in Hb.
        destruct (batch_due_result _ _ _ _ a OK0 Hb Ha St Ty Due) as (mi & Fm & Hm).
        rewrite F' in Fm. injection Fm as ->.
        change (st_mlen (ghost_reset s)) with (st_mlen s) in *.
        rewrite Hm, maxr_eqb.
        assert (Ed : (if N.eqb (a_max_round a + 1) (N.of_nat (length (a_ends a))) then false
                      else if st_mlen s (a_id a) =? 0 then true
                      else extend_rule (Z.of_nat (length (mi_matched mi))) (st_mlen s (a_id a)) (a_rate a))
                     = decision (ghost_reset s) a mi).
        { unfold decision. change (st_mlen (ghost_reset s)) with (st_mlen s).
          destruct (N.eqb (a_max_round a + 1) (N.of_nat (length (a_ends a)))); [reflexivity|].
          destruct (st_mlen s (a_id a) =? 0); reflexivity. }
        rewrite Ed. destruct (decision (ghost_reset s) a mi).
        -- unfold extended. cbn [a_status a_ends set_ends set_matched_price].
           change (st_params (ghost_reset s)) with (st_params s).
           rewrite St, list_eqb_Z_refl. reflexivity.
        -- cbn [a_status a_ends set_status set_matched_price]. rewrite Nat.eqb_refl.
           destruct (settled_st_cases a) as [-> | ->]; reflexivity.
      * destruct E as [->|(_ & _ & St & _ & B & Ho & Due & _)]; [apply Nat.eqb_refl|].
        exfalso. rewrite B, Ho, St in C. apply Z.leb_le in Due. rewrite Due in C. discriminate C.
Qed.

(* ------------------------------------------------------------------ the executable statement (Checkers.c13_ok) *)
Lemma ends_le_nat n m : ends_le n m = Nat.leb n (N.to_nat m + 1).
Proof. unfold ends_le. destruct (Nat.leb_spec n (N.to_nat m + 1)) as [H|H]; [apply N.leb_le|apply N.leb_gt]; lia. Qed.
Lemma ends_eq_nat n m : ends_eq n m = (N.to_nat m + 1 =? n)%nat.
Proof. unfold ends_eq. destruct (Nat.eqb_spec (N.to_nat m + 1) n) as [H|H]; [apply N.eqb_eq|apply N.eqb_neq]; lia. Qed.

Theorem c13_ok_model s o : Inv s -> c13_ok (model_trans s o) = true.
Proof.
  intros I. unfold model_trans. fold (ghost_reset s).
  destruct (step (ghost_reset s) o) as [out s'] eqn:Es.
  unfold c13_ok, paired. cbn [t_post t_pre t_op t_class].
  apply andb_true_iff. split.
  - apply forallb_forall. intros [a a'] Hp. apply in_pairs_gen in Hp. destruct Hp as [Ha F'].
    cbn [fst snd]. cbv zeta. rewrite ends_le_nat, ?ends_eq_nat. exact (pair13_ok s o out s' a a' I Es Ha F').
  - assert (I' : Inv s').
    { assert (Es2 : snd (step (ghost_reset s) o) = s') by (rewrite Es; reflexivity).
      rewrite <- Es2. apply Inv_step, Inv_ghost_reset, I. }
    apply forallb_forall. intros a' Ha'.
    pose proof (inv_auctions _ I') as W. unfold auctions_wf in W. rewrite Forall_forall in W.
    pose proof (awf_ends _ (W a' Ha')) as [H1 H2]. pose proof (awf_maxr _ (W a' Ha')) as H3.
    rewrite ends_le_nat. rewrite (proj2 (Nat.leb_le _ _) H2), (proj2 (Nat.leb_le _ _) H1). cbn [andb].
    apply N.leb_le. exact H3.
Qed.
