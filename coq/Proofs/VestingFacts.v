(* Vesting release (C09, second sentence): what release_loop does, that it cannot fail when the vesting
   escrow is funded, and what settlement without a schedule does. *)
From Coq Require Import ZArith NArith List Bool Arith Lia.
From FR Require Import Dec Types Bank Match Step Genesis Model Spec.
From FR.Proofs Require Import FrameFacts TxFacts BlockFacts DecFacts PrecondBase.
Import ListNotations.
Open Scope Z_scope.

(* ------------------------------------------------------------------ vocabulary *)
(* two queue entries have the same store key (auction, release time) *)
Definition same_key (x k : vq) : bool := N.eqb (v_auction x) (v_auction k) && (v_time x =? v_time k).
Definition vkey (v : vq) : N * Z := (v_auction v, v_time v).
(* flag x released when its key is among the keys of ks *)
Definition mark (ks : list vq) (x : vq) : vq := if existsb (same_key x) ks then set_v_released x true else x.
(* the transfer ReleaseVestingPayingCoin issues for entry v of auction a *)
Definition xfer_of (a : auction) (v : vq) : xfer :=
  {| x_from := Escrow Vesting (a_id a); x_to := User (a_auctioneer a); x_denom := v_denom v; x_amt := v_amt v |}.
(* the entries that are due at t (time reached, not yet released), and those of them that move coins *)
Definition due_of (t : Z) (vs : list vq) : list vq := filter (vq_due t) vs.
Definition paid_of (t : Z) (vs : list vq) : list vq := filter (fun v => negb (v_amt v =? 0)) (due_of t vs).
Definition rel_xfers (a : auction) (t : Z) (vs : list vq) : list xfer := map (xfer_of a) (paid_of t vs).
(* replaying transfers on a balance sheet *)
Definition apply_xfer (b : addr -> N -> Z) (x : xfer) : addr -> N -> Z :=
  move b (x_from x) (x_to x) (x_denom x) (x_amt x).
Definition apply_xfers (b : addr -> N -> Z) (xs : list xfer) : addr -> N -> Z := fold_left apply_xfer xs b.
(* what the release at time t does to one entry of auction id *)
Definition release_vq (id : N) (t : Z) (x : vq) : vq :=
  if N.eqb (v_auction x) id && vq_due t x then set_v_released x true else x.

(* the complete effect of release_loop over the list vs *)
Record rel_spec (a : auction) (t : Z) (vs : list vq) (s s' : state) : Prop := {
  rs_vqs : st_vqs s' = map (mark (due_of t vs)) (st_vqs s);
  rs_xfers : st_xfers s' = st_xfers s ++ rel_xfers a t vs;
  rs_bal : st_bal s' = apply_xfers (st_bal s) (rel_xfers a t vs);
  rs_auctions : st_auctions s' = if last_due_rec t vs then st_auctions (put_auction s (set_status a Finished))
                                 else st_auctions s;
  rs_params : st_params s' = st_params s;
  rs_bids : st_bids s' = st_bids s;
  rs_allowed : st_allowed s' = st_allowed s;
  rs_aseq : st_aseq s' = st_aseq s;
  rs_bseq : st_bseq s' = st_bseq s;
  rs_mlen : st_mlen s' = st_mlen s;
  rs_now : st_now s' = st_now s;
  rs_listeners : st_listeners s' = st_listeners s;
  rs_switch : st_switch s' = st_switch s;
  rs_trace : st_trace s' = st_trace s }.

(* ------------------------------------------------------------------ small facts *)
Lemma set_released_idem x : v_released x = true -> set_v_released x true = x.
Proof. destruct x; cbn. intros ->. reflexivity. Qed.
Lemma set_released_twice x : set_v_released (set_v_released x true) true = set_v_released x true.
Proof. reflexivity. Qed.
Lemma same_key_set x k b : same_key (set_v_released x b) k = same_key x k.
Proof. reflexivity. Qed.
Lemma same_key_refl x : same_key x x = true.
Proof. unfold same_key. rewrite N.eqb_refl, Z.eqb_refl. reflexivity. Qed.
Lemma same_key_eq x k : same_key x k = true <-> vkey x = vkey k.
Proof.
  unfold same_key, vkey. rewrite andb_true_iff, N.eqb_eq, Z.eqb_eq. split.
  - intros [-> ->]. reflexivity.
  - intros H. injection H as -> ->. auto.
Qed.

Lemma mark_nil x : mark [] x = x.
Proof. reflexivity. Qed.
Lemma mark_cons k ks x : mark (k :: ks) x = mark ks (mark [k] x).
Proof.
  unfold mark. cbn [existsb]. rewrite orb_false_r.
  destruct (same_key x k) eqn:E; cbn [orb].
  - change (same_key (set_v_released x true)) with (same_key x).
    destruct (existsb (same_key x) ks); reflexivity.
  - reflexivity.
Qed.

Lemma mark_single v x :
  (if N.eqb (v_auction x) (v_auction v) && (v_time x =? v_time v) then set_v_released x true else x) = mark [v] x.
Proof. unfold mark, same_key. cbn [existsb]. rewrite orb_false_r. reflexivity. Qed.
Lemma map_mark_nil l : map (mark []) l = l.
Proof. induction l as [|x l IH]; cbn [map]; [reflexivity|]. rewrite IH. reflexivity. Qed.
Lemma map_mark_cons k ks l : map (mark (k :: ks)) l = map (mark ks) (map (mark [k]) l).
Proof. rewrite map_map. apply map_ext. intros x. apply mark_cons. Qed.

Lemma apply_xfers_app b xs ys : apply_xfers (apply_xfers b xs) ys = apply_xfers b (xs ++ ys).
Proof. unfold apply_xfers. rewrite fold_left_app. reflexivity. Qed.

(* a successful send, inverted *)
Lemma send_ok_inv s f t d a s1 :
  send s f t d a = Ok s1 ->
  (a = 0 /\ s1 = s)
  \/ (0 < a /\ a <= st_bal s f d /\
      s1 = with_bank s (move (st_bal s) f t d a) (st_xfers s ++ [{| x_from := f; x_to := t; x_denom := d; x_amt := a |}])).
Proof.
  unfold send. destruct (a =? 0) eqn:E0.
  - intros H. injection H as <-. left. split; [apply Z.eqb_eq; exact E0|reflexivity].
  - destruct (a <? 0) eqn:E1; [discriminate|]. destruct (st_bal s f d <? a) eqn:E2; [discriminate|].
    intros H. injection H as <-. right. apply Z.eqb_neq in E0. apply Z.ltb_ge in E1, E2.
    split; [lia|]. split; [exact E2|reflexivity].
Qed.

Lemma due_of_cons t v vs : due_of t (v :: vs) = if vq_due t v then v :: due_of t vs else due_of t vs.
Proof. reflexivity. Qed.
Lemma rel_xfers_cons a t v vs :
  rel_xfers a t (v :: vs)
  = if vq_due t v && negb (v_amt v =? 0) then xfer_of a v :: rel_xfers a t vs else rel_xfers a t vs.
Proof.
  unfold rel_xfers, paid_of. rewrite due_of_cons. destruct (vq_due t v); cbn [andb filter]; [|reflexivity].
  destruct (negb (v_amt v =? 0)); reflexivity.
Qed.

(* ------------------------------------------------------------------ (a) the effect of release_loop *)
Lemma rel_spec_refl a t s : rel_spec a t [] s s.
Proof.
  split; try reflexivity.
  - cbn [due_of filter]. symmetry. apply map_mark_nil.
  - unfold rel_xfers. cbn. symmetry. apply app_nil_r.
Qed.

Lemma release_loop_spec a t : forall vs s s', release_loop s a t vs = Ok s' -> rel_spec a t vs s s'.
Proof.
  induction vs as [|v rest IH]; intros s s' H.
  - cbn [release_loop] in H. injection H as <-. apply rel_spec_refl.
  - cbn [release_loop] in H. fold (vq_due t v) in H. destruct (vq_due t v) eqn:D.
    2:{ apply IH in H. destruct H. split; try assumption.
        - rewrite due_of_cons, D. assumption.
        - rewrite rel_xfers_cons, D. assumption.
        - rewrite rel_xfers_cons, D. assumption.
        - cbn [last_due_rec]. destruct rest; [rewrite D; cbn [last_due_rec] in *; assumption|assumption]. }
    destruct (send s (Escrow Vesting (a_id a)) (User (a_auctioneer a)) (v_denom v) (v_amt v)) as [s1|] eqn:ES;
      cbn [bind] in H; [|discriminate H].
    fold (same_key) in H.
    apply IH in H. clear IH.
    assert (HX : rel_xfers a t (v :: rest)
                 = (if v_amt v =? 0 then [] else [xfer_of a v]) ++ rel_xfers a t rest).
    { rewrite rel_xfers_cons, D. destruct (v_amt v =? 0); reflexivity. }
    assert (H1 : st_vqs s1 = st_vqs s /\ st_auctions s1 = st_auctions s /\
                 st_xfers s1 = st_xfers s ++ (if v_amt v =? 0 then [] else [xfer_of a v]) /\
                 st_bal s1 = apply_xfers (st_bal s) (if v_amt v =? 0 then [] else [xfer_of a v]) /\
                 st_params s1 = st_params s /\ st_bids s1 = st_bids s /\ st_allowed s1 = st_allowed s /\
                 st_aseq s1 = st_aseq s /\ st_bseq s1 = st_bseq s /\ st_mlen s1 = st_mlen s /\
                 st_now s1 = st_now s /\ st_listeners s1 = st_listeners s /\ st_switch s1 = st_switch s /\
                 st_trace s1 = st_trace s).
    { apply send_ok_inv in ES. destruct ES as [[E0 ->]|(Hp & _ & ->)].
      - rewrite E0. cbn [Z.eqb]. rewrite app_nil_r. repeat split.
      - assert (E0 : v_amt v =? 0 = false) by (apply Z.eqb_neq; lia). rewrite E0. repeat split. }
    destruct H1 as (A1 & A2 & A3 & A4 & A5 & A6 & A7 & A8 & A9 & A10 & A11 & A12 & A13 & A14).
    destruct H as [B1 B2 B3 B4 B5 B6 B7 B8 B9 B10 B11 B12 B13 B14].
    split.
    + rewrite B1, due_of_cons, D, map_mark_cons. f_equal.
      destruct rest; cbn [st_vqs put_auction with_auctions with_vqs]; rewrite A1;
        apply map_ext; intros x; apply mark_single.
    + rewrite B2, HX, app_assoc. f_equal.
      destruct rest; cbn [st_xfers put_auction with_auctions with_vqs]; exact A3.
    + rewrite B3, HX, <- apply_xfers_app. f_equal.
      destruct rest; cbn [st_bal put_auction with_auctions with_vqs]; exact A4.
    + rewrite B4. destruct rest as [|r rs].
      * cbn [last_due_rec]. rewrite D. cbn [st_auctions put_auction with_auctions with_vqs]. rewrite A2. reflexivity.
      * change (last_due_rec t (v :: r :: rs)) with (last_due_rec t (r :: rs)).
        cbn [st_auctions put_auction with_auctions with_vqs]. rewrite A2. reflexivity.
    + rewrite B5. destruct rest; cbn [st_params put_auction with_auctions with_vqs]; exact A5.
    + rewrite B6. destruct rest; cbn [st_bids put_auction with_auctions with_vqs]; exact A6.
    + rewrite B7. destruct rest; cbn [st_allowed put_auction with_auctions with_vqs]; exact A7.
    + rewrite B8. destruct rest; cbn [st_aseq put_auction with_auctions with_vqs]; exact A8.
    + rewrite B9. destruct rest; cbn [st_bseq put_auction with_auctions with_vqs]; exact A9.
    + rewrite B10. destruct rest; cbn [st_mlen put_auction with_auctions with_vqs]; exact A10.
    + rewrite B11. destruct rest; cbn [st_now put_auction with_auctions with_vqs]; exact A11.
    + rewrite B12. destruct rest; cbn [st_listeners put_auction with_auctions with_vqs]; exact A12.
    + rewrite B13. destruct rest; cbn [st_switch put_auction with_auctions with_vqs]; exact A13.
    + rewrite B14. destruct rest; cbn [st_trace put_auction with_auctions with_vqs]; exact A14.
Qed.

(* ------------------------------------------------------------------ the loop over the auction's own queue *)
Lemma NoDup_map_inj {A B} (f : A -> B) l x y :
  NoDup (map f l) -> In x l -> In y l -> f x = f y -> x = y.
Proof.
  induction l as [|z l IH]; cbn [map In]; intros ND Hx Hy E; [contradiction|].
  inversion ND as [|? ? Hn ND']; subst.
  destruct Hx as [->|Hx]; destruct Hy as [->|Hy].
  - reflexivity.
  - exfalso. apply Hn. rewrite E. apply in_map. exact Hy.
  - exfalso. apply Hn. rewrite <- E. apply in_map. exact Hx.
  - apply IH; assumption.
Qed.

Lemma mark_due_eq l id t x :
  NoDup (map vkey l) -> In x l ->
  mark (due_of t (filter (fun y => N.eqb (v_auction y) id) l)) x = release_vq id t x.
Proof.
  intros ND Hx. unfold mark, release_vq.
  destruct (existsb (same_key x) (due_of t (filter (fun y => N.eqb (v_auction y) id) l))) eqn:E.
  - apply existsb_exists in E. destruct E as (k & Hk & SK).
    unfold due_of in Hk. apply filter_In in Hk. destruct Hk as [Hk Dk].
    apply filter_In in Hk. destruct Hk as [Hk Ak].
    apply same_key_eq in SK.
    assert (x = k) by (eapply NoDup_map_inj; eassumption). subst k.
    rewrite Ak, Dk. reflexivity.
  - destruct (N.eqb (v_auction x) id && vq_due t x) eqn:E2; [|reflexivity].
    apply andb_true_iff in E2. destruct E2 as [Ax Dx].
    assert (HE : existsb (same_key x) (due_of t (filter (fun y => N.eqb (v_auction y) id) l)) = true).
    { apply existsb_exists. exists x. split; [|apply same_key_refl].
      unfold due_of. apply filter_In. split; [|exact Dx]. apply filter_In. split; assumption. }
    congruence.
Qed.

Lemma release_vq_auction id t x : v_auction (release_vq id t x) = v_auction x.
Proof. unfold release_vq. destruct (N.eqb (v_auction x) id && vq_due t x); reflexivity. Qed.
Lemma release_vq_key id t x : vkey (release_vq id t x) = vkey x.
Proof. unfold release_vq. destruct (N.eqb (v_auction x) id && vq_due t x); reflexivity. Qed.
Lemma release_vq_other id t x : v_auction x <> id -> release_vq id t x = x.
Proof. unfold release_vq. intros H. apply N.eqb_neq in H. rewrite H. reflexivity. Qed.
Lemma release_vq_fields id t x :
  v_time (release_vq id t x) = v_time x /\ v_auctioneer (release_vq id t x) = v_auctioneer x
  /\ v_denom (release_vq id t x) = v_denom x /\ v_amt (release_vq id t x) = v_amt x.
Proof. unfold release_vq. destruct (N.eqb (v_auction x) id && vq_due t x); repeat split. Qed.
(* the new flag: released before, or due now *)
Lemma release_vq_flag id t x :
  v_released (release_vq id t x) = v_released x || (N.eqb (v_auction x) id && (v_time x <=? t)).
Proof.
  unfold release_vq, vq_due. destruct (N.eqb (v_auction x) id); cbn [andb].
  - destruct (v_time x <=? t); cbn [andb]; [|rewrite orb_false_r; reflexivity].
    destruct (v_released x) eqn:R; cbn [negb]; [exact R|reflexivity].
  - rewrite orb_false_r. reflexivity.
Qed.

Lemma filter_map_comm {A} (p : A -> bool) (g : A -> A) l :
  (forall x, p (g x) = p x) -> filter p (map g l) = map g (filter p l).
Proof.
  intros H. induction l as [|x l IH]; cbn [map filter]; [reflexivity|].
  rewrite H. destruct (p x); cbn [map]; rewrite IH; reflexivity.
Qed.

Lemma vqs_of_release l id t j :
  filter (fun y => N.eqb (v_auction y) j) (map (release_vq id t) l)
  = if N.eqb j id then map (release_vq id t) (filter (fun y => N.eqb (v_auction y) j) l)
    else filter (fun y => N.eqb (v_auction y) j) l.
Proof.
  rewrite filter_map_comm by (intros x; rewrite release_vq_auction; reflexivity).
  destruct (N.eqb j id) eqn:E; [reflexivity|].
  rewrite <- (map_id (filter _ l)) at 2. apply map_ext_in. intros x Hx.
  apply filter_In in Hx. destruct Hx as [_ Hx]. apply N.eqb_eq in Hx. apply N.eqb_neq in E.
  apply release_vq_other. congruence.
Qed.

(* (a), for the call made by [process]: the queue walked is the auction's own *)
Theorem release_own_spec s a t s' :
  NoDup (map vkey (st_vqs s)) ->
  release_loop s a t (vqs_of s (a_id a)) = Ok s' ->
  rel_spec a t (vqs_of s (a_id a)) s s' /\
  st_vqs s' = map (release_vq (a_id a) t) (st_vqs s) /\
  vqs_of s' (a_id a) = map (release_vq (a_id a) t) (vqs_of s (a_id a)) /\
  (forall j, j <> a_id a -> vqs_of s' j = vqs_of s j).
Proof.
  intros ND H. apply release_loop_spec in H.
  assert (HV : st_vqs s' = map (release_vq (a_id a) t) (st_vqs s)).
  { rewrite (rs_vqs _ _ _ _ _ H). apply map_ext_in. intros x Hx. unfold vqs_of.
    apply mark_due_eq; assumption. }
  split; [exact H|]. split; [exact HV|]. split.
  - unfold vqs_of. rewrite HV, vqs_of_release, N.eqb_refl. reflexivity.
  - intros j Hj. unfold vqs_of. rewrite HV, vqs_of_release. apply N.eqb_neq in Hj. rewrite Hj. reflexivity.
Qed.

(* ------------------------------------------------------------------ balances after replaying transfers *)
Lemma addr_eqb_eq x y : addr_eqb x y = true <-> x = y.
Proof.
  destruct x as [u|r i|], y as [u'|r' i'|]; cbn [addr_eqb]; split; intros H;
    try discriminate H; try reflexivity.
  - apply N.eqb_eq in H. congruence.
  - injection H as ->. apply N.eqb_refl.
  - apply andb_true_iff in H. destruct H as [Hr Hi]. apply N.eqb_eq in Hi. subst.
    destruct r, r'; cbn in Hr; try discriminate Hr; reflexivity.
  - injection H as -> ->. rewrite N.eqb_refl. destruct r'; reflexivity.
Qed.

Definition denom_sum (d : N) (xs : list xfer) : Z :=
  sumZ (map x_amt (filter (fun x => N.eqb (x_denom x) d) xs)).

Lemma apply_xfers_bal f g : addr_eqb f g = false -> forall xs b,
  (forall x, In x xs -> x_from x = f /\ x_to x = g) ->
  forall y d, apply_xfers b xs y d
    = b y d - (if addr_eqb y f then denom_sum d xs else 0) + (if addr_eqb y g then denom_sum d xs else 0).
Proof.
  intros Hfg. induction xs as [|x xs IH]; intros b Hx y d.
  - unfold denom_sum. cbn. destruct (addr_eqb y f), (addr_eqb y g); lia.
  - change (apply_xfers b (x :: xs)) with (apply_xfers (apply_xfer b x) xs).
    rewrite IH by (intros z Hz; apply Hx; right; exact Hz).
    destruct (Hx x (or_introl eq_refl)) as [Ef Eg].
    unfold denom_sum. cbn [filter]. unfold apply_xfer. rewrite Ef, Eg. unfold move, bal_upd.
    assert (Hne : f <> g).
    { intros E. rewrite (proj2 (addr_eqb_eq f g) E) in Hfg. discriminate Hfg. }
    assert (Hgf : addr_eqb g f = false).
    { destruct (addr_eqb g f) eqn:E; [|reflexivity]. apply addr_eqb_eq in E. congruence. }
    rewrite Hgf. cbn [andb].
    destruct (addr_eqb y f) eqn:Eyf; destruct (addr_eqb y g) eqn:Eyg; cbn [andb].
    + apply addr_eqb_eq in Eyf, Eyg. congruence.
    + apply addr_eqb_eq in Eyf. subst y. rewrite (N.eqb_sym d). destruct (N.eqb (x_denom x) d) eqn:Ed.
      * apply N.eqb_eq in Ed. subst d. cbn [map]. rewrite sumZ_cons. lia.
      * lia.
    + apply addr_eqb_eq in Eyg. subst y. rewrite (N.eqb_sym d). destruct (N.eqb (x_denom x) d) eqn:Ed.
      * apply N.eqb_eq in Ed. subst d. cbn [map]. rewrite sumZ_cons. lia.
      * lia.
    + lia.
Qed.

Lemma sumZ_nonneg l : (forall x, In x l -> 0 <= x) -> 0 <= sumZ l.
Proof.
  induction l as [|x l IH]; intros H; [cbn; lia|]. rewrite sumZ_cons.
  pose proof (H x (or_introl eq_refl)). assert (0 <= sumZ l) by (apply IH; intros y Hy; apply H; right; exact Hy). lia.
Qed.

Lemma sumZ_filter_le {A} (f : A -> Z) (p q : A -> bool) l :
  (forall x, In x l -> 0 <= f x) -> (forall x, In x l -> p x = true -> q x = true) ->
  sumZ (map f (filter p l)) <= sumZ (map f (filter q l)).
Proof.
  induction l as [|x l IH]; intros Hf Hpq; cbn [filter map]; [lia|].
  assert (IH' : sumZ (map f (filter p l)) <= sumZ (map f (filter q l))).
  { apply IH; intros y Hy; [apply Hf|apply Hpq]; right; exact Hy. }
  pose proof (Hf x (or_introl eq_refl)) as Hx. pose proof (Hpq x (or_introl eq_refl)) as Hx2.
  destruct (p x); destruct (q x) eqn:Q; cbn [map]; rewrite ?sumZ_cons; try lia.
  all: try (specialize (Hx2 eq_refl); discriminate Hx2).
Qed.

Lemma sumZ_drop_zero {A} (f : A -> Z) l :
  sumZ (map f (filter (fun x => negb (f x =? 0)) l)) = sumZ (map f l).
Proof.
  induction l as [|x l IH]; cbn [filter map]; [reflexivity|].
  destruct (f x =? 0) eqn:E; cbn [negb map]; rewrite ?sumZ_cons, IH; [apply Z.eqb_eq in E; lia|reflexivity].
Qed.

(* when all due entries are in denomination pd: the amount leaving the vesting escrow *)
Lemma rel_xfers_sum a t vs pd d :
  (forall v, In v vs -> vq_due t v = true -> v_denom v = pd) ->
  denom_sum d (rel_xfers a t vs) = if N.eqb d pd then sumZ (map v_amt (due_of t vs)) else 0.
Proof.
  intros Hd. unfold denom_sum, rel_xfers.
  assert (G : forall l, (forall v, In v l -> v_denom v = pd) ->
              sumZ (map x_amt (filter (fun x => N.eqb (x_denom x) d) (map (xfer_of a) l)))
              = if N.eqb d pd then sumZ (map v_amt l) else 0).
  { induction l as [|v l IH]; intros H; cbn [map filter xfer_of x_denom].
    - destruct (N.eqb d pd); reflexivity.
    - rewrite (H v (or_introl eq_refl)). rewrite (N.eqb_sym pd d).
      assert (IH' := IH (fun y Hy => H y (or_intror Hy))).
      destruct (N.eqb d pd); cbn [map x_amt]; rewrite ?sumZ_cons, IH'; reflexivity. }
  rewrite G.
  - unfold paid_of. rewrite (sumZ_drop_zero v_amt). reflexivity.
  - intros v Hv. unfold paid_of in Hv. apply filter_In in Hv. destruct Hv as [Hv _].
    unfold due_of in Hv. apply filter_In in Hv. destruct Hv as [Hv Dv]. apply Hd; assumption.
Qed.

Lemma rel_xfers_ends a t vs x :
  In x (rel_xfers a t vs) -> x_from x = Escrow Vesting (a_id a) /\ x_to x = User (a_auctioneer a).
Proof. unfold rel_xfers. intros H. apply in_map_iff in H. destruct H as (v & <- & _). split; reflexivity. Qed.

(* balances after a release (from rs_bal) *)
Lemma rel_spec_balances a t vs s s' pd :
  rel_spec a t vs s s' -> (forall v, In v vs -> vq_due t v = true -> v_denom v = pd) ->
  let paid := sumZ (map v_amt (due_of t vs)) in
  st_bal s' (Escrow Vesting (a_id a)) pd = st_bal s (Escrow Vesting (a_id a)) pd - paid
  /\ st_bal s' (User (a_auctioneer a)) pd = st_bal s (User (a_auctioneer a)) pd + paid
  /\ (forall x d, d <> pd -> st_bal s' x d = st_bal s x d)
  /\ (forall x d, x <> Escrow Vesting (a_id a) -> x <> User (a_auctioneer a) -> st_bal s' x d = st_bal s x d).
Proof.
  intros H Hd paid. rewrite (rs_bal _ _ _ _ _ H).
  assert (B := apply_xfers_bal (Escrow Vesting (a_id a)) (User (a_auctioneer a)) eq_refl
                 (rel_xfers a t vs) (st_bal s) (rel_xfers_ends a t vs)).
  split; [|split; [|split]].
  - rewrite B, (rel_xfers_sum a t vs pd pd Hd), N.eqb_refl.
    rewrite (proj2 (addr_eqb_eq _ _) eq_refl). cbn [addr_eqb]. fold paid. lia.
  - rewrite B, (rel_xfers_sum a t vs pd pd Hd), N.eqb_refl.
    rewrite (proj2 (addr_eqb_eq (User (a_auctioneer a)) _) eq_refl). cbn [addr_eqb]. fold paid. lia.
  - intros x d Hne. rewrite B, (rel_xfers_sum a t vs pd d Hd). apply N.eqb_neq in Hne. rewrite Hne.
    destruct (addr_eqb x (Escrow Vesting (a_id a))), (addr_eqb x (User (a_auctioneer a))); lia.
  - intros x d H1 H2. rewrite B.
    destruct (addr_eqb x (Escrow Vesting (a_id a))) eqn:E1; [apply addr_eqb_eq in E1; contradiction|].
    destruct (addr_eqb x (User (a_auctioneer a))) eqn:E2; [apply addr_eqb_eq in E2; contradiction|]. lia.
Qed.

(* ------------------------------------------------------------------ release_loop cannot fail when funded *)
Lemma release_loop_ok_gen a t d : forall vs s,
  (forall v, In v vs -> vq_due t v = true -> 0 <= v_amt v /\ v_denom v = d) ->
  sumZ (map v_amt (due_of t vs)) <= st_bal s (Escrow Vesting (a_id a)) d ->
  exists s', release_loop s a t vs = Ok s'.
Proof.
  induction vs as [|v rest IH]; intros s Hv Hs; cbn [release_loop]; [eexists; reflexivity|].
  assert (Hrest : forall x, In x rest -> vq_due t x = true -> 0 <= v_amt x /\ v_denom x = d)
    by (intros x Hx; apply Hv; right; exact Hx).
  fold (vq_due t v). rewrite due_of_cons in Hs. destruct (vq_due t v) eqn:D.
  2:{ apply IH; assumption. }
  destruct (Hv v (or_introl eq_refl) D) as [Hamt Hden].
  cbn [map] in Hs. rewrite sumZ_cons in Hs.
  assert (Hnn : 0 <= sumZ (map v_amt (due_of t rest))).
  { apply sumZ_nonneg. intros x Hx. apply in_map_iff in Hx. destruct Hx as (y & <- & Hy).
    unfold due_of in Hy. apply filter_In in Hy. destruct Hy as [Hy Dy]. apply (Hrest y Hy Dy). }
  destruct (send s (Escrow Vesting (a_id a)) (User (a_auctioneer a)) (v_denom v) (v_amt v)) as [s1|c tr] eqn:ES.
  - cbn [bind]. apply IH; [exact Hrest|].
    assert (HB : st_bal s1 (Escrow Vesting (a_id a)) d = st_bal s (Escrow Vesting (a_id a)) d - v_amt v).
    { apply send_ok_inv in ES. destruct ES as [[E0 ->]|(_ & _ & ->)]; [lia|].
      cbn [st_bal with_bank]. rewrite move_from by reflexivity. rewrite Hden, N.eqb_refl. reflexivity. }
    destruct rest; cbn [st_bal put_auction with_auctions with_vqs]; lia.
  - exfalso. unfold send in ES. destruct (v_amt v =? 0); [discriminate ES|].
    destruct (v_amt v <? 0) eqn:E1; [apply Z.ltb_lt in E1; lia|].
    rewrite Hden in ES.
    destruct (st_bal s (Escrow Vesting (a_id a)) d <? v_amt v) eqn:E2; [apply Z.ltb_lt in E2; lia|discriminate ES].
Qed.

(* the form used by the liveness proof: the vesting escrow covers the unreleased instalments *)
Theorem release_loop_ok s a t :
  NoDup (map vkey (st_vqs s)) ->
  (forall v, In v (vqs_of s (a_id a)) -> 0 <= v_amt v /\ v_denom v = a_pay_denom a) ->
  sumZ (map v_amt (filter (fun v => negb (v_released v)) (vqs_of s (a_id a))))
    <= st_bal s (Escrow Vesting (a_id a)) (a_pay_denom a) ->
  exists s', release_loop s a t (vqs_of s (a_id a)) = Ok s' /\
    rel_spec a t (vqs_of s (a_id a)) s s' /\
    st_vqs s' = map (release_vq (a_id a) t) (st_vqs s) /\
    let paid := sumZ (map v_amt (due_of t (vqs_of s (a_id a)))) in
    0 <= paid /\
    st_bal s' (Escrow Vesting (a_id a)) (a_pay_denom a) = st_bal s (Escrow Vesting (a_id a)) (a_pay_denom a) - paid /\
    st_bal s' (User (a_auctioneer a)) (a_pay_denom a) = st_bal s (User (a_auctioneer a)) (a_pay_denom a) + paid /\
    (forall x d, d <> a_pay_denom a -> st_bal s' x d = st_bal s x d) /\
    (forall x d, x <> Escrow Vesting (a_id a) -> x <> User (a_auctioneer a) -> st_bal s' x d = st_bal s x d) /\
    (forall u d, st_bal s (User u) d <= st_bal s' (User u) d).
Proof.
  intros ND Hv Hs.
  assert (Hle : sumZ (map v_amt (due_of t (vqs_of s (a_id a))))
                <= sumZ (map v_amt (filter (fun v => negb (v_released v)) (vqs_of s (a_id a))))).
  { unfold due_of. apply sumZ_filter_le.
    - intros x Hx. apply (Hv x Hx).
    - intros x _ Hx. unfold vq_due in Hx. apply andb_true_iff in Hx. apply Hx. }
  destruct (release_loop_ok_gen a t (a_pay_denom a) (vqs_of s (a_id a)) s) as (s' & H).
  { intros v Hi _. apply Hv. exact Hi. }
  { lia. }
  exists s'. split; [exact H|].
  destruct (release_own_spec s a t s' ND H) as (R & HV & _ & _).
  split; [exact R|]. split; [exact HV|].
  assert (Hd : forall v, In v (vqs_of s (a_id a)) -> vq_due t v = true -> v_denom v = a_pay_denom a)
    by (intros v Hi _; apply Hv; exact Hi).
  destruct (rel_spec_balances a t _ s s' (a_pay_denom a) R Hd) as (B1 & B2 & B3 & B4).
  assert (Hnn : 0 <= sumZ (map v_amt (due_of t (vqs_of s (a_id a))))).
  { apply sumZ_nonneg. intros x Hx. apply in_map_iff in Hx. destruct Hx as (y & <- & Hy).
    unfold due_of in Hy. apply filter_In in Hy. destruct Hy as [Hy _]. apply (Hv y Hy). }
  cbv zeta. split; [exact Hnn|]. split; [exact B1|]. split; [exact B2|]. split; [exact B3|]. split; [exact B4|].
  intros u d. destruct (N.eq_dec d (a_pay_denom a)) as [->|Hne]; [|rewrite B3 by exact Hne; lia].
  destruct (N.eq_dec u (a_auctioneer a)) as [->|Hu]; [rewrite B2; lia|].
  rewrite B4; [lia|discriminate|congruence].
Qed.

(* the explicit post-state of a release, so that "nothing else changes" is literal *)
Definition released_state (s : state) (a : auction) (t : Z) (vs : list vq) : state :=
  let s1 := with_vqs (with_bank s (apply_xfers (st_bal s) (rel_xfers a t vs)) (st_xfers s ++ rel_xfers a t vs))
                     (map (mark (due_of t vs)) (st_vqs s)) in
  if last_due_rec t vs then put_auction s1 (set_status a Finished) else s1.

Lemma state_ext s1 s2 :
  st_params s1 = st_params s2 -> st_auctions s1 = st_auctions s2 -> st_bids s1 = st_bids s2 ->
  st_allowed s1 = st_allowed s2 -> st_vqs s1 = st_vqs s2 -> st_aseq s1 = st_aseq s2 -> st_bseq s1 = st_bseq s2 ->
  st_mlen s1 = st_mlen s2 -> st_bal s1 = st_bal s2 -> st_now s1 = st_now s2 -> st_listeners s1 = st_listeners s2 ->
  st_switch s1 = st_switch s2 -> st_xfers s1 = st_xfers s2 -> st_trace s1 = st_trace s2 -> s1 = s2.
Proof. destruct s1, s2; cbn. intros; subst; reflexivity. Qed.

Theorem release_loop_state a t vs s s' : release_loop s a t vs = Ok s' -> s' = released_state s a t vs.
Proof.
  intros H. apply release_loop_spec in H. destruct H.
  unfold released_state. destruct (last_due_rec t vs); apply state_ext; assumption.
Qed.

(* ------------------------------------------------------------------ (d) settlement without a schedule *)
(* the whole paying reserve goes to the auctioneer in one transfer (none when it is zero) *)
Definition pay_all (s : state) (a : auction) : state :=
  let r := st_bal s (Escrow Paying (a_id a)) (a_pay_denom a) in
  if r =? 0 then s
  else with_bank s (move (st_bal s) (Escrow Paying (a_id a)) (User (a_auctioneer a)) (a_pay_denom a) r)
         (st_xfers s ++ [{| x_from := Escrow Paying (a_id a); x_to := User (a_auctioneer a);
                            x_denom := a_pay_denom a; x_amt := r |}]).

Theorem apply_vesting_no_sched s a s' :
  a_scheds a = [] -> apply_vesting s a = Ok s' ->
  0 <= st_bal s (Escrow Paying (a_id a)) (a_pay_denom a)
  /\ s' = put_auction (pay_all s a) (set_status a Finished).
Proof.
  unfold apply_vesting. cbv zeta. intros ES H. rewrite ES in H.
  destruct (send s (Escrow Paying (a_id a)) (User (a_auctioneer a)) (a_pay_denom a)
              (st_bal s (Escrow Paying (a_id a)) (a_pay_denom a))) as [s1|] eqn:E; cbn [bind] in H; [|discriminate H].
  injection H as <-. unfold pay_all. cbv zeta. apply send_ok_inv in E. destruct E as [[E0 ->]|(Hp & _ & ->)].
  - rewrite E0. split; [lia|reflexivity].
  - assert (E0 : st_bal s (Escrow Paying (a_id a)) (a_pay_denom a) =? 0 = false) by (apply Z.eqb_neq; lia).
    rewrite E0. split; [lia|reflexivity].
Qed.

Theorem apply_vesting_no_sched_ok s a :
  a_scheds a = [] -> 0 <= st_bal s (Escrow Paying (a_id a)) (a_pay_denom a) ->
  apply_vesting s a = Ok (put_auction (pay_all s a) (set_status a Finished)).
Proof.
  intros ES Hr. unfold apply_vesting, pay_all, send. cbv zeta. rewrite ES.
  destruct (st_bal s (Escrow Paying (a_id a)) (a_pay_denom a) =? 0) eqn:E0; [reflexivity|].
  destruct (st_bal s (Escrow Paying (a_id a)) (a_pay_denom a) <? 0) eqn:E1; [apply Z.ltb_lt in E1; lia|].
  rewrite Z.ltb_irrefl. reflexivity.
Qed.

Corollary no_sched_effects s a s' :
  a_scheds a = [] -> apply_vesting s a = Ok s' ->
  let r := st_bal s (Escrow Paying (a_id a)) (a_pay_denom a) in
  st_vqs s' = st_vqs s
  /\ st_xfers s' = st_xfers s ++ (if r =? 0 then [] else [{| x_from := Escrow Paying (a_id a);
                                     x_to := User (a_auctioneer a); x_denom := a_pay_denom a; x_amt := r |}])
  /\ st_bal s' (Escrow Paying (a_id a)) (a_pay_denom a) = 0
  /\ st_bal s' (User (a_auctioneer a)) (a_pay_denom a) = st_bal s (User (a_auctioneer a)) (a_pay_denom a) + r
  /\ (forall a0, find_auction s (a_id a) = Some a0 -> find_auction s' (a_id a) = Some (set_status a Finished))
  /\ (forall j, j <> a_id a -> find_auction s' j = find_auction s j).
Proof.
  intros ES H r. destruct (apply_vesting_no_sched s a s' ES H) as [Hr ->]. fold r in Hr.
  unfold pay_all. cbv zeta. fold r. destruct (r =? 0) eqn:E0.
  - apply Z.eqb_eq in E0. cbn [st_vqs st_xfers st_bal put_auction with_auctions].
    split; [reflexivity|]. split; [symmetry; apply app_nil_r|]. split; [exact E0|]. split; [lia|]. split.
    + intros a0 F. exact (find_auction_put_same s (set_status a Finished) a0 F).
    + intros j Hj. apply find_auction_put_other. exact Hj.
  - cbn [st_vqs st_xfers st_bal put_auction with_auctions with_bank].
    split; [reflexivity|]. split; [reflexivity|]. split; [|split; [|split]].
    + rewrite move_from by reflexivity. rewrite N.eqb_refl. fold r. lia.
    + unfold move, bal_upd. cbn [addr_eqb andb]. rewrite !N.eqb_refl. cbn [andb]. reflexivity.
    + intros a0 F. apply (find_auction_put_same (with_bank s _ _) (set_status a Finished) a0). exact F.
    + intros j Hj. apply (find_auction_put_other (with_bank s _ _)). exact Hj.
Qed.

(* settlement = allocation and refunds (balances and trace only), then apply_vesting *)
Lemma close_fixed_vesting s a s' :
  close_fixed s a = Ok s' -> exists s1, bt_only (a_id a) s s1 /\ apply_vesting s1 a = Ok s'.
Proof.
  unfold close_fixed. cbv zeta. intros H. inv_step H. inv_step H.
  apply allocate_inv in E. apply refund_selling_inv in E0.
  exists s1. split; [eapply bt_only_trans; eassumption|exact H].
Qed.
Lemma settle_batch_vesting s a mi s' :
  settle_batch s a mi = Ok s' -> exists s1, bt_only (a_id a) s s1 /\ apply_vesting s1 a = Ok s'.
Proof.
  unfold settle_batch. intros H. inv_step H. inv_step H. inv_step H.
  apply allocate_inv in E. apply refund_selling_inv in E0.
  apply (pay_out_inv (a_id a)) in E1; [|reflexivity]. destruct E1 as (b & xs & -> & K).
  eexists. split; [|exact H].
  eapply bt_only_trans; [exact E|]. eapply bt_only_trans; [exact E0|]. apply bt_only_bank. exact K.
Qed.
