(* C09: the executable statement c09_live (a block fails while an instalment is due only when a listener vetoes)
   holds of every model transition: without a vetoing listener a block of the model never fails
   (InvAll.block_never_fails).  With Chk09.c09_ok_model this gives the link for c09_all. *)
From Coq Require Import ZArith NArith List Bool Arith Lia.
From FR Require Import Dec Types Bank Match Step Genesis Model Spec Checkers.
From FR.Proofs Require Import InvDefs InvAll FixedFacts.
From FR.Proofs Require Chk09.
Import ListNotations.
Open Scope Z_scope.

Theorem c09_live_model s o : Inv s -> oracle_ok s o -> c09_live (model_trans s o) = true.
Proof.
  intros I Ho. unfold model_trans. fold (ghost_reset s).
  destruct (step (ghost_reset s) o) as [out s'] eqn:Es. unfold c09_live. cbn [t_op t_class t_pre].
  destruct o as [m|id l|id u max|t orc|t orc k|from to d amt|ls|]; try reflexivity.
  destruct (no_veto s H_BeforeAllocated) eqn:Hnv; [|destruct (class_of out); reflexivity].
  assert (Ho' : oracle_ok (ghost_reset s) (OBlock t orc)) by exact Ho.
  destruct (block_never_fails (ghost_reset s) t orc (Inv_ghost_reset s I) Hnv Ho') as [E _].
  rewrite Es in E. cbn [fst] in E. subst out. reflexivity.
Qed.

Theorem c09_all_model s o : Inv s -> oracle_ok s o -> c09_all (model_trans s o) = true.
Proof.
  intros I Ho. unfold c09_all. rewrite (Chk09.c09_ok_model s o I Ho), (c09_live_model s o I Ho). reflexivity.
Qed.
