(* Shared frame facts for the hook (C17) and allow-list (C10) proofs: what the bank primitives
   leave untouched, inversion of bind.  No axioms. *)
From Coq Require Import ZArith NArith List Bool Arith Lia.
From FR Require Import Dec Types Bank Match Step Genesis Model.
Import ListNotations.
Open Scope Z_scope.

Lemma bind_ok_inv : forall {A B} (r : res A) (f : A -> res B) b,
  bind r f = Ok b -> exists a, r = Ok a /\ f a = Ok b.
Proof. intros A B r f b H. destruct r as [a|c tr]; [exists a; split; [reflexivity|exact H] | discriminate]. Qed.

Lemma bind_err_inv : forall {A B} (r : res A) (f : A -> res B) c tr,
  bind r f = Err c tr -> r = Err c tr \/ exists a, r = Ok a /\ f a = Err c tr.
Proof. intros A B r f c tr H. destruct r as [a|c0 tr0]; [right; exists a; split; [reflexivity|exact H] | left; cbn [bind] in H; congruence]. Qed.

(* all projections and field updates of the state, for controlled reduction *)
Ltac sproj :=
  cbn [st_params st_auctions st_bids st_allowed st_vqs st_aseq st_bseq st_mlen st_bal st_now
       st_listeners st_switch st_xfers st_trace
       with_auctions with_bids with_allowed with_vqs with_aseq with_bseq with_mlen with_bank
       with_now with_listeners with_trace with_params put_auction put_bid].
Ltac sproj_in H :=
  cbn [st_params st_auctions st_bids st_allowed st_vqs st_aseq st_bseq st_mlen st_bal st_now
       st_listeners st_switch st_xfers st_trace
       with_auctions with_bids with_allowed with_vqs with_aseq with_bseq with_mlen with_bank
       with_now with_listeners with_trace with_params put_auction put_bid] in H.

(* s' differs from s at most in the bank part (balances and the transfer log) *)
Record nobank (s s' : state) : Prop := {
  nb_params : st_params s' = st_params s;
  nb_auctions : st_auctions s' = st_auctions s;
  nb_bids : st_bids s' = st_bids s;
  nb_allowed : st_allowed s' = st_allowed s;
  nb_vqs : st_vqs s' = st_vqs s;
  nb_aseq : st_aseq s' = st_aseq s;
  nb_bseq : st_bseq s' = st_bseq s;
  nb_mlen : st_mlen s' = st_mlen s;
  nb_now : st_now s' = st_now s;
  nb_listeners : st_listeners s' = st_listeners s;
  nb_switch : st_switch s' = st_switch s;
  nb_trace : st_trace s' = st_trace s }.

Lemma nobank_refl : forall s, nobank s s.
Proof. intros s. constructor; reflexivity. Qed.

Lemma nobank_trans : forall s1 s2 s3, nobank s1 s2 -> nobank s2 s3 -> nobank s1 s3.
Proof. intros s1 s2 s3 [] []. constructor; congruence. Qed.

Lemma nobank_with_bank : forall s b xs, nobank s (with_bank s b xs).
Proof. intros s b xs. constructor; reflexivity. Qed.

(* the errors of the bank never carry a hook veto and never add to the trace *)
Definition bank_err (s : state) {A} (r : res A) : Prop :=
  match r with Ok _ => True | Err c tr => tr = st_trace s /\ (c = E_PANIC \/ c = E_FUNDS) end.

Lemma send_ok : forall s from to d amt s', send s from to d amt = Ok s' -> nobank s s'.
Proof.
  intros s from to d amt s' H. unfold send in H.
  destruct (amt =? 0) eqn:E0; [injection H as <-; apply nobank_refl|].
  destruct (amt <? 0) eqn:E1; [discriminate|].
  destruct (st_bal s from d <? amt) eqn:E2; [discriminate|].
  injection H as <-. apply nobank_with_bank.
Qed.

Lemma send_err : forall s from to d amt, bank_err s (send s from to d amt).
Proof.
  intros s from to d amt. unfold send, bank_err.
  destruct (amt =? 0) eqn:E0; [exact I|].
  destruct (amt <? 0) eqn:E1; [split; [reflexivity | left; reflexivity]|].
  destruct (st_bal s from d <? amt) eqn:E2; [split; [reflexivity | right; reflexivity] | exact I].
Qed.

(* the transfers a successful send appends *)
Lemma send_xfers : forall s from to d amt s', send s from to d amt = Ok s' ->
  st_xfers s' = st_xfers s ++ (if amt =? 0 then [] else [{| x_from := from; x_to := to; x_denom := d; x_amt := amt |}])
  /\ 0 <= amt.
Proof.
  intros s from to d amt s' H. unfold send in H.
  destruct (amt =? 0) eqn:E0.
  - injection H as <-. rewrite app_nil_r. split; [reflexivity|]. apply Z.eqb_eq in E0. lia.
  - destruct (amt <? 0) eqn:E1; [discriminate|].
    destruct (st_bal s from d <? amt) eqn:E2; [discriminate|].
    injection H as <-. split; [reflexivity|]. apply Z.ltb_ge in E1. exact E1.
Qed.

Lemma send_coins_ok : forall cs s from to s', send_coins s from to cs = Ok s' -> nobank s s'.
Proof.
  induction cs as [|[d amt] rest IH]; intros s from to s' H; cbn [send_coins] in H.
  - injection H as <-. apply nobank_refl.
  - apply bind_ok_inv in H as [s1 [H1 H2]].
    eapply nobank_trans; [eapply send_ok; exact H1 | eapply IH; exact H2].
Qed.

Lemma send_coins_err : forall cs s from to, bank_err s (send_coins s from to cs).
Proof.
  induction cs as [|[d amt] rest IH]; intros s from to; cbn [send_coins].
  - exact I.
  - pose proof (send_err s from to d amt) as He.
    destruct (send s from to d amt) as [s1|c tr] eqn:H1; cbn [bind].
    + apply send_ok in H1. specialize (IH s1 from to).
      destruct (send_coins s1 from to rest) as [s2|c tr]; [exact I|].
      cbn [bank_err] in *. rewrite (nb_trace _ _ H1) in IH. exact IH.
    + exact He.
Qed.

Lemma fund_pool_ok : forall s u cs s', fund_pool s u cs = Ok s' -> nobank s s'.
Proof. intros s u cs s' H. eapply send_coins_ok; exact H. Qed.
Lemma fund_pool_err : forall s u cs, bank_err s (fund_pool s u cs).
Proof. intros s u cs. apply send_coins_err. Qed.

Lemma pay_out_ok : forall us s from d f s', pay_out s from d us f = Ok s' -> nobank s s'.
Proof.
  induction us as [|u rest IH]; intros s from d f s' H; cbn [pay_out] in H.
  - injection H as <-. apply nobank_refl.
  - destruct (f u =? 0) eqn:E0; [eapply IH; exact H|].
    apply bind_ok_inv in H as [s1 [H1 H2]].
    eapply nobank_trans; [eapply send_ok; exact H1 | eapply IH; exact H2].
Qed.

Lemma pay_out_err : forall us s from d f, bank_err s (pay_out s from d us f).
Proof.
  induction us as [|u rest IH]; intros s from d f; cbn [pay_out].
  - exact I.
  - destruct (f u =? 0) eqn:E0; [apply IH|].
    pose proof (send_err s from (User u) d (f u)) as He.
    destruct (send s from (User u) d (f u)) as [s1|c tr] eqn:H1; cbn [bind].
    + apply send_ok in H1. specialize (IH s1 from d f).
      destruct (pay_out s1 from d rest f) as [s2|c tr]; [exact I|].
      cbn [bank_err] in *. rewrite (nb_trace _ _ H1) in IH. exact IH.
    + exact He.
Qed.

(* the transfers of AllocateSellingCoin / the refund loop: one per bidder with a non-zero amount, in order *)
Definition payouts (from : addr) (d : N) (us : list N) (f : N -> Z) : list xfer :=
  map (fun u => {| x_from := from; x_to := User u; x_denom := d; x_amt := f u |})
      (filter (fun u => negb (f u =? 0)) us).

Lemma pay_out_xfers : forall us s from d f s', pay_out s from d us f = Ok s' ->
  st_xfers s' = st_xfers s ++ payouts from d us f /\ (forall u, In u us -> 0 <= f u).
Proof.
  induction us as [|u rest IH]; intros s from d f s' H; cbn [pay_out] in H.
  - injection H as <-. unfold payouts. cbn. rewrite app_nil_r. split; [reflexivity | intros u []].
  - unfold payouts. cbn [filter]. destruct (f u =? 0) eqn:E0; cbn [negb].
    + apply IH in H as [Hx Hpos]. split; [exact Hx|].
      intros v [<-|Hv]; [apply Z.eqb_eq in E0; lia | apply Hpos; exact Hv].
    + apply bind_ok_inv in H as [s1 [H1 H2]]. apply send_xfers in H1 as [Hx1 Hp1].
      apply IH in H2 as [Hx2 Hpos]. rewrite E0 in Hx1. split.
      * rewrite Hx2, Hx1, <- app_assoc. reflexivity.
      * intros v [<-|Hv]; [exact Hp1 | apply Hpos; exact Hv].
Qed.
