(* A short concrete history for the Examples of the checker links C03/C04/C05: a batch auction (one round, one vesting
   instalment) offering 100 coins, two allow-listed bidders (user 2 capped at 60, user 3 at 100), three bids
   (30 coins @ 3.0 and 40 coins @ 1.0 by user 2, worth 101 @ 2.0 by user 3), a fixed price auction with one bid
   settled in the same block, and the closing block.  The batch auction clears at 2.0: user 2 gets 30 for 60
   (130 reserved, 70 refunded), user 3 gets 50 for 100 (1 refunded). *)
From Coq Require Import ZArith NArith List Bool Arith Lia.
From FR Require Import Dec Types Bank Match Step Genesis Model Spec Checkers.
From FR.Proofs Require Import InvDefs InvAll ExcessExamples.
Import ListNotations.
Open Scope Z_scope.

Definition chk_create_batch : op :=
  OTx (MCreateBatch (AGood false 0) (Some P) (Some P) (c01_coin 1 100) (Some 2%N)
         [{| ms_time := 400; ms_weight := Some P |}] 0 (Some (P / 10)) 50 200).
Definition chk_allow (a u : N) (m : Z) : op := OTx (MAddAllowed a 0 (AGood false u) (Some m)).
Definition chk_bid (a u bt : N) (price : Z) (d : N) (amt : Z) : op :=
  OTx (MPlaceBid (AGood false u) a bt (Some price) (c01_coin d amt)).

(* auction 0: the fixed price auction of ExcessExamples (one bid of 50 by user 2); auction 1: the batch auction *)
Definition chk_hist : list op :=
  [c01_create; c01_allow; c01_bid; chk_create_batch; chk_allow 1 2 60; chk_allow 1 3 100;
   chk_bid 1 2 3 (3 * P) 1 30; chk_bid 1 3 2 (2 * P) 2 101; chk_bid 1 2 3 P 1 40].
Definition chk_state : state := run c01_init chk_hist.
Definition chk_close : op := OBlock 250 [(1%N, [1; 2; 3]%N)].

Lemma chk_state_Inv : Inv chk_state.
Proof. apply Inv_reachable; try reflexivity. intros [u|r a|] d; cbn; discriminate. Qed.

Lemma chk_oracle_ok : oracle_ok chk_state chk_close.
Proof.
  intros a Ha Ty St _. vm_compute in Ha. destruct Ha as [<-|[<-|[]]]; [discriminate Ty|].
  eexists. eexists. split; [reflexivity|]. vm_compute. reflexivity.
Qed.
