(* C17, BeginBlocker: which auctions get the allocation hook.  An auction offers at most one
   BeforeAllocated hook per block, and only when it is Started and due; a block in which no
   Started auction is due makes no hook call.  No axioms. *)
From Coq Require Import ZArith NArith List Bool Arith Lia.
From FR Require Import Dec Types Bank Match Step Genesis Model Spec Checkers.
From FR.Proofs Require Import HookBase HookFacts HookSites.
Import ListNotations.
Open Scope Z_scope.

Definition quiet (s : state) (r : res state) : Prop :=
  match r with Ok s' => st_trace s' = st_trace s | Err _ tr => tr = st_trace s end.

Lemma quiet_bind : forall s (r : res state) (f : state -> res state),
  quiet s r -> (forall s1, r = Ok s1 -> quiet s1 (f s1)) -> quiet s (bind r f).
Proof.
  intros s r f Hr Hf. destruct r as [s1|c tr]; cbn [bind]; [|exact Hr].
  specialize (Hf s1 eq_refl). cbn [quiet] in Hr. unfold quiet in *. rewrite Hr in Hf. exact Hf.
Qed.

Lemma send_quiet : forall s from to d amt, quiet s (send s from to d amt).
Proof.
  intros. pose proof (send_err s from to d amt) as He.
  destruct (send s from to d amt) as [s'|c tr] eqn:H; cbn [quiet].
  - apply send_ok in H. apply (nb_trace _ _ H).
  - destruct He as [-> _]. reflexivity.
Qed.

Lemma release_loop_quiet : forall vs s a t, quiet s (release_loop s a t vs).
Proof.
  induction vs as [|v rest IH]; intros s a t; cbn [release_loop]; [reflexivity|].
  destruct ((v_time v <=? t) && negb (v_released v)); [|apply IH].
  apply quiet_bind; [apply send_quiet|]. intros s1 _. cbv zeta.
  match goal with |- quiet _ (release_loop ?s2 _ _ _) =>
    assert (E : st_trace s2 = st_trace s1) by (destruct rest; reflexivity);
    pose proof (IH s2 a t) as Q end.
  unfold quiet in *. rewrite E in Q. exact Q.
Qed.

Lemma extend_round_quiet : forall s a, quiet s (extend_round s a).
Proof. reflexivity. Qed.

(* an auction that is not both Started and due is processed without any hook call *)
Lemma process_quiet : forall t orc s a,
  (a_status a = Started -> t < last_end a) -> quiet s (process t orc s a).
Proof.
  intros t orc s a Hnd. unfold process. destruct (a_status a) eqn:Hst.
  - destruct (a_start a <=? t); reflexivity.
  - specialize (Hnd eq_refl). apply Z.leb_gt in Hnd. rewrite Hnd. reflexivity.
  - apply release_loop_quiet.
  - reflexivity.
  - reflexivity.
Qed.

Lemma process_all_quiet : forall l t orc s,
  (forall a, In a l -> a_status a = Started -> t < last_end a) -> quiet s (process_all t orc s l).
Proof.
  induction l as [|a rest IH]; intros t orc s H; cbn [process_all]; [reflexivity|].
  apply quiet_bind; [apply process_quiet; apply H; left; reflexivity|].
  intros s1 _. apply IH. intros a0 Ha0. apply H. right. exact Ha0.
Qed.

Theorem block_not_due_no_hooks : forall s t orc,
  (forall a, In a (st_auctions s) -> a_status a = Started -> t < last_end a) ->
  st_trace (snd (step s (OBlock t orc))) = st_trace s.
Proof.
  intros s t orc H. cbn [step]. unfold begin_block. cbv zeta.
  pose proof (process_all_quiet (st_auctions (with_now s t)) t orc (with_now s t) H) as Q.
  destruct (process_all t orc (with_now s t) (st_auctions (with_now s t))) as [s'|c tr]; cbn [snd quiet] in *.
  - exact Q.
  - sproj. exact Q.
Qed.

(* one auction: no call, or exactly the allocation hook (every listener once) followed by the
   transfers of the amounts in the map; the latter only for a Started auction that is due *)
Lemma close_batch_hooks : forall s orc a s',
  close_batch s orc a = Ok s' ->
  st_trace s' = st_trace s \/
  exists mi p, calc_batch a (bids_of s (a_id a))
                 (match valid_order (bids_of s (a_id a))
                          (match find (fun x => N.eqb (fst x) (a_id a)) orc with Some (_, l) => l | None => [] end)
                  with Some o => o | None => [] end) (allowed_of s (a_id a)) = Some mi /\
    p = mi_price mi /\
    st_trace s' = st_trace s ++ expected_trace s [(H_BeforeAllocated, alloc_args (set_matched_price a p) mi true)] /\
    (forall u, In u (mi_bidders mi) -> 0 <= mi_alloc mi u /\ 0 <= mi_refund mi u) /\
    exists r1 r2, st_xfers s' = st_xfers s
        ++ payouts (Escrow Selling (a_id a)) (a_sell_denom a) (mi_bidders mi) (mi_alloc mi) ++ r1
        ++ payouts (Escrow Paying (a_id a)) (a_pay_denom a) (mi_bidders mi) (mi_refund mi) ++ r2
      /\ (length r1 <= 1)%nat /\ (length r2 <= 1)%nat.
Proof.
  intros s orc a s' H. unfold close_batch in H. cbv zeta in H.
  destruct (valid_order (bids_of s (a_id a)) _) as [order|] eqn:Hvo; [|discriminate].
  destruct (calc_batch a (bids_of s (a_id a)) order (allowed_of s (a_id a))) as [mi|] eqn:Hc; [|discriminate].
  assert (Hset : forall s1, settle_batch (set_flags s (a_id a) (mi_matched mi)) (set_matched_price a (mi_price mi)) mi = Ok s1 ->
    st_trace s1 = st_trace s ++ expected_trace s [(H_BeforeAllocated, alloc_args (set_matched_price a (mi_price mi)) mi true)] /\
    (forall u, In u (mi_bidders mi) -> 0 <= mi_alloc mi u /\ 0 <= mi_refund mi u) /\
    exists r1 r2, st_xfers s1 = st_xfers s
        ++ payouts (Escrow Selling (a_id a)) (a_sell_denom a) (mi_bidders mi) (mi_alloc mi) ++ r1
        ++ payouts (Escrow Paying (a_id a)) (a_pay_denom a) (mi_bidders mi) (mi_refund mi) ++ r2
      /\ (length r1 <= 1)%nat /\ (length r2 <= 1)%nat).
  { intros s1 H1. apply settle_batch_hooks in H1. exact H1. }
  destruct (N.eqb (a_max_round (set_matched_price a (mi_price mi)) + 1)
                  (N.of_nat (length (a_ends (set_matched_price a (mi_price mi)))))).
  - right. exists mi, (mi_price mi). split; [reflexivity|]. split; [reflexivity|]. apply Hset. exact H.
  - destruct (st_mlen s (a_id a) =? 0).
    + left. injection H as <-. reflexivity.
    + destruct (extend_rule _ _ _).
      * left. injection H as <-. reflexivity.
      * right. exists mi, (mi_price mi). split; [reflexivity|]. split; [reflexivity|]. apply Hset. exact H.
Qed.

Lemma process_hooks : forall t orc s a s',
  process t orc s a = Ok s' ->
  st_trace s' = st_trace s \/
  (a_status a = Started /\ last_end a <= t /\
   exists a' mi w, a_id a' = a_id a /\ a_sell_denom a' = a_sell_denom a /\
     st_trace s' = st_trace s ++ expected_trace s [(H_BeforeAllocated, alloc_args a' mi w)] /\
     (forall u, In u (mi_bidders mi) -> 0 <= mi_alloc mi u) /\
     exists rest, st_xfers s' = st_xfers s
        ++ payouts (Escrow Selling (a_id a)) (a_sell_denom a) (mi_bidders mi) (mi_alloc mi) ++ rest).
Proof.
  intros t orc s a s' H.
  destruct (a_status a) eqn:Hst;
    try (left; pose proof (process_quiet t orc s a) as Q; rewrite H in Q; apply Q; rewrite Hst; discriminate).
  destruct (last_end a <=? t) eqn:Hdue.
  2:{ left. pose proof (process_quiet t orc s a) as Q. rewrite H in Q. apply Q. intros _. apply Z.leb_gt. exact Hdue. }
  apply Z.leb_le in Hdue. unfold process in H. rewrite Hst in H.
  destruct (last_end a <=? t); [|left; injection H as <-; reflexivity].
  destruct (a_type a).
  - right. split; [reflexivity|]. split; [exact Hdue|].
    pose proof H as H'. apply close_fixed_hooks in H. cbv zeta in H. destruct H as [Ht [rest [Hx _]]].
    unfold close_fixed in H'. apply bind_ok_inv in H' as [s1 [H1 _]]. apply allocate_ok in H1 as [_ [_ [_ Hp]]].
    exists a, (calc_fixed a (bids_of s (a_id a))), false.
    split; [reflexivity|]. split; [reflexivity|]. split; [exact Ht|]. split; [exact Hp|].
    exists rest. exact Hx.
  - apply close_batch_hooks in H as [H|[mi [p [_ [-> [Ht [Hp [r1 [r2 [Hx _]]]]]]]]]]; [left; exact H|].
    right. split; [reflexivity|]. split; [exact Hdue|].
    exists (set_matched_price a (mi_price mi)), mi, true.
    split; [reflexivity|]. split; [reflexivity|]. split; [exact Ht|].
    split; [intros u Hu; apply (Hp u Hu)|].
    eexists. exact Hx.
Qed.
