(* Boolean forms of the well-formedness hypotheses of the matching theorems
   (to show by computation that they are satisfiable, and for later derivation from the
   global invariant). *)
From Coq Require Import ZArith NArith List Bool Arith Lia.
From FR Require Import Dec Types Match Spec.
From FR.Proofs Require Import MatchBase MatchSweep MatchDemand MatchSearch MatchBatch MatchConseq.
Import ListNotations.
Open Scope Z_scope.

Definition book_wfb (bs : list bid) (al : list allowed) : bool :=
  forallb (fun b => (0 <? b_price b) && (0 <? b_amt b)
                    && existsb (fun x => N.eqb (al_bidder x) (b_bidder b)) al) bs
  && nodupN (map al_bidder al)
  && forallb (fun x => 0 <? al_max x) al.

Lemma book_wfb_sound bs al : book_wfb bs al = true -> book_wf bs al.
Proof.
  unfold book_wfb. intros H. apply andb_prop in H. destruct H as [H H3].
  apply andb_prop in H. destruct H as [H1 H2].
  rewrite forallb_forall in H1, H3.
  assert (Hb : forall b, In b bs -> 0 < b_price b /\ 0 < b_amt b /\
                                   exists x, In x al /\ al_bidder x = b_bidder b).
  { intros b Hb. specialize (H1 b Hb). apply andb_prop in H1. destruct H1 as [H1 Hc].
    apply andb_prop in H1. destruct H1 as [Ha Hb']. apply Z.ltb_lt in Ha. apply Z.ltb_lt in Hb'.
    apply existsb_exists in Hc. destruct Hc as (x & Hx & Ex). apply N.eqb_eq in Ex.
    split; [exact Ha|]. split; [exact Hb'|]. exists x. split; assumption. }
  constructor.
  - intros b Hb'. apply (Hb b Hb').
  - intros b Hb'. apply (Hb b Hb').
  - intros b Hb'. apply (Hb b Hb').
  - apply nodupN_NoDup. exact H2.
  - intros x Hx. apply Z.ltb_lt. apply H3. exact Hx.
Qed.

Definition denoms_wfb (pd : N) (bs : list bid) : bool :=
  forallb (fun b => match b_type b with
                    | BWorth => N.eqb (b_denom b) pd
                    | BMany => negb (N.eqb (b_denom b) pd)
                    | BFixed => false
                    end) bs.

Lemma denoms_wfb_sound pd bs : denoms_wfb pd bs = true -> denoms_wf pd bs.
Proof.
  unfold denoms_wfb, denoms_wf. intros H b Hb. rewrite forallb_forall in H. specialize (H b Hb).
  destruct (b_type b); [discriminate| |].
  - left. split; [reflexivity|]. apply N.eqb_eq. exact H.
  - right. split; [reflexivity|]. apply negb_true_iff in H. apply N.eqb_neq. exact H.
Qed.
