(* C04: the executable statement c04_delivered (at the settlement of a fixed price auction every bidder receives the
   sum of the quantities of their bids) holds of every model transition; it is the fixed price branch of the
   settlement clause of c05_ok, read as a statement about what was paid for.  With Chk04.c04_ok_model this gives the
   link for c04_all. *)
From Coq Require Import ZArith NArith List Bool Arith Lia.
From FR Require Import Dec Types Bank Match Step Genesis Model Spec Checkers.
From FR.Proofs Require Import InvDefs InvAll.
From FR.Proofs Require Chk04 Chk05 Chk11.
Import ListNotations.
Open Scope Z_scope.

Theorem c04_delivered_model s o : Inv s -> c04_delivered (model_trans s o) = true.
Proof.
  intros I. pose proof (Chk05.c05_settle_model s o I) as H. unfold Chk05.c05_settle in H.
  unfold c04_delivered. rewrite forallb_forall in H. apply forallb_forall. intros p Hp. specialize (H p Hp).
  cbv zeta in H. cbv zeta. apply andb_true_iff in H. destruct H as [_ H].
  destruct (a_type (fst p)) eqn:Ty; [|reflexivity].
  rewrite forallb_forall in H. apply forallb_forall. intros u Hu. specialize (H u Hu). exact H.
Qed.

(* c04_modify is a conjunct of the acceptance clause of c11_ok *)
Lemma c11_ok_modify t : c11_ok t = true -> c04_modify t = true.
Proof.
  unfold c11_ok, c04_modify. intros H. apply andb_true_iff in H. destruct H as [H _].
  destruct (t_op t) as [m| | | | | | |]; try reflexivity.
  destruct (check_basic m) as [c|]; [|reflexivity].
  destruct c; try reflexivity.
  apply andb_true_iff in H. destruct H as [_ H].
  destruct (oclass_eqb (t_class t) KOk); [|reflexivity].
  repeat match goal with |- context [match ?x with Some _ => _ | None => _ end] => destruct x; try discriminate H end.
  apply andb_true_iff in H. destruct H as [_ H]. exact H.
Qed.

Theorem c04_all_model s o : Inv s -> oracle_ok s o -> c04_all (model_trans s o) = true.
Proof.
  intros I Ho. unfold c04_all. rewrite (Chk04.c04_ok_model s o I Ho), (c04_delivered_model s o I).
  rewrite (c11_ok_modify _ (Chk11.c11_ok_model s o I)). reflexivity.
Qed.
