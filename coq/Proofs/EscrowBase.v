(* Balance algebra for the escrow invariant (C01/C02/C07): what sends do to balances, pointwise. *)
From Coq Require Import ZArith NArith List Bool Arith Lia.
From FR Require Import Dec Types Bank Match Step Genesis Model Spec.
From FR.Proofs Require Import InvDefs.
Import ListNotations.
Open Scope Z_scope.

Definition ind (c : bool) (a : Z) : Z := if c then a else 0.

Lemma role_eqb_eq x y : role_eqb x y = true <-> x = y.
Proof. destruct x, y; cbn; split; intros H; try reflexivity; discriminate H. Qed.
Lemma addr_eqb_eq x y : addr_eqb x y = true <-> x = y.
Proof.
  destruct x as [u|r a|], y as [v|q b|]; cbn; split; intros H; try reflexivity; try discriminate H.
  - apply N.eqb_eq in H. now subst.
  - inversion H. apply N.eqb_refl.
  - apply andb_true_iff in H. destruct H as [H1 H2]. apply role_eqb_eq in H1. apply N.eqb_eq in H2. now subst.
  - inversion H; subst. apply andb_true_iff. split; [now apply role_eqb_eq | apply N.eqb_refl].
Qed.
Lemma addr_eqb_refl x : addr_eqb x x = true. Proof. now apply addr_eqb_eq. Qed.
Lemma addr_eqb_neq x y : addr_eqb x y = false <-> x <> y.
Proof.
  split; intros H.
  - intros E. apply addr_eqb_eq in E. congruence.
  - destruct (addr_eqb x y) eqn:E; [apply addr_eqb_eq in E; contradiction | reflexivity].
Qed.

(* at x d': the moved amount leaves `from` and arrives at `to` (both when from = to) *)
Lemma move_spec b f t d a x d' :
  move b f t d a x d' = b x d' - ind (addr_eqb x f && N.eqb d' d) a + ind (addr_eqb x t && N.eqb d' d) a.
Proof.
  unfold move, bal_upd, ind. rewrite !N.eqb_refl, !andb_true_r.
  destruct (N.eqb d' d) eqn:Ed; rewrite ?andb_false_r, ?andb_true_r; [|lia].
  apply N.eqb_eq in Ed. subst d'.
  destruct (addr_eqb x t) eqn:Et.
  - apply addr_eqb_eq in Et. subst x. destruct (addr_eqb t f) eqn:Ef.
    + apply addr_eqb_eq in Ef. subst t. lia.
    + lia.
  - destruct (addr_eqb x f) eqn:Ef; [apply addr_eqb_eq in Ef; subst x|]; lia.
Qed.

(* a successful send: only the bank fields change, by the moved amount *)
Lemma send_ok s f t d amt s' :
  send s f t d amt = Ok s' ->
  0 <= amt /\ (0 < amt -> amt <= st_bal s f d) /\
  (forall x d', st_bal s' x d' = st_bal s x d' - ind (addr_eqb x f && N.eqb d' d) amt + ind (addr_eqb x t && N.eqb d' d) amt) /\
  exists b xs, s' = with_bank s b xs.
Proof.
  unfold send. destruct (amt =? 0) eqn:E0.
  - intros H. inversion H; subst s'. apply Z.eqb_eq in E0. subst amt.
    repeat split; try lia. + intros x d'. unfold ind. destruct (_ && _), (_ && _); lia.
    + exists (st_bal s), (st_xfers s). destruct s; reflexivity.
  - destruct (amt <? 0) eqn:En; [discriminate|]. destruct (st_bal s f d <? amt) eqn:Eb; [discriminate|].
    intros H. inversion H; subst s'. apply Z.ltb_ge in En. apply Z.ltb_ge in Eb.
    repeat split; try lia. + intros x d'. cbn. apply move_spec. + eauto.
Qed.

(* when does a send succeed *)
Lemma send_succeeds s f t d amt :
  0 <= amt -> amt <= st_bal s f d -> exists s', send s f t d amt = Ok s'.
Proof.
  intros Ha Hb. unfold send. destruct (amt =? 0); [eauto|].
  destruct (amt <? 0) eqn:En; [apply Z.ltb_lt in En; lia|].
  destruct (st_bal s f d <? amt) eqn:Eb; [apply Z.ltb_lt in Eb; lia|]. eauto.
Qed.

(* owed only looks at auctions, bids and vesting queues *)
Lemma owed_ext s s' :
  st_auctions s' = st_auctions s -> st_bids s' = st_bids s -> st_vqs s' = st_vqs s ->
  forall r id d, owed s' r id d = owed s r id d.
Proof.
  intros Ha Hb Hv r id d. unfold owed, find_auction, bids_of, vqs_of. now rewrite Ha, Hb, Hv.
Qed.
Lemma owed_with_bank s b xs r id d : owed (with_bank s b xs) r id d = owed s r id d.
Proof. now apply owed_ext. Qed.
Lemma owed_with_trace s tr r id d : owed (with_trace s tr) r id d = owed s r id d.
Proof. now apply owed_ext. Qed.

(* owed amounts are never negative in a well-formed state *)
Lemma sumZ_nonneg l : (forall x, In x l -> 0 <= x) -> 0 <= sumZ l.
Proof.
  unfold sumZ. induction l as [|x r IH]; cbn [fold_right]; intros H; [lia|].
  specialize (IH (fun y Hy => H y (or_intror Hy))). specialize (H x (or_introl eq_refl)). lia.
Qed.
Lemma sumZ_cons x l : sumZ (x :: l) = x + sumZ l. Proof. reflexivity. Qed.
Lemma sumZ_app l1 l2 : sumZ (l1 ++ l2) = sumZ l1 + sumZ l2.
Proof. induction l1 as [|x r IH]; cbn [app]; rewrite ?sumZ_cons; [reflexivity|]. rewrite IH. lia. Qed.

(* pay_out: every positive amount of f over us goes out of `from`; succeeds when the balance covers the total *)
Definition total_of (us : list N) (f : N -> Z) : Z := sumZ (map f us).

Lemma pay_out_ok us : forall s from d f,
  (forall x, from <> User x) ->
  (forall u, In u us -> 0 <= f u) ->
  total_of us f <= st_bal s from d ->
  exists s', pay_out s from d us f = Ok s' /\
    st_bal s' from d = st_bal s from d - total_of us f /\
    (forall x d', x <> from -> st_bal s x d' <= st_bal s' x d') /\
    (forall x d', (forall u, x <> User u) -> x <> from -> st_bal s' x d' = st_bal s x d') /\
    (forall d', d' <> d -> st_bal s' from d' = st_bal s from d') /\
    (exists b xs, s' = with_bank s b xs).
Proof.
  induction us as [|u r IH]; intros s from d f Hfrom Hpos Htot; cbn [pay_out].
  - exists s. unfold total_of; cbn. repeat split; try lia; try reflexivity.
    exists (st_bal s), (st_xfers s). destruct s; reflexivity.
  - unfold total_of in *. cbn [map] in Htot. rewrite sumZ_cons in Htot.
    assert (Hu : 0 <= f u) by (apply Hpos; now left).
    assert (Hr : forall v, In v r -> 0 <= f v) by (intros v Hv; apply Hpos; now right).
    assert (Hsum : 0 <= sumZ (map f r)) by (apply sumZ_nonneg; intros x Hx; apply in_map_iff in Hx; destruct Hx as [v [E Hv]]; subst; auto).
    destruct (f u =? 0) eqn:E0.
    + apply Z.eqb_eq in E0. destruct (IH s from d f Hfrom Hr) as [s' H]; [lia|].
      exists s'. cbn [map]. rewrite sumZ_cons, E0. destruct H as (H1 & H2 & H3 & H4 & H5 & H6).
      repeat split; auto; try (rewrite H2; lia).
    + destruct (send_succeeds s from (User u) d (f u) Hu) as [s1 Hs1]; [lia|].
      rewrite Hs1. cbn [bind].
      destruct (send_ok _ _ _ _ _ _ Hs1) as (_ & _ & Hbal & b1 & xs1 & Es1).
      assert (Hf1 : st_bal s1 from d = st_bal s from d - f u).
      { rewrite Hbal. rewrite addr_eqb_refl, N.eqb_refl. cbn [andb ind].
        assert (addr_eqb from (User u) = false) by (apply addr_eqb_neq; apply Hfrom). rewrite H. cbn. lia. }
      destruct (IH s1 from d f Hfrom Hr) as [s' H]; [rewrite Hf1; lia|].
      destruct H as (H1 & H2 & H3 & H4 & H5 & b2 & xs2 & H6).
      exists s'. cbn [map]. rewrite sumZ_cons. repeat split.
      * exact H1.
      * rewrite H2, Hf1. lia.
      * intros x d' Hx. specialize (H3 x d' Hx). rewrite Hbal in H3.
        assert (addr_eqb x from = false) by (now apply addr_eqb_neq). rewrite H in H3. cbn [andb ind] in H3.
        unfold ind in H3. destruct (addr_eqb x (User u) && N.eqb d' d); lia.
      * intros x d' Hx1 Hx2. rewrite H4 by assumption. rewrite Hbal.
        assert (E1 : addr_eqb x from = false) by (now apply addr_eqb_neq).
        assert (E2 : addr_eqb x (User u) = false) by (apply addr_eqb_neq; apply Hx1).
        rewrite E1, E2. cbn. lia.
      * intros d' Hd. rewrite H5 by assumption. rewrite Hbal.
        assert (E : N.eqb d' d = false) by (now apply N.eqb_neq). rewrite E, !andb_false_r. cbn. lia.
      * subst s1. exists b2, xs2. rewrite H6. destruct s; reflexivity.
Qed.
