(* Arithmetic layer of the fundraising model: facts about Dec.v (18-decimal fixed point over
   unbounded Z), the vesting split of Step.v against Spec.spec_split, and the extended-round rule.
   No axioms; P is treated abstractly (only 0 < P, and P even for the banker's rounding facts). *)
From Coq Require Import ZArith NArith List Bool Lia.
From FR Require Import Dec Types Bank Match Step Genesis Spec.
Import ListNotations.
Open Scope Z_scope.

(* ------------------------------------------------------------------ P *)
Lemma P_pos : 0 < P.
Proof. reflexivity. Qed.

Lemma P_even : P = 2 * (P / 2).
Proof. vm_compute. reflexivity. Qed.

Local Opaque P.

Lemma P_half_pos : 0 < P / 2.
Proof. pose proof P_pos as HP. pose proof P_even as HE. lia. Qed.

(* ------------------------------------------------------------------ truncation and ceiling *)
Lemma truncate_int_eq : forall d, 0 <= d -> truncate_int d = d / P.
Proof.
  intros d Hd. unfold truncate_int. pose proof P_pos as HP.
  apply Z.quot_div_nonneg; lia.
Qed.

Lemma quot_nonneg_eq : forall a b, 0 <= a -> 0 < b -> Z.quot a b = a / b.
Proof. intros a b Ha Hb. apply Z.quot_div_nonneg; lia. Qed.

Lemma rem_nonneg_eq : forall a b, 0 <= a -> 0 < b -> Z.rem a b = a mod b.
Proof. intros a b Ha Hb. apply Z.rem_mod_nonneg; lia. Qed.

Lemma div_nonneg : forall a b, 0 <= a -> 0 < b -> 0 <= a / b.
Proof. intros a b Ha Hb. apply Z.div_pos; lia. Qed.

(* floor characterisation: q = a / b  iff  q*b <= a < (q+1)*b *)
Lemma div_bounds : forall a b, 0 < b -> (a / b) * b <= a < (a / b + 1) * b.
Proof.
  intros a b Hb.
  pose proof (Z.div_mod a b ltac:(lia)) as HDM.
  pose proof (Z.mod_pos_bound a b Hb) as HM. nia.
Qed.

Lemma div_unique_bounds : forall a b q, 0 < b -> q * b <= a < (q + 1) * b -> a / b = q.
Proof.
  intros a b q Hb Hq. symmetry.
  apply (Z.div_unique a b q (a - q * b)); [left; lia | ring].
Qed.

Lemma ceil_int_eq : forall d, 0 <= d -> ceil_int d = (d + P - 1) / P.
Proof.
  intros d Hd. pose proof P_pos as HP. unfold ceil_int.
  rewrite (rem_nonneg_eq d P Hd HP), (quot_nonneg_eq d P Hd HP).
  pose proof (Z.div_mod d P ltac:(lia)) as HDM.
  pose proof (Z.mod_pos_bound d P HP) as HM.
  destruct (Z.eqb_spec (d mod P) 0) as [E0|E0].
  - symmetry. apply div_unique_bounds; [exact HP | nia].
  - destruct (Z.ltb_spec (d mod P) 0) as [Eneg|Epos]; [lia|].
    symmetry. apply div_unique_bounds; [exact HP | nia].
Qed.

Lemma ceil_int_bounds : forall d, 0 <= d -> d <= ceil_int d * P < d + P.
Proof.
  intros d Hd. pose proof P_pos as HP. rewrite (ceil_int_eq d Hd).
  pose proof (div_bounds (d + P - 1) P HP) as HB. lia.
Qed.

Lemma ceil_int_mono : forall d d', 0 <= d <= d' -> ceil_int d <= ceil_int d'.
Proof.
  intros d d' Hd. pose proof P_pos as HP.
  rewrite (ceil_int_eq d), (ceil_int_eq d') by lia.
  apply Z.div_le_mono; lia.
Qed.

Lemma ceil_int_exact : forall n, 0 <= n -> ceil_int (n * P) = n.
Proof.
  intros n Hn. pose proof P_pos as HP.
  rewrite ceil_int_eq by nia. apply div_unique_bounds; [exact HP | nia].
Qed.

(* ------------------------------------------------------------------ qty_of_worth *)
Lemma qty_of_worth_eq : forall w p, 0 <= w -> 0 < p -> qty_of_worth w p = w * P / p.
Proof.
  intros w p Hw Hp. pose proof P_pos as HP.
  unfold qty_of_worth, dec_of_int.
  assert (HPP : 0 < P * P) by nia.
  assert (H0 : 0 <= w * P * (P * P)) by nia.
  rewrite (quot_nonneg_eq (w * P * (P * P)) p H0 Hp).
  assert (H1 : 0 <= w * P * (P * P) / p) by (apply div_nonneg; assumption).
  rewrite (quot_nonneg_eq _ P H1 HP).
  assert (H2 : 0 <= w * P * (P * P) / p / P) by (apply div_nonneg; assumption).
  rewrite (truncate_int_eq _ H2).
  rewrite !Z.div_div by lia.
  replace (p * P * P) with (p * (P * P)) by ring.
  apply Z.div_mul_cancel_r; lia.
Qed.

Lemma qty_of_worth_bounds : forall w p, 0 <= w -> 0 < p ->
  qty_of_worth w p * p <= w * P < (qty_of_worth w p + 1) * p.
Proof.
  intros w p Hw Hp. rewrite (qty_of_worth_eq w p Hw Hp). apply div_bounds; exact Hp.
Qed.

Lemma qty_of_worth_nonneg : forall w p, 0 <= w -> 0 < p -> 0 <= qty_of_worth w p.
Proof.
  intros w p Hw Hp. rewrite (qty_of_worth_eq w p Hw Hp). pose proof P_pos as HP.
  apply div_nonneg; nia.
Qed.

Lemma qty_of_worth_antitone : forall w p p', 0 <= w -> 0 < p -> p <= p' ->
  qty_of_worth w p' <= qty_of_worth w p.
Proof.
  intros w p p' Hw Hp Hpp. pose proof P_pos as HP.
  rewrite (qty_of_worth_eq w p Hw Hp), (qty_of_worth_eq w p' Hw ltac:(lia)).
  apply Z.div_le_compat_l; nia.
Qed.

Lemma qty_of_worth_mono_w : forall w w' p, 0 <= w <= w' -> 0 < p ->
  qty_of_worth w p <= qty_of_worth w' p.
Proof.
  intros w w' p Hw Hp. pose proof P_pos as HP.
  rewrite (qty_of_worth_eq w p), (qty_of_worth_eq w' p) by lia.
  apply Z.div_le_mono; nia.
Qed.

Lemma qty_of_worth_0 : forall p, 0 < p -> qty_of_worth 0 p = 0.
Proof.
  intros p Hp. rewrite qty_of_worth_eq by lia. apply Z.div_0_l. lia.
Qed.

(* ------------------------------------------------------------------ pay_of_qty *)
Lemma pay_of_qty_eq : forall m p, 0 <= m -> 0 <= p -> pay_of_qty m p = (m * p + P - 1) / P.
Proof.
  intros m p Hm Hp. unfold pay_of_qty. apply ceil_int_eq. nia.
Qed.

Lemma pay_of_qty_bounds : forall m p, 0 <= m -> 0 <= p ->
  m * p <= pay_of_qty m p * P < m * p + P.
Proof.
  intros m p Hm Hp. unfold pay_of_qty. apply ceil_int_bounds. nia.
Qed.

(* the ceiling is the least integer r with m*p <= r*P *)
Lemma pay_of_qty_least : forall m p r, 0 <= m -> 0 <= p -> m * p <= r * P -> pay_of_qty m p <= r.
Proof.
  intros m p r Hm Hp Hr. pose proof P_pos as HP.
  pose proof (pay_of_qty_bounds m p Hm Hp) as HB. nia.
Qed.

Lemma pay_of_qty_mono : forall m m' p p', 0 <= m <= m' -> 0 <= p <= p' ->
  pay_of_qty m p <= pay_of_qty m' p'.
Proof.
  intros m m' p p' Hm Hp. unfold pay_of_qty. apply ceil_int_mono. nia.
Qed.

Lemma pay_of_qty_nonneg : forall m p, 0 <= m -> 0 <= p -> 0 <= pay_of_qty m p.
Proof.
  intros m p Hm Hp. pose proof P_pos as HP.
  pose proof (pay_of_qty_bounds m p Hm Hp) as HB. nia.
Qed.

Lemma pay_of_qty_0 : forall p, pay_of_qty 0 p = 0.
Proof.
  intros p. unfold pay_of_qty. rewrite Z.mul_0_l. pose proof P_pos as HP.
  rewrite ceil_int_eq by lia. apply div_unique_bounds; lia.
Qed.

Lemma pay_of_qty_0_r : forall m, pay_of_qty m 0 = 0.
Proof.
  intros m. unfold pay_of_qty. rewrite Z.mul_0_r. pose proof P_pos as HP.
  rewrite ceil_int_eq by lia. apply div_unique_bounds; lia.
Qed.

Lemma pay_of_qty_pos : forall m p, 0 < m -> 0 < p -> 0 < pay_of_qty m p.
Proof.
  intros m p Hm Hp. pose proof P_pos as HP.
  pose proof (pay_of_qty_bounds m p ltac:(lia) ltac:(lia)) as HB. nia.
Qed.

(* paying for m1 and m2 separately costs at most one unit more than paying for m1+m2 at once,
   and never less *)
Lemma pay_of_qty_add : forall m1 m2 p, 0 <= m1 -> 0 <= m2 -> 0 <= p ->
  pay_of_qty (m1 + m2) p <= pay_of_qty m1 p + pay_of_qty m2 p <= pay_of_qty (m1 + m2) p + 1.
Proof.
  intros m1 m2 p H1 H2 Hp. pose proof P_pos as HP.
  pose proof (pay_of_qty_bounds m1 p H1 Hp) as B1.
  pose proof (pay_of_qty_bounds m2 p H2 Hp) as B2.
  pose proof (pay_of_qty_bounds (m1 + m2) p ltac:(lia) Hp) as B3.
  nia.
Qed.

(* ------------------------------------------------------------------ worth bids never overpay *)
Lemma worth_never_overpays : forall w p, 0 <= w -> 0 < p -> pay_of_qty (qty_of_worth w p) p <= w.
Proof.
  intros w p Hw Hp.
  pose proof (qty_of_worth_bounds w p Hw Hp) as HB.
  apply pay_of_qty_least; [apply qty_of_worth_nonneg; assumption | lia | lia].
Qed.

(* any amount up to the converted quantity is also affordable (partial fills, caps) *)
Lemma worth_never_overpays_le : forall w p m, 0 <= w -> 0 < p -> 0 <= m <= qty_of_worth w p ->
  pay_of_qty m p <= w.
Proof.
  intros w p m Hw Hp Hm.
  apply Z.le_trans with (pay_of_qty (qty_of_worth w p) p).
  - apply pay_of_qty_mono; lia.
  - apply worth_never_overpays; assumption.
Qed.

(* ------------------------------------------------------------------ share *)
Lemma share_eq : forall t w, 0 <= t -> 0 <= w -> share t w = t * w / P.
Proof.
  intros t w Ht Hw. pose proof P_pos as HP. unfold share, dec_of_int.
  assert (H0 : 0 <= t * P * w) by nia.
  rewrite (quot_nonneg_eq _ P H0 HP).
  assert (H1 : 0 <= t * P * w / P) by (apply div_nonneg; assumption).
  rewrite (truncate_int_eq _ H1).
  replace (t * P * w) with (t * w * P) by ring.
  rewrite Z.div_mul by lia. reflexivity.
Qed.

Lemma share_nonneg : forall t w, 0 <= t -> 0 <= w -> 0 <= share t w.
Proof.
  intros t w Ht Hw. rewrite (share_eq t w Ht Hw). pose proof P_pos as HP.
  apply div_nonneg; nia.
Qed.

Lemma share_bounds : forall t w, 0 <= t -> 0 <= w -> share t w * P <= t * w < (share t w + 1) * P.
Proof.
  intros t w Ht Hw. rewrite (share_eq t w Ht Hw). apply div_bounds. exact P_pos.
Qed.

Lemma share_le : forall t w, 0 <= t -> 0 <= w <= P -> share t w <= t.
Proof.
  intros t w Ht Hw. pose proof P_pos as HP.
  pose proof (share_bounds t w Ht ltac:(lia)) as HB. nia.
Qed.

Lemma share_full : forall t, 0 <= t -> share t P = t.
Proof.
  intros t Ht. rewrite share_eq by (pose proof P_pos; lia).
  apply Z.div_mul. pose proof P_pos. lia.
Qed.

(* ================================================================== vesting split (C09) *)
Lemma sumZ_nil : sumZ [] = 0.
Proof. reflexivity. Qed.
Lemma sumZ_cons : forall x l, sumZ (x :: l) = x + sumZ l.
Proof. reflexivity. Qed.
Lemma sumZ_app : forall l1 l2, sumZ (l1 ++ l2) = sumZ l1 + sumZ l2.
Proof.
  induction l1 as [|x l1 IH]; intros l2.
  - reflexivity.
  - rewrite <- app_comm_cons, !sumZ_cons, IH. ring.
Qed.

(* the record split builds for one schedule entry *)
Definition vq_of (a : auction) (v : sched) (amt : Z) : vq :=
  {| v_auction := a_id a; v_time := s_time v; v_auctioneer := a_auctioneer a;
     v_denom := a_pay_denom a; v_amt := amt; v_released := false |}.

Lemma split_nil : forall a total rem, split a total rem [] = [].
Proof. reflexivity. Qed.
Lemma split_single : forall a total rem v, split a total rem [v] = [vq_of a v rem].
Proof. reflexivity. Qed.
Lemma split_cons2 : forall a total rem v v' rest,
  split a total rem (v :: v' :: rest)
  = vq_of a v (share total (s_weight v)) :: split a total (rem - share total (s_weight v)) (v' :: rest).
Proof. reflexivity. Qed.

Lemma spec_split_single : forall total w sofar, spec_split total [w] sofar = [total - sofar].
Proof. reflexivity. Qed.
Lemma spec_split_cons2 : forall total w w' r sofar,
  spec_split total (w :: w' :: r) sofar
  = total * w / P :: spec_split total (w' :: r) (sofar + total * w / P).
Proof. reflexivity. Qed.

Lemma split_length : forall a total vs rem, length (split a total rem vs) = length vs.
Proof.
  intros a total vs. induction vs as [|v rest IH]; intros rem.
  - reflexivity.
  - destruct rest as [|v' rest'].
    + reflexivity.
    + rewrite split_cons2. cbn [length]. rewrite IH. reflexivity.
Qed.

Lemma split_times_gen : forall a total vs rem, map v_time (split a total rem vs) = map s_time vs.
Proof.
  intros a total vs. induction vs as [|v rest IH]; intros rem.
  - reflexivity.
  - destruct rest as [|v' rest'].
    + reflexivity.
    + rewrite split_cons2. cbn [map]. rewrite IH. reflexivity.
Qed.

Definition vq_fields_ok (a : auction) (x : vq) : Prop :=
  v_released x = false /\ v_auction x = a_id a /\ v_auctioneer x = a_auctioneer a
  /\ v_denom x = a_pay_denom a.

Lemma split_fields_gen : forall a total vs rem, Forall (vq_fields_ok a) (split a total rem vs).
Proof.
  intros a total vs. induction vs as [|v rest IH]; intros rem.
  - constructor.
  - destruct rest as [|v' rest'].
    + rewrite split_single. constructor; [|constructor]. repeat split.
    + rewrite split_cons2. constructor; [|apply IH]. repeat split.
Qed.

(* whatever the weights, the instalments add up to `remaining`: the last one takes the rest *)
Lemma split_sum_gen : forall a total vs rem, vs <> [] ->
  sumZ (map v_amt (split a total rem vs)) = rem.
Proof.
  intros a total vs. induction vs as [|v rest IH]; intros rem Hne.
  - congruence.
  - destruct rest as [|v' rest'].
    + rewrite split_single. cbn [map vq_of v_amt]. rewrite sumZ_cons, sumZ_nil. ring.
    + rewrite split_cons2. cbn [map]. rewrite sumZ_cons.
      rewrite IH by discriminate. cbn [vq_of v_amt]. ring.
Qed.

Lemma split_amounts_gen : forall a total vs rem sofar,
  0 <= total -> Forall (fun v => 0 <= s_weight v) vs -> rem = total - sofar ->
  map v_amt (split a total rem vs) = spec_split total (map s_weight vs) sofar.
Proof.
  intros a total vs. induction vs as [|v rest IH]; intros rem sofar Ht Hw Hrem.
  - reflexivity.
  - destruct rest as [|v' rest'].
    + rewrite split_single. cbn [map vq_of v_amt]. rewrite spec_split_single. congruence.
    + rewrite split_cons2. cbn [map]. cbn [map] in IH.
      rewrite spec_split_cons2.
      inversion Hw as [|v0 l0 Hwv Hwrest]; subst v0 l0.
      cbn [vq_of v_amt]. rewrite (share_eq total (s_weight v) Ht Hwv).
      f_equal. apply IH; [exact Ht | exact Hwrest | lia].
Qed.

(* floors of the shares never add up to more than the exact proportion *)
Lemma split_nonneg_gen : forall a total vs rem,
  0 <= total -> Forall (fun v => 0 <= s_weight v) vs ->
  total * sumZ (map s_weight vs) <= rem * P ->
  Forall (fun x => 0 <= v_amt x) (split a total rem vs).
Proof.
  intros a total vs. induction vs as [|v rest IH]; intros rem Ht Hw Hle.
  - constructor.
  - inversion Hw as [|v0 l0 Hwv Hwrest]; subst v0 l0.
    pose proof P_pos as HP.
    destruct rest as [|v' rest'].
    + rewrite split_single. constructor; [|constructor].
      cbn [vq_of v_amt]. cbn [map] in Hle. rewrite sumZ_cons, sumZ_nil in Hle. nia.
    + rewrite split_cons2. constructor.
      * cbn [vq_of v_amt]. apply share_nonneg; assumption.
      * apply IH; [exact Ht | exact Hwrest |].
        pose proof (share_bounds total (s_weight v) Ht Hwv) as HB.
        change (map s_weight (v :: v' :: rest')) with (s_weight v :: map s_weight (v' :: rest')) in Hle.
        rewrite sumZ_cons in Hle. lia.
Qed.

(* every instalment but the last is the floor of its exact proportion *)
Lemma split_nonfinal_gen : forall a total vs rem i dv d,
  0 <= total -> Forall (fun v => 0 <= s_weight v) vs -> (S i < length vs)%nat ->
  v_amt (nth i (split a total rem vs) dv) = total * s_weight (nth i vs d) / P.
Proof.
  intros a total vs. induction vs as [|v rest IH]; intros rem i dv d Ht Hw Hi.
  - cbn [length] in Hi. lia.
  - inversion Hw as [|v0 l0 Hwv Hwrest]; subst v0 l0.
    destruct rest as [|v' rest'].
    + cbn [length] in Hi. lia.
    + rewrite split_cons2. destruct i as [|i'].
      * cbn [nth vq_of v_amt]. apply share_eq; assumption.
      * cbn [nth]. apply IH; [exact Ht | exact Hwrest |]. cbn [length] in Hi |- *. lia.
Qed.

Lemma sumZ_removelast_last : forall (l : list Z) d, l <> [] ->
  sumZ l = sumZ (removelast l) + last l d.
Proof.
  intros l d Hne. rewrite (app_removelast_last d Hne) at 1.
  rewrite sumZ_app, sumZ_cons, sumZ_nil. ring.
Qed.

(* the last instalment is `remaining` minus all the others *)
Lemma split_last_gen : forall a total vs rem d, vs <> [] ->
  last (map v_amt (split a total rem vs)) d
  = rem - sumZ (removelast (map v_amt (split a total rem vs))).
Proof.
  intros a total vs rem d Hne.
  assert (Hne' : map v_amt (split a total rem vs) <> []).
  { intro E. apply (f_equal (@length Z)) in E. rewrite map_length, split_length in E.
    destruct vs; [congruence | discriminate]. }
  pose proof (sumZ_removelast_last _ d Hne') as HS.
  rewrite (split_sum_gen a total vs rem Hne) in HS. lia.
Qed.

(* ---------- validity of schedules as the model expresses it *)
Lemma scheds_ok_weights_gen : forall vs e prev acc, scheds_ok vs e prev acc = true ->
  Forall (fun v => 0 < s_weight v) vs /\ acc + sumZ (map s_weight vs) = P.
Proof.
  induction vs as [|v rest IH]; intros e prev acc H.
  - cbn [scheds_ok] in H. apply Z.eqb_eq in H. split; [constructor|].
    cbn [map]. rewrite sumZ_nil. lia.
  - cbn [scheds_ok] in H.
    apply andb_prop in H. destruct H as [H Hrest].
    apply andb_prop in H. destruct H as [H HleP].
    apply andb_prop in H. destruct H as [H Hprev].
    apply andb_prop in H. destruct H as [Hpos Hend].
    apply Z.ltb_lt in Hpos.
    destruct (IH _ _ _ Hrest) as [HF HS].
    split; [constructor; assumption|].
    cbn [map]. rewrite sumZ_cons. lia.
Qed.

Lemma scheds_ok_weights : forall vs e prev, scheds_ok vs e prev 0 = true ->
  Forall (fun v => 0 < s_weight v) vs /\ sumZ (map s_weight vs) = P.
Proof.
  intros vs e prev H. destruct (scheds_ok_weights_gen vs e prev 0 H) as [HF HS].
  split; [exact HF | lia].
Qed.

(* release times lie after the end time and after `prev`, and increase strictly *)
Lemma scheds_ok_times_gen : forall vs e prev acc, scheds_ok vs e prev acc = true ->
  Forall (fun v => e < s_time v /\ prev < s_time v) vs.
Proof.
  induction vs as [|v rest IH]; intros e prev acc H.
  - constructor.
  - cbn [scheds_ok] in H.
    apply andb_prop in H. destruct H as [H Hrest].
    apply andb_prop in H. destruct H as [H HleP].
    apply andb_prop in H. destruct H as [H Hprev].
    apply andb_prop in H. destruct H as [Hpos Hend].
    apply Z.ltb_lt in Hprev. apply Z.ltb_lt in Hend.
    constructor; [lia|].
    pose proof (IH _ _ _ Hrest) as HF.
    apply Forall_impl with (2 := HF). intros x [Hx1 Hx2]. lia.
Qed.

Lemma scheds_ok_nonempty : forall vs e prev, scheds_ok vs e prev 0 = true -> vs <> [].
Proof.
  intros vs e prev H E. subst vs. cbn [scheds_ok] in H. apply Z.eqb_eq in H.
  pose proof P_pos. lia.
Qed.

(* what ValidateBasic accepts is valid in the sense of Genesis.scheds_ok, weights unchanged *)
Lemma check_scheds_ok : forall ms e prev acc vs, check_scheds ms e prev acc = Some vs ->
  scheds_ok vs e prev acc = true.
Proof.
  induction ms as [|m rest IH]; intros e prev acc vs H.
  - cbn [check_scheds] in H. destruct (acc =? P) eqn:E; [|discriminate].
    inversion H; subst vs. cbn [scheds_ok]. exact E.
  - cbn [check_scheds] in H.
    destruct (ms_weight m) as [w|] eqn:Ew; [|discriminate].
    destruct ((0 <? w) && (e <? ms_time m) && (prev <? ms_time m) && (w <=? P)) eqn:Ec; [|discriminate].
    destruct (check_scheds rest e (ms_time m) (acc + w)) as [l|] eqn:Er; [|discriminate].
    inversion H; subst vs. cbn [scheds_ok s_time s_weight].
    rewrite Ec. cbn [andb]. apply IH. exact Er.
Qed.

(* ---------- the statements for `split a total total vs` *)
Lemma split_sum : forall a total vs, vs <> [] ->
  sumZ (map v_amt (split a total total vs)) = total.
Proof. intros a total vs Hne. apply split_sum_gen. exact Hne. Qed.

Lemma Forall_pos_nonneg : forall vs, Forall (fun v => 0 < s_weight v) vs ->
  Forall (fun v => 0 <= s_weight v) vs.
Proof. intros vs H. apply Forall_impl with (2 := H). intros x Hx. lia. Qed.

Lemma split_amounts : forall a total vs, 0 <= total -> Forall (fun v => 0 < s_weight v) vs ->
  map v_amt (split a total total vs) = spec_split total (map s_weight vs) 0.
Proof.
  intros a total vs Ht Hw. apply split_amounts_gen; [exact Ht | apply Forall_pos_nonneg; exact Hw | lia].
Qed.

Lemma split_nonneg : forall a total vs, 0 <= total -> Forall (fun v => 0 < s_weight v) vs ->
  sumZ (map s_weight vs) = P ->
  Forall (fun x => 0 <= v_amt x) (split a total total vs).
Proof.
  intros a total vs Ht Hw HS. apply split_nonneg_gen; [exact Ht | apply Forall_pos_nonneg; exact Hw |].
  rewrite HS. lia.
Qed.

Lemma split_times : forall a total vs, map v_time (split a total total vs) = map s_time vs.
Proof. intros a total vs. apply split_times_gen. Qed.

Lemma split_fields : forall a total vs,
  Forall (fun x => v_released x = false /\ v_auction x = a_id a /\ v_auctioneer x = a_auctioneer a
                   /\ v_denom x = a_pay_denom a) (split a total total vs).
Proof. intros a total vs. apply (split_fields_gen a total vs total). Qed.

Lemma split_nonfinal : forall a total vs i dv d,
  0 <= total -> Forall (fun v => 0 < s_weight v) vs -> (S i < length vs)%nat ->
  v_amt (nth i (split a total total vs) dv) = total * s_weight (nth i vs d) / P.
Proof.
  intros a total vs i dv d Ht Hw Hi.
  apply split_nonfinal_gen; [exact Ht | apply Forall_pos_nonneg; exact Hw | exact Hi].
Qed.

Lemma split_last : forall a total vs d, vs <> [] ->
  last (map v_amt (split a total total vs)) d
  = total - sumZ (removelast (map v_amt (split a total total vs))).
Proof. intros a total vs d Hne. apply split_last_gen. exact Hne. Qed.

(* the last instalment is at least its exact proportion: rounding dust goes to the last one *)
Lemma split_last_ge : forall a total vs d dv,
  0 <= total -> Forall (fun v => 0 < s_weight v) vs -> sumZ (map s_weight vs) = P -> vs <> [] ->
  total * s_weight (last vs d) <= last (map v_amt (split a total total vs)) dv * P.
Proof.
  intros a total vs d dv Ht Hw HS Hne.
  assert (G : forall vs rem, 0 <= total -> Forall (fun v => 0 <= s_weight v) vs -> vs <> [] ->
              total * sumZ (map s_weight vs) <= rem * P ->
              total * s_weight (last vs d) <= last (map v_amt (split a total rem vs)) dv * P).
  { clear. intros vs. induction vs as [|v rest IH]; intros rem Ht Hw Hne Hle.
    - congruence.
    - inversion Hw as [|v0 l0 Hwv Hwrest]; subst v0 l0.
      destruct rest as [|v' rest'].
      + rewrite split_single. cbn [map last vq_of v_amt].
        cbn [map] in Hle. rewrite sumZ_cons, sumZ_nil in Hle. lia.
      + rewrite split_cons2.
        change (last (v :: v' :: rest') d) with (last (v' :: rest') d).
        change (map v_amt (vq_of a v (share total (s_weight v))
                           :: split a total (rem - share total (s_weight v)) (v' :: rest')))
          with (v_amt (vq_of a v (share total (s_weight v)))
                :: map v_amt (split a total (rem - share total (s_weight v)) (v' :: rest'))).
        assert (Hne2 : map v_amt (split a total (rem - share total (s_weight v)) (v' :: rest')) <> []).
        { intro E. apply (f_equal (@length Z)) in E. rewrite map_length, split_length in E. discriminate. }
        destruct (map v_amt (split a total (rem - share total (s_weight v)) (v' :: rest'))) as [|y ys] eqn:Ey;
          [congruence|].
        change (last (v_amt (vq_of a v (share total (s_weight v))) :: y :: ys) dv) with (last (y :: ys) dv).
        rewrite <- Ey. apply IH; [exact Ht | exact Hwrest | discriminate |].
        pose proof (share_bounds total (s_weight v) Ht Hwv) as HB.
        change (map s_weight (v :: v' :: rest')) with (s_weight v :: map s_weight (v' :: rest')) in Hle.
        rewrite sumZ_cons in Hle. lia. }
  apply G; [exact Ht | apply Forall_pos_nonneg; exact Hw | exact Hne | rewrite HS; lia].
Qed.

(* all of the above for a schedule list that passed validation *)
Lemma split_of_valid : forall a total vs e prev,
  scheds_ok vs e prev 0 = true -> 0 <= total ->
  sumZ (map v_amt (split a total total vs)) = total
  /\ map v_amt (split a total total vs) = spec_split total (map s_weight vs) 0
  /\ Forall (fun x => 0 <= v_amt x) (split a total total vs)
  /\ map v_time (split a total total vs) = map s_time vs.
Proof.
  intros a total vs e prev Hok Ht.
  destruct (scheds_ok_weights vs e prev Hok) as [HF HS].
  pose proof (scheds_ok_nonempty vs e prev Hok) as Hne.
  split; [apply split_sum; exact Hne|].
  split; [apply split_amounts; assumption|].
  split; [apply split_nonneg; assumption|].
  apply split_times.
Qed.

(* ---------- apply_vesting appends exactly the split of the paying reserve *)
Lemma send_vqs : forall s from to d amt s', send s from to d amt = Ok s' -> st_vqs s' = st_vqs s.
Proof.
  intros s from to d amt s' H. unfold send in H.
  destruct (amt =? 0) eqn:E0.
  - inversion H; subst s'. reflexivity.
  - destruct (amt <? 0) eqn:E1; [discriminate|].
    destruct (st_bal s from d <? amt) eqn:E2; [discriminate|].
    inversion H; subst s'. reflexivity.
Qed.

Lemma apply_vesting_vqs : forall s a s', apply_vesting s a = Ok s' ->
  st_vqs s' = st_vqs s ++ split a (st_bal s (Escrow Paying (a_id a)) (a_pay_denom a))
                                  (st_bal s (Escrow Paying (a_id a)) (a_pay_denom a)) (a_scheds a).
Proof.
  intros s a s' H. unfold apply_vesting in H.
  destruct (a_scheds a) as [|v rest] eqn:Evs.
  - destruct (send s (Escrow Paying (a_id a)) (User (a_auctioneer a)) (a_pay_denom a)
                   (st_bal s (Escrow Paying (a_id a)) (a_pay_denom a))) as [s1|c t] eqn:Es;
      cbn [bind] in H; [|discriminate].
    inversion H; subst s'. rewrite split_nil, app_nil_r.
    unfold put_auction, with_auctions. cbn [st_vqs]. eapply send_vqs. exact Es.
  - destruct (send s (Escrow Paying (a_id a)) (Escrow Vesting (a_id a)) (a_pay_denom a)
                   (st_bal s (Escrow Paying (a_id a)) (a_pay_denom a))) as [s1|c t] eqn:Es;
      cbn [bind] in H; [|discriminate].
    inversion H; subst s'.
    unfold put_auction, with_auctions, with_vqs. cbn [st_vqs].
    rewrite (send_vqs _ _ _ _ _ _ Es). reflexivity.
Qed.

(* ================================================================== extended-round rule (C13) *)
Lemma P_ge_2 : 2 <= P.
Proof. pose proof P_half_pos. pose proof P_even. lia. Qed.

(* banker's rounding of x/P is within half a unit of x/P *)
Lemma chop_round_half : forall x, 0 <= x -> 2 * x - P <= 2 * (chop_round x * P) <= 2 * x + P.
Proof.
  intros x Hx. pose proof P_pos as HP. pose proof P_even as HE.
  unfold chop_round. cbv zeta.
  rewrite (rem_nonneg_eq x P Hx HP), (quot_nonneg_eq x P Hx HP).
  pose proof (Z.div_mod x P ltac:(lia)) as HDM.
  pose proof (Z.mod_pos_bound x P HP) as HM.
  destruct (Z.eqb_spec (x mod P) 0) as [E0|E0]; [nia|].
  destruct (Z.ltb_spec (x mod P) (P / 2)) as [E1|E1]; [nia|].
  destruct (Z.ltb_spec (P / 2) (x mod P)) as [E2|E2]; [nia|].
  destruct (Z.even (x / P)); nia.
Qed.

Lemma chop_round_floor : forall x, 0 <= x -> x / P <= chop_round x <= x / P + 1.
Proof.
  intros x Hx. pose proof P_pos as HP.
  unfold chop_round. cbv zeta.
  rewrite (rem_nonneg_eq x P Hx HP), (quot_nonneg_eq x P Hx HP).
  destruct (x mod P =? 0); [lia|].
  destruct (x mod P <? P / 2); [lia|].
  destruct (P / 2 <? x mod P); [lia|].
  destruct (Z.even (x / P)); lia.
Qed.

Lemma chop_round_exact : forall n, 0 <= n -> chop_round (n * P) = n.
Proof.
  intros n Hn. pose proof P_pos as HP.
  unfold chop_round. cbv zeta.
  rewrite (rem_nonneg_eq (n * P) P ltac:(nia) HP), (quot_nonneg_eq (n * P) P ltac:(nia) HP).
  rewrite Z.mod_mul by lia. rewrite Z.eqb_refl. apply Z.div_mul. lia.
Qed.

(* Quo of two integer-valued decimals: the 36-digit intermediate is floor(cur*P*P/last) *)
Lemma dec_quo_ints : forall cur last, 0 <= cur -> 0 < last ->
  dec_quo (dec_of_int cur) (dec_of_int last) = chop_round (cur * P * P / last).
Proof.
  intros cur last Hc Hl. pose proof P_pos as HP. unfold dec_quo, dec_of_int.
  rewrite quot_nonneg_eq by nia.
  replace (cur * P * (P * P)) with (cur * P * P * P) by ring.
  rewrite Z.div_mul_cancel_r by lia. reflexivity.
Qed.

Lemma dec_quo_nonneg : forall cur last, 0 <= cur -> 0 < last ->
  0 <= dec_quo (dec_of_int cur) (dec_of_int last).
Proof.
  intros cur last Hc Hl. pose proof P_pos as HP. rewrite (dec_quo_ints cur last Hc Hl).
  assert (HX : 0 <= cur * P * P / last) by (apply div_nonneg; nia).
  pose proof (chop_round_floor _ HX) as HF.
  assert (0 <= cur * P * P / last / P) by (apply div_nonneg; lia). lia.
Qed.

(* the tighter bound: q is within (1/2 + 1/P) units of the 18th decimal of the exact cur/last.
   (The 1/P comes from truncating the 36-digit intermediate before the banker's rounding.) *)
Lemma dec_quo_half : forall cur last, 0 <= cur -> 0 < last ->
  let q := dec_quo (dec_of_int cur) (dec_of_int last) in
  2 * (q * last) <= 2 * (cur * P) + last
  /\ (2 * (cur * P) - last) * P - 2 * last < 2 * (q * last) * P.
Proof.
  intros cur last Hc Hl q. pose proof P_pos as HP. subst q.
  rewrite (dec_quo_ints cur last Hc Hl).
  assert (HX : 0 <= cur * P * P / last) by (apply div_nonneg; nia).
  pose proof (chop_round_half _ HX) as HR.
  pose proof (div_bounds (cur * P * P) last Hl) as HB.
  set (X := cur * P * P / last) in *. set (q := chop_round X) in *.
  split.
  - assert (H1 : 2 * (q * last) * P <= (2 * (cur * P) + last) * P) by nia.
    apply Z.mul_le_mono_pos_r with (p := P); assumption.
  - nia.
Qed.

Lemma dec_quo_close : forall cur last, 0 <= cur -> 0 < last ->
  let q := dec_quo (dec_of_int cur) (dec_of_int last) in
  cur * P - last <= q * last <= cur * P + last.
Proof.
  intros cur last Hc Hl q. pose proof P_pos as HP. pose proof P_ge_2 as HP2.
  destruct (dec_quo_half cur last Hc Hl) as [Hup Hlo]. fold q in Hup, Hlo.
  split; [|lia].
  destruct (Z_le_gt_dec (cur * P - last) (q * last)) as [Hok|Hbad]; [exact Hok|].
  exfalso.
  assert (H1 : 2 * (q * last) * P <= (2 * (cur * P) - 2 * last - 2) * P) by nia.
  nia.
Qed.

Lemma dec_quo_exact : forall cur last, 0 <= cur -> 0 < last -> (cur * P) mod last = 0 ->
  dec_quo (dec_of_int cur) (dec_of_int last) = cur * P / last
  /\ (cur * P / last) * last = cur * P.
Proof.
  intros cur last Hc Hl Hm. pose proof P_pos as HP.
  rewrite (dec_quo_ints cur last Hc Hl).
  pose proof (Z.div_mod (cur * P) last ltac:(lia)) as HDM. rewrite Hm in HDM.
  set (k := cur * P / last) in *.
  assert (Hk : 0 <= k) by (apply div_nonneg; nia).
  split; [|lia].
  replace (cur * P * P) with (k * P * last) by nia.
  rewrite Z.div_mul by lia. apply chop_round_exact. exact Hk.
Qed.

Lemma extend_rule_sound : forall cur last rate, 0 <= cur -> 0 < last ->
  rate * last <= (last - cur) * P - last -> extend_rule cur last rate = true.
Proof.
  intros cur last rate Hc Hl H. unfold extend_rule. apply Z.leb_le.
  destruct (dec_quo_close cur last Hc Hl) as [Hlo Hup].
  set (q := dec_quo (dec_of_int cur) (dec_of_int last)) in *. nia.
Qed.

Lemma extend_rule_complete : forall cur last rate, 0 <= cur -> 0 < last ->
  (last - cur) * P + last < rate * last -> extend_rule cur last rate = false.
Proof.
  intros cur last rate Hc Hl H. unfold extend_rule. apply Z.leb_gt.
  destruct (dec_quo_close cur last Hc Hl) as [Hlo Hup].
  set (q := dec_quo (dec_of_int cur) (dec_of_int last)) in *. nia.
Qed.

(* the same two with the tighter rounding bound (scaled by 2 to stay in integers) *)
Lemma extend_rule_sound_half : forall cur last rate, 0 <= cur -> 0 < last ->
  2 * (rate * last) <= 2 * ((last - cur) * P) - last -> extend_rule cur last rate = true.
Proof.
  intros cur last rate Hc Hl H. unfold extend_rule. apply Z.leb_le.
  destruct (dec_quo_half cur last Hc Hl) as [Hup Hlo].
  set (q := dec_quo (dec_of_int cur) (dec_of_int last)) in *. nia.
Qed.

Lemma extend_rule_exact : forall cur last rate, 0 <= cur -> 0 < last ->
  (cur * P) mod last = 0 ->
  extend_rule cur last rate = (rate * last <=? (last - cur) * P).
Proof.
  intros cur last rate Hc Hl Hm. unfold extend_rule.
  destruct (dec_quo_exact cur last Hc Hl Hm) as [Hq Hk]. rewrite Hq.
  set (k := cur * P / last) in *.
  destruct (Z.leb_spec rate (P - k)) as [H1|H1];
    destruct (Z.leb_spec (rate * last) ((last - cur) * P)) as [H2|H2]; try reflexivity; exfalso; nia.
Qed.

(* no bid matched in this round: the rule holds for every admissible rate (rate <= 1) *)
Lemma extend_rule_cur_0 : forall last rate, 0 < last -> rate <= P ->
  extend_rule 0 last rate = true.
Proof.
  intros last rate Hl Hr. rewrite extend_rule_exact by (try lia; rewrite Z.mul_0_l; apply Z.mod_0_l; lia).
  apply Z.leb_le. nia.
Qed.

(* the number of matched bids did not drop: the auction never extends on the rule *)
Lemma extend_rule_no_drop : forall cur last rate, 0 < last -> last <= cur -> 0 < rate ->
  extend_rule cur last rate = false.
Proof.
  intros cur last rate Hl Hcl Hr. pose proof P_pos as HP. unfold extend_rule. apply Z.leb_gt.
  rewrite (dec_quo_ints cur last ltac:(lia) Hl).
  assert (HX : P * P <= cur * P * P / last).
  { apply Z.div_le_lower_bound; [exact Hl | nia]. }
  assert (HX0 : 0 <= cur * P * P / last) by nia.
  pose proof (chop_round_floor _ HX0) as HF.
  assert (HQ : P <= cur * P * P / last / P).
  { apply Z.div_le_lower_bound; [exact HP | lia]. }
  lia.
Qed.

(* the rule is monotone: a smaller rate, or fewer matched bids now, keeps it satisfied *)
Lemma extend_rule_rate_mono : forall cur last rate rate', rate' <= rate ->
  extend_rule cur last rate = true -> extend_rule cur last rate' = true.
Proof.
  intros cur last rate rate' Hr H. unfold extend_rule in *.
  apply Z.leb_le in H. apply Z.leb_le. lia.
Qed.

(* ================================================================== bid conversion (C04, fixed price part) *)
Lemma sell_amount_paying : forall pd b, b_denom b = pd ->
  sell_amount pd b = qty_of_worth (b_amt b) (b_price b).
Proof. intros pd b H. unfold sell_amount. rewrite H, N.eqb_refl. reflexivity. Qed.

Lemma pay_amount_paying : forall pd b, b_denom b = pd -> pay_amount pd b = b_amt b.
Proof. intros pd b H. unfold pay_amount. rewrite H, N.eqb_refl. reflexivity. Qed.

Lemma sell_amount_selling : forall pd b, b_denom b <> pd -> sell_amount pd b = b_amt b.
Proof.
  intros pd b H. unfold sell_amount. destruct (N.eqb_spec (b_denom b) pd) as [E|E]; [contradiction|reflexivity].
Qed.

Lemma pay_amount_selling : forall pd b, b_denom b <> pd ->
  pay_amount pd b = pay_of_qty (b_amt b) (b_price b).
Proof.
  intros pd b H. unfold pay_amount. destruct (N.eqb_spec (b_denom b) pd) as [E|E]; [contradiction|reflexivity].
Qed.

(* a bid of c paying coins at price p buys q = floor(c/p) selling coins and reserves exactly c *)
Lemma fixed_bid_paying : forall pd b, b_denom b = pd -> 0 < b_amt b -> 0 < b_price b ->
  let q := sell_amount pd b in
  q * b_price b <= b_amt b * P < (q + 1) * b_price b
  /\ 0 <= q
  /\ pay_amount pd b = b_amt b.
Proof.
  intros pd b Hd Ha Hp q. subst q. rewrite (sell_amount_paying pd b Hd), (pay_amount_paying pd b Hd).
  split; [apply qty_of_worth_bounds; lia|].
  split; [apply qty_of_worth_nonneg; lia | reflexivity].
Qed.

(* a bid for a selling coins at price p reserves r = ceil(a*p) paying coins and asks for exactly a *)
Lemma fixed_bid_selling : forall pd b, b_denom b <> pd -> 0 < b_amt b -> 0 < b_price b ->
  let r := pay_amount pd b in
  b_amt b * b_price b <= r * P < b_amt b * b_price b + P
  /\ 0 < r
  /\ sell_amount pd b = b_amt b.
Proof.
  intros pd b Hd Ha Hp r. subst r. rewrite (sell_amount_selling pd b Hd), (pay_amount_selling pd b Hd).
  split; [apply pay_of_qty_bounds; lia|].
  split; [apply pay_of_qty_pos; assumption | reflexivity].
Qed.

(* in either denomination, what is reserved covers the price of what is asked for *)
Lemma reserve_covers_cost : forall pd b, 0 < b_amt b -> 0 < b_price b ->
  pay_of_qty (sell_amount pd b) (b_price b) <= pay_amount pd b.
Proof.
  intros pd b Ha Hp. destruct (N.eq_dec (b_denom b) pd) as [E|E].
  - rewrite (sell_amount_paying pd b E), (pay_amount_paying pd b E).
    apply worth_never_overpays; lia.
  - rewrite (sell_amount_selling pd b E), (pay_amount_selling pd b E). lia.
Qed.

Lemma sell_amount_nonneg : forall pd b, 0 < b_amt b -> 0 < b_price b -> 0 <= sell_amount pd b.
Proof.
  intros pd b Ha Hp. destruct (N.eq_dec (b_denom b) pd) as [E|E].
  - rewrite (sell_amount_paying pd b E). apply qty_of_worth_nonneg; lia.
  - rewrite (sell_amount_selling pd b E). lia.
Qed.

Lemma pay_amount_pos : forall pd b, 0 < b_amt b -> 0 < b_price b -> 0 < pay_amount pd b.
Proof.
  intros pd b Ha Hp. destruct (N.eq_dec (b_denom b) pd) as [E|E].
  - rewrite (pay_amount_paying pd b E). lia.
  - rewrite (pay_amount_selling pd b E). apply pay_of_qty_pos; assumption.
Qed.
