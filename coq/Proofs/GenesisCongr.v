(* C15, part 4: "evolves identically".  The relation `state_same` is a congruence for the transition function:
   related states give the same outcome and related successor states, for every operation.
   This file: the primitives and the transactions / API calls.  Blocks: GenesisCongrBlock.v. *)
From Coq Require Import ZArith NArith List Bool Arith Lia Permutation Sorted.
From FR Require Import Dec Types Bank Match Step Genesis Model Spec.
From FR.Proofs Require Import InvDefs GenesisSort GenesisRT GenesisImport GenesisInv.
Import ListNotations.
Open Scope Z_scope.

(* ------------------------------------------------------------------ results *)
Definition res_rel {A} (R : A -> A -> Prop) (r r' : res A) : Prop :=
  match r, r' with
  | Ok a, Ok b => R a b
  | Err c t, Err c' t' => c = c' /\ t = t'
  | _, _ => False
  end.
Definition res_same : res state -> res state -> Prop := res_rel state_same.

Lemma bind_rel {A B} (R : A -> A -> Prop) (Q : B -> B -> Prop) (r r' : res A) (f f' : A -> res B) :
  res_rel R r r' -> (forall a b, R a b -> res_rel Q (f a) (f' b)) -> res_rel Q (bind r f) (bind r' f').
Proof.
  intros Hr Hf. destruct r as [a|c t], r' as [b|c' t']; cbn [res_rel bind] in *; try contradiction.
  - apply Hf. exact Hr.
  - exact Hr.
Qed.

Lemma res_rel_eq {A} (r : res A) : res_rel eq r r.
Proof. destruct r; cbn; auto. Qed.

Lemma fail_rel {A} (R : A -> A -> Prop) s s' c : state_same s s' -> res_rel R (fail s c) (fail s' c).
Proof. intros H. unfold fail. cbn. split; [reflexivity|]. symmetry. apply H. Qed.

Lemma fail_eq {A} s s' c : state_same s s' -> @fail A s' c = fail s c.
Proof. intros H. unfold fail. rewrite (ss_trace _ _ H). reflexivity. Qed.

(* ------------------------------------------------------------------ list facts *)
Lemma filter_map_comm {A} (p : A -> bool) (g : A -> A) (l : list A) :
  (forall x, p (g x) = p x) -> filter p (map g l) = map g (filter p l).
Proof.
  intros Hp. induction l as [|x r IH]; [reflexivity|].
  cbn [map filter]. rewrite Hp. destruct (p x); cbn [map]; rewrite IH; reflexivity.
Qed.

Lemma find_map_comm {A} (p : A -> bool) (g : A -> A) (l : list A) :
  (forall x, p (g x) = p x) -> find p (map g l) = option_map g (find p l).
Proof.
  intros Hp. induction l as [|x r IH]; [reflexivity|].
  cbn [map find]. rewrite Hp. destruct (p x); [reflexivity|exact IH].
Qed.

Lemma find_app {A} (p : A -> bool) (l l' : list A) :
  find p (l ++ l') = match find p l with Some x => Some x | None => find p l' end.
Proof.
  induction l as [|x r IH]; [reflexivity|]. cbn [app find]. destruct (p x); [reflexivity|exact IH].
Qed.

(* ------------------------------------------------------------------ the state updates *)
Section Updates.
  Variables s s' : state.
  Hypothesis H : state_same s s'.

  Lemma same_with_bank b xs : state_same (with_bank s b xs) (with_bank s' b xs).
  Proof. destruct H. constructor; try assumption; reflexivity. Qed.
  Lemma same_with_trace t : state_same (with_trace s t) (with_trace s' t).
  Proof. destruct H. constructor; try assumption; reflexivity. Qed.
  Lemma same_with_now t : state_same (with_now s t) (with_now s' t).
  Proof. destruct H. constructor; try assumption; reflexivity. Qed.
  Lemma same_with_listeners l : state_same (with_listeners s l) (with_listeners s' l).
  Proof. destruct H. constructor; try assumption; reflexivity. Qed.
  Lemma same_with_params p : state_same (with_params s p) (with_params s' p).
  Proof. destruct H. constructor; try assumption; reflexivity. Qed.
  Lemma same_with_aseq n : state_same (with_aseq s n) (with_aseq s' n).
  Proof. destruct H. constructor; try assumption; reflexivity. Qed.
  Lemma same_with_auctions l : state_same (with_auctions s l) (with_auctions s' l).
  Proof. destruct H. constructor; try assumption; reflexivity. Qed.
  Lemma same_with_bseq f f' : (forall id, f' id = f id) -> state_same (with_bseq s f) (with_bseq s' f').
  Proof. intros Hf. destruct H. constructor; try assumption; reflexivity. Qed.
  Lemma same_with_mlen f f' : (forall id, f' id = f id) -> state_same (with_mlen s f) (with_mlen s' f').
  Proof. intros Hf. destruct H. constructor; try assumption; reflexivity. Qed.

  Lemma same_put_auction a : state_same (put_auction s a) (put_auction s' a).
  Proof. unfold put_auction. rewrite (ss_auctions _ _ H). apply same_with_auctions. Qed.

  Lemma same_append_auction a :
    state_same (with_auctions s (st_auctions s ++ [a])) (with_auctions s' (st_auctions s' ++ [a])).
  Proof. rewrite (ss_auctions _ _ H). apply same_with_auctions. Qed.

  Lemma same_bump_bseq id :
    state_same (with_bseq s (upd (st_bseq s) id (st_bseq s id + 1)%N))
               (with_bseq s' (upd (st_bseq s') id (st_bseq s' id + 1)%N)).
  Proof.
    apply same_with_bseq. intros j. unfold upd. rewrite !(ss_bseq _ _ H). reflexivity.
  Qed.

  Lemma same_append_bid b :
    state_same (with_bids s (st_bids s ++ [b])) (with_bids s' (st_bids s' ++ [b])).
  Proof.
    pose proof (ss_bids_of _ _ H) as Hbo. pose proof (ss_bids_perm _ _ H) as Hbp.
    destruct H. constructor; try assumption; try reflexivity.
    - intros id. unfold bids_of in *. cbn [st_bids with_bids]. rewrite !filter_app, Hbo. reflexivity.
    - cbn [st_bids with_bids]. apply Permutation_app_tail. exact Hbp.
  Qed.

  Lemma same_map_bids g : (forall b, b_auction (g b) = b_auction b) ->
    state_same (with_bids s (map g (st_bids s))) (with_bids s' (map g (st_bids s'))).
  Proof.
    intros Hg.
    pose proof (ss_bids_of _ _ H) as Hbo. pose proof (ss_bids_perm _ _ H) as Hbp.
    destruct H. constructor; try assumption; try reflexivity.
    - intros id. unfold bids_of in *. cbn [st_bids with_bids].
      rewrite !filter_map_comm by (intros b; rewrite Hg; reflexivity). rewrite Hbo. reflexivity.
    - cbn [st_bids with_bids]. apply Permutation_map. exact Hbp.
  Qed.

  Lemma same_put_bid b : state_same (put_bid s b) (put_bid s' b).
  Proof.
    unfold put_bid. apply same_map_bids. intros x.
    destruct (N.eqb (b_auction x) (b_auction b) && N.eqb (b_id x) (b_id b)) eqn:E; [|reflexivity].
    apply andb_prop in E. destruct E as [E _]. apply N.eqb_eq in E. symmetry. exact E.
  Qed.

  Lemma same_set_flags id m : state_same (set_flags s id m) (set_flags s' id m).
  Proof.
    unfold set_flags.
    assert (state_same
      (with_bids s (map (fun b => if N.eqb (b_auction b) id then set_b_matched b (existsb (N.eqb (b_id b)) m) else b) (st_bids s)))
      (with_bids s' (map (fun b => if N.eqb (b_auction b) id then set_b_matched b (existsb (N.eqb (b_id b)) m) else b) (st_bids s')))) as H1.
    { apply same_map_bids. intros b. destruct (N.eqb (b_auction b) id); reflexivity. }
    pose proof (ss_mlen _ _ H) as Hml.
    destruct H1. constructor; try assumption; try reflexivity.
    intros j. cbn [st_mlen with_mlen with_bids]. unfold upd. rewrite Hml. reflexivity.
  Qed.

  Lemma same_append_vqs l :
    state_same (with_vqs s (st_vqs s ++ l)) (with_vqs s' (st_vqs s' ++ l)).
  Proof.
    pose proof (ss_vqs_of _ _ H) as Hvo. pose proof (ss_vqs_perm _ _ H) as Hvp.
    destruct H. constructor; try assumption; try reflexivity.
    - intros id. unfold vqs_of in *. cbn [st_vqs with_vqs]. rewrite !filter_app, Hvo. reflexivity.
    - cbn [st_vqs with_vqs]. apply Permutation_app_tail. exact Hvp.
  Qed.

  Lemma same_map_vqs g : (forall v, v_auction (g v) = v_auction v) ->
    state_same (with_vqs s (map g (st_vqs s))) (with_vqs s' (map g (st_vqs s'))).
  Proof.
    intros Hg.
    pose proof (ss_vqs_of _ _ H) as Hvo. pose proof (ss_vqs_perm _ _ H) as Hvp.
    destruct H. constructor; try assumption; try reflexivity.
    - intros id. unfold vqs_of in *. cbn [st_vqs with_vqs].
      rewrite !filter_map_comm by (intros v; rewrite Hg; reflexivity). rewrite Hvo. reflexivity.
    - cbn [st_vqs with_vqs]. apply Permutation_map. exact Hvp.
  Qed.

  (* the allow-list: replace or append an entry *)
  Lemma same_put_allowed a u m : state_same (put_allowed s a u m) (put_allowed s' a u m).
  Proof.
    pose proof (ss_find_allowed _ _ H) as Hfa. pose proof (ss_allowed_perm _ _ H) as Hap.
    pose proof (ss_caps _ _ H) as Hcaps.
    unfold put_allowed. rewrite Hfa.
    set (e := {| al_auction := a; al_bidder := u; al_max := m |}).
    destruct (find_allowed s a u) as [x0|] eqn:Ef.
    - (* replace *)
      set (g := fun x => if N.eqb (al_auction x) a && N.eqb (al_bidder x) u then e else x).
      assert (forall x, al_auction (g x) = al_auction x /\ al_bidder (g x) = al_bidder x) as Hg.
      { intros x. unfold g. destruct (N.eqb (al_auction x) a && N.eqb (al_bidder x) u) eqn:E; [|split; reflexivity].
        apply andb_prop in E. destruct E as [E1 E2]. apply N.eqb_eq in E1. apply N.eqb_eq in E2.
        cbn. split; congruence. }
      destruct H. constructor; try assumption; try reflexivity.
      + intros a' u'. unfold find_allowed in *. cbn [st_allowed with_allowed].
        rewrite !find_map_comm.
        * rewrite Hfa. reflexivity.
        * intros x. destruct (Hg x) as [E1 E2]. rewrite E1, E2. reflexivity.
        * intros x. destruct (Hg x) as [E1 E2]. rewrite E1, E2. reflexivity.
      + cbn [st_allowed with_allowed]. apply Permutation_map. exact Hap.
      + intros id u'. unfold caps_of, allowed_of in *. cbn [st_allowed with_allowed].
        rewrite !filter_map_comm by (intros x; destruct (Hg x) as [E1 _]; rewrite E1; reflexivity).
        rewrite <- !map_rev.
        rewrite !find_map_comm by (intros x; destruct (Hg x) as [_ E2]; rewrite E2; reflexivity).
        specialize (Hcaps id u').
        destruct (find (fun x => N.eqb (al_bidder x) u') (rev (filter (fun x => N.eqb (al_auction x) id) (st_allowed s)))) as [y|] eqn:Ey;
        destruct (find (fun x => N.eqb (al_bidder x) u') (rev (filter (fun x => N.eqb (al_auction x) id) (st_allowed s')))) as [y'|] eqn:Ey';
        cbn [option_map] in *; try discriminate; try reflexivity.
        (* both found: the entries have the same maximum and the same key *)
        injection Hcaps as Hmax.
        apply find_some in Ey. apply find_some in Ey'.
        destruct Ey as [Hyin Hyu]. destruct Ey' as [Hyin' Hyu'].
        apply in_rev in Hyin. apply in_rev in Hyin'. apply filter_In in Hyin. apply filter_In in Hyin'.
        destruct Hyin as [_ Hya]. destruct Hyin' as [_ Hya'].
        apply N.eqb_eq in Hyu. apply N.eqb_eq in Hyu'. apply N.eqb_eq in Hya. apply N.eqb_eq in Hya'.
        unfold g. rewrite Hya, Hya', Hyu, Hyu'.
        destruct (N.eqb id a && N.eqb u' u); [reflexivity|]. f_equal. exact Hmax.
    - (* append *)
      destruct H. constructor; try assumption; try reflexivity.
      + intros a' u'. unfold find_allowed in *. cbn [st_allowed with_allowed].
        rewrite !find_app, Hfa. reflexivity.
      + cbn [st_allowed with_allowed]. apply Permutation_app_tail. exact Hap.
      + intros id u'. unfold caps_of, allowed_of in *. cbn [st_allowed with_allowed].
        rewrite !filter_app, !rev_app_distr. rewrite !find_app.
        cbn [filter al_auction e].
        destruct (N.eqb a id); cbn [rev app find].
        * destruct (N.eqb (al_bidder e) u'); [reflexivity|]. apply Hcaps.
        * apply Hcaps.
  Qed.
End Updates.

(* ------------------------------------------------------------------ bank and hooks *)
Lemma same_send s s' f t d a : state_same s s' -> res_same (send s f t d a) (send s' f t d a).
Proof.
  intros H. unfold send. rewrite (ss_bal _ _ H), (ss_trace _ _ H), (ss_xfers _ _ H).
  destruct (a =? 0); [exact H|].
  destruct (a <? 0); [cbn; auto|].
  destruct (st_bal s f d <? a); [cbn; auto|].
  apply same_with_bank. exact H.
Qed.

Lemma same_send_coins f t cs : forall s s', state_same s s' -> res_same (send_coins s f t cs) (send_coins s' f t cs).
Proof.
  induction cs as [|[d a] rest IH]; intros s s' H.
  - exact H.
  - cbn [send_coins]. apply (bind_rel state_same); [apply same_send; exact H|]. intros s1 s1' H1. apply IH. exact H1.
Qed.

Lemma same_fund_pool s s' u cs : state_same s s' -> res_same (fund_pool s u cs) (fund_pool s' u cs).
Proof. apply same_send_coins. Qed.

Lemma same_call_hook s s' k args : state_same s s' -> res_same (call_hook s k args) (call_hook s' k args).
Proof.
  intros H. unfold call_hook. rewrite (ss_listeners _ _ H), (ss_trace _ _ H).
  destruct (dispatch (st_listeners s) 0%N k args) as [ok cs]. destruct ok.
  - apply same_with_trace. exact H.
  - cbn. auto.
Qed.

Lemma same_pay_out from d f us : forall s s', state_same s s' -> res_same (pay_out s from d us f) (pay_out s' from d us f).
Proof.
  induction us as [|u rest IH]; intros s s' H.
  - exact H.
  - cbn [pay_out]. destruct (f u =? 0); [apply IH; exact H|].
    apply (bind_rel state_same); [apply same_send; exact H|]. intros s1 s1' H1. apply IH. exact H1.
Qed.

Tactic Notation "bind_step" constr(lem) "as" ident(a) ident(b) ident(Hab) :=
  apply (bind_rel state_same); [apply lem; assumption|]; intros a b Hab.

(* ------------------------------------------------------------------ handlers *)
Lemma same_create_fixed s s' u up price sd samt pd vs start end_ : state_same s s' ->
  res_same (create_fixed s u up price sd samt pd vs start end_) (create_fixed s' u up price sd samt pd vs start end_).
Proof.
  intros H. unfold create_fixed. rewrite (ss_now _ _ H), (ss_aseq _ _ H).
  destruct (end_ <? st_now s); [apply fail_rel; exact H|].
  destruct (Nat.ltb MaxNumVestingSchedules (length vs)); [apply fail_rel; exact H|].
  change (st_params (with_aseq s' (st_aseq s + 1)%N)) with (st_params s').
  change (st_params (with_aseq s (st_aseq s + 1)%N)) with (st_params s).
  rewrite (ss_params _ _ H).
  apply (bind_rel state_same); [apply same_fund_pool; apply same_with_aseq; exact H|]. intros s1 s1' H1.
  bind_step same_send as s2 s2' H2. rewrite (ss_now _ _ H2).
  bind_step same_call_hook as s3 s3' H3.
  apply (bind_rel state_same); [apply same_call_hook; apply same_append_auction; assumption|].
  intros s4 s4' H4. exact H4.
Qed.

Lemma same_create_batch s s' u up price minp sd samt pd vs maxr rate start end_ : state_same s s' ->
  res_same (create_batch s u up price minp sd samt pd vs maxr rate start end_)
           (create_batch s' u up price minp sd samt pd vs maxr rate start end_).
Proof.
  intros H. unfold create_batch. rewrite (ss_now _ _ H), (ss_aseq _ _ H).
  destruct (end_ <? st_now s); [apply fail_rel; exact H|].
  destruct (Nat.ltb MaxNumVestingSchedules (length vs)); [apply fail_rel; exact H|].
  destruct (N.ltb MaxExtendedRound maxr); [apply fail_rel; exact H|].
  change (st_params (with_aseq s' (st_aseq s + 1)%N)) with (st_params s').
  change (st_params (with_aseq s (st_aseq s + 1)%N)) with (st_params s).
  rewrite (ss_params _ _ H).
  apply (bind_rel state_same); [apply same_fund_pool; apply same_with_aseq; exact H|]. intros s1 s1' H1.
  bind_step same_send as s2 s2' H2. rewrite (ss_now _ _ H2).
  bind_step same_call_hook as s3 s3' H3.
  apply (bind_rel state_same); [apply same_call_hook; apply same_append_auction; assumption|].
  intros s4 s4' H4. exact H4.
Qed.

Lemma same_cancel s s' u up id : state_same s s' -> res_same (cancel s u up id) (cancel s' u up id).
Proof.
  intros H. unfold cancel. rewrite (same_find_auction _ _ H), (ss_bal _ _ H).
  destruct (find_auction s id) as [a|]; [|apply fail_rel; exact H].
  destruct (negb (N.eqb (a_auctioneer a) u)); [apply fail_rel; exact H|].
  destruct (negb (status_eqb (a_status a) StandBy)); [apply fail_rel; exact H|].
  bind_step same_send as s1 s1' H1. bind_step same_call_hook as s2 s2' H2.
  apply same_put_auction. assumption.
Qed.

Lemma same_validate_fixed_bid s s' a b : state_same s s' ->
  validate_fixed_bid s' a b = validate_fixed_bid s a b.
Proof.
  intros H. unfold validate_fixed_bid.
  rewrite !(fail_eq s s') by exact H. rewrite (ss_bids_of _ _ H), (ss_find_allowed _ _ H). reflexivity.
Qed.

Lemma same_validate_batch_bid s s' a b d : state_same s s' ->
  validate_batch_bid s' a b d = validate_batch_bid s a b d.
Proof.
  intros H. unfold validate_batch_bid.
  rewrite !(fail_eq s s') by exact H. rewrite (ss_find_allowed _ _ H). reflexivity.
Qed.

Definition pair_same (x y : state * bid) : Prop := state_same (fst x) (fst y) /\ snd x = snd y.

Lemma same_place_bid s s' u id bt price d amt : state_same s s' ->
  res_same (place_bid s u id bt price d amt) (place_bid s' u id bt price d amt).
Proof.
  intros H. unfold place_bid. rewrite (same_find_auction _ _ H), (ss_find_allowed _ _ H), (ss_params _ _ H).
  destruct (find_auction s id) as [a|]; [|apply fail_rel; exact H].
  destruct (negb (status_eqb (a_status a) Started)); [apply fail_rel; exact H|].
  destruct (atype_eqb (a_type a) Batch && (price <? a_min_price a)); [apply fail_rel; exact H|].
  destruct (find_allowed s id u) as [al|]; [|apply fail_rel; exact H].
  bind_step same_fund_pool as s0 s1 H0.
  rewrite (ss_bseq _ _ H0 id).
  pose proof (same_bump_bseq _ _ H0 id) as Hb. rewrite (ss_bseq _ _ H0 id) in Hb.
  set (t := with_bseq s0 (upd (st_bseq s0) id (st_bseq s0 id + 1)%N)) in *.
  set (t' := with_bseq s1 (upd (st_bseq s1) id (st_bseq s0 id + 1)%N)) in *.
  set (b := {| b_auction := id; b_id := (st_bseq s0 id + 1)%N; b_bidder := u; b_type := bt; b_price := price;
               b_denom := d; b_amt := amt; b_matched := false |}).
  apply (bind_rel pair_same).
  - destruct bt.
    + rewrite (same_validate_fixed_bid t t' a b Hb).
      apply (bind_rel eq); [apply res_rel_eq|]. intros _ _ _.
      bind_step same_send as s2 s2' H2. cbn [res_rel]. split; [|reflexivity]. cbn [fst]. apply same_put_auction. assumption.
    + rewrite (same_validate_batch_bid t t' a b _ Hb).
      apply (bind_rel eq); [apply res_rel_eq|]. intros _ _ _.
      bind_step same_send as s2 s2' H2. cbn [res_rel]. split; [|reflexivity]. assumption.
    + rewrite (same_validate_batch_bid t t' a b _ Hb).
      apply (bind_rel eq); [apply res_rel_eq|]. intros _ _ _.
      bind_step same_send as s2 s2' H2. cbn [res_rel]. split; [|reflexivity]. assumption.
  - intros [x bx] [y by_] [Hxy Eb]. cbn [fst snd] in Hxy, Eb. subst by_.
    bind_step same_call_hook as s3 s3' H3. apply same_append_bid. assumption.
Qed.

Lemma same_modify_bid s s' u id bid_id price d amt : state_same s s' ->
  res_same (modify_bid s u id bid_id price d amt) (modify_bid s' u id bid_id price d amt).
Proof.
  intros H. unfold modify_bid. rewrite (same_find_auction _ _ H), (find_bid_same _ _ H).
  destruct (find_auction s id) as [a|]; [|apply fail_rel; exact H].
  destruct (negb (status_eqb (a_status a) Started)); [apply fail_rel; exact H|].
  destruct (negb (atype_eqb (a_type a) Batch)); [apply fail_rel; exact H|].
  destruct (find_bid s id bid_id) as [b|]; [|apply fail_rel; exact H].
  destruct (negb (N.eqb (b_bidder b) u)); [apply fail_rel; exact H|].
  destruct (price <? a_min_price a); [apply fail_rel; exact H|].
  destruct (negb (N.eqb (b_denom b) d)); [apply fail_rel; exact H|].
  destruct ((price <? b_price b) || (amt <? b_amt b)); [apply fail_rel; exact H|].
  destruct ((price =? b_price b) && (amt =? b_amt b)); [apply fail_rel; exact H|].
  destruct (match b_type b with
            | BWorth => (d, amt - b_amt b)
            | BMany => (a_pay_denom a, pay_of_qty amt price - pay_of_qty (b_amt b) (b_price b))
            | BFixed => (d, 0)
            end) as [dd diff].
  apply (bind_rel state_same).
  - destruct (0 <? diff); [apply same_send; exact H|exact H].
  - intros s1 s1' H1. bind_step same_call_hook as s2 s2' H2. apply same_put_bid. assumption.
Qed.

Lemma same_add_entries a l : forall s s', state_same s s' -> res_same (add_entries s a l) (add_entries s' a l).
Proof.
  induction l as [|[[ea who] max] rest IH]; intros s s' H.
  - exact H.
  - cbn [add_entries]. destruct who as [up u|]; [|apply fail_rel; exact H].
    destruct max as [m|]; [|apply fail_rel; exact H].
    destruct (negb (0 <? m)); [apply fail_rel; exact H|].
    destruct (a_sell_amt a <? m); [apply fail_rel; exact H|].
    apply IH. apply same_put_allowed. exact H.
Qed.

Lemma same_api_add s s' id l : state_same s s' -> res_same (api_add s id l) (api_add s' id l).
Proof.
  intros H. unfold api_add. destruct l as [|e l]; [apply fail_rel; exact H|].
  rewrite (same_find_auction _ _ H).
  destruct (find_auction s id) as [a|]; [|apply fail_rel; exact H].
  bind_step same_call_hook as s1 s1' H1. apply same_add_entries. assumption.
Qed.

Lemma same_api_update s s' id u max : state_same s s' -> res_same (api_update s id u max) (api_update s' id u max).
Proof.
  intros H. unfold api_update. rewrite (same_find_auction _ _ H), (ss_find_allowed _ _ H).
  destruct (find_auction s id) as [a|]; [|apply fail_rel; exact H].
  destruct (find_allowed s id u) as [x|]; [|apply fail_rel; exact H].
  destruct (check_pos max) as [m|]; [|apply fail_rel; exact H].
  bind_step same_call_hook as s1 s1' H1. apply same_put_allowed. assumption.
Qed.

Lemma same_update_params s s' auth cfee bfee period : state_same s s' ->
  res_same (update_params s auth cfee bfee period) (update_params s' auth cfee bfee period).
Proof.
  intros H. unfold update_params. destruct auth as [|[up u|]].
  - destruct (check_coins cfee None) as [c|]; [|apply fail_rel; exact H].
    destruct (check_coins bfee None) as [b|]; [|apply fail_rel; exact H].
    apply same_with_params. exact H.
  - apply fail_rel; exact H.
  - apply fail_rel; exact H.
Qed.

Lemma same_handle s s' c : state_same s s' -> res_same (handle s c) (handle s' c).
Proof.
  intros H. destruct c; cbn [handle].
  - apply same_create_fixed; exact H.
  - apply same_create_batch; exact H.
  - apply same_cancel; exact H.
  - apply same_place_bid; exact H.
  - apply same_modify_bid; exact H.
  - rewrite (ss_switch _ _ H). destruct (st_switch s); [apply same_api_add; exact H|apply fail_rel; exact H].
  - apply same_update_params; exact H.
Qed.

(* ------------------------------------------------------------------ commit / deliver_tx *)
Definition out_same (x y : outcome * state) : Prop := fst x = fst y /\ state_same (snd x) (snd y).

Lemma same_commit s s' r r' : state_same s s' -> res_same r r' -> out_same (commit s r) (commit s' r').
Proof.
  intros H Hr. destruct r as [a|c t], r' as [b|c' t']; cbn in Hr; try contradiction.
  - split; [reflexivity|exact Hr].
  - destruct Hr as [-> ->]. split; [reflexivity|]. cbn [snd commit]. apply same_with_trace. exact H.
Qed.

Lemma same_deliver_tx s s' m : state_same s s' -> out_same (deliver_tx s m) (deliver_tx s' m).
Proof.
  intros H. unfold deliver_tx. destruct (check_basic m) as [c|].
  - apply same_commit; [exact H|apply same_handle; exact H].
  - split; [reflexivity|exact H].
Qed.

(* the two demonstrations asked for, as statements about `step` *)
Theorem step_congr_tx s s' m : state_same s s' ->
  fst (step s (OTx m)) = fst (step s' (OTx m)) /\ state_same (snd (step s (OTx m))) (snd (step s' (OTx m))).
Proof. intros H. exact (same_deliver_tx s s' m H). Qed.
