(* Base facts for the matching proofs: local arithmetic on the 18-decimal conversions,
   sums over lists, permutations and filters, the sorted bidder list. *)
From Coq Require Import ZArith NArith List Bool Arith Lia Permutation Sorting.
From FR Require Import Dec Types Match Spec.
Import ListNotations.
Open Scope Z_scope.

Lemma P_pos : 0 < P. Proof. reflexivity. Qed.
Opaque P.

(* ------------------------------------------------------------------ *)
(* arithmetic                                                           *)

Lemma qty_of_worth_eq a p : 0 <= a -> 0 < p -> qty_of_worth a p = a * P / p.
Proof.
  intros Ha Hp. pose proof P_pos as HP.
  unfold qty_of_worth, truncate_int, dec_of_int.
  assert (H0 : 0 <= a * P * (P * P)) by nia.
  rewrite (Z.quot_div_nonneg (a * P * (P * P)) p H0 Hp).
  assert (H1 : 0 <= a * P * (P * P) / p) by (apply Z.div_pos; lia).
  rewrite (Z.quot_div_nonneg _ P H1 HP).
  assert (H2 : 0 <= a * P * (P * P) / p / P) by (apply Z.div_pos; lia).
  rewrite (Z.quot_div_nonneg _ P H2 HP).
  rewrite !Z.div_div by lia.
  replace (p * P * P) with (p * (P * P)) by ring.
  rewrite Z.div_mul_cancel_r by nia. reflexivity.
Qed.

Lemma qty_of_worth_nonneg a p : 0 <= a -> 0 < p -> 0 <= qty_of_worth a p.
Proof.
  intros Ha Hp. rewrite qty_of_worth_eq by assumption. pose proof P_pos.
  apply Z.div_pos; [nia|lia].
Qed.

Lemma qty_of_worth_antitone a p p' : 0 <= a -> 0 < p <= p' -> qty_of_worth a p' <= qty_of_worth a p.
Proof.
  intros Ha Hp. rewrite !qty_of_worth_eq by lia. pose proof P_pos.
  apply Z.div_le_compat_l; [nia|lia].
Qed.

Lemma ceil_int_bounds d : 0 <= d -> d <= ceil_int d * P < d + P.
Proof.
  intros Hd. pose proof P_pos as HP. unfold ceil_int.
  rewrite (Z.rem_mod_nonneg d P Hd HP), (Z.quot_div_nonneg d P Hd HP).
  pose proof (Z.div_mod d P ltac:(lia)) as E. pose proof (Z.mod_pos_bound d P HP) as B.
  destruct (Z.eqb_spec (d mod P) 0) as [E0|E0].
  - nia.
  - destruct (Z.ltb_spec (d mod P) 0) as [L|L]; [lia|]. nia.
Qed.

Lemma pay_of_qty_bounds m p : 0 <= m -> 0 <= p -> m * p <= pay_of_qty m p * P < m * p + P.
Proof. intros Hm Hp. unfold pay_of_qty. apply ceil_int_bounds. nia. Qed.

Lemma pay_of_qty_nonneg m p : 0 <= m -> 0 <= p -> 0 <= pay_of_qty m p.
Proof.
  intros Hm Hp. pose proof (pay_of_qty_bounds m p Hm Hp) as B. pose proof P_pos. nia.
Qed.

Lemma pay_of_qty_zero p : 0 <= p -> pay_of_qty 0 p = 0.
Proof.
  intros Hp. pose proof (pay_of_qty_bounds 0 p ltac:(lia) Hp) as B. pose proof P_pos. nia.
Qed.

Lemma pay_of_qty_mono m m' p p' : 0 <= m <= m' -> 0 <= p <= p' -> pay_of_qty m p <= pay_of_qty m' p'.
Proof.
  intros Hm Hp.
  pose proof (pay_of_qty_bounds m p ltac:(lia) ltac:(lia)) as B.
  pose proof (pay_of_qty_bounds m' p' ltac:(lia) ltac:(lia)) as B'.
  pose proof P_pos. assert (m * p <= m' * p') by nia. nia.
Qed.

(* a winning worth bid never pays more than it reserved *)
Lemma worth_never_overpays a p : 0 <= a -> 0 < p -> pay_of_qty (qty_of_worth a p) p <= a.
Proof.
  intros Ha Hp. rewrite qty_of_worth_eq by assumption. pose proof P_pos as HP.
  assert (Hq : 0 <= a * P / p) by (apply Z.div_pos; nia).
  pose proof (pay_of_qty_bounds (a * P / p) p Hq ltac:(lia)) as [_ Hub].
  assert (p * (a * P / p) <= a * P) by (apply Z.mul_div_le; lia).
  nia.
Qed.

(* the payment for one matched amount: exact up to one rounding unit, and only when positive *)
Lemma pay_of_qty_tight m p :
  0 <= m -> 0 <= p ->
  m * p <= pay_of_qty m p * P <= m * p + (if 0 <? m then P - 1 else 0).
Proof.
  intros Hm Hp. destruct (Z.ltb_spec 0 m) as [L|L].
  - pose proof (pay_of_qty_bounds m p Hm Hp). lia.
  - assert (m = 0) by lia. subst m. rewrite pay_of_qty_zero by assumption. lia.
Qed.

(* ------------------------------------------------------------------ *)
(* sums                                                                 *)

Lemma sumZ_app l1 l2 : sumZ (l1 ++ l2) = sumZ l1 + sumZ l2.
Proof. induction l1 as [|a l1 IH]; cbn [app sumZ fold_right]; [reflexivity|]. fold (sumZ (l1 ++ l2)). fold (sumZ l1). lia. Qed.

Lemma sumZ_cons a l : sumZ (a :: l) = a + sumZ l.
Proof. reflexivity. Qed.

Lemma sumZ_nil : sumZ [] = 0.
Proof. reflexivity. Qed.

Lemma sumZ_perm l l' : Permutation l l' -> sumZ l = sumZ l'.
Proof.
  induction 1 as [|x l l' _ IH|x y l|l l' l'' _ IH1 _ IH2]; rewrite ?sumZ_cons; lia.
Qed.

Lemma sumZ_map_ext {A} (f g : A -> Z) l :
  (forall x, In x l -> f x = g x) -> sumZ (map f l) = sumZ (map g l).
Proof.
  induction l as [|a l IH]; intros H; cbn [map]; [reflexivity|]. rewrite !sumZ_cons.
  rewrite (H a) by (left; reflexivity). rewrite IH; [reflexivity|].
  intros x Hx. apply H. right. exact Hx.
Qed.

Lemma sumZ_map_le {A} (f g : A -> Z) l :
  (forall x, In x l -> f x <= g x) -> sumZ (map f l) <= sumZ (map g l).
Proof.
  induction l as [|a l IH]; intros H; cbn [map]; [lia|]. rewrite !sumZ_cons.
  pose proof (H a (or_introl eq_refl)). pose proof (IH (fun x Hx => H x (or_intror Hx))). lia.
Qed.

Lemma sumZ_map_nonneg {A} (f : A -> Z) l :
  (forall x, In x l -> 0 <= f x) -> 0 <= sumZ (map f l).
Proof.
  induction l as [|a l IH]; intros H; cbn [map]; [rewrite sumZ_nil; lia|]. rewrite sumZ_cons.
  pose proof (H a (or_introl eq_refl)). pose proof (IH (fun x Hx => H x (or_intror Hx))). lia.
Qed.

Lemma sumZ_map_zero {A} (f : A -> Z) l :
  (forall x, In x l -> 0 <= f x) -> sumZ (map f l) = 0 -> forall x, In x l -> f x = 0.
Proof.
  induction l as [|a l IH]; intros H E x Hx; [destruct Hx|]. cbn [map] in E. rewrite sumZ_cons in E.
  pose proof (H a (or_introl eq_refl)).
  pose proof (sumZ_map_nonneg f l (fun x Hx => H x (or_intror Hx))).
  destruct Hx as [->|Hx]; [lia|]. apply IH; [intros y Hy; apply H; right; exact Hy|lia|exact Hx].
Qed.

Lemma sumZ_map_add {A} (f g : A -> Z) l :
  sumZ (map (fun x => f x + g x) l) = sumZ (map f l) + sumZ (map g l).
Proof. induction l as [|a l IH]; cbn [map]; rewrite ?sumZ_cons, ?sumZ_nil; lia. Qed.

Lemma sumZ_map_mul {A} (f : A -> Z) c l :
  sumZ (map (fun x => f x * c) l) = sumZ (map f l) * c.
Proof. induction l as [|a l IH]; cbn [map]; rewrite ?sumZ_cons, ?sumZ_nil; lia. Qed.

Lemma sumZ_indicator (k : N) (v : Z) U :
  NoDup U -> In k U -> sumZ (map (fun u => if N.eqb k u then v else 0) U) = v.
Proof.
  induction 1 as [|a U Ha HU IH]; intros Hin; [destruct Hin|].
  cbn [map]. rewrite sumZ_cons. destruct Hin as [->|Hin].
  - rewrite N.eqb_refl.
    rewrite (sumZ_map_ext _ (fun _ => 0) U).
    + assert (E : forall l : list N, sumZ (map (fun _ => 0) l) = 0).
      { induction l as [|b l IHl]; cbn [map]; rewrite ?sumZ_cons, ?sumZ_nil; lia. }
      rewrite E. lia.
    + intros x Hx. destruct (N.eqb_spec k x) as [->|]; [contradiction|reflexivity].
  - destruct (N.eqb_spec k a) as [->|]; [contradiction|]. rewrite IH by exact Hin. lia.
Qed.

Lemma sumZ_filter_le {A} (f : A -> Z) (g : A -> bool) l :
  (forall x, In x l -> 0 <= f x) -> sumZ (map f (filter g l)) <= sumZ (map f l).
Proof.
  induction l as [|a l IH]; intros H; cbn [filter map]; [lia|].
  pose proof (H a (or_introl eq_refl)). pose proof (IH (fun x Hx => H x (or_intror Hx))).
  destruct (g a); cbn [map]; rewrite ?sumZ_cons; lia.
Qed.

(* ------------------------------------------------------------------ *)
(* filters and permutations                                             *)

Lemma filter_perm {A} (f : A -> bool) l l' : Permutation l l' -> Permutation (filter f l) (filter f l').
Proof.
  induction 1 as [|x l l' _ IH|x y l|l l' l'' _ IH1 _ IH2]; cbn [filter].
  - constructor.
  - destruct (f x); [constructor|]; exact IH.
  - destruct (f x), (f y); try apply Permutation_refl. apply perm_swap.
  - eapply Permutation_trans; eassumption.
Qed.

Lemma filter_filter {A} (f g : A -> bool) l :
  filter f (filter g l) = filter (fun x => g x && f x) l.
Proof.
  induction l as [|a l IH]; cbn [filter]; [reflexivity|].
  destruct (g a); cbn [filter andb]; [destruct (f a)|]; rewrite IH; reflexivity.
Qed.

Lemma filter_ext_in' {A} (f g : A -> bool) l :
  (forall x, In x l -> f x = g x) -> filter f l = filter g l.
Proof.
  induction l as [|a l IH]; intros H; cbn [filter]; [reflexivity|].
  rewrite (H a (or_introl eq_refl)). rewrite (IH (fun x Hx => H x (or_intror Hx))). reflexivity.
Qed.

(* ------------------------------------------------------------------ *)
(* the sorted list of bidders                                           *)

Lemma insert_sorted_in u l x : In x (insert_sorted u l) <-> x = u \/ In x l.
Proof.
  induction l as [|v l IH]; cbn [insert_sorted].
  - cbn [In]. intuition congruence.
  - destruct (N.ltb_spec u v) as [L|L].
    + cbn [In]. intuition congruence.
    + destruct (N.eqb_spec u v) as [->|NE].
      * cbn [In]. intuition congruence.
      * cbn [In]. rewrite IH. intuition congruence.
Qed.

Lemma insert_sorted_sorted u l : StronglySorted N.lt l -> StronglySorted N.lt (insert_sorted u l).
Proof.
  induction 1 as [|v l HS IH HF]; cbn [insert_sorted].
  - constructor; constructor.
  - destruct (N.ltb_spec u v) as [L|L].
    + constructor; [constructor; assumption|]. constructor; [exact L|].
      rewrite Forall_forall in *. intros x Hx. specialize (HF x Hx). lia.
    + destruct (N.eqb_spec u v) as [->|NE].
      * constructor; assumption.
      * constructor; [exact IH|]. rewrite Forall_forall in *. intros x Hx.
        apply insert_sorted_in in Hx. destruct Hx as [->|Hx]; [lia|apply HF; exact Hx].
Qed.

Lemma sorted_lt_nodup l : StronglySorted N.lt l -> NoDup l.
Proof.
  induction 1 as [|v l HS IH HF]; constructor; [|exact IH].
  intros Hin. rewrite Forall_forall in HF. specialize (HF v Hin). lia.
Qed.

Lemma bidders_of_sorted bs : StronglySorted N.lt (bidders_of bs).
Proof.
  induction bs as [|b bs IH]; cbn [bidders_of fold_right]; [constructor|].
  apply insert_sorted_sorted. exact IH.
Qed.

Lemma bidders_of_nodup bs : NoDup (bidders_of bs).
Proof. apply sorted_lt_nodup, bidders_of_sorted. Qed.

Lemma bidders_of_in bs u : In u (bidders_of bs) <-> exists b, In b bs /\ b_bidder b = u.
Proof.
  induction bs as [|b bs IH]; cbn [bidders_of fold_right].
  - split; [intros []|intros (b & [] & _)].
  - fold (bidders_of bs). rewrite insert_sorted_in, IH. split.
    + intros [->|(b' & Hb' & E)]; [exists b; split; [left|]; reflexivity|].
      exists b'. split; [right; exact Hb'|exact E].
    + intros (b' & [->|Hb'] & E); [left; symmetry; exact E|]. right. exists b'. split; assumption.
Qed.
