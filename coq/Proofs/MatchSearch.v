(* D. sort.Search with the result-storing closure of CalculateBatchAllocation:
   for a probe whose "fits" verdict is monotone in the index, the search returns the stored
   result of the LEAST fitting index (if that probe matched something), else nothing. *)
From Coq Require Import ZArith NArith List Bool Arith Lia.
From FR Require Import Dec Types Match.
Import ListNotations.
Open Scope nat_scope.

(* what the closure stores after a fitting probe at index h *)
Definition stored (r : mres) (h : nat) : option (nat * mres) :=
  match mr_matched r with [] => None | _ => Some (h, r) end.

Section Search.
  Variable n : nat.
  Variable probe : nat -> sweep_out.
  Hypothesis no_panic : forall h, h < n -> probe h <> SPanic.
  Hypothesis fit_mono : forall a b ra, a <= b < n -> probe a = SFit ra -> exists rb, probe b = SFit rb.
  Hypothesis empty_mono : forall a b ra rb, a <= b < n ->
    probe a = SFit ra -> probe b = SFit rb -> mr_matched ra = [] -> mr_matched rb = [].

  (* loop invariant of the binary search: everything below i exceeds, j is the last fitting
     probe (or n), and the stored result is the one of j -- or nothing if j matched nothing,
     because then no higher index matched anything either *)
  Definition search_inv (i j : nat) (best : option (nat * mres)) : Prop :=
    i <= j <= n /\
    (forall k, k < i -> probe k = SExceed) /\
    ((j = n /\ best = None) \/ (j < n /\ exists r, probe j = SFit r /\ best = stored r j)).

  Lemma search_run : forall fuel i j best,
    j - i <= fuel -> search_inv i j best ->
    exists best' k, search fuel probe i j best = Some best' /\ search_inv k k best'.
  Proof.
    induction fuel as [|fuel IH]; intros i j best Hf Hinv.
    - cbn [search]. destruct Hinv as (Hij & Hlo & Hhi).
      assert (i = j) by lia. subst j. exists best, i. split; [reflexivity|]. repeat split; try lia; assumption.
    - cbn [search]. destruct Hinv as (Hij & Hlo & Hhi).
      destruct (Nat.ltb_spec i j) as [Hlt|Hge].
      + set (h := (i + j) / 2).
        assert (Hh : i <= h < j).
        { subst h. split; [apply Nat.div_le_lower_bound; lia|apply Nat.div_lt_upper_bound; lia]. }
        destruct (probe h) as [r| |] eqn:Eh.
        * apply IH; [lia|]. split; [lia|]. split; [exact Hlo|]. right. split; [lia|].
          exists r. split; [exact Eh|]. unfold stored.
          destruct (mr_matched r) as [|x xs] eqn:Em; [|reflexivity].
          destruct Hhi as [[_ Hb]|[Hj (rj & Ej & Hb)]]; [exact Hb|].
          rewrite Hb. unfold stored.
          rewrite (empty_mono h j r rj ltac:(lia) Eh Ej Em). reflexivity.
        * apply IH; [lia|]. split; [lia|]. split; [|exact Hhi].
          intros k Hk. destruct (Nat.lt_ge_cases k i) as [Hki|Hki]; [apply Hlo; exact Hki|].
          destruct (probe k) as [rk| |] eqn:Ek; [|reflexivity|].
          -- destruct (fit_mono k h rk ltac:(lia) Ek) as [rh Erh]. congruence.
          -- exfalso. apply (no_panic k ltac:(lia)). exact Ek.
        * exfalso. apply (no_panic h ltac:(lia)). exact Eh.
      + assert (i = j) by lia. subst j. exists best, i. split; [reflexivity|]. repeat split; try lia; assumption.
  Qed.

  Theorem search_spec :
    exists best, search (S n) probe 0 n None = Some best /\
      ((best = None /\ forall h, h < n -> probe h = SExceed) \/
       (exists h0 r0, h0 < n /\ probe h0 = SFit r0 /\ (forall k, k < h0 -> probe k = SExceed) /\
                      best = stored r0 h0)).
  Proof.
    destruct (search_run (S n) 0 n None ltac:(lia)) as (best & k & E & Hinv).
    { split; [lia|]. split; [intros k Hk; lia|]. left. split; reflexivity. }
    exists best. split; [exact E|]. destruct Hinv as (_ & Hlo & [[Hk Hb]|[Hk (r & Er & Hb)]]).
    - left. subst k. split; assumption.
    - right. exists k, r. repeat split; assumption.
  Qed.
End Search.
