(* Matching: types.Match (the price-descending sweep), keeper.CalculateBatchAllocation
   (sort.Search over the distinct prices with the result-storing closure) and
   keeper.CalculateFixedPriceAllocation. *)
From Coq Require Import ZArith NArith List Bool Arith.
From FR Require Import Dec Types.
Import ListNotations.
Open Scope Z_scope.

(* Bid.ConvertToSellingAmount(payingDenom) *)
Definition sell_amount (pay_denom : N) (b : bid) : Z :=
  if N.eqb (b_denom b) pay_denom then qty_of_worth (b_amt b) (b_price b) else b_amt b.
(* Bid.ConvertToPayingAmount(payingDenom): what is reserved for the bid *)
Definition pay_amount (pay_denom : N) (b : bid) : Z :=
  if N.eqb (b_denom b) pay_denom then b_amt b else pay_of_qty (b_amt b) (b_price b).

(* the quantity a bid asks for when the auction clears at price p (types.Match) *)
Definition bid_qty_at (b : bid) (p : Z) : Z :=
  match b_type b with BWorth => qty_of_worth (b_amt b) p | _ => b_amt b end.

Record mres := {
  mr_total : Z;                       (* MatchedAmount *)
  mr_matched : list N;                (* ids of MatchedBids, in sweep order *)
  mr_bidders : list (N * (Z * Z))     (* MatchResultByBidder: bidder -> (MatchedAmount, PayingAmount) *)
}.
Inductive sweep_out := SFit (r : mres) | SExceed | SPanic.

Fixpoint add_bidder (l : list (N * (Z * Z))) (u : N) (m pay : Z) : list (N * (Z * Z)) :=
  match l with
  | [] => [(u, (m, pay))]
  | (v, (m0, p0)) :: rest =>
      if N.eqb v u then (v, (m0 + m, p0 + pay)) :: rest else (v, (m0, p0)) :: add_bidder rest u m pay
  end.
Fixpoint lookup_bidder (l : list (N * (Z * Z))) (u : N) : option (Z * Z) :=
  match l with
  | [] => None
  | (v, x) :: rest => if N.eqb v u then Some x else lookup_bidder rest u
  end.

(* the sweep over the bids priced at or above p, in the given order;
   caps: what each bidder may still receive (absent = not in the map: Go dereferences a nil Int) *)
Fixpoint sweep (p supply : Z) (bs : list bid) (caps : N -> option Z)
               (total : Z) (matched : list N) (byb : list (N * (Z * Z))) : sweep_out :=
  match bs with
  | [] => SFit {| mr_total := total; mr_matched := matched; mr_bidders := byb |}
  | b :: rest =>
      match caps (b_bidder b) with
      | None => SPanic
      | Some cap =>
          let m := Z.min (bid_qty_at b p) cap in
          if supply <? total + m then SExceed
          else
            let byb' := add_bidder byb (b_bidder b) m (pay_of_qty m p) in
            if 0 <? m
            then sweep p supply rest (upd caps (b_bidder b) (Some (cap - m))) (total + m) (matched ++ [b_id b]) byb'
            else sweep p supply rest caps total matched byb'
      end
  end.

Definition caps_of (al : list allowed) : N -> option Z :=
  fun u => option_map al_max (find (fun x => N.eqb (al_bidder x) u) (rev al)).

Definition match_at (p supply : Z) (order : list bid) (al : list allowed) : sweep_out :=
  sweep p supply (filter (fun b => p <=? b_price b) order) (caps_of al) 0 [] [].

(* distinct prices of a price-descending list of bids, descending *)
Fixpoint distinct_prices (bs : list bid) : list Z :=
  match bs with
  | [] => []
  | b :: rest =>
      match rest with
      | [] => [b_price b]
      | b' :: _ => if b_price b =? b_price b' then distinct_prices rest else b_price b :: distinct_prices rest
      end
  end.

(* sort.Search(n, f) with the closure of CalculateBatchAllocation:
   f h probes price index n-1-h (lowest price first); a probe that matched something
   replaces the stored result; the searched predicate is "the demand fits". *)
Fixpoint search (fuel : nat) (probe : nat -> sweep_out) (i j : nat) (best : option (nat * mres))
  : option (option (nat * mres)) :=      (* None = panic *)
  match fuel with
  | O => Some best
  | S k =>
      if Nat.ltb i j then
        let h := Nat.div (i + j) 2 in
        match probe h with
        | SPanic => None
        | SExceed => search k probe (S h) j best
        | SFit r => search k probe i h (match mr_matched r with [] => best | _ => Some (h, r) end)
        end
      else Some best
  end.

Record minfo := {
  mi_price : Z;                    (* MatchedPrice; 0 when nothing is matched *)
  mi_matched : list N;             (* ids of the matched bids *)
  mi_total : Z;
  mi_bidders : list N;             (* every bidder with a bid, sorted (= sort.Strings order) *)
  mi_alloc : N -> Z;               (* AllocationMap *)
  mi_refund : N -> Z               (* RefundMap *)
}.

Fixpoint insert_sorted (u : N) (l : list N) : list N :=
  match l with
  | [] => [u]
  | v :: rest => if N.ltb u v then u :: l else if N.eqb u v then l else v :: insert_sorted u rest
  end.
Definition bidders_of (bs : list bid) : list N :=
  fold_right (fun b acc => insert_sorted (b_bidder b) acc) [] bs.

Definition sumZ (l : list Z) : Z := fold_right Z.add 0 l.
Definition reserved_of (pay_denom : N) (bs : list bid) (u : N) : Z :=
  sumZ (map (pay_amount pay_denom) (filter (fun b => N.eqb (b_bidder b) u) bs)).

(* order: the auction's bids in sweep order (types.BidsByPrice); bs: the same bids in store order *)
Definition calc_batch (a : auction) (bs order : list bid) (al : list allowed) : option minfo :=
  let prices := distinct_prices order in
  let n := length prices in
  let probe := fun h => match_at (nth (n - 1 - h) prices 0) (a_sell_amt a) order al in
  match search (S n) probe 0 n None with
  | None => None
  | Some best =>
      let price := match best with Some (h, _) => nth (n - 1 - h) prices 0 | None => 0 end in
      let r := match best with Some (_, r) => r
                          | None => {| mr_total := 0; mr_matched := []; mr_bidders := [] |} end in
      Some {| mi_price := price; mi_matched := mr_matched r; mi_total := mr_total r;
              mi_bidders := bidders_of bs;
              mi_alloc := fun u => match lookup_bidder (mr_bidders r) u with Some (m, _) => m | None => 0 end;
              mi_refund := fun u => reserved_of (a_pay_denom a) bs u -
                                   match lookup_bidder (mr_bidders r) u with Some (_, p) => p | None => 0 end |}
  end.

Definition calc_fixed (a : auction) (bs : list bid) : minfo :=
  {| mi_price := a_start_price a; mi_matched := map b_id bs;
     mi_total := sumZ (map (sell_amount (a_pay_denom a)) bs);
     mi_bidders := bidders_of bs;
     mi_alloc := fun u => sumZ (map (sell_amount (a_pay_denom a)) (filter (fun b => N.eqb (b_bidder b) u) bs));
     mi_refund := fun _ => 0 |}.

(* the oracle: a sweep order is valid when it is the auction's bids rearranged, prices non-increasing, equal prices in
   the order of the bid ids - which makes it unique (Determinism.valid_order_unique) *)
Fixpoint pick_bids (bs : list bid) (ids : list N) : option (list bid) :=
  match ids with
  | [] => Some []
  | i :: rest =>
      match find (fun b => N.eqb (b_id b) i) bs, pick_bids bs rest with
      | Some b, Some l => Some (b :: l)
      | _, _ => None
      end
  end.
Fixpoint prices_desc (bs : list bid) : bool :=
  match bs with
  | [] => true
  | b :: rest => match rest with [] => true | b' :: _ => (b_price b' <=? b_price b) && prices_desc rest end
  end.
(* within a price level the bids come in the order of their ids: types.BidsByPrice collects the bids of a level in
   store order, which is the order of the bid ids *)
Fixpoint ties_by_id (bs : list bid) : bool :=
  match bs with
  | [] => true
  | b :: rest => match rest with
                 | [] => true
                 | b' :: _ => (negb (b_price b' =? b_price b) || N.ltb (b_id b) (b_id b')) && ties_by_id rest
                 end
  end.
Fixpoint nodupN (l : list N) : bool :=
  match l with [] => true | x :: r => negb (existsb (N.eqb x) r) && nodupN r end.
Definition valid_order (bs : list bid) (ids : list N) : option (list bid) :=
  if Nat.eqb (length ids) (length bs) && nodupN ids then
    match pick_bids bs ids with
    | Some l => if prices_desc l && ties_by_id l then Some l else None
    | None => None
    end
  else None.
