(* The top-level transition function over operations, and the queries. *)
From Coq Require Import ZArith NArith List Bool Arith.
From FR Require Import Dec Types Bank Match Step Genesis.
Import ListNotations.
Open Scope Z_scope.

Inductive outcome :=
| Accepted | Rejected (code : N)
| BlockOk | BlockErr (code : N)
| GenOk (valid : bool) | GenFail
| Done.

(* a transaction / API call either commits or leaves everything but the hook trace untouched *)
Definition commit (s : state) (r : res state) : outcome * state :=
  match r with
  | Ok s' => (Accepted, s')
  | Err c tr => (Rejected c, with_trace s tr)
  end.

Definition deliver_tx (s : state) (m : msg) : outcome * state :=
  match check_basic m with
  | None => (Rejected E_BASIC, s)
  | Some c => commit s (handle s c)
  end.

Definition step (s : state) (o : op) : outcome * state :=
  match o with
  | OTx m => deliver_tx s m
  | OApiAdd a l => commit s (api_add s a l)
  | OApiUpdate a u max => commit s (api_update s a u max)
  | OBlock t orc =>
      match begin_block s t orc with
      | Ok s' => (BlockOk, s')
      | Err c tr => (BlockErr c, with_trace (with_now s t) tr)
      end
  | OFaultBlock t orc k =>
      match begin_block s t orc with
      | Ok s' => if Nat.ltb k (length (st_xfers s') - length (st_xfers s))
                 then (BlockErr E_FAULT, with_now s t) else (BlockOk, s')
      | Err c tr => (BlockErr c, with_trace (with_now s t) tr)
      end
  | OSend from to d amt => commit s (if 0 <? amt then send s (User from) to d amt else fail s E_INVALID)
  | OSetListeners ls => (Done, with_listeners s ls)
  | OGenesis =>
      match genesis_roundtrip s with
      | Some (v, s') => (GenOk v, s')
      | None => (GenFail, s)
      end
  end.

Definition run (s : state) (ops : list op) : state := fold_left (fun s o => snd (step s o)) ops s.

(* ---- queries (keeper/query_*.go) ---- *)
Inductive qres :=
| RAuctions (l : list auction) | RBids (l : list bid) | RAllowed (l : list allowed)
| RVqs (l : list vq) | RParams (p : params) | RNotFound.

Definition opt_match {A} (eqb : A -> A -> bool) (f : option A) (x : A) : bool :=
  match f with None => true | Some y => eqb x y end.

Definition run_query (s : state) (q : query) : qres :=
  match q with
  | QGetAuction a => match find_auction s a with Some x => RAuctions [x] | None => RNotFound end
  | QListAuction st ty =>
      RAuctions (filter (fun a => opt_match status_eqb st (a_status a) && opt_match atype_eqb ty (a_type a)) (st_auctions s))
  | QGetBid a b => match find_bid s a b with Some x => RBids [x] | None => RNotFound end
  | QListBid a u m =>
      RBids (filter (fun b => opt_match N.eqb u (b_bidder b) && opt_match Bool.eqb m (b_matched b)) (bids_of s a))
  | QGetAllowed a u => match find_allowed s a u with Some x => RAllowed [x] | None => RNotFound end
  | QListAllowed a => RAllowed (sort_by allowed_le (allowed_of s a))
  | QListVesting a => RVqs (vqs_of s a)
  | QParams => RParams (st_params s)
  end.
