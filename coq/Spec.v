(* Declarative specifications the properties are stated against.  They are written from the
   module's documentation (spec/01_concepts.md, 04_messages.md, 05_end_block.md) and the property
   texts, not from the handlers' control flow: flat acceptance conditions per message, the clearing
   price by linear scan over all bid prices with closed-form capped demand, the vesting split. *)
From Coq Require Import ZArith NArith List Bool Arith.
From FR Require Import Dec Types Bank Match Step Genesis Model.
Import ListNotations.
Open Scope Z_scope.

Definition ids_upto (n : N) : list N := map N.of_nat (seq 0 (N.to_nat n)).
Definition n_denoms : N := 5.
Definition denoms : list N := ids_upto n_denoms.

(* total quantity the bids of bidder u priced at or above p ask for at price p, capped *)
Definition demand_of (bs : list bid) (cap : Z) (u : N) (p : Z) : Z :=
  Z.min cap (sumZ (map (fun b => bid_qty_at b p)
                       (filter (fun b => N.eqb (b_bidder b) u && (p <=? b_price b)) bs))).
Definition cap_of (al : list allowed) (u : N) : Z :=
  match find (fun x => N.eqb (al_bidder x) u) al with Some x => al_max x | None => 0 end.
Definition total_demand (bs : list bid) (al : list allowed) (p : Z) : Z :=
  sumZ (map (fun u => demand_of bs (cap_of al u) u p) (bidders_of bs)).
(* the lowest bid price whose capped demand fits the supply, by linear scan of all bid prices *)
Definition clearing_spec (bs : list bid) (al : list allowed) (supply : Z) : option Z :=
  let fits := filter (fun p => total_demand bs al p <=? supply) (map b_price bs) in
  match fits with
  | [] => None
  | p0 :: r =>
      let p := fold_left Z.min r p0 in
      if 0 <? total_demand bs al p then Some p else None
  end.
Definition spec_alloc (bs : list bid) (al : list allowed) (supply : Z) (u : N) : Z :=
  match clearing_spec bs al supply with
  | Some p => demand_of bs (cap_of al u) u p
  | None => 0
  end.


Definition can_pay (s : state) (u : N) (l : list (N * Z)) : bool :=
  (* sequential payments out of u's balance succeed *)
  forallb (fun d => sumZ (map snd (filter (fun c => N.eqb (fst c) d) l)) <=? st_bal s (User u) d) (map fst l).

(* the documented acceptance condition of a fixed price bid, as a flat conjunction *)
Definition fixed_bid_precond (s : state) (u id : N) (price : Z) (d : N) (amt : Z) : bool :=
  match find_auction s id with
  | None => false
  | Some a =>
      let b := {| b_auction := id; b_id := 0; b_bidder := u; b_type := BFixed; b_price := price;
                  b_denom := d; b_amt := amt; b_matched := false |} in
      let q := sell_amount (a_pay_denom a) b in
      atype_eqb (a_type a) FixedPrice && status_eqb (a_status a) Started
      && (price =? a_start_price a) && (N.eqb d (a_pay_denom a) || N.eqb d (a_sell_denom a))
      && match find_allowed s id u with
         | None => false
         | Some al =>
             sumZ (map (sell_amount (a_pay_denom a)) (filter (fun x => N.eqb (b_bidder x) u) (bids_of s id))) + q <=? al_max al
         end
      && (q <=? a_remaining a)
      && can_pay s u (p_bfee (st_params s) ++ [(a_pay_denom a, pay_amount (a_pay_denom a) b)])
  end.
Definition no_veto (s : state) (kind : N) : bool :=
  negb (existsb (fun l => existsb (N.eqb kind) l) (st_listeners s)).


Definition forward (x y : status) : bool :=
  status_eqb x y ||
  match x, y with
  | StandBy, Started | StandBy, Cancelled | Started, VestingS | Started, Finished | VestingS, Finished => true
  | _, _ => false
  end.

Fixpoint spec_split (total : Z) (ws : list Z) (sofar : Z) : list Z :=
  match ws with
  | [] => []
  | [_] => [total - sofar]
  | w :: rest => let x := total * w / P in x :: spec_split total rest (sofar + x)
  end.

Definition modify_precond (s : state) (u id bid_id : N) (price : Z) (d : N) (amt : Z) : bool :=
  match find_auction s id, find_bid s id bid_id with
  | Some a, Some b =>
      atype_eqb (a_type a) Batch && status_eqb (a_status a) Started && N.eqb (b_bidder b) u
      && (a_min_price a <=? price) && N.eqb d (b_denom b)
      && (b_price b <=? price) && (b_amt b <=? amt) && ((b_price b <? price) || (b_amt b <? amt))
      && (pay_amount (a_pay_denom a) (set_b_terms b price amt) - pay_amount (a_pay_denom a) b
          <=? st_bal s (User u) (a_pay_denom a))
  | _, _ => false
  end.

(* documented preconditions, message by message, as flat conjunctions over the pre-state *)
Definition create_precond (s : state) (u : N) (sd : N) (samt : Z) (nvs : nat) (maxr : N) (end_ : Z) : bool :=
  (st_now s <=? end_) && Nat.leb nvs MaxNumVestingSchedules && N.leb maxr MaxExtendedRound
  && can_pay s u (p_cfee (st_params s) ++ [(sd, samt)]).
Definition batch_bid_precond (s : state) (u id : N) (bt : btype) (price : Z) (d : N) (amt : Z) : bool :=
  match find_auction s id with
  | None => false
  | Some a =>
      let b := {| b_auction := id; b_id := 0; b_bidder := u; b_type := bt; b_price := price;
                  b_denom := d; b_amt := amt; b_matched := false |} in
      atype_eqb (a_type a) Batch && status_eqb (a_status a) Started && (a_min_price a <=? price)
      && N.eqb d (match bt with BWorth => a_pay_denom a | _ => a_sell_denom a end)
      && match find_allowed s id u with
         | None => false
         | Some al => sell_amount (a_pay_denom a) b <=? al_max al
         end
      && can_pay s u (p_bfee (st_params s) ++ [(a_pay_denom a, pay_amount (a_pay_denom a) b)])
  end.
Definition precond (s : state) (m : msg) : bool :=
  match check_basic m with
  | None => false
  | Some (CCreateFixed u _ _ sd samt _ vs _ end_) =>
      create_precond s u sd samt (length vs) 0 end_ && no_veto s H_BeforeFixedCreated && no_veto s H_AfterFixedCreated
  | Some (CCreateBatch u _ _ _ sd samt _ vs maxr _ _ end_) =>
      create_precond s u sd samt (length vs) maxr end_ && no_veto s H_BeforeBatchCreated && no_veto s H_AfterBatchCreated
  | Some (CCancel u _ id) =>
      match find_auction s id with
      | Some a => N.eqb u (a_auctioneer a) && status_eqb (a_status a) StandBy && no_veto s H_BeforeCanceled
      | None => false
      end
  | Some (CPlaceBid u id bt price d amt) =>
      match bt with
      | BFixed => fixed_bid_precond s u id price d amt
      | _ => batch_bid_precond s u id bt price d amt
      end && no_veto s H_BeforeBidPlaced
  | Some (CModifyBid u id bid_id price d amt) =>
      modify_precond s u id bid_id price d amt && no_veto s H_BeforeBidModified
  | Some (CAddAllowed id ea up u max) =>
      st_switch s
      && match find_auction s id, max with
         | Some a, Some m => (0 <? m) && (m <=? a_sell_amt a)
         | _, _ => false
         end && no_veto s H_BeforeAllowedAdded
  | Some (CUpdateParams auth cfee bfee _) =>
      match auth, check_coins cfee None, check_coins bfee None with
      | AuthGov, Some _, Some _ => true
      | _, _, _ => false
      end
  end.
