(* What makes a Go map-range loop harmless for C14.  The census of such loops is regenerated from /repo on every run
   (harness/cmd/mapcensus -> Generated/MapLoops.v); the translator classifies what each loop body does:
     "keyed"           the body writes entries of maps indexed by the loop's own key (Determinism.keyed_writes_perm);
     "collect_sorted"  the body collects into a slice that is sorted later in the same function
                       (Determinism.bidders_of_perm, sorted_desc_unique);
   and lists the reasons a body is of neither shape (assignments to outer variables, early exits, bare call
   statements) and every call that can reach the store, the bank or a listener.  Properties/C14.v proves that every
   loop of the census is safe: at least one safe shape, no reason against, no call with an effect.  A loop may be
   added, fused, split or renamed without breaking the obligation as long as it stays of a safe shape. *)
From Coq Require Import String List Bool.
Import ListNotations.
Open Scope string_scope.

Definition loop_row : Type := string * string * string * nat * string * list string * list string * list string.

Definition safe_shape (s : string) : bool := String.eqb s "keyed" || String.eqb s "collect_sorted".

Definition is_nil {A} (l : list A) : bool := match l with [] => true | _ => false end.

Definition loop_safe (r : loop_row) : bool :=
  let '(_, _, _, _, _, shapes, reasons, effects) := r in
  negb (is_nil shapes) && forallb safe_shape shapes && is_nil reasons && is_nil effects.

(* a read of the wall clock, the environment or a random source is harmless only where its value goes nowhere but
   into a telemetry call *)
Definition clock_use_safe (c : string * string * string * string * string) : bool :=
  let '(_, _, _, _, context) := c in String.eqb context "telemetry".
