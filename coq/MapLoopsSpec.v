(* The census of Go map-range loops that the model accounts for, with the reason each is harmless.
   Properties/C14.v proves that the census regenerated from /repo on every run (Generated/MapLoops.v)
   is exactly this list: a new, removed or changed loop breaks that obligation. *)
From Coq Require Import String List.
Import ListNotations.
Open Scope string_scope.

Inductive shape :=
| CollectThenSort     (* the body only appends the key to a slice that is sorted before use *)
| KeyedWrites.        (* the body only writes entries of other maps, indexed by the loop's own key *)

Definition expected_map_loops : list ((string * string * string * nat * string * list string) * shape) := [
  (("keeper", "auction.go", "AllocateSellingCoin", 0, "mInfo.AllocationMap", ["append"]), CollectThenSort);
  (("keeper", "auction.go", "RefundPayingCoin", 0, "mInfo.RefundMap", ["append"]), CollectThenSort);
  (("keeper", "match.go", "CalculateBatchAllocation", 0, "reservedAmtByBidder", ["ZeroInt"]), KeyedWrites);
  (("keeper", "match.go", "CalculateBatchAllocation", 1, "matchRes.MatchResultByBidder", ["Sub"]), KeyedWrites);
  (("types", "utils.go", "BidsByPrice", 0, "bidsByPrice", ["LegacyMustNewDecFromStr"]), CollectThenSort)
].
