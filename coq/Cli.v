(* A transcription of what cosmossdk.io/client/v2 autocli checks when it binds the module's AutoCLI options
   to the protobuf request messages at process start (flag/builder.go addMessageFlags, query.go, msg.go):
   an option must name an existing rpc method; every positional argument must name an existing field of the
   request BY ITS PROTO NAME; `optional` and `varargs` only on the last positional argument.  autocli does NOT check
   that a `varargs` argument binds a repeated field: on a single-valued field every further word overwrites the
   previous one and all but the last are silently dropped, so that is required here.  On top of
   that, what the user relies on: the i-th word in the usage line names the field the i-th argument binds. *)
From Coq Require Import String List Bool Ascii Arith.
Import ListNotations.
Open Scope string_scope.

Definition field : Type := string * string * bool.             (* proto name, kind, repeated *)
Definition positional : Type := string * bool * bool.          (* proto field, optional, varargs *)
Definition cli_option : Type := string * string * string * bool * list positional.  (* kind, rpc, use, skip, args *)
Definition service : Type := string * string * list (string * string).

Fixpoint assoc {A} (k : string) (l : list (string * A)) : option A :=
  match l with [] => None | (k', v) :: r => if String.eqb k k' then Some v else assoc k r end.

Definition request_of (svcs : list service) (kind rpc : string) : option string :=
  match find (fun s => String.eqb (fst (fst s)) kind) svcs with
  | Some (_, _, methods) => assoc rpc methods
  | None => None
  end.

Fixpoint kebab (s : string) : string :=
  match s with
  | EmptyString => EmptyString
  | String c r => String (if Ascii.eqb c "_"%char then "-"%char else c) (kebab r)
  end.

(* the words in square brackets of a usage line, in order *)
Fixpoint use_args_aux (s : string) (inside : bool) (cur : string) : list string :=
  match s with
  | EmptyString => []
  | String c r =>
      if Ascii.eqb c "["%char then use_args_aux r true EmptyString
      else if Ascii.eqb c "]"%char then (if inside then cur :: use_args_aux r false EmptyString else use_args_aux r false EmptyString)
      else if inside then use_args_aux r true (cur ++ String c EmptyString)
      else use_args_aux r false cur
  end.
Definition use_args (s : string) : list string := use_args_aux s false EmptyString.

Fixpoint list_eqb (l1 l2 : list string) : bool :=
  match l1, l2 with
  | [], [] => true
  | x :: r1, y :: r2 => String.eqb x y && list_eqb r1 r2
  | _, _ => false
  end.
Fixpoint nodup (l : list string) : bool :=
  match l with [] => true | x :: r => negb (existsb (String.eqb x) r) && nodup r end.
(* optional / varargs only in last position, never both *)
Fixpoint flags_ok (l : list positional) : bool :=
  match l with
  | [] => true
  | (_, opt, var) :: r =>
      negb (opt && var) && (match r with [] => true | _ => negb opt && negb var end) && flags_ok r
  end.

Definition binds (svcs : list service) (msgs : list (string * list field)) (o : cli_option) : bool :=
  let '(kind, rpc, use, skip, args) := o in
  match request_of svcs kind rpc with
  | None => false                                   (* option for an unknown method: autocli fails *)
  | Some req =>
      match assoc req msgs with
      | None => false
      | Some fields =>
          skip ||
          (forallb (fun a => existsb (fun f => String.eqb (fst (fst f)) (fst (fst a))) fields) args
           && flags_ok args
           && forallb (fun a => let '(n, _, var) := a in
                                negb var || existsb (fun f => String.eqb (fst (fst f)) n && snd f) fields) args
           && nodup (map (fun a => fst (fst a)) args)
           && list_eqb (use_args use) (map (fun a => kebab (fst (fst a))) args)
           && negb (String.eqb use ""))
      end
  end.

(* every rpc of the module is reachable: it has a (non-skipped) option, or it is one of the listed exceptions *)
Definition covered (svcs : list service) (opts : list cli_option) (exceptions : list (string * string)) : bool :=
  forallb (fun s =>
    let '(kind, _, methods) := s in
    forallb (fun m =>
      existsb (fun o => let '(k, rpc, _, skip, _) := o in String.eqb k kind && String.eqb rpc (fst m) && negb skip) opts
      || existsb (fun e => String.eqb (fst e) kind && String.eqb (snd e) (fst m)) exceptions) methods) svcs.

(* no two commands of one service share a name (first word of the usage line) *)
Fixpoint first_word (s : string) : string :=
  match s with
  | EmptyString => EmptyString
  | String c r => if Ascii.eqb c " "%char then EmptyString else String c (first_word r)
  end.
Definition names_distinct (opts : list cli_option) : bool :=
  nodup (map (fun o => let '(k, _, use, _, _) := o in k ++ ":" ++ first_word use)
             (filter (fun o => let '(_, _, _, skip, _) := o in negb skip) opts)).

(* what the node answers can be displayed: client/v2 renders answers with the amino JSON encoder of x/tx, whose
   field encoder "legacy_coins" (x/tx/signing/aminojson: nullSliceAsEmptyEncoder) accepts a LIST of Coin only and
   fails with "unsupported type" on a single Coin; an (amino.encoding) option this model does not know is refused *)
Definition encoding_ok (e : string * string * bool * string) : bool :=
  let '(_, enc, repeated, ty) := e in
  if String.eqb enc "legacy_coins" then repeated && String.eqb ty "cosmos.base.v1beta1.Coin"
  else String.eqb enc "".

(* what the user types is what is sent: a flag option names a field of the request, does not hide it, and carries no
   default value (a default is sent although the user typed nothing) *)
Definition flag_option_ok (svcs : list service) (msgs : list (string * list field)) (f : string * string * string * string * bool) : bool :=
  let '(kind, rpc, field, default, hidden) := f in
  String.eqb default "" && negb hidden &&
  match request_of svcs kind rpc with
  | Some req => match assoc req msgs with
                | Some fields => existsb (fun x => String.eqb (fst (fst x)) field) fields
                | None => false
                end
  | None => false
  end.
