(* Extraction of the executable model to OCaml.  ExtrOcamlBasic only: bool, option, unit, list,
   prod, sumbool, sumor and comparison map to the OCaml types; Z, N, positive and nat stay the
   Coq datatypes.  No Extract Constant. *)
From Coq Require Import ExtrOcamlBasic.
From Coq Require Import ZArith NArith List.
From FR Require Import Dec Types Bank Match Step Genesis Model Spec Checkers.
Extraction Language OCaml.
Extraction "model.ml" step run_query run model_trans failing all_checks clearing_spec selling_pool_b paying_pool_b vesting_pool_b c09_live.
