(* Executable statements of the properties C01..C19 over one observed transition.
   The theorems (Properties/) say that they hold of every transition of the model from a state
   satisfying the invariant; the driver evaluates the same (extracted) functions on the
   implementation's own transitions, where a [false] is a concrete failing input. *)
From Coq Require Import ZArith NArith List Bool Arith.
From FR Require Import Dec Types Bank Match Step Genesis Model Spec.
Import ListNotations.
Open Scope Z_scope.

Inductive oclass := KOk | KRej | KBlockOk | KBlockErr | KPanic | KGenOk | KGenErr | KDone.
Definition oclass_eqb (x y : oclass) : bool :=
  match x, y with
  | KOk, KOk | KRej, KRej | KBlockOk, KBlockOk | KBlockErr, KBlockErr | KPanic, KPanic
  | KGenOk, KGenOk | KGenErr, KGenErr | KDone, KDone => true
  | _, _ => false end.

Record trans := {
  t_pre : state; t_op : op; t_class : oclass;
  t_xfers : list xfer;          (* bank transfers committed by the operation, in order *)
  t_trace : list hookcall;      (* hook calls made by the operation, in order *)
  t_post : state;
  t_fault : bool;               (* an injected bank failure fired during the operation *)
  t_gen_valid : bool            (* GENESIS: the exported genesis passed Validate *)
}.

Definition class_of (o : outcome) : oclass :=
  match o with
  | Accepted => KOk | Rejected _ => KRej | BlockOk => KBlockOk
  | BlockErr c => if N.eqb c E_PANIC then KPanic else KBlockErr
  | GenOk _ => KGenOk | GenFail => KGenErr | Done => KDone
  end.

(* the transition the model makes *)
Definition model_trans (s : state) (o : op) : trans :=
  let s0 := with_trace (with_bank s (st_bal s) []) [] in
  let '(out, s') := step s0 o in
  {| t_pre := s; t_op := o; t_class := class_of out; t_xfers := st_xfers s'; t_trace := st_trace s';
     t_post := s';
     t_fault := match out, o with BlockErr c, OFaultBlock _ _ _ => N.eqb c E_FAULT | _, _ => false end;
     t_gen_valid := match out with GenOk v => v | _ => false end |}.

(* ---------------------------------------------------------------- helpers *)
Definition zeqb_list (l1 l2 : list Z) : bool :=
  Nat.eqb (length l1) (length l2) && forallb (fun p => fst p =? snd p) (combine l1 l2).
Definition sched_eqb (x y : sched) : bool := (s_time x =? s_time y) && (s_weight x =? s_weight y).
Fixpoint list_eqb {A} (eqb : A -> A -> bool) (l1 l2 : list A) : bool :=
  match l1, l2 with
  | [], [] => true
  | x :: r1, y :: r2 => eqb x y && list_eqb eqb r1 r2
  | _, _ => false
  end.
Definition auction_terms_eqb (x y : auction) : bool :=
  N.eqb (a_id x) (a_id y) && atype_eqb (a_type x) (a_type y) && N.eqb (a_auctioneer x) (a_auctioneer y)
  && Bool.eqb (a_upper x) (a_upper y) && (a_start_price x =? a_start_price y)
  && N.eqb (a_sell_denom x) (a_sell_denom y) && (a_sell_amt x =? a_sell_amt y)
  && N.eqb (a_pay_denom x) (a_pay_denom y) && list_eqb sched_eqb (a_scheds x) (a_scheds y)
  && (a_start x =? a_start y) && (first_end x =? first_end y)
  && (a_min_price x =? a_min_price y) && N.eqb (a_max_round x) (a_max_round y) && (a_rate x =? a_rate y).
Definition auction_eqb (x y : auction) : bool :=
  auction_terms_eqb x y && status_eqb (a_status x) (a_status y) && list_eqb Z.eqb (a_ends x) (a_ends y)
  && (a_remaining x =? a_remaining y) && (a_matched_price x =? a_matched_price y).
Definition bid_eqb (x y : bid) : bool :=
  N.eqb (b_auction x) (b_auction y) && N.eqb (b_id x) (b_id y) && N.eqb (b_bidder x) (b_bidder y)
  && btype_eqb (b_type x) (b_type y) && (b_price x =? b_price y) && N.eqb (b_denom x) (b_denom y)
  && (b_amt x =? b_amt y) && Bool.eqb (b_matched x) (b_matched y).
Definition allowed_eqb (x y : allowed) : bool :=
  N.eqb (al_auction x) (al_auction y) && N.eqb (al_bidder x) (al_bidder y) && (al_max x =? al_max y).
Definition vq_eqb (x y : vq) : bool :=
  N.eqb (v_auction x) (v_auction y) && (v_time x =? v_time y) && N.eqb (v_auctioneer x) (v_auctioneer y)
  && N.eqb (v_denom x) (v_denom y) && (v_amt x =? v_amt y) && Bool.eqb (v_released x) (v_released y).
Definition coins_eqb (x y : coins) : bool :=
  list_eqb (fun a b => N.eqb (fst a) (fst b) && (snd a =? snd b)) x y.

(* equality of the module's collections as sets (store order is canonical) *)
Definition same_bids (l1 l2 : list bid) : bool := list_eqb bid_eqb (sort_by bid_le l1) (sort_by bid_le l2).
Definition same_allowed (l1 l2 : list allowed) : bool := list_eqb allowed_eqb (sort_by allowed_le l1) (sort_by allowed_le l2).
Definition same_vqs (l1 l2 : list vq) : bool := list_eqb vq_eqb (sort_by vq_le l1) (sort_by vq_le l2).

Definition n_users : N := 6.
Definition users : list N := ids_upto n_users.
Definition roles : list role := [Selling; Paying; Vesting].
(* every account a history of the harness can touch *)
Definition accounts (s : state) : list addr :=
  map User users ++ [Pool]
  ++ flat_map (fun a => map (fun r => Escrow r a) roles) (ids_upto (st_aseq s + 2)).

Definition module_state_eqb (s1 s2 : state) : bool :=
  list_eqb auction_eqb (st_auctions s1) (st_auctions s2)
  && same_bids (st_bids s1) (st_bids s2) && same_allowed (st_allowed s1) (st_allowed s2)
  && same_vqs (st_vqs s1) (st_vqs s2) && N.eqb (st_aseq s1) (st_aseq s2)
  && forallb (fun a => N.eqb (st_bseq s1 a) (st_bseq s2 a) && (st_mlen s1 a =? st_mlen s2 a)) (ids_upto (st_aseq s1 + 3))
  && coins_eqb (p_cfee (st_params s1)) (p_cfee (st_params s2))
  && coins_eqb (p_bfee (st_params s1)) (p_bfee (st_params s2))
  && (p_period (st_params s1) =? p_period (st_params s2)).
Definition balances_eqb (s1 s2 : state) : bool :=
  forallb (fun a => forallb (fun d => st_bal s1 a d =? st_bal s2 a d) denoms) (accounts s2).

Definition is_open (st : status) : bool := status_eqb st StandBy || status_eqb st Started.
Definition settled (st : status) : bool := status_eqb st VestingS || status_eqb st Finished.

(* auctions of the pre-state paired with their record in the post-state *)
Definition paired (t : trans) : list (auction * auction) :=
  flat_map (fun a => match find_auction (t_post t) (a_id a) with Some a' => [(a, a')] | None => [] end)
           (st_auctions (t_pre t)).
(* the batch / fixed price auctions that this transition settles *)
Definition settling (t : trans) : list (auction * auction) :=
  filter (fun p => status_eqb (a_status (fst p)) Started && settled (a_status (snd p))) (paired t).

Definition is_block (o : op) : bool := match o with OBlock _ _ | OFaultBlock _ _ _ => true | _ => false end.
Definition block_time (o : op) : Z := match o with OBlock t _ | OFaultBlock t _ _ => t | _ => 0 end.

Definition sum_xfers (xs : list xfer) (p : xfer -> bool) : Z := sumZ (map x_amt (filter p xs)).
Definition from_to (f g : addr) (d : N) (x : xfer) : bool :=
  addr_eqb (x_from x) f && addr_eqb (x_to x) g && N.eqb (x_denom x) d.

(* ---------------------------------------------------------------- C01 escrows *)
(* what the module's records owe out of an escrow account *)
Definition owed (s : state) (r : role) (id : N) (d : N) : Z :=
  match find_auction s id with
  | None => 0
  | Some a =>
      match r with
      | Selling => if N.eqb d (a_sell_denom a) && is_open (a_status a) then a_sell_amt a else 0
      | Paying => if N.eqb d (a_pay_denom a) && status_eqb (a_status a) Started
                  then sumZ (map (pay_amount (a_pay_denom a)) (bids_of s id)) else 0
      | Vesting => if N.eqb d (a_pay_denom a) && status_eqb (a_status a) VestingS
                   then sumZ (map v_amt (filter (fun v => negb (v_released v)) (vqs_of s id))) else 0
      end
  end.
(* coins in an escrow beyond what is owed: third-party deposits not yet swept *)
Definition excess (s : state) (r : role) (id : N) (d : N) : Z := st_bal s (Escrow r id) d - owed s r id d.

(* does this transition sweep the escrow (r, id) in denom d?  selling: when the auction leaves
   stand-by/started; paying: when it settles *)
Definition sweeps (t : trans) (r : role) (id : N) (d : N) : bool :=
  match find_auction (t_pre t) id, find_auction (t_post t) id with
  | Some a, Some a' =>
      match r with
      | Selling => N.eqb d (a_sell_denom a) && is_open (a_status a) && negb (is_open (a_status a'))
      | Paying => N.eqb d (a_pay_denom a) && status_eqb (a_status a) Started && settled (a_status a')
      | Vesting => false
      end
  | _, _ => false
  end.
Definition donated (t : trans) (r : role) (id : N) (d : N) : Z :=
  match t_op t, t_class t with
  | OSend _ to d' amt, KOk => if addr_eqb to (Escrow r id) && N.eqb d d' then amt else 0
  | _, _ => 0
  end.
(* proceeds swept from the paying escrow land in the vesting escrow as instalments; deposits swept with
   them become part of the instalments, so the vesting escrow's excess does not change either *)
Definition c01_ok (t : trans) : bool :=
  forallb (fun id => forallb (fun r => forallb (fun d =>
      let e0 := excess (t_pre t) r id d in
      let e1 := excess (t_post t) r id d in
      (0 <=? e1) &&
      (if sweeps t r id d then e1 =? 0 else e1 =? e0 + donated t r id d))
    denoms) roles) (ids_upto (st_aseq (t_post t) + 2)).

(* the module's own three invariants (keeper/invariants.go), as executable predicates over a state; [true] = holds.
   The harness calls the Go functions on every state it reaches and the driver compares their verdicts with these *)
Definition selling_pool_b (s : state) : bool :=
  forallb (fun a => negb (status_eqb (a_status a) Started)
                    || (a_sell_amt a <=? st_bal s (Escrow Selling (a_id a)) (a_sell_denom a))) (st_auctions s).
Definition paying_pool_b (s : state) : bool :=
  forallb (fun a => (if status_eqb (a_status a) Started
                     then sumZ (map (pay_amount (a_pay_denom a)) (bids_of s (a_id a))) else 0)
                    <=? st_bal s (Escrow Paying (a_id a)) (a_pay_denom a)) (st_auctions s).
Definition vesting_pool_b (s : state) : bool :=
  forallb (fun a => (if status_eqb (a_status a) VestingS
                     then sumZ (map v_amt (filter (fun v => negb (v_released v)) (vqs_of s (a_id a)))) else 0)
                    <=? st_bal s (Escrow Vesting (a_id a)) (a_pay_denom a)) (st_auctions s).
Definition module_invariants_b (s : state) : bool := selling_pool_b s && paying_pool_b s && vesting_pool_b s.
Definition c01_mi (t : trans) : bool := module_invariants_b (t_post t).
Definition c01_all (t : trans) : bool := c01_ok t && c01_mi t.

(* ---------------------------------------------------------------- C02 zero sum, charges *)
Definition delta (t : trans) (a : addr) (d : N) : Z := st_bal (t_post t) a d - st_bal (t_pre t) a d.
Definition zero_sum (t : trans) : bool :=
  forallb (fun d => sumZ (map (fun a => delta t a d) (accounts (t_post t))) =? 0) denoms.
(* the balance change is exactly what the recorded transfers say *)
Definition net (xs : list xfer) (a : addr) (d : N) : Z :=
  sum_xfers xs (fun x => addr_eqb (x_to x) a && N.eqb (x_denom x) d)
  - sum_xfers xs (fun x => addr_eqb (x_from x) a && N.eqb (x_denom x) d).
Definition deltas_are_transfers (t : trans) : bool :=
  forallb (fun a => forallb (fun d => delta t a d =? net (t_xfers t) a d) denoms) (accounts (t_post t)).

Definition coins_amount (cs : coins) (d : N) : Z := sumZ (map snd (filter (fun c => N.eqb (fst c) d) cs)).
(* what an accepted message may take from its signer, per denomination (documented fee + reservation) *)
Definition advertised_charge (t : trans) (u : N) (d : N) : Z :=
  match t_op t with
  | OTx m =>
      match check_basic m with
      | Some (CCreateFixed v _ _ sd samt _ _ _ _) | Some (CCreateBatch v _ _ _ sd samt _ _ _ _ _ _) =>
          if N.eqb u v then coins_amount (p_cfee (st_params (t_pre t))) d + (if N.eqb d sd then samt else 0) else 0
      | Some (CPlaceBid v id bt price bd amt) =>
          match find_auction (t_pre t) id with
          | Some a =>
              if N.eqb u v then
                coins_amount (p_bfee (st_params (t_pre t))) d
                + (if N.eqb d (a_pay_denom a)
                   then pay_amount (a_pay_denom a) {| b_auction := id; b_id := 0; b_bidder := v; b_type := bt;
                          b_price := price; b_denom := bd; b_amt := amt; b_matched := false |} else 0)
              else 0
          | None => 0
          end
      | Some (CModifyBid v id bid_id price bd amt) =>
          match find_auction (t_pre t) id, find_bid (t_pre t) id bid_id with
          | Some a, Some b =>
              if N.eqb u v && N.eqb d (a_pay_denom a)
              then Z.max 0 (pay_amount (a_pay_denom a) (set_b_terms b price amt) - pay_amount (a_pay_denom a) b) else 0
          | _, _ => 0
          end
      | _ => 0
      end
  | OSend from _ d' amt => if N.eqb u from && N.eqb d d' then amt else 0
  | _ => 0
  end.
(* nothing leaves a user's account except, for the signer of an accepted message, exactly the advertised
   amount; whatever a user receives comes on top *)
Definition c02_charges (t : trans) : bool :=
  forallb (fun u => forallb (fun d =>
      let out := sum_xfers (t_xfers t) (fun x => addr_eqb (x_from x) (User u) && N.eqb (x_denom x) d) in
      if oclass_eqb (t_class t) KOk then out =? advertised_charge t u d else out =? 0)
    denoms) users.
Definition c02_ok (t : trans) : bool := zero_sum t && deltas_are_transfers t && c02_charges t.

(* ---------------------------------------------------------------- C03 clearing price (declarative spec) *)
Definition received (t : trans) (id : N) (d : N) (u : N) : Z :=
  sum_xfers (t_xfers t) (from_to (Escrow Selling id) (User u) d).
Definition refunded (t : trans) (id : N) (d : N) (u : N) : Z :=
  sum_xfers (t_xfers t) (from_to (Escrow Paying id) (User u) d).

Definition c03_ok (t : trans) : bool :=
  forallb (fun p =>
    let a := fst p in let a' := snd p in
    match a_type a with
    | FixedPrice => true
    | Batch =>
        let bs := bids_of (t_pre t) (a_id a) in
        let al := allowed_of (t_pre t) (a_id a) in
        forallb (fun u =>
           (* the auctioneer may also be a bidder: what it gets back as unsold is not an allocation *)
           N.eqb u (a_auctioneer a) ||
           (received t (a_id a) (a_sell_denom a) u =? spec_alloc bs al (a_sell_amt a) u)) users
        && (a_matched_price a' =? match clearing_spec bs al (a_sell_amt a) with Some p => p | None => 0 end)
    end) (settling t).

(* ---------------------------------------------------------------- C04 prices paid *)
Definition c04_batch (t : trans) : bool :=
  forallb (fun p =>
    let a := fst p in let a' := snd p in
    match a_type a with
    | FixedPrice => true
    | Batch =>
        let id := a_id a in
        let bs := bids_of (t_pre t) id in
        let bs' := bids_of (t_post t) id in
        let price := a_matched_price a' in
        forallb (fun u =>
          N.eqb u (a_auctioneer a) ||
          let reserved := reserved_of (a_pay_denom a) bs u in
          let refund := refunded t id (a_pay_denom a) u in
          let got := received t id (a_sell_denom a) u in
          let paid := reserved - refund in
          let nmatched := Z.of_nat (length (filter (fun b => N.eqb (b_bidder b) u && b_matched b) bs')) in
          (0 <=? refund) && (paid <=? reserved)
          && (if got =? 0 then refund =? reserved
              else (price * got <=? paid * P) && (paid * P <? price * got + nmatched * P))
          && forallb (fun b => negb (N.eqb (b_bidder b) u && b_matched b) || (price <=? b_price b)) bs') users
    end) (settling t).
(* fixed price: each accepted bid pays the fixed price for what it takes, rounding in the auctioneer's favour *)
Definition c04_fixed (t : trans) : bool :=
  match t_op t, t_class t with
  | OTx m, KOk =>
      match check_basic m with
      | Some (CPlaceBid u id BFixed price d amt) =>
          match find_auction (t_pre t) id, find_auction (t_post t) id with
          | Some a, Some a' =>
              let q := a_remaining a - a_remaining a' in
              let r := sum_xfers (t_xfers t) (from_to (User u) (Escrow Paying id) (a_pay_denom a)) in
              let p := a_start_price a in
              if N.eqb d (a_pay_denom a)
              then (r =? amt) && (q * p <=? amt * P) && (amt * P <? (q + 1) * p)
              else (q =? amt) && (amt * p <=? r * P) && (r * P <? amt * p + P)
          | _, _ => true
          end
      | _ => true
      end
  | _, _ => true
  end.
Definition c04_ok (t : trans) : bool := c04_batch t && c04_fixed t.

(* ---------------------------------------------------------------- C05 caps, requests, supply *)
Definition c05_ok (t : trans) : bool :=
  (* at settlement *)
  forallb (fun p =>
    let a := fst p in
    let id := a_id a in
    let bs := bids_of (t_pre t) id in
    let al := allowed_of (t_pre t) id in
    let others := filter (fun u => negb (N.eqb u (a_auctioneer a))) users in
    (sumZ (map (received t id (a_sell_denom a)) others) <=? a_sell_amt a)
    && forallb (fun u =>
         let got := received t id (a_sell_denom a) u in
         match a_type a with
         | Batch =>
             (got <=? cap_of al u)
             && (got <=? sumZ (map (fun b => bid_qty_at b (a_matched_price (snd p)))
                                   (filter (fun b => N.eqb (b_bidder b) u) bs)))
         | FixedPrice =>
             got =? sumZ (map (sell_amount (a_pay_denom a)) (filter (fun b => N.eqb (b_bidder b) u) bs))
         end) others) (settling t)
  (* at the acceptance of a fixed price bid: everything the bidder has bid for so far fits the allowance *)
  && match t_op t, t_class t with
     | OTx m, KOk =>
         match check_basic m with
         | Some (CPlaceBid u id BFixed _ _ _) =>
             match find_auction (t_post t) id with
             | Some a' =>
                 sumZ (map (sell_amount (a_pay_denom a')) (filter (fun b => N.eqb (b_bidder b) u) (bids_of (t_post t) id)))
                 <=? cap_of (allowed_of (t_pre t) id) u
             | None => false
             end
         | _ => true
         end
     | _, _ => true
     end.

(* ---------------------------------------------------------------- C06 fixed price: exact remainder, exact acceptance *)
Definition remaining_ok (s : state) : bool :=
  forallb (fun a =>
    match a_type a with
    | Batch => true
    | FixedPrice =>
        if status_eqb (a_status a) Cancelled then a_remaining a =? 0
        else (a_remaining a =? a_sell_amt a - sumZ (map (sell_amount (a_pay_denom a)) (bids_of s (a_id a))))
             && (0 <=? a_remaining a)
    end) (st_auctions s).

Definition c06_ok (t : trans) : bool :=
  remaining_ok (t_post t)
  && match t_op t with
     | OTx m =>
         match check_basic m with
         | Some (CPlaceBid u id BFixed price d amt) =>
             match find_auction (t_pre t) id with
             | Some a =>
                 match a_type a with
                 | FixedPrice =>
                     Bool.eqb (oclass_eqb (t_class t) KOk)
                              (fixed_bid_precond (t_pre t) u id price d amt && no_veto (t_pre t) H_BeforeBidPlaced)
                 | Batch => true
                 end
             | None => true
             end
         | _ => true
         end
     | _ => true
     end
  (* earlier bids are never displaced: no operation changes a recorded fixed price bid's terms *)
  && forallb (fun b => match b_type b with
                       | BFixed => existsb (fun b' => bid_eqb b b') (st_bids (t_post t))
                       | _ => true end) (st_bids (t_pre t)).

(* ---------------------------------------------------------------- C07 blocks never fail, never hide a failure *)
Definition vetoed (s : state) (tr : list hookcall) : bool :=
  existsb (fun h => match nth_error (st_listeners s) (N.to_nat (h_listener h)) with
                    | Some l => existsb (N.eqb (h_kind h)) l | None => false end) tr.
Definition c07_ok (t : trans) : bool :=
  if is_block (t_op t) then
    if t_fault t || vetoed (t_pre t) (t_trace t)
    then negb (oclass_eqb (t_class t) KBlockOk)          (* a failure is reported *)
    else oclass_eqb (t_class t) KBlockOk                  (* no failure without a cause *)
  else true.

(* ---------------------------------------------------------------- C08 lifecycle *)
Definition all_released (s : state) (id : N) : bool := forallb v_released (vqs_of s id).
Definition c08_ok (t : trans) : bool :=
  forallb (fun p =>
    let a := fst p in let a' := snd p in
    forward (a_status a) (a_status a')
    && (if is_block (t_op t) && oclass_eqb (t_class t) KBlockOk then
          let tm := block_time (t_op t) in
          match a_status a with
          | StandBy => Bool.eqb (status_eqb (a_status a') Started) (a_start a <=? tm) && forward (a_status a) (a_status a')
                       && negb (status_eqb (a_status a') Cancelled)
          | Started => Bool.eqb (settled (a_status a') || negb (list_eqb Z.eqb (a_ends a) (a_ends a'))) (last_end a <=? tm)
          | VestingS => Bool.eqb (status_eqb (a_status a') Finished)
                                 (match rev (vqs_of (t_pre t) (a_id a)) with
                                  | v :: _ => negb (v_released v) && (v_time v <=? tm) | [] => false end)
          | _ => true
          end
        else
          (* outside block processing a status only changes by cancellation *)
          status_eqb (a_status a) (a_status a')
          || (status_eqb (a_status a) StandBy && status_eqb (a_status a') Cancelled
              && match t_op t with OTx (MCancel _ id) => N.eqb id (a_id a) | _ => false end))) (paired t)
  && Nat.leb (length (st_auctions (t_pre t))) (length (paired t))
  (* a new auction is open at creation exactly when its start time has passed *)
  && forallb (fun a' => match find_auction (t_pre t) (a_id a') with
                        | Some _ => true
                        | None => match t_op t with
                                  | OGenesis => true
                                  | _ => status_eqb (a_status a') (if a_start a' <=? st_now (t_pre t) then Started else StandBy)
                                  end
                        end) (st_auctions (t_post t))
  (* bids and modifications only while open *)
  && match t_op t, t_class t with
     | OTx (MPlaceBid _ id _ _ _), KOk | OTx (MModifyBid _ id _ _ _), KOk =>
         match find_auction (t_pre t) id with Some a => status_eqb (a_status a) Started | None => false end
     | _, _ => true
     end.

(* ---------------------------------------------------------------- C09 vesting *)
Definition c09_ok (t : trans) : bool :=
  (* at settlement: the instalments are the weight shares of what went into the vesting escrow *)
  forallb (fun p =>
    let a := fst p in
    let id := a_id a in
    let proceeds_vest := sum_xfers (t_xfers t) (from_to (Escrow Paying id) (Escrow Vesting id) (a_pay_denom a)) in
    let proceeds_direct := sum_xfers (t_xfers t) (from_to (Escrow Paying id) (User (a_auctioneer a)) (a_pay_denom a)) in
    let new_vqs := vqs_of (t_post t) id in
    (* all that the paying escrow held and did not refund is the proceeds *)
    let bidders_refund := sumZ (map (refunded t id (a_pay_denom a)) (filter (fun u => negb (N.eqb u (a_auctioneer a))) users)) in
    match a_scheds a with
    | [] => (length new_vqs =? 0)%nat && status_eqb (a_status (snd p)) Finished && (proceeds_vest =? 0)
            && (st_bal (t_post t) (Escrow Paying id) (a_pay_denom a) =? 0)
    | vs =>
        status_eqb (a_status (snd p)) VestingS
        && zeqb_list (map v_amt new_vqs) (spec_split proceeds_vest (map s_weight vs) 0)
        && zeqb_list (map v_time new_vqs) (map s_time vs)
        && forallb (fun v => negb (v_released v) && N.eqb (v_auctioneer v) (a_auctioneer a) && N.eqb (v_denom v) (a_pay_denom a)
                             && (0 <=? v_amt v)) new_vqs
        && (sumZ (map v_amt new_vqs) =? proceeds_vest)
        && (st_bal (t_post t) (Escrow Paying id) (a_pay_denom a) =? 0)
        && (0 <=? bidders_refund + proceeds_direct)
    end) (settling t)
  (* every block: exactly the due unreleased instalments of vesting auctions are paid, once *)
  && forallb (fun p =>
       let a := fst p in
       let id := a_id a in
       if status_eqb (a_status a) VestingS then
         let before := vqs_of (t_pre t) id in
         let after := vqs_of (t_post t) id in
         let due := if is_block (t_op t) && oclass_eqb (t_class t) KBlockOk
                    then filter (fun v => negb (v_released v) && (v_time v <=? block_time (t_op t))) before else [] in
         (length before =? length after)%nat
         && forallb (fun pr => let v := fst pr in let v' := snd pr in
               vq_eqb (set_v_released v (v_released v || existsb (fun x => v_time x =? v_time v) due)) v')
             (combine before after)
         && zeqb_list (map x_amt (filter (fun x => addr_eqb (x_from x) (Escrow Vesting id)) (t_xfers t)))
                      (filter (fun z => negb (z =? 0)) (map v_amt due))
         && forallb (fun x => negb (addr_eqb (x_from x) (Escrow Vesting id))
                              || (addr_eqb (x_to x) (User (a_auctioneer a)) && N.eqb (x_denom x) (a_pay_denom a))) (t_xfers t)
       else true) (paired t).

(* ---------------------------------------------------------------- C10 allow-list *)
Definition c10_ok (t : trans) : bool :=
  (* a bid that this transition records belongs to an account the allow-list contained at that moment *)
  forallb (fun b => existsb (fun b0 => N.eqb (b_auction b0) (b_auction b) && N.eqb (b_id b0) (b_id b)) (st_bids (t_pre t))
                    || match t_op t with
                       | OGenesis => true
                       | _ => match find_allowed (t_pre t) (b_auction b) (b_bidder b) with Some _ => true | None => false end
                       end) (st_bids (t_post t))
  (* with the switch off no transaction touches the allow-list *)
  && match t_op t with
     | OTx _ => st_switch (t_pre t) || same_allowed (st_allowed (t_pre t)) (st_allowed (t_post t))
     | _ => true
     end
  && match t_op t, t_class t with
     | OTx (MAddAllowed _ _ _ _), KOk => st_switch (t_pre t)
     | _, _ => true
     end.

(* ---------------------------------------------------------------- C11 bids only grow *)
Definition c11_ok (t : trans) : bool :=
  match t_op t with
  | OTx m =>
      match check_basic m with
      | Some (CModifyBid u id bid_id price d amt) =>
          Bool.eqb (oclass_eqb (t_class t) KOk)
                   (modify_precond (t_pre t) u id bid_id price d amt && no_veto (t_pre t) H_BeforeBidModified)
          && (if oclass_eqb (t_class t) KOk then
                match find_auction (t_pre t) id, find_bid (t_pre t) id bid_id, find_bid (t_post t) id bid_id with
                | Some a, Some b, Some b' =>
                    bid_eqb b' (set_b_terms b price amt)
                    && (sum_xfers (t_xfers t) (fun x => addr_eqb (x_from x) (User u))
                        =? pay_amount (a_pay_denom a) b' - pay_amount (a_pay_denom a) b)
                    && (sum_xfers (t_xfers t) (from_to (User u) (Escrow Paying id) (a_pay_denom a))
                        =? pay_amount (a_pay_denom a) b' - pay_amount (a_pay_denom a) b)
                | _, _, _ => false
                end
              else true)
      | _ => true
      end
  | _ => true
  end
  (* no operation removes a bid, changes its identity, or lowers its price, amount or reservation *)
  && forallb (fun b =>
       match t_op t with
       | OGenesis => true
       | _ =>
         match find_bid (t_post t) (b_auction b) (b_id b), find_auction (t_pre t) (b_auction b) with
         | Some b', Some a =>
             N.eqb (b_bidder b') (b_bidder b) && btype_eqb (b_type b') (b_type b) && N.eqb (b_denom b') (b_denom b)
             && (b_price b <=? b_price b') && (b_amt b <=? b_amt b')
             && (pay_amount (a_pay_denom a) b <=? pay_amount (a_pay_denom a) b')
             && (match t_op t with
                 | OTx (MModifyBid _ id i _ _) => (N.eqb id (b_auction b) && N.eqb i (b_id b)) || ((b_price b =? b_price b') && (b_amt b =? b_amt b'))
                 | _ => (b_price b =? b_price b') && (b_amt b =? b_amt b')
                 end)
         | _, _ => false
         end
       end) (st_bids (t_pre t)).

(* ---------------------------------------------------------------- C12 cancellation *)
Definition c12_ok (t : trans) : bool :=
  match t_op t with
  | OTx (MCancel who id) =>
      match who with
      | ABad => oclass_eqb (t_class t) KRej
      | AGood _ u =>
          match find_auction (t_pre t) id with
          | None => oclass_eqb (t_class t) KRej
          | Some a =>
              Bool.eqb (oclass_eqb (t_class t) KOk)
                       (N.eqb u (a_auctioneer a) && status_eqb (a_status a) StandBy && no_veto (t_pre t) H_BeforeCanceled)
              && (if oclass_eqb (t_class t) KOk then
                    match find_auction (t_post t) id with
                    | Some a' =>
                        status_eqb (a_status a') Cancelled && (a_remaining a' =? 0)
                        && (st_bal (t_post t) (Escrow Selling id) (a_sell_denom a) =? 0)
                        && (sum_xfers (t_xfers t) (from_to (Escrow Selling id) (User (a_auctioneer a)) (a_sell_denom a))
                            =? st_bal (t_pre t) (Escrow Selling id) (a_sell_denom a))
                        && (a_sell_amt a <=? st_bal (t_pre t) (Escrow Selling id) (a_sell_denom a))
                        && (length (t_xfers t) <=? 1)%nat
                    | None => false
                    end
                  else true)
          end
      end
  | _ => true
  end
  (* a cancelled auction stays cancelled (also covered by C08) *)
  && forallb (fun p => negb (status_eqb (a_status (fst p)) Cancelled) || auction_eqb (fst p) (snd p)) (paired t).

(* ---------------------------------------------------------------- C13 extended rounds *)
(* comparisons of a number of end times with (maximum number of extended rounds + 1), done on N: the maximum is data
   (a message may ask for 2^32-1 rounds) and must never be turned into a unary number *)
Definition ends_le (n : nat) (m : N) : bool := N.leb (N.of_nat n) (m + 1).
Definition ends_eq (n : nat) (m : N) : bool := N.eqb (m + 1) (N.of_nat n).
Definition c13_ok (t : trans) : bool :=
  forallb (fun p =>
    let a := fst p in let a' := snd p in
    let n := length (a_ends a) in
    (* bounded, and end times only ever grow by appending *)
    ends_le (length (a_ends a')) (a_max_round a')
    && list_eqb Z.eqb (a_ends a) (firstn n (a_ends a'))
    && Nat.leb (length (a_ends a')) (S n)
    && match a_type a with
       | FixedPrice => (length (a_ends a') =? n)%nat
       | Batch =>
           if is_block (t_op t) && oclass_eqb (t_class t) KBlockOk && status_eqb (a_status a) Started
              && (last_end a <=? block_time (t_op t)) then
             let last_len := st_mlen (t_pre t) (a_id a) in
             let cur := st_mlen (t_post t) (a_id a) in
             let must_extend :=
               if ends_eq n (a_max_round a) then false
               else if last_len =? 0 then true
               else extend_rule cur last_len (a_rate a) in
             if must_extend then
               status_eqb (a_status a') Started
               && list_eqb Z.eqb (a_ends a') (a_ends a ++ [last_end a + p_period (st_params (t_pre t)) * day_ns])
             else settled (a_status a') && (length (a_ends a') =? n)%nat
           else (length (a_ends a') =? n)%nat
       end) (paired t)
  && forallb (fun a' => ends_le (length (a_ends a')) (a_max_round a') && Nat.leb 1 (length (a_ends a'))
                        && N.leb (a_max_round a') MaxExtendedRound) (st_auctions (t_post t)).

(* the count of matched bids that the anti-sniping rule compares with ("the matching at the previous end time") is
   recorded by blocks only: no message, allow-list call, transfer or listener change may alter it *)
Definition c13_count (t : trans) : bool :=
  match t_op t with
  | OBlock _ _ | OFaultBlock _ _ _ | OGenesis => true
  | _ => forallb (fun id => st_mlen (t_post t) id =? st_mlen (t_pre t) id) (ids_upto (st_aseq (t_post t) + 2))
  end.
Definition c13_all (t : trans) : bool := c13_ok t && c13_count t.

(* ---------------------------------------------------------------- C15 genesis round trip *)
Definition c15_ok (t : trans) : bool :=
  match t_op t with
  | OGenesis => oclass_eqb (t_class t) KGenOk && t_gen_valid t && module_state_eqb (t_pre t) (t_post t)
                && balances_eqb (t_pre t) (t_post t)
  | _ => true
  end.

(* ---------------------------------------------------------------- C16 published results *)
Definition c16_ok (t : trans) : bool :=
  forallb (fun p =>
    let a := fst p in let a' := snd p in
    let id := a_id a in
    let bs' := bids_of (t_post t) id in
    match a_type a with
    | Batch =>
        (* a bidder holds a matched bid exactly when it received coins; matched bids are priced at or above the
           published price; the recorded count is the number of flags *)
        forallb (fun u => N.eqb u (a_auctioneer a) ||
                          Bool.eqb (existsb (fun b => N.eqb (b_bidder b) u && b_matched b) bs')
                                   (0 <? received t id (a_sell_denom a) u)) users
        && forallb (fun b => negb (b_matched b) || (a_matched_price a' <=? b_price b)) bs'
        && (st_mlen (t_post t) id =? Z.of_nat (length (filter b_matched bs')))
        && Bool.eqb (a_matched_price a' =? 0) (forallb (fun b => negb (b_matched b)) bs')
    | FixedPrice =>
        forallb (fun b => Bool.eqb (b_matched b) (0 <? sell_amount (a_pay_denom a) b)) bs'
    end) (settling t)
  (* an instalment is flagged released exactly when it has been paid: the instalments that become released in
     this operation are, in order, the transfers out of the vesting escrow; a flag is never cleared *)
  && forallb (fun id =>
       let newly := filter (fun v' =>
                      v_released v' &&
                      match find (fun v => N.eqb (v_auction v) (v_auction v') && (v_time v =? v_time v')) (st_vqs (t_pre t)) with
                      | Some v => negb (v_released v)
                      | None => true
                      end) (vqs_of (t_post t) id) in
       match t_op t with
       | OGenesis => true
       | _ =>
         zeqb_list (filter (fun z => negb (z =? 0)) (map v_amt newly))
                   (map x_amt (filter (fun x => addr_eqb (x_from x) (Escrow Vesting id)) (t_xfers t)))
         && forallb (fun v => match find (fun v' => N.eqb (v_auction v) (v_auction v') && (v_time v =? v_time v')) (st_vqs (t_post t)) with
                              | Some v' => negb (v_released v) || v_released v'
                              | None => false
                              end) (vqs_of (t_pre t) id)
       end) (ids_upto (st_aseq (t_post t) + 1)).

(* ---------------------------------------------------------------- C17 hooks *)
(* the hook calls an accepted operation must have made, from the records it left behind *)
Definition enc_auction_args (a : auction) : list Z :=
  enc_addr_str (AGood (a_upper a) (a_auctioneer a))
  ++ match a_type a with
     | FixedPrice => [a_start_price a; zN (a_sell_denom a); a_sell_amt a; zN (a_pay_denom a)]
     | Batch => [a_start_price a; a_min_price a; zN (a_sell_denom a); a_sell_amt a; zN (a_pay_denom a)]
     end
  ++ enc_scheds (a_scheds a)
  ++ match a_type a with
     | FixedPrice => [a_start a; first_end a]
     | Batch => [zN (a_max_round a); a_rate a; a_start a; first_end a]
     end.
Definition enc_bid_args (b : bid) : list Z :=
  [zN (b_auction b); zN (b_id b); zN (b_bidder b); enc_btype (b_type b); b_price b; zN (b_denom b); b_amt b].

Definition expected_hooks (t : trans) : list (N * list Z) :=
  match t_op t with
  | OTx m =>
      match check_basic m with
      | Some (CCreateFixed _ _ _ _ _ _ _ _ _) =>
          match find_auction (t_post t) (st_aseq (t_pre t)) with
          | Some a => [(H_BeforeFixedCreated, enc_auction_args a); (H_AfterFixedCreated, zN (a_id a) :: enc_auction_args a)]
          | None => []
          end
      | Some (CCreateBatch _ _ _ _ _ _ _ _ _ _ _ _) =>
          match find_auction (t_post t) (st_aseq (t_pre t)) with
          | Some a => [(H_BeforeBatchCreated, enc_auction_args a); (H_AfterBatchCreated, zN (a_id a) :: enc_auction_args a)]
          | None => []
          end
      | Some (CCancel u up id) => [(H_BeforeCanceled, zN id :: enc_addr_str (AGood up u))]
      | Some (CPlaceBid _ id _ _ _ _) =>
          match find_bid (t_post t) id (st_bseq (t_post t) id) with
          | Some b => [(H_BeforeBidPlaced, enc_bid_args b)]
          | None => []
          end
      | Some (CModifyBid _ id bid_id _ _ _) =>
          match find_bid (t_post t) id bid_id with
          | Some b => [(H_BeforeBidModified, enc_bid_args b)]
          | None => []
          end
      | Some (CAddAllowed a ea up u max) => [(H_BeforeAllowedAdded, enc_entries [(ea, AGood up u, max)])]
      | _ => []
      end
  | OApiAdd _ l => [(H_BeforeAllowedAdded, enc_entries l)]
  | OApiUpdate a u _ =>
      match find_allowed (t_post t) a u with
      | Some al => [(H_BeforeAllowedUpdated, [zN a; zN u; al_max al])]
      | None => []
      end
  | OBlock _ _ | OFaultBlock _ _ _ =>
      (* one allocation hook per settling auction, with the amounts that were then transferred *)
      map (fun p =>
        let a := fst p in
        let id := a_id a in
        let bs := bids_of (t_pre t) id in
        let us := bidders_of bs in
        (H_BeforeAllocated,
         zN id :: enc_map us (fun u => if N.eqb u (a_auctioneer a) then -1 else received t id (a_sell_denom a) u)
         ++ match a_type a with
            | Batch => enc_map us (fun u => if N.eqb u (a_auctioneer a) then -1 else refunded t id (a_pay_denom a) u)
            | FixedPrice => [0]
            end)) (settling t)
  | _ => []
  end.

Fixpoint mask_auctioneer (exp got : list Z) : list Z :=
  (* -1 in the expectation stands for an amount that transfers cannot tell apart (auctioneer bidding in its own auction) *)
  match exp, got with
  | e :: er, g :: gr => (if e =? -1 then g else e) :: mask_auctioneer er gr
  | _, _ => exp
  end.

(* every listener is called once per expected hook, in listener order, with the expected values *)
Definition expected_trace (s : state) (exp : list (N * list Z)) : list hookcall :=
  flat_map (fun e => map (fun i => {| h_listener := N.of_nat i; h_kind := fst e; h_args := snd e |})
                         (seq 0 (length (st_listeners s)))) exp.
Definition hookcall_eqb (x y : hookcall) : bool :=
  N.eqb (h_listener x) (h_listener y) && N.eqb (h_kind x) (h_kind y)
  && zeqb_list (mask_auctioneer (h_args x) (h_args y)) (h_args y).

(* a listener that fails stops the dispatch: later listeners are not called, the operation does not succeed *)
Fixpoint stops_at_veto (s : state) (tr : list hookcall) : bool :=
  match tr with
  | [] => true
  | h :: rest => if vetoed s [h] then match rest with [] => true | _ => false end else stops_at_veto s rest
  end.

Definition c17_ok (t : trans) : bool :=
  match t_class t with
  | KOk | KBlockOk =>
      negb (vetoed (t_pre t) (t_trace t))
      && list_eqb hookcall_eqb (expected_trace (t_pre t) (expected_hooks t)) (t_trace t)
  | KRej | KBlockErr | KPanic => stops_at_veto (t_pre t) (t_trace t)
  | _ => match t_trace t with [] => true | _ => false end
  end
  && (if vetoed (t_pre t) (t_trace t) then
        match t_class t with KRej | KBlockErr | KPanic => true | _ => false end
      else true).

(* ---------------------------------------------------------------- C18 exact preconditions *)
Definition c18_ok (t : trans) : bool :=
  match t_op t with
  | OTx m =>
      Bool.eqb (oclass_eqb (t_class t) KOk) (precond (t_pre t) m)
      && (if oclass_eqb (t_class t) KRej
          then module_state_eqb (t_pre t) (t_post t) && balances_eqb (t_pre t) (t_post t)
               && match t_xfers t with [] => true | _ => false end
          else true)
  | _ => true
  end.

(* ---------------------------------------------------------------- C19 isolation, immutable terms, ids *)
Definition target (t : trans) : option N :=
  match t_op t with
  | OTx (MCreateFixed _ _ _ _ _ _ _) | OTx (MCreateBatch _ _ _ _ _ _ _ _ _ _) => Some (st_aseq (t_pre t))
  | OTx (MCancel _ a) | OTx (MPlaceBid _ a _ _ _) | OTx (MModifyBid _ a _ _ _) | OTx (MAddAllowed a _ _ _) => Some a
  | OApiAdd a _ | OApiUpdate a _ _ => Some a
  | _ => None
  end.
Definition slice_eqb (s1 s2 : state) (id : N) : bool :=
  match find_auction s1 id, find_auction s2 id with
  | Some a, Some a' => auction_eqb a a'
  | None, None => true
  | _, _ => false
  end
  && same_bids (bids_of s1 id) (bids_of s2 id) && same_allowed (allowed_of s1 id) (allowed_of s2 id)
  && same_vqs (vqs_of s1 id) (vqs_of s2 id)
  && N.eqb (st_bseq s1 id) (st_bseq s2 id) && (st_mlen s1 id =? st_mlen s2 id).
Definition escrows_eqb (t : trans) (id : N) : bool :=
  forallb (fun r => forallb (fun d => st_bal (t_post t) (Escrow r id) d =? st_bal (t_pre t) (Escrow r id) d + donated t r id d) denoms) roles.
(* the auctions a block touches: those that are DUE for something at the block's time - a waiting auction whose start
   time has come, an open one whose last end time has come, a vesting one with an unreleased instalment whose release
   time has come.  Everything else (an open auction before its end, also while ANOTHER auction settles in the same
   block) must be left completely alone *)
Definition idle_b (tm : Z) (s : state) (a : auction) : bool :=
  match a_status a with
  | StandBy => tm <? a_start a
  | Started => tm <? last_end a
  | VestingS => forallb (fun v => negb ((v_time v <=? tm) && negb (v_released v))) (vqs_of s (a_id a))
  | Finished | Cancelled => true
  end.
Definition touched_by_block (t : trans) (a : auction) : bool := negb (idle_b (block_time (t_op t)) (t_pre t) a).
Definition c19_ok (t : trans) : bool :=
  match t_op t with
  | OGenesis => true
  | _ =>
    (* frame: everything about the other auctions is untouched *)
    forallb (fun id =>
       let is_target := match target t with
                        | Some a => N.eqb a id
                        | None => is_block (t_op t)
                                  && match find_auction (t_pre t) id with Some a => touched_by_block t a | None => false end
                        end in
       is_target || (slice_eqb (t_pre t) (t_post t) id && escrows_eqb t id)) (ids_upto (st_aseq (t_post t) + 2))
    (* terms *)
    && forallb (fun p => auction_terms_eqb (fst p) (snd p)) (paired t)
    && forallb (fun b => match find_bid (t_post t) (b_auction b) (b_id b) with
                         | Some b' => N.eqb (b_bidder b) (b_bidder b') && btype_eqb (b_type b) (b_type b')
                         | None => false end) (st_bids (t_pre t))
    (* ids: the counters never decrease, a new auction takes the counter value, a new bid the next per-auction number *)
    && N.leb (st_aseq (t_pre t)) (st_aseq (t_post t))
    && (length (st_auctions (t_post t)) =? N.to_nat (st_aseq (t_post t)))%nat
    && list_eqb N.eqb (map a_id (st_auctions (t_post t))) (ids_upto (st_aseq (t_post t)))
    && forallb (fun id => N.leb (st_bseq (t_pre t) id) (st_bseq (t_post t) id)
                          && list_eqb N.eqb (map b_id (sort_by bid_le (bids_of (t_post t) id)))
                                      (map N.succ (ids_upto (st_bseq (t_post t) id))))
               (ids_upto (st_aseq (t_post t) + 1))
    && (if oclass_eqb (t_class t) KRej then N.eqb (st_aseq (t_pre t)) (st_aseq (t_post t)) else true)
  end.

(* C02, last sentence: whatever an operation sweeps (the selling escrow when the auction is cancelled or settled,
   the paying escrow when it is settled) is swept completely: nothing is stranded in escrow *)
Definition c02_swept (t : trans) : bool :=
  forallb (fun id => forallb (fun r => forallb (fun d =>
      if sweeps t r id d then excess (t_post t) r id d =? 0 else true)
    denoms) roles) (ids_upto (st_aseq (t_post t) + 2)).
(* C02, "every bidder has received the coins allocated to them plus the unused part of their reservation": at the
   settlement of a batch auction each bidder's refund is the reservation minus what the allocation costs at the
   clearing price (the whole reservation when nothing is allocated) - the batch clause of C04 *)
(* C02, "nothing is left in escrow" for the vesting escrow: the module never sweeps it, so whatever a settlement moves
   into it must be recorded as instalments in full (and whatever a release takes out must have been an instalment):
   its excess over the records changes by third-party deposits only.  Added after S160 (two instalments stored under
   one key: one share stranded for ever) was reported by C01 and C09 but not by C02. *)
Definition c02_vested (t : trans) : bool :=
  forallb (fun id => forallb (fun d =>
      if sweeps t Vesting id d then true
      else excess (t_post t) Vesting id d =? excess (t_pre t) Vesting id d + donated t Vesting id d)
    denoms) (ids_upto (st_aseq (t_post t) + 2)).
Definition c02_all (t : trans) : bool := c02_ok t && c02_swept t && c04_batch t && c02_vested t.

(* C04, fixed price auctions at settlement: what a bidder paid for at the acceptance of each bid (c04_fixed) is what
   is delivered - the sum of the quantities of the bidder's bids, nothing clamped or scaled down afterwards *)
Definition c04_delivered (t : trans) : bool :=
  forallb (fun p =>
    let a := fst p in
    match a_type a with
    | Batch => true
    | FixedPrice =>
        forallb (fun u =>
          received t (a_id a) (a_sell_denom a) u
          =? sumZ (map (sell_amount (a_pay_denom a)) (filter (fun b => N.eqb (b_bidder b) u) (bids_of (t_pre t) (a_id a)))))
          (filter (fun u => negb (N.eqb u (a_auctioneer a))) users)
    end) (settling t).
(* C04, modifications: what an accepted modification charges is the increase of the reservation OF THE BID AS IT IS
   RECORDED afterwards - the settlement refunds against the records, so a charge for more than the record says is a
   payment above the price *)
Definition c04_modify (t : trans) : bool :=
  match t_op t with
  | OTx m =>
      match check_basic m with
      | Some (CModifyBid u id bid_id price d amt) =>
          if oclass_eqb (t_class t) KOk then
            match find_auction (t_pre t) id, find_bid (t_pre t) id bid_id, find_bid (t_post t) id bid_id with
            | Some a, Some b, Some b' =>
                sum_xfers (t_xfers t) (from_to (User u) (Escrow Paying id) (a_pay_denom a))
                =? pay_amount (a_pay_denom a) b' - pay_amount (a_pay_denom a) b
            | _, _, _ => false
            end
          else true
      | _ => true
      end
  | _ => true
  end.
Definition c04_all (t : trans) : bool := c04_ok t && c04_delivered t && c04_modify t.

(* C05, "the maximum bid amount the allow-list granted": after an accepted allow-list operation the stored maximum
   of every account it names is the one granted last (a later entry for the same account overrides an earlier one) *)
Definition granted (l : list (N * addr_str * option Z)) (u : N) : option Z :=
  fold_left (fun acc e => match e with
                          | (_, AGood _ v, Some m) => if N.eqb v u then Some m else acc
                          | _ => acc end) l None.
Definition stored_max (s : state) (id u : N) : option Z := option_map al_max (find_allowed s id u).
Definition optZ_eqb (x y : option Z) : bool :=
  match x, y with Some a, Some b => a =? b | None, None => true | _, _ => false end.
Definition c05_grants (t : trans) : bool :=
  match t_op t, t_class t with
  | OApiAdd id l, KOk =>
      forallb (fun e => match e with
                        | (_, AGood _ u, _) => optZ_eqb (stored_max (t_post t) id u) (granted l u)
                        | _ => true end) l
  | OApiUpdate id u max, KOk => optZ_eqb (stored_max (t_post t) id u) max
  | OTx (MAddAllowed id _ (AGood _ u) max), KOk => optZ_eqb (stored_max (t_post t) id u) max
  | _, _ => true
  end.
(* the two allow-list calls of the keeper (what other modules use in a default build) are accepted exactly when the
   model accepts them from the same state: an existing auction, well-formed accounts, positive maxima that an added
   entry may not exceed by the OFFERED amount (not by what is left of it), no vetoing listener *)
Definition c05_api (t : trans) : bool :=
  match t_op t with
  | OApiAdd _ _ | OApiUpdate _ _ _ =>
      oclass_eqb (t_class t) (class_of (fst (step (with_trace (with_bank (t_pre t) (st_bal (t_pre t)) []) []) (t_op t))))
  | _ => true
  end.
Definition c05_all (t : trans) : bool := c05_ok t && c05_grants t && c05_api t.

(* C09, liveness of the payment: "in the first block at or after its release time".  A block that fails without an
   injected fault and without a vetoing listener while an instalment is due (or while a settlement is due, which pays
   the proceeds of an auction without schedule and records the instalments of one with) leaves it unpaid in the first
   block at or after its time (and in every later one: the chain has halted) *)
Definition c09_live (t : trans) : bool :=
  match t_op t, t_class t with
  | OBlock tm _, KBlockErr | OBlock tm _, KPanic =>
      negb (no_veto (t_pre t) H_BeforeAllocated)
      || forallb (fun a => match a_status a with
                           | VestingS => forallb (fun v => negb ((v_time v <=? tm) && negb (v_released v))) (vqs_of (t_pre t) (a_id a))
                           | Started => tm <? last_end a       (* a settlement is due: proceeds are to be paid or scheduled *)
                           | _ => true
                           end)
                 (st_auctions (t_pre t))
  | _, _ => true
  end.
Definition c09_all (t : trans) : bool := c09_ok t && c09_live t.

(* C08, state level: an auction is in the vesting status only while its last instalment is unreleased
   ("finishes when its last vesting instalment is released") *)
Definition pending_ok (s : state) : bool :=
  forallb (fun a => if status_eqb (a_status a) VestingS
                    then match rev (vqs_of s (a_id a)) with v :: _ => negb (v_released v) | [] => false end
                    else true) (st_auctions s).
Definition c08_all (t : trans) : bool := c08_ok t && pending_ok (t_post t).

(* C16 across a restart: the published records - the matched flags of the bids and the released flags of the
   instalments - are after an export / import exactly what they were before *)
Definition c16_genesis (t : trans) : bool :=
  match t_op t, t_class t with
  | OGenesis, KGenOk =>
      forallb (fun id => list_eqb vq_eqb (vqs_of (t_pre t) id) (vqs_of (t_post t) id)
                         && list_eqb bid_eqb (bids_of (t_pre t) id) (bids_of (t_post t) id))
              (ids_upto (st_aseq (t_pre t) + 1))
  | _, _ => true
  end.
Definition c16_all (t : trans) : bool := c16_ok t && c16_genesis t.

(* C19, vesting side: whatever leaves the vesting escrow of an auction in a block is that auction's OWN due
   instalments, paid to its own auctioneer - never an instalment recorded for another auction (the release clause of
   c09_ok, read as a statement about isolation) *)
Definition c19_release_own (t : trans) : bool :=
  forallb (fun p =>
       let a := fst p in
       let id := a_id a in
       if status_eqb (a_status a) VestingS then
         let before := vqs_of (t_pre t) id in
         let after := vqs_of (t_post t) id in
         let due := if is_block (t_op t) && oclass_eqb (t_class t) KBlockOk
                    then filter (fun v => negb (v_released v) && (v_time v <=? block_time (t_op t))) before else [] in
         (length before =? length after)%nat
         && forallb (fun pr => let v := fst pr in let v' := snd pr in
               vq_eqb (set_v_released v (v_released v || existsb (fun x => v_time x =? v_time v) due)) v')
             (combine before after)
         && zeqb_list (map x_amt (filter (fun x => addr_eqb (x_from x) (Escrow Vesting id)) (t_xfers t)))
                      (filter (fun z => negb (z =? 0)) (map v_amt due))
         && forallb (fun x => negb (addr_eqb (x_from x) (Escrow Vesting id))
                              || (addr_eqb (x_to x) (User (a_auctioneer a)) && N.eqb (x_denom x) (a_pay_denom a))) (t_xfers t)
       else true) (paired t).
Definition c19_all (t : trans) : bool := c19_ok t && c19_release_own t.

(* ---------------------------------------------------------------- all of them *)
Definition all_checks : list (N * (trans -> bool)) :=
  [(1%N, c01_all); (2%N, c02_all); (3%N, c03_ok); (4%N, c04_all); (5%N, c05_all); (6%N, c06_ok); (7%N, c07_ok);
   (8%N, c08_all); (9%N, c09_all); (10%N, c10_ok); (11%N, c11_ok); (12%N, c12_ok); (13%N, c13_all);
   (15%N, c15_ok); (16%N, c16_all); (17%N, c17_ok); (18%N, c18_ok); (19%N, c19_all)].
Definition failing (t : trans) : list N :=
  map fst (filter (fun c => negb (snd c t)) all_checks).
