(* module/genesis.go ExportGenesis / InitGenesis and types/genesis.go GenesisState.Validate *)
From Coq Require Import ZArith NArith List Bool Arith.
From FR Require Import Dec Types Bank Match Step.
Import ListNotations.
Open Scope Z_scope.

Record genesis := {
  g_params : params; g_auctions : list auction; g_bids : list bid;
  g_allowed : list allowed; g_vqs : list vq }.

(* store iteration order: insertion sort by key *)
Section Sort.
  Context {A : Type} (le : A -> A -> bool).
  Fixpoint insert (x : A) (l : list A) : list A :=
    match l with [] => [x] | y :: r => if le x y then x :: l else y :: insert x r end.
  Definition sort_by (l : list A) : list A := fold_right insert [] l.
End Sort.

Definition bid_le (x y : bid) : bool :=
  N.ltb (b_auction x) (b_auction y) || (N.eqb (b_auction x) (b_auction y) && N.leb (b_id x) (b_id y)).
Definition allowed_le (x y : allowed) : bool :=
  N.ltb (al_auction x) (al_auction y) || (N.eqb (al_auction x) (al_auction y) && N.leb (al_bidder x) (al_bidder y)).
Definition vq_le (x y : vq) : bool :=
  N.ltb (v_auction x) (v_auction y) || (N.eqb (v_auction x) (v_auction y) && (v_time x <=? v_time y)).

Definition export (s : state) : genesis :=
  {| g_params := st_params s; g_auctions := st_auctions s;
     g_bids := sort_by bid_le (st_bids s);
     g_allowed := sort_by allowed_le (st_allowed s);
     g_vqs := sort_by vq_le (st_vqs s) |}.

(* --- Validate --- *)
Fixpoint nodup_by {A} (eqb : A -> A -> bool) (l : list A) : bool :=
  match l with [] => true | x :: r => negb (existsb (eqb x) r) && nodup_by eqb r end.

Fixpoint scheds_ok (vs : list sched) (end_ prev total : Z) : bool :=
  match vs with
  | [] => total =? P
  | v :: rest => (0 <? s_weight v) && (end_ <? s_time v) && (prev <? s_time v) && (s_weight v <=? P)
                 && scheds_ok rest end_ (s_time v) (total + s_weight v)
  end.
Definition auction_ok (a : auction) : bool :=
  (0 <? a_start_price a) && (0 <=? a_sell_amt a) && negb (N.eqb (a_sell_denom a) (a_pay_denom a))
  && match a_scheds a with [] => true | vs => scheds_ok vs (first_end a) year1_ns 0 end.
Definition bid_ok (b : bid) : bool := (0 <? b_price b) && (0 <? b_amt b).
Definition allowed_ok (x : allowed) : bool := 0 <? al_max x.
Definition vq_ok (v : vq) : bool := 0 <=? v_amt v.
Fixpoint coins_ok (l : coins) (low : option N) : bool :=
  match l with
  | [] => true
  | (d, a) :: r => (0 <? a) && match low with Some lo => N.ltb lo d | None => true end && coins_ok r (Some d)
  end.

Definition validate (g : genesis) : bool :=
  nodup_by (fun x y => N.eqb (al_auction x) (al_auction y) && N.eqb (al_bidder x) (al_bidder y)) (g_allowed g)
  && forallb allowed_ok (g_allowed g)
  && nodup_by (fun x y => N.eqb (v_auction x) (v_auction y) && (v_time x =? v_time y)) (g_vqs g)
  && forallb vq_ok (g_vqs g)
  && nodup_by (fun x y => N.eqb (b_auction x) (b_auction y) && N.eqb (b_id x) (b_id y)) (g_bids g)
  && forallb bid_ok (g_bids g)
  && nodup_by (fun x y => N.eqb (a_id x) (a_id y)) (g_auctions g)
  && forallb auction_ok (g_auctions g)
  && coins_ok (p_cfee (g_params g)) None && coins_ok (p_bfee (g_params g)) None.

(* --- InitGenesis into an empty store (balances, time, listeners and switch are not the module's) --- *)
Definition set_id (a : auction) (id : N) : auction :=
  {| a_id := id; a_type := a_type a; a_auctioneer := a_auctioneer a; a_upper := a_upper a;
     a_start_price := a_start_price a; a_sell_denom := a_sell_denom a; a_sell_amt := a_sell_amt a;
     a_pay_denom := a_pay_denom a; a_scheds := a_scheds a; a_start := a_start a; a_ends := a_ends a;
     a_status := a_status a; a_remaining := a_remaining a; a_min_price := a_min_price a;
     a_matched_price := a_matched_price a; a_max_round := a_max_round a; a_rate := a_rate a |}.
Definition set_b_id (b : bid) (id : N) : bid :=
  {| b_auction := b_auction b; b_id := id; b_bidder := b_bidder b; b_type := b_type b;
     b_price := b_price b; b_denom := b_denom b; b_amt := b_amt b; b_matched := b_matched b |}.

Fixpoint import_auctions (l : list auction) (seq : N) : list auction * N :=
  match l with
  | [] => ([], seq)
  | a :: r => let '(l', seq') := import_auctions r (seq + 1)%N in (set_id a seq :: l', seq')
  end.

Fixpoint import_bids (s : state) (l : list bid) : option state :=
  match l with
  | [] => Some s
  | b :: r =>
      match find_auction s (b_auction b) with
      | None => None
      | Some _ =>
          let id := (st_bseq s (b_auction b) + 1)%N in
          let s := with_bseq s (upd (st_bseq s) (b_auction b) id) in
          import_bids (with_bids s (st_bids s ++ [set_b_id b id])) r
      end
  end.

Definition count_matched (bs : list bid) (a : N) : Z :=
  Z.of_nat (length (filter (fun b => N.eqb (b_auction b) a && b_matched b) bs)).

Fixpoint import_vqs (s : state) (l : list vq) : option state :=
  match l with
  | [] => Some s
  | v :: r =>
      match find_auction s (v_auction v) with
      | None => None
      | Some _ =>
          let others := filter (fun x => negb (N.eqb (v_auction x) (v_auction v) && (v_time x =? v_time v))) (st_vqs s) in
          import_vqs (with_vqs s (others ++ [v])) r
      end
  end.

Definition import (base : state) (g : genesis) : option state :=
  let '(aus, seq) := import_auctions (g_auctions g) 0%N in
  let s := {| st_params := st_params base; st_auctions := aus; st_bids := []; st_allowed := [];
              st_vqs := []; st_aseq := seq; st_bseq := fun _ => 0%N; st_mlen := fun _ => 0;
              st_bal := st_bal base; st_now := st_now base; st_listeners := st_listeners base;
              st_switch := st_switch base; st_xfers := st_xfers base; st_trace := st_trace base |} in
  let s := fold_left (fun s x => put_allowed s (al_auction x) (al_bidder x) (al_max x)) (g_allowed g) s in
  match import_bids s (g_bids g) with
  | None => None
  | Some s =>
      let s := with_mlen s (fun a => match find_auction s a with
                                     | Some au => match a_type au with
                                                  | Batch => count_matched (g_bids g) a
                                                  | FixedPrice => 0 end
                                     | None => 0 end) in
      match import_vqs s (g_vqs g) with
      | None => None
      | Some s => Some (with_params s (g_params g))
      end
  end.

(* the GENESIS operation: export, validate, wipe the module store, import *)
Definition genesis_roundtrip (s : state) : option (bool * state) :=
  let g := export s in
  match import s g with
  | Some s' => Some (validate g, s')
  | None => None
  end.
