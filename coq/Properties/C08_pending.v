(* C08, state level: "an auction finishes when its last vesting instalment is released".
   vesting_pending s: every auction in the vesting status has a non-empty queue whose LAST entry is unreleased.
   It holds in every reachable state (with the global invariant), so no reachable state has an auction stuck in the
   vesting status with everything paid; together with vqs_wf (finished => all released):
   finished <=> all instalments released, for every settled auction with a schedule. *)
From Coq Require Import ZArith NArith List Bool.
From FR Require Import Dec Types Bank Match Step Genesis Model Spec Checkers.
From FR.Proofs Require Import InvDefs InvAll VestingPending ExcessExamples.
Import ListNotations.
Open Scope Z_scope.

Theorem C08_vesting_pending_step : forall s o, Inv s -> vesting_pending s -> vesting_pending (snd (step s o)).
Proof. exact vesting_pending_step. Qed.
Print Assumptions C08_vesting_pending_step.

Theorem C08_vesting_pending_reachable : forall bal now sw p ops,
  (forall x d, 0 <= bal x d) -> coins_ok (p_cfee p) None = true -> coins_ok (p_bfee p) None = true ->
  vesting_pending (run (init_state bal now sw p) ops).
Proof. exact vesting_pending_reachable. Qed.
Print Assumptions C08_vesting_pending_reachable.

Theorem C08_finished_iff_all_released : forall s a,
  Inv s -> vesting_pending s -> In a (st_auctions s) -> a_scheds a <> [] ->
  a_status a = VestingS \/ a_status a = Finished ->
  (a_status a = Finished <-> forall v, In v (vqs_of s (a_id a)) -> v_released v = true).
Proof. exact vesting_status_iff. Qed.
Print Assumptions C08_finished_iff_all_released.

Theorem C08_pending_checker : forall s o, Inv s -> vesting_pending s -> pending_ok (t_post (model_trans s o)) = true.
Proof. exact pending_ok_model. Qed.
Print Assumptions C08_pending_checker.

(* non-vacuity: after the closing block of ExcessExamples.v the auction is vesting with one unreleased instalment,
   after the releasing block it is finished *)
Example C08_ex_vesting :
  map a_status (st_auctions (run c01_init c01_hist4)) = [VestingS] /\
  map v_released (vqs_of (run c01_init c01_hist4) 0) = [false] /\
  map a_status (st_auctions (run c01_init c01_hist5)) = [Finished] /\
  map v_released (vqs_of (run c01_init c01_hist5) 0) = [true].
Proof. repeat split; vm_compute; reflexivity. Qed.
