(* C17: hooks.  Statements; the proofs are in Proofs/HookFacts.v (dispatcher, call_hook),
   Proofs/HookVeto.v (veto means rejection), Proofs/HookSites.v (call sites), Proofs/HookBlock.v. *)
From Coq Require Import ZArith NArith List Bool.
From FR Require Import Dec Types Bank Match Step Genesis Model Spec Checkers.
From FR.Proofs Require Import HookBase HookFacts HookSites HookVeto HookBlock HookSettle HookBlockTrace.
Import ListNotations.
Open Scope Z_scope.

(* ================================================================ 1. the dispatcher *)
(* closed form: all listeners when nobody vetoes, else the listeners up to and including the first vetoing one *)
Theorem C17_dispatch_closed : forall ls i kind args,
  dispatch ls i kind args =
  match first_veto kind ls with
  | None => (true, calls_from i (length ls) kind args)
  | Some k => (false, calls_from i (S k) kind args)
  end.
Proof. exact dispatch_closed. Qed.
Print Assumptions C17_dispatch_closed.

Theorem C17_dispatch_kind_args : forall ls i kind args ok cs,
  dispatch ls i kind args = (ok, cs) -> forall c, In c cs -> h_kind c = kind /\ h_args c = args.
Proof. exact dispatch_kind_args. Qed.
Print Assumptions C17_dispatch_kind_args.

Theorem C17_dispatch_listeners : forall ls i kind args ok cs,
  dispatch ls i kind args = (ok, cs) ->
  forall k c, nth_error cs k = Some c -> h_listener c = (i + N.of_nat k)%N.
Proof. exact dispatch_listeners. Qed.
Print Assumptions C17_dispatch_listeners.

Theorem C17_dispatch_ok_iff : forall ls i kind args ok cs,
  dispatch ls i kind args = (ok, cs) ->
  (ok = true <-> forall l, In l ls -> existsb (N.eqb kind) l = false).
Proof. exact dispatch_ok_iff. Qed.
Print Assumptions C17_dispatch_ok_iff.

Theorem C17_dispatch_ok_all_once : forall ls i kind args cs,
  dispatch ls i kind args = (true, cs) ->
  length cs = length ls /\ cs = map (fun k => mkcall (i + N.of_nat k) kind args) (seq 0 (length ls)).
Proof.
  intros ls i kind args cs H. split; [eapply dispatch_ok_length; exact H|].
  rewrite <- calls_from_map. eapply dispatch_ok_calls; exact H.
Qed.
Print Assumptions C17_dispatch_ok_all_once.

Theorem C17_dispatch_veto_iff : forall ls i kind args ok cs,
  dispatch ls i kind args = (ok, cs) ->
  (ok = false <-> exists l, In l ls /\ existsb (N.eqb kind) l = true).
Proof. exact dispatch_veto_iff. Qed.
Print Assumptions C17_dispatch_veto_iff.

Theorem C17_dispatch_stops_at_first_veto : forall ls i kind args cs,
  dispatch ls i kind args = (false, cs) ->
  exists k l, nth_error ls k = Some l /\ existsb (N.eqb kind) l = true
    /\ (forall j l', (j < k)%nat -> nth_error ls j = Some l' -> existsb (N.eqb kind) l' = false)
    /\ cs = calls_from i (S k) kind args /\ length cs = S k.
Proof. exact dispatch_veto_calls. Qed.
Print Assumptions C17_dispatch_stops_at_first_veto.

(* ================================================================ 2. call_hook *)
Theorem C17_call_hook : forall s kind args,
  let cs := snd (dispatch (st_listeners s) 0 kind args) in
  (no_veto s kind = true -> call_hook s kind args = Ok (with_trace s (st_trace s ++ cs))) /\
  (no_veto s kind = false -> call_hook s kind args = Err E_HOOK (st_trace s ++ cs)).
Proof. exact call_hook_spec. Qed.
Print Assumptions C17_call_hook.

Theorem C17_call_hook_ok_iff : forall s kind args,
  (exists s', call_hook s kind args = Ok s') <-> no_veto s kind = true.
Proof. exact call_hook_ok_iff. Qed.
Print Assumptions C17_call_hook_ok_iff.

(* ================================================================ 3. veto means rejection *)
(* the trace of any transaction / API call extends the old one *)
Theorem C17_trace_extends : forall s o, is_call o ->
  exists suffix, st_trace (snd (step s o)) = st_trace s ++ suffix.
Proof. intros s o H. exact (vd_suffix _ _ _ _ (call_verdict s o H)). Qed.
Print Assumptions C17_trace_extends.

Theorem C17_veto_rejects : forall s o suffix,
  is_call o ->                       (* OTx m, OApiAdd, OApiUpdate *)
  st_trace (snd (step s o)) = st_trace s ++ suffix ->
  vetoed s suffix = true ->
  fst (step s o) = Rejected E_HOOK /\ snd (step s o) = with_trace s (st_trace s ++ suffix).
Proof. exact veto_rejects. Qed.
Print Assumptions C17_veto_rejects.

(* and conversely: the hook error is reported only for a vetoed call, an accepted operation made none *)
Theorem C17_hook_error_iff : forall s o suffix,
  is_call o -> st_trace (snd (step s o)) = st_trace s ++ suffix ->
  (vetoed s suffix = true <-> fst (step s o) = Rejected E_HOOK).
Proof. intros s o suffix Ho. exact (vd_iff _ _ _ _ (call_verdict s o Ho) suffix). Qed.
Print Assumptions C17_hook_error_iff.

Theorem C17_accepted_not_vetoed : forall s o suffix,
  is_call o -> st_trace (snd (step s o)) = st_trace s ++ suffix ->
  fst (step s o) = Accepted -> vetoed s suffix = false.
Proof. exact accepted_not_vetoed. Qed.
Print Assumptions C17_accepted_not_vetoed.

(* nothing is called after a veto *)
Theorem C17_stops_at_veto : forall s o suffix,
  is_call o -> st_trace (snd (step s o)) = st_trace s ++ suffix -> stops_at_veto s suffix = true.
Proof. intros s o suffix Ho. exact (vd_stops _ _ _ _ (call_verdict s o Ho) suffix). Qed.
Print Assumptions C17_stops_at_veto.

Theorem C17_veto_fails_block : forall s t orc suffix,
  st_trace (snd (step s (OBlock t orc))) = st_trace s ++ suffix ->
  vetoed s suffix = true ->
  fst (step s (OBlock t orc)) = BlockErr E_HOOK
  /\ snd (step s (OBlock t orc)) = with_trace (with_now s t) (st_trace s ++ suffix).
Proof. exact veto_fails_block. Qed.
Print Assumptions C17_veto_fails_block.

Theorem C17_block_verdict : forall s t orc suffix,
  st_trace (snd (step s (OBlock t orc))) = st_trace s ++ suffix ->
  (vetoed s suffix = true <-> fst (step s (OBlock t orc)) = BlockErr E_HOOK)
  /\ stops_at_veto s suffix = true.
Proof.
  intros s t orc suffix H. pose proof (block_verdict s t orc) as V.
  split; [exact (vd_iff _ _ _ _ V suffix H) | exact (vd_stops _ _ _ _ V suffix H)].
Qed.
Print Assumptions C17_block_verdict.

Theorem C17_veto_fails_fault_block : forall s t orc k suffix,
  st_trace (snd (step s (OFaultBlock t orc k))) = st_trace s ++ suffix ->
  vetoed s suffix = true -> fst (step s (OFaultBlock t orc k)) = BlockErr E_HOOK.
Proof. exact veto_fails_fault_block. Qed.
Print Assumptions C17_veto_fails_fault_block.

(* ================================================================ 4. exactly once, with the stored values *)
(* per message kind (site_spec, Proofs/HookSites.v): the record stored and the calls made with its values *)
Theorem C17_sites_tx : forall s m,
  fst (step s (OTx m)) = Accepted ->
  exists c, check_basic m = Some c /\ handle s c = Ok (snd (step s (OTx m)))
            /\ site_spec s c (snd (step s (OTx m))).
Proof. exact accepted_tx_sites. Qed.
Print Assumptions C17_sites_tx.

Theorem C17_sites_api_add : forall s id l,
  fst (step s (OApiAdd id l)) = Accepted ->
  st_trace (snd (step s (OApiAdd id l))) = st_trace s ++ expected_trace s [(H_BeforeAllowedAdded, enc_entries l)].
Proof. exact accepted_api_add_sites. Qed.
Print Assumptions C17_sites_api_add.

Theorem C17_sites_api_update : forall s id u max,
  fst (step s (OApiUpdate id u max)) = Accepted ->
  exists m, max = Some m /\
    st_trace (snd (step s (OApiUpdate id u max)))
    = st_trace s ++ expected_trace s [(H_BeforeAllowedUpdated, [zN id; zN u; m])].
Proof. exact accepted_api_update_sites. Qed.
Print Assumptions C17_sites_api_update.

(* the Before hook sees a store without the auction, the After hook one with it *)
Theorem C17_create_fixed_before_store : forall s u up price sd samt pd vs start end_ s',
  create_fixed s u up price sd samt pd vs start end_ = Ok s' ->
  exists a sb sb' sa,
    call_hook sb H_BeforeFixedCreated (enc_auction_args a) = Ok sb' /\ st_auctions sb = st_auctions s /\
    sa = with_auctions sb' (st_auctions sb' ++ [a]) /\
    call_hook sa H_AfterFixedCreated (zN (a_id a) :: enc_auction_args a) = Ok s' /\
    st_auctions sa = st_auctions s ++ [a] /\ st_auctions s' = st_auctions s ++ [a] /\
    st_trace sb = st_trace s.
Proof. exact create_fixed_before_precedes_store. Qed.
Print Assumptions C17_create_fixed_before_store.

Theorem C17_create_batch_before_store : forall s u up price minp sd samt pd vs maxr rate start end_ s',
  create_batch s u up price minp sd samt pd vs maxr rate start end_ = Ok s' ->
  exists a sb sb' sa,
    call_hook sb H_BeforeBatchCreated (enc_auction_args a) = Ok sb' /\ st_auctions sb = st_auctions s /\
    sa = with_auctions sb' (st_auctions sb' ++ [a]) /\
    call_hook sa H_AfterBatchCreated (zN (a_id a) :: enc_auction_args a) = Ok s' /\
    st_auctions sa = st_auctions s ++ [a] /\ st_auctions s' = st_auctions s ++ [a] /\
    st_trace sb = st_trace s.
Proof. exact create_batch_before_precedes_store. Qed.
Print Assumptions C17_create_batch_before_store.

(* BeforeAllocated: offered once before any transfer; the map's values are the amounts transferred *)
Theorem C17_allocate : forall s a mi w s',
  allocate s a mi w = Ok s' ->
  no_veto s H_BeforeAllocated = true /\
  nobank (with_trace s (st_trace s ++ all_calls s H_BeforeAllocated (alloc_args a mi w))) s' /\
  st_xfers s' = st_xfers s ++ payouts (Escrow Selling (a_id a)) (a_sell_denom a) (mi_bidders mi) (mi_alloc mi) /\
  (forall u, In u (mi_bidders mi) -> 0 <= mi_alloc mi u).
Proof. exact allocate_ok. Qed.
Print Assumptions C17_allocate.

Theorem C17_pay_out : forall us s from d f s', pay_out s from d us f = Ok s' ->
  st_xfers s' = st_xfers s ++ payouts from d us f /\ (forall u, In u us -> 0 <= f u).
Proof. exact pay_out_xfers. Qed.
Print Assumptions C17_pay_out.

Theorem C17_close_fixed : forall s a s',
  close_fixed s a = Ok s' ->
  let mi := calc_fixed a (bids_of s (a_id a)) in
  st_trace s' = st_trace s ++ expected_trace s [(H_BeforeAllocated, alloc_args a mi false)] /\
  exists rest, st_xfers s' = st_xfers s
      ++ payouts (Escrow Selling (a_id a)) (a_sell_denom a) (mi_bidders mi) (mi_alloc mi) ++ rest
    /\ (length rest <= 2)%nat.
Proof. exact close_fixed_hooks. Qed.
Print Assumptions C17_close_fixed.

Theorem C17_settle_batch : forall s a mi s',
  settle_batch s a mi = Ok s' ->
  st_trace s' = st_trace s ++ expected_trace s [(H_BeforeAllocated, alloc_args a mi true)] /\
  (forall u, In u (mi_bidders mi) -> 0 <= mi_alloc mi u /\ 0 <= mi_refund mi u) /\
  exists r1 r2, st_xfers s' = st_xfers s
      ++ payouts (Escrow Selling (a_id a)) (a_sell_denom a) (mi_bidders mi) (mi_alloc mi) ++ r1
      ++ payouts (Escrow Paying (a_id a)) (a_pay_denom a) (mi_bidders mi) (mi_refund mi) ++ r2
    /\ (length r1 <= 1)%nat /\ (length r2 <= 1)%nat.
Proof. exact settle_batch_hooks. Qed.
Print Assumptions C17_settle_batch.

(* one auction in BeginBlocker: no call, or (only if Started and due) exactly the allocation hook *)
Theorem C17_process : forall t orc s a s',
  process t orc s a = Ok s' ->
  st_trace s' = st_trace s \/
  (a_status a = Started /\ last_end a <= t /\
   exists a' mi w, a_id a' = a_id a /\ a_sell_denom a' = a_sell_denom a /\
     st_trace s' = st_trace s ++ expected_trace s [(H_BeforeAllocated, alloc_args a' mi w)] /\
     (forall u, In u (mi_bidders mi) -> 0 <= mi_alloc mi u) /\
     exists rest, st_xfers s' = st_xfers s
        ++ payouts (Escrow Selling (a_id a)) (a_sell_denom a) (mi_bidders mi) (mi_alloc mi) ++ rest).
Proof. exact process_hooks. Qed.
Print Assumptions C17_process.

(* a whole successful block: one allocation hook per closing auction, for a subsequence (in store
   order) of the auctions that were Started and due; nothing else *)
Theorem C17_block_trace : forall s t orc,
  fst (step s (OBlock t orc)) = BlockOk ->
  exists hs sub,
    st_trace (snd (step s (OBlock t orc))) = st_trace s ++ expected_trace s (map alloc_hook hs) /\
    subseq sub (st_auctions s) /\ map (fun h => a_id (fst (fst h))) hs = map a_id sub /\
    Forall (fun a => a_status a = Started /\ last_end a <= t) sub.
Proof. exact block_trace. Qed.
Print Assumptions C17_block_trace.

(* ================================================================ 5. operations without hooks *)
Theorem C17_no_hooks_send : forall s from to d amt, st_trace (snd (step s (OSend from to d amt))) = st_trace s.
Proof. exact send_no_hooks. Qed.
Theorem C17_no_hooks_set_listeners : forall s ls, st_trace (snd (step s (OSetListeners ls))) = st_trace s.
Proof. exact set_listeners_no_hooks. Qed.
Theorem C17_no_hooks_genesis : forall s, st_trace (snd (step s OGenesis)) = st_trace s.
Proof. exact genesis_no_hooks. Qed.
Theorem C17_no_hooks_block_not_due : forall s t orc,
  (forall a, In a (st_auctions s) -> a_status a = Started -> t < last_end a) ->
  st_trace (snd (step s (OBlock t orc))) = st_trace s.
Proof. exact block_not_due_no_hooks. Qed.
(* semantic form: a successful block in which no Started auction becomes VestingS / Finished calls no hook
   (hypothesis: auction ids are unique) *)
Theorem C17_no_hooks_block_no_settle : forall s t orc,
  NoDup (map a_id (st_auctions s)) ->
  fst (step s (OBlock t orc)) = BlockOk ->
  (forall a x, In a (st_auctions s) -> a_status a = Started ->
               find_auction (snd (step s (OBlock t orc))) (a_id a) = Some x -> settled (a_status x) = false) ->
  st_trace (snd (step s (OBlock t orc))) = st_trace s.
Proof. exact block_no_settle_no_hooks. Qed.
Print Assumptions C17_no_hooks_block_no_settle.
Print Assumptions C17_no_hooks_send.
Print Assumptions C17_no_hooks_genesis.
Print Assumptions C17_no_hooks_block_not_due.

(* ---------------------------------------------------------------- examples: three listeners, the middle one vetoes *)
Example ex_dispatch_veto :
  dispatch [[]; [5%N]; []] 0 5 [7; 8] = (false, [mkcall 0 5 [7; 8]; mkcall 1 5 [7; 8]]).
Proof. vm_compute. reflexivity. Qed.
Example ex_dispatch_other_kind :
  dispatch [[]; [5%N]; []] 0 4 [7] = (true, [mkcall 0 4 [7]; mkcall 1 4 [7]; mkcall 2 4 [7]]).
Proof. vm_compute. reflexivity. Qed.
Example ex_first_veto : first_veto 5 [[]; [5%N]; [5%N]] = Some 1%nat.
Proof. reflexivity. Qed.

Definition ex0 : state :=
  {| st_params := {| p_cfee := [(0%N, 5)]; p_bfee := [(0%N, 1)]; p_period := 1 |};
     st_auctions := []; st_bids := []; st_allowed := []; st_vqs := [];
     st_aseq := 1%N; st_bseq := fun _ => 0%N; st_mlen := fun _ => 0;
     st_bal := fun a _ => match a with User _ => 1000000 | _ => 0 end;
     st_now := 10; st_listeners := [[]; []; []]; st_switch := false; st_xfers := []; st_trace := [] |}.
Definition coin (d : N) (a : Z) : mcoin := {| mc_denom := Some d; mc_amt := Some a |}.
Definition ex_create : op :=
  OTx (MCreateFixed (AGood false 7) (Some (2 * P)) (coin 1 1000) (Some 2%N) [] 5 100).
Definition ex_bid : op := OTx (MPlaceBid (AGood false 8) 1 1 (Some (2 * P)) (coin 2 100)).
Definition ex2 : state := run ex0 [ex_create; OApiAdd 1 [(1%N, AGood false 8%N, Some 500)]].
(* the middle listener now vetoes BeforeBidPlaced, and BeforeAllocated *)
Definition ex3 : state := run ex2 [OSetListeners [[]; [H_BeforeBidPlaced; H_BeforeAllocated]; []]].

Example ex_accepted_three_calls :
  fst (step ex2 ex_bid) = Accepted /\
  skipn (length (st_trace ex2)) (st_trace (snd (step ex2 ex_bid)))
  = [mkcall 0 5 [1; 1; 8; 1; 2 * P; 2; 100]; mkcall 1 5 [1; 1; 8; 1; 2 * P; 2; 100];
     mkcall 2 5 [1; 1; 8; 1; 2 * P; 2; 100]].
Proof. vm_compute. split; reflexivity. Qed.

Example ex_veto_rejects :
  fst (step ex3 ex_bid) = Rejected E_HOOK /\
  skipn (length (st_trace ex3)) (st_trace (snd (step ex3 ex_bid)))
  = [mkcall 0 5 [1; 1; 8; 1; 2 * P; 2; 100]; mkcall 1 5 [1; 1; 8; 1; 2 * P; 2; 100]] /\
  st_bids (snd (step ex3 ex_bid)) = st_bids ex3 /\ st_xfers (snd (step ex3 ex_bid)) = st_xfers ex3 /\
  vetoed ex3 (skipn (length (st_trace ex3)) (st_trace (snd (step ex3 ex_bid)))) = true.
Proof. vm_compute. repeat split; reflexivity. Qed.

(* a block closing the auction: vetoed allocation hook fails the block; without the veto three calls *)
Definition ex4 : state := snd (step ex2 ex_bid).
Example ex_block_ok_three_calls :
  fst (step ex4 (OBlock 200 [])) = BlockOk /\
  length (st_trace (snd (step ex4 (OBlock 200 [])))) = (length (st_trace ex4) + 3)%nat.
Proof. vm_compute. split; reflexivity. Qed.
Example ex_block_veto :
  let s := run ex4 [OSetListeners [[]; [H_BeforeAllocated]; []]] in
  fst (step s (OBlock 200 [])) = BlockErr E_HOOK /\
  map h_listener (skipn (length (st_trace s)) (st_trace (snd (step s (OBlock 200 []))))) = [0%N; 1%N].
Proof. vm_compute. split; reflexivity. Qed.
Example ex_block_not_due : st_trace (snd (step ex4 (OBlock 50 []))) = st_trace ex4.
Proof. vm_compute. reflexivity. Qed.
Example ex_block_no_settle_hyps :
  map a_id (st_auctions ex4) = [1%N] /\ fst (step ex4 (OBlock 50 [])) = BlockOk /\
  map a_status (st_auctions (snd (step ex4 (OBlock 50 [])))) = [Started].
Proof. vm_compute. repeat split; reflexivity. Qed.
