(* C16 (first sentence): what the module publishes says what happened: the matched flags, the matched
   length and the matched price of a batch auction are those of the settlement that was computed; the flag
   of a fixed price bid says whether it bought anything; the released flag of a vesting instalment says it
   was paid; the queries return exactly the stored records.
   Proofs: Proofs/PublishFacts.v, Proofs/VestingInv.v (released flags). *)
From Coq Require Import ZArith NArith List Bool Permutation.
From FR Require Import Dec Types Bank Match Step Genesis Model Spec.
From FR.Proofs Require Import FrameFacts BlockFacts MatchSweep MatchDemand MatchBatch MatchWf VestingFacts VestingInv
     PublishFacts PublishStable InvDefs PublishInv.
Import ListNotations.
Open Scope Z_scope.

(* ---- (e) set_flags: flag_with m b = b with b_matched := (b_id b is in m) *)
Theorem C16_set_flags_bids : forall s id m,
  bids_of (set_flags s id m) id = map (flag_with m) (bids_of s id)
  /\ (forall j, j <> id -> bids_of (set_flags s id m) j = bids_of s j)
  /\ st_mlen (set_flags s id m) id = Z.of_nat (length m)
  /\ (forall j, j <> id -> st_mlen (set_flags s id m) j = st_mlen s j).
Proof.
  intros s id m. split; [apply set_flags_bids_of|]. split; [intros j; apply set_flags_bids_other|].
  split; [apply set_flags_mlen|intros j; apply set_flags_mlen_other].
Qed.
Print Assumptions C16_set_flags_bids.

Theorem C16_set_flags_flag : forall s id m b,
  In b (bids_of (set_flags s id m) id) -> (b_matched b = true <-> In (b_id b) m).
Proof. exact set_flags_flag. Qed.
Print Assumptions C16_set_flags_flag.

(* mlen_inv (J9) holds for the auction afterwards *)
Theorem C16_set_flags_count : forall s id m,
  NoDup m -> incl m (map b_id (bids_of s id)) -> NoDup (map b_id (bids_of s id)) ->
  count_matched (st_bids (set_flags s id m)) id = Z.of_nat (length m)
  /\ st_mlen (set_flags s id m) id = count_matched (st_bids (set_flags s id m)) id.
Proof. exact set_flags_count. Qed.
Print Assumptions C16_set_flags_count.

(* ---- (f) what the matching computes ... *)
Theorem C16_batch_flag_facts : forall a bs ids order al mi,
  book_wf bs al -> valid_order bs ids = Some order -> 0 <= a_sell_amt a ->
  calc_batch a bs order al = Some mi ->
  mi_price mi = spec_price bs al (a_sell_amt a) /\
  mi_matched mi = match clearing_spec bs al (a_sell_amt a) with
                  | Some p => matched_ids (batch_asg order al p) | None => [] end /\
  NoDup (mi_matched mi) /\ incl (mi_matched mi) (map b_id bs) /\ NoDup (map b_id bs) /\
  (forall p, clearing_spec bs al (a_sell_amt a) = Some p -> forall b, In b bs ->
     (In (b_id b) (mi_matched mi) <-> exists m, In (b, m) (batch_asg order al p) /\ 0 < m)) /\
  (forall b, In b bs -> In (b_id b) (mi_matched mi) -> mi_price mi <= b_price b) /\
  (forall u, 0 < mi_alloc mi u <-> exists b, In b bs /\ b_bidder b = u /\ In (b_id b) (mi_matched mi)) /\
  (mi_price mi = 0 <-> mi_matched mi = []) /\
  (mi_matched mi = [] <-> forall b, In b bs -> ~ In (b_id b) (mi_matched mi)).
Proof. exact batch_flag_facts. Qed.
Print Assumptions C16_batch_flag_facts.

(* ... is what CloseBatchAuction publishes, in the settle branch and in the extend branch alike
   (spec_price = the clearing price of Spec.clearing_spec, 0 if there is none;
    batch_asg order al p = MatchSweep.assign over the bids priced at or above p, in sweep order) *)
Theorem C16_close_batch_publishes : forall s orc a s',
  find_auction s (a_id a) = Some a ->
  book_wf (bids_of s (a_id a)) (allowed_of s (a_id a)) -> 0 <= a_sell_amt a ->
  close_batch s orc a = Ok s' ->
  let id := a_id a in
  let bs := bids_of s id in
  let al := allowed_of s id in
  exists order mi a',
    valid_order bs (oracle_ids orc id) = Some order /\ calc_batch a bs order al = Some mi /\
    find_auction s' id = Some a' /\
    a_matched_price a' = spec_price bs al (a_sell_amt a) /\ a_matched_price a' = mi_price mi /\
    bids_of s' id = map (flag_with (mi_matched mi)) bs /\
    (forall j, j <> id -> bids_of s' j = bids_of s j) /\
    (forall b, In b (bids_of s' id) -> (b_matched b = true <-> In (b_id b) (mi_matched mi))) /\
    st_mlen s' id = Z.of_nat (length (mi_matched mi)) /\
    st_mlen s' id = count_matched (st_bids s') id /\
    (forall p, clearing_spec bs al (a_sell_amt a) = Some p -> forall b, In b (bids_of s' id) ->
       (b_matched b = true <->
        exists b0 m, In (b0, m) (batch_asg order al p) /\ 0 < m /\ b = flag_with (mi_matched mi) b0)) /\
    (forall b, In b (bids_of s' id) -> b_matched b = true -> a_matched_price a' <= b_price b) /\
    (forall u, 0 < mi_alloc mi u <-> exists b, In b (bids_of s' id) /\ b_bidder b = u /\ b_matched b = true) /\
    (a_matched_price a' = 0 <-> forall b, In b (bids_of s' id) -> b_matched b = false).
Proof. exact close_batch_publishes. Qed.
Print Assumptions C16_close_batch_publishes.

(* ---- J9 (InvDefs.mlen_inv): the recorded matched length of a batch auction is the number of its flagged bids,
   in every reachable state.  Assumed of the rest of the invariant: J1 (as ids_ok), from J3 that bids refer to
   existing auctions (bids_ref) and have unique keys, and from J2-J5 the book hypotheses of the matching theorems
   for every started batch auction (books_ok); all of them follow from InvDefs.Inv (second theorem). *)
Theorem C16_mlen_inv_step : forall s o,
  ids_ok s -> bids_ref s -> bid_keys_unique s -> books_ok s -> mlen_inv s -> o <> OGenesis ->
  mlen_inv (snd (step s o)).
Proof. exact mlen_inv_step. Qed.
Print Assumptions C16_mlen_inv_step.

Theorem C16_mlen_inv_step_inv : forall s o, Inv s -> o <> OGenesis -> mlen_inv (snd (step s o)).
Proof. exact mlen_inv_step_inv. Qed.
Print Assumptions C16_mlen_inv_step_inv.

(* at the granularity of one auction inside a block (book_ok s a: the book hypotheses for a, if it is a
   started batch auction) *)
Theorem C16_mlen_inv_process : forall t orc s a s',
  find_auction s (a_id a) = Some a -> book_ok s a -> mlen_inv s -> process t orc s a = Ok s' -> mlen_inv s'.
Proof. exact mlen_inv_process. Qed.
Print Assumptions C16_mlen_inv_process.

Theorem C16_mlen_inv_process_all : forall t orc l s s',
  NoDup (map a_id l) -> (forall a, In a l -> find_auction s (a_id a) = Some a /\ book_ok s a) ->
  mlen_inv s -> process_all t orc s l = Ok s' -> mlen_inv s'.
Proof. exact mlen_inv_process_all. Qed.
Print Assumptions C16_mlen_inv_process_all.

(* ---- (g) fixed price: the stored flag says whether the bid bought anything (the FixedPrice clause of
   InvDefs.bid_wf for the new bid); batch bids are stored unflagged *)
Theorem C16_place_bid_flag : forall s u id bt price d amt s',
  place_bid s u id bt price d amt = Ok s' ->
  exists a nb, find_auction s id = Some a /\ a_status a = Started /\ st_bids s' = st_bids s ++ [nb] /\
    b_auction nb = id /\ b_id nb = (st_bseq s id + 1)%N /\ b_bidder nb = u /\ b_type nb = bt /\
    b_price nb = price /\ b_denom nb = d /\ b_amt nb = amt /\
    match bt with
    | BFixed => a_type a = FixedPrice /\ b_matched nb = (0 <? sell_amount (a_pay_denom a) nb)
                /\ (d = a_pay_denom a \/ d = a_sell_denom a) /\ price = a_start_price a
    | BWorth => a_type a = Batch /\ b_matched nb = false /\ d = a_pay_denom a /\ a_min_price a <= price
    | BMany => a_type a = Batch /\ b_matched nb = false /\ d = a_sell_denom a /\ a_min_price a <= price
    end.
Proof. exact place_bid_flag. Qed.
Print Assumptions C16_place_bid_flag.

Theorem C16_close_fixed_keeps_flags : forall s a s',
  close_fixed s a = Ok s' -> st_bids s' = st_bids s /\ st_mlen s' = st_mlen s.
Proof. exact close_fixed_bids. Qed.
Print Assumptions C16_close_fixed_keeps_flags.

(* ... and nothing changes the bids of a fixed price auction later: every operation leaves them alone or appends
   one bid that satisfies the FixedPrice clause of bid_wf (type, denomination, price, flag) *)
Theorem C16_fixed_bids_stable : forall s o id a,
  ids_ok s -> o <> OGenesis -> find_auction s id = Some a -> a_type a = FixedPrice ->
  bids_of (snd (step s o)) id = bids_of s id
  \/ exists nb, bids_of (snd (step s o)) id = bids_of s id ++ [nb] /\ fixed_bid_ok a nb.
Proof. exact fixed_bids_stable. Qed.
Print Assumptions C16_fixed_bids_stable.

(* ---- (h) released = paid *)
Theorem C16_released_iff_paid : forall s a t s',
  NoDup (map vkey (st_vqs s)) -> release_loop s a t (vqs_of s (a_id a)) = Ok s' ->
  let vs := vqs_of s (a_id a) in
  let flipped := filter (fun v => negb (v_released v) && v_released (release_vq (a_id a) t v)) vs in
  vqs_of s' (a_id a) = map (release_vq (a_id a) t) vs
  /\ (forall v, In v vs -> v_released (release_vq (a_id a) t v) = v_released v || (v_time v <=? t))
  /\ st_xfers s' = st_xfers s ++ map (xfer_of a) (filter (fun v => negb (v_amt v =? 0)) flipped).
Proof. exact released_iff_paid. Qed.
Print Assumptions C16_released_iff_paid.

(* ---- (i) queries *)
Theorem C16_query_get_bid : forall s a i,
  run_query s (QGetBid a i) = match find_bid s a i with Some b => RBids [b] | None => RNotFound end
  /\ (forall b, find_bid s a i = Some b -> In b (st_bids s) /\ b_auction b = a /\ b_id b = i)
  /\ (find_bid s a i = None -> forall b, In b (st_bids s) -> ~ (b_auction b = a /\ b_id b = i)).
Proof. exact query_get_bid. Qed.
Print Assumptions C16_query_get_bid.

Theorem C16_query_list_bid : forall s a u m,
  exists l, run_query s (QListBid a u m) = RBids l /\
    l = filter (fun b => opt_match N.eqb u (b_bidder b) && opt_match Bool.eqb m (b_matched b)) (bids_of s a) /\
    (forall b, In b l <-> In b (st_bids s) /\ b_auction b = a
                          /\ (forall x, u = Some x -> b_bidder b = x) /\ (forall x, m = Some x -> b_matched b = x)).
Proof. exact query_list_bid. Qed.
Print Assumptions C16_query_list_bid.

Theorem C16_query_list_allowed : forall s a,
  exists l, run_query s (QListAllowed a) = RAllowed l /\ Permutation l (allowed_of s a) /\
    (forall x, In x l <-> In x (st_allowed s) /\ al_auction x = a).
Proof. exact query_list_allowed. Qed.
Print Assumptions C16_query_list_allowed.

Theorem C16_query_list_vesting : forall s a,
  run_query s (QListVesting a) = RVqs (vqs_of s a) /\
  (forall v, In v (vqs_of s a) <-> In v (st_vqs s) /\ v_auction v = a).
Proof. exact query_list_vesting. Qed.
Print Assumptions C16_query_list_vesting.

Theorem C16_query_list_auction : forall s st ty,
  exists l, run_query s (QListAuction st ty) = RAuctions l /\
    l = filter (fun a => opt_match status_eqb st (a_status a) && opt_match atype_eqb ty (a_type a)) (st_auctions s) /\
    (forall a, In a l <-> In a (st_auctions s) /\ (forall x, st = Some x -> a_status a = x)
                          /\ (forall x, ty = Some x -> a_type a = x)).
Proof. exact query_list_auction. Qed.
Print Assumptions C16_query_list_auction.

Theorem C16_query_get_auction : forall s a,
  run_query s (QGetAuction a) = match find_auction s a with Some x => RAuctions [x] | None => RNotFound end
  /\ (forall x, find_auction s a = Some x -> In x (st_auctions s) /\ a_id x = a).
Proof. exact query_get_auction. Qed.
Print Assumptions C16_query_get_auction.

Theorem C16_query_get_allowed : forall s a u,
  run_query s (QGetAllowed a u) = match find_allowed s a u with Some x => RAllowed [x] | None => RNotFound end
  /\ (forall x, find_allowed s a u = Some x -> In x (st_allowed s) /\ al_auction x = a /\ al_bidder x = u).
Proof. exact query_get_allowed. Qed.
Print Assumptions C16_query_get_allowed.

(* ---- example: a batch auction (supply 100, min price 1.0); bids 60 @ 2.0 (bidder 5), 60 @ 1.0 and
   30 @ 1.5 (bidder 6); demand 60 @ 2.0, 90 @ 1.5, 150 @ 1.0: clears at 1.5, bids 1 and 3 matched *)
Definition ex_init : state :=
  {| st_params := {| p_cfee := []; p_bfee := []; p_period := 1 |};
     st_auctions := []; st_bids := []; st_allowed := []; st_vqs := [];
     st_aseq := 0; st_bseq := fun _ => 0%N; st_mlen := fun _ => 0;
     st_bal := fun a _ => match a with User _ => 1000000 | _ => 0 end;
     st_now := 100; st_listeners := []; st_switch := true; st_xfers := []; st_trace := [] |}.
Definition coin (d : N) (a : Z) : mcoin := {| mc_denom := Some d; mc_amt := Some a |}.
Definition ex_ops : list op :=
  [ OTx (MCreateBatch (AGood false 0) (Some P) (Some P) (coin 1 100) (Some 2%N) [] 0 (Some (P / 10)) 50 200);
    OTx (MAddAllowed 0 0 (AGood false 5) (Some 100)); OTx (MAddAllowed 0 0 (AGood false 6) (Some 100));
    OTx (MPlaceBid (AGood false 5) 0 3 (Some (2 * P)) (coin 1 60));
    OTx (MPlaceBid (AGood false 6) 0 3 (Some P) (coin 1 60));
    OTx (MPlaceBid (AGood false 6) 0 3 (Some (P + P / 2)) (coin 1 30)) ].
Definition ex_s : state := run ex_init ex_ops.
Definition ex_auction : auction := match find_auction ex_s 0 with Some a => a | None => new_auction 0 Batch 0 false 0 0 0 0 [] 0 0 Started 0 0 0 0 end.
Definition ex_orc : list (N * list N) := [(0%N, [1; 3; 2]%N)].

Example ex_hyps :
  find_auction ex_s (a_id ex_auction) = Some ex_auction
  /\ book_wfb (bids_of ex_s 0) (allowed_of ex_s 0) = true
  /\ (0 <=? a_sell_amt ex_auction) = true
  /\ map b_matched (bids_of ex_s 0) = [false; false; false].
Proof. vm_compute. repeat split. Qed.

Definition ex_s' : state := snd (step ex_s (OBlock 200 ex_orc)).
Example ex_closed :
  fst (step ex_s (OBlock 200 ex_orc)) = BlockOk
  /\ map (fun b => (b_id b, b_matched b)) (bids_of ex_s' 0) = [(1%N, true); (2%N, false); (3%N, true)]
  /\ option_map a_matched_price (find_auction ex_s' 0) = Some (P + P / 2)
  /\ clearing_spec (bids_of ex_s 0) (allowed_of ex_s 0) 100 = Some (P + P / 2)
  /\ st_mlen ex_s' 0%N = 2 /\ count_matched (st_bids ex_s') 0 = 2.
Proof. vm_compute. repeat split. Qed.

Example ex_queries :
  run_query ex_s' (QListBid 0 None (Some true)) = RBids (filter b_matched (bids_of ex_s' 0))
  /\ run_query ex_s' (QGetBid 0 7) = RNotFound.
Proof. vm_compute. repeat split. Qed.

(* fixed price 2.0: a bid of 1 paying coin buys nothing and is stored unflagged, one of 10 buys 5 *)
Definition ex_fixed : state :=
  run ex_init [ OTx (MCreateFixed (AGood false 0) (Some (2 * P)) (coin 1 100) (Some 2%N) [] 50 200);
                OTx (MAddAllowed 0 0 (AGood false 5) (Some 100));
                OTx (MPlaceBid (AGood false 5) 0 1 (Some (2 * P)) (coin 2 1));
                OTx (MPlaceBid (AGood false 5) 0 1 (Some (2 * P)) (coin 2 10)) ].
Example ex_fixed_flags :
  map (fun b => (b_id b, sell_amount 2 b, b_matched b)) (st_bids ex_fixed) = [(1%N, 0, false); (2%N, 5, true)].
Proof. vm_compute. reflexivity. Qed.
