(* C15: the genesis exported from any state satisfying the global invariant passes the module's own
   validation, and importing it yields the same auctions, bids, allow-lists, vesting instalments, counters
   and parameters.  `state_same s s'` (Proofs/GenesisImport.v): same auction list and auction counter, the same
   list of bids and of vesting instalments for every auction id, the same allow-list entry for every
   (auction, bidder), the stores of bids / allowed bidders / instalments are rearrangements of each other, the
   same bid counter and matched length for every id, the same parameters, and the bank, clock, listeners,
   switch and ghost logs untouched. *)
From Coq Require Import ZArith NArith List Bool Permutation.
From FR Require Import Dec Types Bank Match Step Genesis Model Spec Checkers.
From FR.Proofs Require Import InvDefs GenesisSort GenesisRT GenesisImport GenesisInv GenesisCongr GenesisCongrBlock
  GenesisExamples.
Import ListNotations.
Open Scope Z_scope.

(* 1. the exported genesis is valid *)
Theorem C15_export_validates : forall s, Inv s -> validate (export s) = true.
Proof. exact export_validates. Qed.
Print Assumptions C15_export_validates.

(* 2. importing it succeeds and gives the same module state *)
Theorem C15_import_export : forall s, Inv s ->
  exists s', import s (export s) = Some s' /\ state_same s s'.
Proof. exact import_export. Qed.
Print Assumptions C15_import_export.

(* 3. the GENESIS operation of the model *)
Theorem C15_genesis_step : forall s, Inv s ->
  exists s', step s OGenesis = (GenOk true, s') /\ state_same s s'.
Proof. exact genesis_step. Qed.
Print Assumptions C15_genesis_step.

(* 4. the relation preserves the global invariant; GENESIS preserves it *)
Theorem C15_state_same_inv : forall s s', state_same s s' -> Inv s -> Inv s'.
Proof. exact state_same_inv. Qed.
Print Assumptions C15_state_same_inv.

Theorem C15_Inv_genesis : forall s, Inv s -> Inv (snd (step s OGenesis)).
Proof. exact Inv_genesis. Qed.
Print Assumptions C15_Inv_genesis.

(* 5. nothing observable changes: every query answers the same, bids are found the same *)
Theorem C15_genesis_queries : forall s q, Inv s ->
  fst (step s OGenesis) = GenOk true /\ run_query (snd (step s OGenesis)) q = run_query s q.
Proof. exact genesis_queries. Qed.
Print Assumptions C15_genesis_queries.

Theorem C15_find_bid_same : forall s s', state_same s s' -> forall a i, find_bid s' a i = find_bid s a i.
Proof. exact find_bid_same. Qed.
Print Assumptions C15_find_bid_same.

(* 5b. "evolves identically": state_same is a congruence for the transition function (same outcome, related
   successors; the bank, the transfer log and the hook trace are literally equal in related states) *)
Theorem C15_step_congr : forall s s' o, Inv s -> state_same s s' ->
  fst (step s o) = fst (step s' o) /\ state_same (snd (step s o)) (snd (step s' o)).
Proof. exact step_congr. Qed.
Print Assumptions C15_step_congr.

Theorem C15_step_congr_nogen : forall s s' o, o <> OGenesis -> state_same s s' ->
  fst (step s o) = fst (step s' o) /\ state_same (snd (step s o)) (snd (step s' o)).
Proof. exact step_congr_nogen. Qed.
Print Assumptions C15_step_congr_nogen.

(* a history continued after GENESIS has the same outcomes and reaches a related state *)
Theorem C15_genesis_evolves : forall s ops, Inv s -> Forall (fun o => o <> OGenesis) ops ->
  fst (step s OGenesis) = GenOk true
  /\ outcomes (snd (step s OGenesis)) ops = outcomes s ops
  /\ state_same (run s ops) (run (snd (step s OGenesis)) ops).
Proof. exact genesis_evolves. Qed.
Print Assumptions C15_genesis_evolves.

(* the sort used by export: a rearrangement, sorted, and determined by the set when keys are unique *)
Theorem C15_sort_by_perm : forall A (le : A -> A -> bool) l, Permutation (sort_by le l) l.
Proof. intros A le l. apply sort_by_perm. Qed.
Print Assumptions C15_sort_by_perm.

Theorem C15_sort_by_sorted : forall A (le : A -> A -> bool), le_total le -> le_trans le ->
  forall l, Sorted.StronglySorted (leP le) (sort_by le l).
Proof. intros A le Ht Htr l. apply sort_by_sorted; assumption. Qed.
Print Assumptions C15_sort_by_sorted.

Theorem C15_sort_by_perm_unique : forall A (le : A -> A -> bool), le_total le -> le_trans le ->
  forall l l', (forall x y, In x l -> In y l -> le x y = true -> le y x = true -> x = y) ->
  Permutation l l' -> sort_by le l = sort_by le l'.
Proof. intros A le Ht Htr l l'. apply sort_by_perm_unique; assumption. Qed.
Print Assumptions C15_sort_by_perm_unique.

(* ---- Examples.  The hypothesis is satisfiable: *)
Example C15_ex_init_Inv : Inv g_init.
Proof. exact g_init_Inv. Qed.

(* g_state is reached from g_init by 12 accepted operations: auction 0 is a batch auction in its second round
   with three bids of which two are flagged, auction 1 a fixed price auction in vesting with two instalments
   (the first released); two allowed bidders each; the stores are not in export order. *)
Example C15_ex_history :
  map (fun k => fst (step (run g_init (firstn k g_ops)) (nth k g_ops OGenesis))) (seq 0 12)
  = [Accepted; Accepted; Accepted; Accepted; Accepted; Accepted; Accepted; Accepted; Accepted;
     BlockOk; BlockOk; BlockOk].
Proof. vm_compute. reflexivity. Qed.

Example C15_ex_shape :
  map (fun a => (a_type a, a_status a, length (a_ends a), length (a_scheds a))) (st_auctions g_state)
    = [(Batch, Started, 2%nat, 0%nat); (FixedPrice, VestingS, 1%nat, 2%nat)]
  /\ map (fun b => (b_auction b, b_id b, b_matched b)) (st_bids g_state)
    = [(1, 1, true); (0, 1, true); (0, 2, true); (1, 2, true); (0, 3, false)]%N
  /\ map (fun x => (al_auction x, al_bidder x)) (st_allowed g_state) = [(1, 3); (1, 2); (0, 3); (0, 2)]%N
  /\ map (fun v => (v_auction v, v_time v, v_released v)) (st_vqs g_state) = [(1%N, 400, true); (1%N, 500, false)]
  /\ map (st_mlen g_state) [0; 1; 2]%N = [2; 0; 0]
  /\ map (st_bseq g_state) [0; 1; 2]%N = [3; 2; 0]%N
  /\ g_bids (export g_state) <> st_bids g_state
  /\ g_allowed (export g_state) <> st_allowed g_state.
Proof. vm_compute. repeat split; discriminate. Qed.

(* the invariant holds in g_state (checked part by part on the computed state) *)
Example C15_ex_state_Inv : Inv g_state.
Proof. exact g_state_Inv. Qed.

Example C15_ex_valid : validate (export g_state) = true.
Proof. vm_compute. reflexivity. Qed.

Example C15_ex_roundtrip :
  match import g_state (export g_state) with
  | Some s' => module_state_eqb g_state s' && balances_eqb g_state s'
  | None => false
  end = true.
Proof. vm_compute. reflexivity. Qed.

(* the same per-auction data, compared literally *)
Example C15_ex_per_auction :
  option_map (fun s' => (st_auctions s', st_aseq s', map (bids_of s') [0; 1; 2]%N, map (vqs_of s') [0; 1; 2]%N,
                         map (fun a => map (find_allowed s' a) [2; 3; 4]%N) [0; 1; 2]%N,
                         map (st_bseq s') [0; 1; 2]%N, map (st_mlen s') [0; 1; 2]%N, st_params s'))
             (import g_state (export g_state))
  = Some (st_auctions g_state, st_aseq g_state, map (bids_of g_state) [0; 1; 2]%N, map (vqs_of g_state) [0; 1; 2]%N,
          map (fun a => map (find_allowed g_state a) [2; 3; 4]%N) [0; 1; 2]%N,
          map (st_bseq g_state) [0; 1; 2]%N, map (st_mlen g_state) [0; 1; 2]%N, st_params g_state).
Proof. vm_compute. reflexivity. Qed.

Example C15_ex_step : fst (step g_state OGenesis) = GenOk true.
Proof. vm_compute. reflexivity. Qed.
