(* C18 over reachable states: the well-formedness WF that C18_exact assumes follows from the global invariant,
   which holds in every state reachable from the empty module by any history (InvAll.v). *)
From Coq Require Import ZArith NArith List Bool.
From FR Require Import Dec Types Bank Match Step Genesis Model Spec.
From FR.Proofs Require Import InvDefs InvAll FixedFacts PrecondBase PrecondFacts.
Import ListNotations.
Open Scope Z_scope.

Theorem C18_WF_of_invariant : forall s, Inv s -> WF s /\ bids_pos s.
Proof. intros s I. split; [apply Inv_WF, I|apply Inv_bids_pos, I]. Qed.
Print Assumptions C18_WF_of_invariant.

Theorem C18_exact_reachable : forall bal now sw p ops m,
  (forall x d, 0 <= bal x d) -> coins_ok (p_cfee p) None = true -> coins_ok (p_bfee p) None = true ->
  let s := run (init_state bal now sw p) ops in
  (fst (deliver_tx s m) = Accepted <-> precond s m = true).
Proof.
  intros bal now sw p ops m Hb H1 H2 s. apply C18_exact_proof, Inv_WF, Inv_reachable; assumption.
Qed.
Print Assumptions C18_exact_reachable.

Theorem C18_exact_inv : forall s m, Inv s -> (fst (step s (OTx m)) = Accepted <-> precond s m = true).
Proof. intros s m I. cbn [step]. apply C18_exact_proof, Inv_WF, I. Qed.
Print Assumptions C18_exact_inv.
