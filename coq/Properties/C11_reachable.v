(* C11 over reachable states (the hypotheses WF and bids_pos of C11.v follow from the global invariant). *)
From Coq Require Import ZArith NArith List Bool.
From FR Require Import Dec Types Bank Match Step Genesis Model Spec.
From FR.Proofs Require Import InvDefs InvAll FixedFacts PrecondBase PrecondFacts PrecondEffects.
From FR.Properties Require C11.
Import ListNotations.
Open Scope Z_scope.

Theorem C11_modify_iff_inv : forall s who id bid_id price coin, Inv s ->
  (fst (deliver_tx s (MModifyBid who id bid_id price coin)) = Accepted <->
   precond s (MModifyBid who id bid_id price coin) = true).
Proof. intros s who id bid_id price coin I. apply C18_exact_proof, Inv_WF, I. Qed.
Print Assumptions C11_modify_iff_inv.

(* a modification never lowers a reservation, in any reachable state: the increase charged is >= 0 *)
Theorem C11_reservation_monotone : forall s up u id bid_id p d amt a b, Inv s ->
  let m := MModifyBid (AGood up u) id bid_id (Some p) {| mc_denom := Some d; mc_amt := Some amt |} in
  fst (deliver_tx s m) = Accepted -> find_auction s id = Some a -> find_bid s id bid_id = Some b ->
  0 <= pay_amount (a_pay_denom a) (set_b_terms b p amt) - pay_amount (a_pay_denom a) b.
Proof.
  intros s up u id bid_id p d amt a b I m Hacc Fa Fb.
  pose proof (C11.C11_effects s up u id bid_id p d amt a b (Inv_WF s I) (Inv_bids_pos s I) Hacc Fa Fb) as H.
  cbv zeta in H. tauto.
Qed.
Print Assumptions C11_reservation_monotone.
