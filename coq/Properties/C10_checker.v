(* C10, checker link: the executable monitor Checkers.c10_ok (every recorded bid belongs to an account the allow-list
   contained when it was recorded; with the switch EnableAddAllowedBidder off no transaction touches the allow-list
   and MsgAddAllowedBidder is never accepted) accepts every transition of the model from a state satisfying the
   invariant.  Proof: Proofs/Chk10.v. *)
From Coq Require Import ZArith NArith List Bool.
From FR Require Import Dec Types Bank Match Step Genesis Model Spec Checkers.
From FR.Proofs Require Import InvDefs InvAll ExcessExamples Chk10.
Import ListNotations.
Open Scope Z_scope.

Theorem C10_checker : forall s o, Inv s -> oracle_ok s o -> c10_ok (model_trans s o) = true.
Proof. intros s o I _. exact (c10_ok_model s o I). Qed.
Print Assumptions C10_checker.

(* ---- the hypothesis is satisfiable.  Switch on (c01_init): the allow-list message is accepted, the bid of the
   listed account is recorded, the bid of an unlisted account is rejected.  Switch off: the same allow-list message
   is rejected and the keeper API still works. ---- *)
Definition c10_off : state := init_state c01_bal 100 false c01_params.

Example C10_checker_ex_reachable : Inv (run c01_init [c01_create]) /\ Inv (run c10_off [c01_create]).
Proof. split; (apply Inv_reachable; [intros [u|r a|] d; cbn; discriminate|reflexivity|reflexivity]). Qed.
Example C10_checker_ex_on :
  t_class (model_trans (run c01_init [c01_create]) c01_allow) = KOk
  /\ c10_ok (model_trans (run c01_init [c01_create]) c01_allow) = true
  /\ t_class (model_trans (run c01_init [c01_create; c01_allow]) c01_bid) = KOk
  /\ c10_ok (model_trans (run c01_init [c01_create; c01_allow]) c01_bid) = true
  /\ t_class (model_trans (run c01_init [c01_create]) c01_bid) = KRej
  /\ c10_ok (model_trans (run c01_init [c01_create]) c01_bid) = true.
Proof. vm_compute. repeat split; reflexivity. Qed.
Example C10_checker_ex_off :
  t_class (model_trans (run c10_off [c01_create]) c01_allow) = KRej
  /\ c10_ok (model_trans (run c10_off [c01_create]) c01_allow) = true
  /\ t_class (model_trans (run c10_off [c01_create]) (OApiAdd 0 [(0%N, AGood false 2%N, Some 100)])) = KOk
  /\ c10_ok (model_trans (run c10_off [c01_create]) (OApiAdd 0 [(0%N, AGood false 2%N, Some 100)])) = true.
Proof. vm_compute. repeat split; reflexivity. Qed.
