(* C05, checker link: the executable statement Checkers.c05_ok (at a settlement: the selling coins the bidders receive
   - summed over ALL the transfers of the block out of the auction's selling escrow - are together at most the offered
   amount, per bidder at most the allowance and at most what the bidder's bids ask for at the published price (batch),
   resp. exactly the quantities of the bidder's accepted bids (fixed price); at the acceptance of a fixed price bid:
   everything the bidder has bid for so far fits the allowance) holds of every transition the model makes from a state
   satisfying the global invariant.  Proofs: Proofs/ChkSettle.v (which transfers of a block the sums see),
   Proofs/ChkFixedBid.v, Proofs/Chk05.v. *)
From Coq Require Import ZArith NArith List Bool.
From FR Require Import Dec Types Bank Match Step Genesis Model Spec Checkers.
From FR.Proofs Require Import InvDefs InvAll ExcessExamples Chk05.
Import ListNotations.
Open Scope Z_scope.

Theorem C05_checker : forall s o, Inv s -> oracle_ok s o -> c05_ok (model_trans s o) = true.
Proof. exact c05_ok_model. Qed.
Print Assumptions C05_checker.

(* the oracle hypothesis is not needed *)
Theorem C05_checker_inv : forall s o, Inv s -> c05_ok (model_trans s o) = true.
Proof. exact c05_ok_model_inv. Qed.
Print Assumptions C05_checker_inv.

(* the hypotheses are satisfiable, and the checker is not vacuous there: a block that settles a fixed price auction
   (history of ExcessExamples.v), and the acceptance of a fixed price bid *)
Example C05_checker_ex_Inv : Inv (run c01_init c01_hist3) /\ Inv (run c01_init [c01_create; c01_allow]).
Proof. split; apply Inv_reachable; try reflexivity; intros [u|r a|] d; cbn; discriminate. Qed.
Example C05_checker_ex_settles :
  map (fun p => a_id (fst p)) (settling (model_trans (run c01_init c01_hist3) c01_close)) = [0%N]
  /\ received (model_trans (run c01_init c01_hist3) c01_close) 0 1 2 = 50
  /\ c05_ok (model_trans (run c01_init c01_hist3) c01_close) = true.
Proof. vm_compute. repeat split; reflexivity. Qed.
Example C05_checker_ex_accepts :
  t_class (model_trans (run c01_init [c01_create; c01_allow]) c01_bid) = KOk
  /\ c05_ok (model_trans (run c01_init [c01_create; c01_allow]) c01_bid) = true.
Proof. vm_compute. split; reflexivity. Qed.
