(* C09 (split part): keeper.ApplyVestingSchedules splits the paying reserve `total` over the
   vesting schedules: every instalment but the last is floor(total * weight), the last takes the
   rest, so the instalments are non-negative and add up to exactly `total`.
   Weights are 18-decimal fixed point (sum = P = 10^18 means sum = 1).
   Proofs: Proofs/DecFacts.v. *)
From Coq Require Import ZArith NArith List.
From FR Require Import Dec Types Bank Match Step Genesis Spec Proofs.DecFacts.
Import ListNotations.
Open Scope Z_scope.

(* validity of schedules as the model expresses it gives positive weights that sum to 1 *)
Theorem C09_valid_scheds_weights : forall vs e prev,
  scheds_ok vs e prev 0 = true ->
  Forall (fun v => 0 < s_weight v) vs /\ sumZ (map s_weight vs) = P.
Proof. exact scheds_ok_weights. Qed.
Print Assumptions C09_valid_scheds_weights.

(* ... generalised over the accumulator *)
Theorem C09_valid_scheds_weights_gen : forall vs e prev acc,
  scheds_ok vs e prev acc = true ->
  Forall (fun v => 0 < s_weight v) vs /\ acc + sumZ (map s_weight vs) = P.
Proof. exact scheds_ok_weights_gen. Qed.
Print Assumptions C09_valid_scheds_weights_gen.

(* what ValidateBasic accepts in a message is valid in that sense *)
Theorem C09_checked_scheds_valid : forall ms e prev acc vs,
  check_scheds ms e prev acc = Some vs -> scheds_ok vs e prev acc = true.
Proof. exact check_scheds_ok. Qed.
Print Assumptions C09_checked_scheds_valid.

(* the instalments add up to the total (for any weights: the last instalment takes the rest) *)
Theorem C09_split_sum : forall a total vs, vs <> [] ->
  sumZ (map v_amt (split a total total vs)) = total.
Proof. exact split_sum. Qed.
Print Assumptions C09_split_sum.

(* the amounts are those of the declarative specification *)
Theorem C09_split_amounts : forall a total vs,
  0 <= total -> Forall (fun v => 0 < s_weight v) vs ->
  map v_amt (split a total total vs) = spec_split total (map s_weight vs) 0.
Proof. exact split_amounts. Qed.
Print Assumptions C09_split_amounts.

Theorem C09_split_nonneg : forall a total vs,
  0 <= total -> Forall (fun v => 0 < s_weight v) vs -> sumZ (map s_weight vs) = P ->
  Forall (fun x => 0 <= v_amt x) (split a total total vs).
Proof. exact split_nonneg. Qed.
Print Assumptions C09_split_nonneg.

Theorem C09_split_times : forall a total vs,
  map v_time (split a total total vs) = map s_time vs.
Proof. exact split_times. Qed.
Print Assumptions C09_split_times.

Theorem C09_split_fields : forall a total vs,
  Forall (fun x => v_released x = false /\ v_auction x = a_id a /\ v_auctioneer x = a_auctioneer a
                   /\ v_denom x = a_pay_denom a) (split a total total vs).
Proof. exact split_fields. Qed.
Print Assumptions C09_split_fields.

(* every instalment but the last is the floor of total * weight *)
Theorem C09_split_nonfinal : forall a total vs i dv d,
  0 <= total -> Forall (fun v => 0 < s_weight v) vs -> (S i < length vs)%nat ->
  v_amt (nth i (split a total total vs) dv) = total * s_weight (nth i vs d) / P.
Proof. exact split_nonfinal. Qed.
Print Assumptions C09_split_nonfinal.

(* the last one is the total minus the others ... *)
Theorem C09_split_last : forall a total vs d, vs <> [] ->
  last (map v_amt (split a total total vs)) d
  = total - sumZ (removelast (map v_amt (split a total total vs))).
Proof. exact split_last. Qed.
Print Assumptions C09_split_last.

(* ... which is never less than its own exact proportion *)
Theorem C09_split_last_ge : forall a total vs d dv,
  0 <= total -> Forall (fun v => 0 < s_weight v) vs -> sumZ (map s_weight vs) = P -> vs <> [] ->
  total * s_weight (last vs d) <= last (map v_amt (split a total total vs)) dv * P.
Proof. exact split_last_ge. Qed.
Print Assumptions C09_split_last_ge.

(* all together, for schedules that passed validation *)
Theorem C09_split_of_valid : forall a total vs e prev,
  scheds_ok vs e prev 0 = true -> 0 <= total ->
  sumZ (map v_amt (split a total total vs)) = total
  /\ map v_amt (split a total total vs) = spec_split total (map s_weight vs) 0
  /\ Forall (fun x => 0 <= v_amt x) (split a total total vs)
  /\ map v_time (split a total total vs) = map s_time vs.
Proof. exact split_of_valid. Qed.
Print Assumptions C09_split_of_valid.

(* apply_vesting appends exactly the split of the whole paying reserve to the vesting queues *)
Theorem C09_apply_vesting_queues : forall s a s', apply_vesting s a = Ok s' ->
  st_vqs s' = st_vqs s ++ split a (st_bal s (Escrow Paying (a_id a)) (a_pay_denom a))
                                  (st_bal s (Escrow Paying (a_id a)) (a_pay_denom a)) (a_scheds a).
Proof. exact apply_vesting_vqs. Qed.
Print Assumptions C09_apply_vesting_queues.

(* ---- example: weights 0.000000000000000001 / 0.999999999999999998 / 0.000000000000000001 *)
Definition ex_scheds : list sched :=
  [ {| s_time := 20; s_weight := 1 |}; {| s_time := 30; s_weight := P - 2 |}; {| s_time := 40; s_weight := 1 |} ].
Definition ex_auction : auction :=
  new_auction 7 FixedPrice 3 false P 0 100 1 ex_scheds 0 10 Started 100 0 0 0.
Definition ex_total : Z := 1999999999999999999.

Example ex_scheds_valid : scheds_ok ex_scheds 10 year1_ns 0 = true.
Proof. vm_compute. reflexivity. Qed.
Example ex_split_amounts :
  map v_amt (split ex_auction ex_total ex_total ex_scheds) = [1; 1999999999999999995; 3].
Proof. vm_compute. reflexivity. Qed.
Example ex_spec_split : spec_split ex_total (map s_weight ex_scheds) 0 = [1; 1999999999999999995; 3].
Proof. vm_compute. reflexivity. Qed.
Example ex_split_full : split ex_auction ex_total ex_total ex_scheds =
  [ {| v_auction := 7; v_time := 20; v_auctioneer := 3; v_denom := 1; v_amt := 1; v_released := false |};
    {| v_auction := 7; v_time := 30; v_auctioneer := 3; v_denom := 1; v_amt := 1999999999999999995; v_released := false |};
    {| v_auction := 7; v_time := 40; v_auctioneer := 3; v_denom := 1; v_amt := 3; v_released := false |} ].
Proof. vm_compute. reflexivity. Qed.
