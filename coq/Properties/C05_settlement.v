(* C05 at the level of the bank transfers of a settlement (composition of C02_settlement, C05_batch and the global
   invariant): in every reachable state, when BeginBlocker settles an auction, the selling coins that leave its
   escrow towards bidder u are exactly alloc u, with sum alloc <= offered; for a batch auction alloc u is at most u's
   maximum bid amount as of settlement and at most what u's bids ask for at the clearing price; for a fixed price
   auction alloc u is the sum of the quantities of u's accepted bids (each accepted within the allowance of its
   moment, C06_accept_iff).  An auction settles at most once (C08_forward), and before settlement nothing leaves the
   selling escrow except by cancellation (C01_step: its excess is unchanged), so these are all the selling coins it
   ever distributes. *)
From Coq Require Import ZArith NArith List Bool.
From FR Require Import Dec Types Bank Match Step Genesis Model Spec Checkers.
From FR.Proofs Require Import InvDefs InvAll EscrowBase MatchSweep MatchDemand Ledger LedgerSettle.
From FR.Proofs Require EscrowBlock MatchConseq.
From FR.Properties Require C05_batch.
Import ListNotations.
Open Scope Z_scope.

Theorem C05_settlement : forall t orc s a s' a',
  Inv s -> find_auction s (a_id a) = Some a -> a_status a = Started -> process t orc s a = Ok s' ->
  find_auction s' (a_id a) = Some a' -> (a_status a' = VestingS \/ a_status a' = Finished) ->
  exists mi wr,
    ledger_by s s' (settle_xfers s a mi wr)
    (* what bidder u receives out of the selling escrow (the auctioneer, if he bids, receives the unsold coins too) *)
    /\ (forall u, sum_xfers (settle_xfers s a mi wr) (from_to (Escrow Selling (a_id a)) (User u) (a_sell_denom a))
                  = (if existsb (N.eqb u) (mi_bidders mi) then mi_alloc mi u else 0)
                    + (if N.eqb (a_auctioneer a) u then unsold_of s a mi else 0))
    /\ (forall u, 0 <= mi_alloc mi u)
    /\ total_of (mi_bidders mi) (mi_alloc mi) <= a_sell_amt a
    /\ (wr = true -> a_type a = Batch /\ forall u,
          mi_alloc mi u <= cap_of (allowed_of s (a_id a)) u
          /\ mi_alloc mi u <= asked (mi_price mi) u (bids_of s (a_id a)))
    /\ (wr = false -> a_type a = FixedPrice /\ forall u,
          mi_alloc mi u = sumZ (map (sell_amount (a_pay_denom a))
                                    (filter (fun b => N.eqb (b_bidder b) u) (bids_of s (a_id a))))).
Proof.
  intros t orc s a s' a' I Fa St H Fa' Hst'.
  destruct (settlement_dues t orc s a s' a' I Fa St H Fa' Hst') as (mi & wr & Hw & L & D & _).
  exists mi, wr. split; [exact L|].
  assert (Hnd : NoDup (mi_bidders mi)).
  { pose proof (du_sorted _ _ _ _ D) as Hs. clear -Hs. induction Hs as [|x l Hs IH Hx]; constructor; [|exact IH].
    intros Hin. rewrite Forall_forall in Hx. specialize (Hx x Hin). apply N.lt_irrefl in Hx. exact Hx. }
  split; [intros u; apply (settle_xfers_received s a mi wr u Hnd)|].
  split; [apply (du_alloc _ _ _ _ D)|]. split; [apply (du_alloc_sum _ _ _ _ D)|].
  destruct Hw as [_ [(Ty & -> & ->)|(Ty & -> & _ & order & HV & HC)]].
  - split; [discriminate|]. intros _. split; [exact Ty|]. intros u. apply (du_fixed _ _ _ _ D eq_refl u).
  - split; [|discriminate]. intros _. split; [exact Ty|]. intros u.
    pose proof (EscrowBlock.Inv_book_wf s (a_id a) I) as BW.
    pose proof (EscrowBlock.InvStaticBase_find_wf s a I Fa) as AW.
    assert (Hsup : 0 <= a_sell_amt a) by (pose proof (awf_amt _ AW); apply Z.lt_le_incl; assumption).
    destruct (C05_batch.C05_batch_alloc_bounds a _ _ order _ mi BW HV Hsup HC) as (B1 & B2 & _).
    split; [apply B1|apply B2].
Qed.
Print Assumptions C05_settlement.
