(* C14  Replaying the same history gives identical state, transfers and events.
   Logic part: (1) the model's transition is a function of state and operation, the sweep order it takes
   as oracle is validated, and the five places where the Go code ranges over a map compute
   order-independent results; (2) every loop of the census of such loops, regenerated and classified from the
   source on every run, is of one of the two order-independent shapes, calls nothing with an effect and has no
   early exit (MapLoopsSpec.loop_safe).  The runtime part (real map iteration, processes) is exercised by
   the repeated-execution check of bin/check C14 and cannot be exhibited by the model. *)
From Coq Require Import ZArith NArith List Bool String Permutation Sorted.
From FR Require Import Dec Types Match Model MapLoopsSpec Proofs.Determinism.
From FR.Proofs Require Import InvDefs SweepOrder OracleFree.
From FR.Proofs Require LiveFacts.
From FR.Generated Require Import MapLoops.
Import ListNotations.

Theorem C14_census : forallb loop_safe map_loops = true.
Proof. vm_compute. reflexivity. Qed.
Print Assumptions C14_census.

(* no message handler, block handler, validation or query reads the wall clock, the environment or a random source
   (census regenerated from the source on every run; the one read found feeds a telemetry timer) *)
Theorem C14_no_wall_clock : forallb clock_use_safe clock_uses = true.
Proof. vm_compute. reflexivity. Qed.
Print Assumptions C14_no_wall_clock.

Theorem C14_collect_then_sort : forall bs bs', Permutation bs bs' -> bidders_of bs = bidders_of bs'.
Proof. exact bidders_of_perm. Qed.
Print Assumptions C14_collect_then_sort.

Theorem C14_keyed_writes : forall (V : Type) (l l' : list (N * V)) f0,
  NoDup (map fst l) -> Permutation l l' -> forall k, write_all f0 l k = write_all f0 l' k.
Proof. exact @keyed_writes_perm. Qed.
Print Assumptions C14_keyed_writes.

Theorem C14_sorted_prices_unique : forall l l' : list Z,
  Permutation l l' -> StronglySorted desc l -> StronglySorted desc l' -> l = l'.
Proof. exact sorted_desc_unique. Qed.
Print Assumptions C14_sorted_prices_unique.

(* the result of a batch matching does not depend on the order in which the store hands over the recorded bids:
   same clearing price, matched bids, total, ordered bidder list, allocations and refunds *)
Theorem C14_matching_store_order : forall a bs bs' order al,
  Permutation bs bs' ->
  match calc_batch a bs order al, calc_batch a bs' order al with
  | Some m, Some m' =>
      mi_price m = mi_price m' /\ mi_matched m = mi_matched m' /\ mi_total m = mi_total m' /\
      mi_bidders m = mi_bidders m' /\ (forall u, mi_alloc m u = mi_alloc m' u) /\ (forall u, mi_refund m u = mi_refund m' u)
  | None, None => True
  | _, _ => False
  end.
Proof. exact calc_batch_store_order. Qed.
Print Assumptions C14_matching_store_order.

(* the order in which a matching sweeps the bids is determined by the bids: by price, highest first, equal prices by
   bid id.  Two valid sweep orders of the same bids are equal *)
Theorem C14_sweep_order_unique : forall bs ids ids' o o',
  valid_order bs ids = Some o -> valid_order bs ids' = Some o' -> o = o' /\ ids = ids'.
Proof. exact valid_order_unique. Qed.
Print Assumptions C14_sweep_order_unique.

(* hence the oracle of a block (the sweep orders the implementation reports) carries no freedom: from a state
   satisfying the invariant every valid oracle gives the same transition, with or without an injected fault, namely
   the one computed from the state itself *)
Theorem C14_block_oracle_irrelevant : forall s t orc orc',
  Inv s -> oracle_ok s (OBlock t orc) -> oracle_ok s (OBlock t orc') ->
  step s (OBlock t orc) = step s (OBlock t orc')
  /\ forall k, step s (OFaultBlock t orc k) = step s (OFaultBlock t orc' k).
Proof. exact block_oracle_irrelevant. Qed.
Print Assumptions C14_block_oracle_irrelevant.

Theorem C14_block_is_a_function_of_the_state : forall s t orc,
  Inv s -> oracle_ok s (OBlock t orc) -> step s (OBlock t orc) = step s (OBlock t (LiveFacts.natural_orc s)).
Proof. exact block_is_a_function_of_the_state. Qed.
Print Assumptions C14_block_is_a_function_of_the_state.

(* the model's step is a function: equal inputs, equal outputs (state, ordered transfers, ordered hook trace) *)
Theorem C14_step_functional : forall s o s1 s2 r1 r2, step s o = (r1, s1) -> step s o = (r2, s2) -> r1 = r2 /\ s1 = s2.
Proof. intros s o s1 s2 r1 r2 H1 H2. rewrite H1 in H2. inversion H2. split; reflexivity. Qed.
Print Assumptions C14_step_functional.

Example C14_example : bidders_of [ {| b_auction := 0; b_id := 1; b_bidder := 3; b_type := BMany; b_price := 1; b_denom := 0; b_amt := 1; b_matched := false |};
                                   {| b_auction := 0; b_id := 2; b_bidder := 1; b_type := BMany; b_price := 1; b_denom := 0; b_amt := 1; b_matched := false |};
                                   {| b_auction := 0; b_id := 3; b_bidder := 3; b_type := BMany; b_price := 1; b_denom := 0; b_amt := 1; b_matched := false |} ]%N%Z
                         = [1; 3]%N.
Proof. vm_compute. reflexivity. Qed.
