(* C03: the batch auction clears at the lowest bid price whose capped demand fits the supply;
   the matching code (sweep + binary search, any valid sweep order) agrees with the declarative
   specification clearing_spec / demand_of of Spec.v. *)
From Coq Require Import ZArith NArith List Bool.
From FR Require Import Dec Types Match Spec.
From FR.Proofs Require Import MatchBase MatchSweep MatchDemand MatchSearch MatchBatch MatchConseq MatchWf MatchExamples.
Import ListNotations.
Open Scope Z_scope.

(* Main theorem.  bs: the auction's bids in store order; order: the same bids in ANY valid sweep
   order; al: the allow-list; supply = a_sell_amt a.  calc_batch never panics and returns the
   specification's clearing price and allocation (or "nothing matched" with a full refund). *)
Theorem C03_calc_batch_spec a bs ids order al :
  book_wf bs al -> valid_order bs ids = Some order -> 0 <= a_sell_amt a ->
  exists mi, calc_batch a bs order al = Some mi /\
    match clearing_spec bs al (a_sell_amt a) with
    | Some p => mi_price mi = p /\ (forall u, mi_alloc mi u = demand_of bs (cap_of al u) u p) /\
                mi_matched mi <> []
    | None => mi_price mi = 0 /\ (forall u, mi_alloc mi u = 0) /\ mi_matched mi = [] /\
              (forall u, mi_refund mi u = reserved_of (a_pay_denom a) bs u)
    end.
Proof. exact (calc_batch_spec a bs ids order al). Qed.
Print Assumptions C03_calc_batch_spec.

Theorem C03_alloc_is_spec_alloc a bs ids order al :
  book_wf bs al -> valid_order bs ids = Some order -> 0 <= a_sell_amt a ->
  exists mi, calc_batch a bs order al = Some mi /\
             forall u, mi_alloc mi u = spec_alloc bs al (a_sell_amt a) u.
Proof. exact (calc_batch_spec_alloc a bs ids order al). Qed.
Print Assumptions C03_alloc_is_spec_alloc.

(* what the specification's price is: the least bid price whose demand fits, demand positive *)
Theorem C03_clearing_spec_least bs al supply p :
  clearing_spec bs al supply = Some p ->
  In p (map b_price bs) /\ 0 < total_demand bs al p <= supply /\
  forall q, In q (map b_price bs) -> total_demand bs al q <= supply -> p <= q.
Proof. exact (clearing_spec_some bs al supply p). Qed.
Print Assumptions C03_clearing_spec_least.

(* A. closed form of the sweep, for any list of bids in any order *)
Theorem C03_sweep_closed_form p supply U l caps cz total matched byb :
  NoDup U ->
  (forall b, In b l -> In (b_bidder b) U) ->
  (forall b, In b l -> 0 <= bid_qty_at b p) ->
  (forall u, In u U -> caps u = Some (cz u)) ->
  (forall u, 0 <= cz u) ->
  total <= supply ->
  let D := sumZ (map (fun u => Z.min (cz u) (asked p u l)) U) in
  match sweep p supply l caps total matched byb with
  | SPanic => False
  | SExceed => supply < total + D
  | SFit r =>
      total + D <= supply /\ mr_total r = total + D /\
      mr_matched r = matched ++ matched_ids (assign p l cz) /\
      (mr_matched r = matched <-> D = 0) /\
      forall u, fst (getb (mr_bidders r) u) = fst (getb byb u) + Z.min (cz u) (asked p u l)
  end.
Proof. exact (sweep_closed_form p supply U l caps cz total matched byb). Qed.
Print Assumptions C03_sweep_closed_form.

(* B. one probe of the search: order independent, equal to the declarative demand *)
Theorem C03_match_at_spec bs al ids order p supply :
  book_wf bs al -> valid_order bs ids = Some order -> 0 < p -> 0 <= supply ->
  let asg := assign p (filter (fun b => p <=? b_price b) order) (cap_of al) in
  match match_at p supply order al with
  | SPanic => False
  | SExceed => supply < total_demand bs al p
  | SFit r =>
      total_demand bs al p <= supply /\ mr_total r = total_demand bs al p /\
      mr_matched r = matched_ids asg /\
      (mr_matched r = [] <-> total_demand bs al p = 0) /\
      (forall u, getb (mr_bidders r) u = (demand_of bs (cap_of al u) u p, paid_in p u asg))
  end.
Proof. exact (match_at_spec bs al ids order p supply). Qed.
Print Assumptions C03_match_at_spec.

(* C. demand is antitone in the price *)
Theorem C03_total_demand_antitone bs al p p' :
  (forall b, In b bs -> 0 <= b_amt b) -> 0 < p <= p' ->
  total_demand bs al p' <= total_demand bs al p.
Proof. exact (total_demand_antitone bs al p p'). Qed.
Print Assumptions C03_total_demand_antitone.

(* D. the binary search with the result-storing closure *)
Theorem C03_search_spec n probe :
  (forall h, (h < n)%nat -> probe h <> SPanic) ->
  (forall a b ra, (a <= b < n)%nat -> probe a = SFit ra -> exists rb, probe b = SFit rb) ->
  (forall a b ra rb, (a <= b < n)%nat ->
     probe a = SFit ra -> probe b = SFit rb -> mr_matched ra = [] -> mr_matched rb = []) ->
  exists best, search (S n) probe 0 n None = Some best /\
    ((best = None /\ forall h, (h < n)%nat -> probe h = SExceed) \/
     (exists h0 r0, (h0 < n)%nat /\ probe h0 = SFit r0 /\
                    (forall k, (k < h0)%nat -> probe k = SExceed) /\
                    best = match mr_matched r0 with [] => None | _ => Some (h0, r0) end)).
Proof. exact (search_spec n probe). Qed.
Print Assumptions C03_search_spec.

(* valid_order: a duplicate-free rearrangement of the book with non-increasing prices
   (and then the bid ids of the book are pairwise distinct) *)
Theorem C03_valid_order_spec bs ids order :
  valid_order bs ids = Some order ->
  Permutation.Permutation order bs /\ prices_desc order = true /\ map b_id order = ids /\ NoDup ids.
Proof. exact (valid_order_spec bs ids order). Qed.
Print Assumptions C03_valid_order_spec.

(* the matched bids: pairwise distinct ids of bids of the book *)
Theorem C03_matched_ids a bs ids order al mi :
  book_wf bs al -> valid_order bs ids = Some order -> 0 <= a_sell_amt a ->
  calc_batch a bs order al = Some mi ->
  NoDup (mi_matched mi) /\ incl (mi_matched mi) (map b_id bs).
Proof. exact (batch_matched_ids a bs ids order al mi). Qed.
Print Assumptions C03_matched_ids.

(* ---- the hypotheses are satisfiable; spec and code on concrete books ---- *)

(* book 1: worth 1 @ 2.0 and 10 coins @ 1.0, supply 100 *)
Example ex1_wf : book_wfb ex1_bids ex1_al = true.
Proof. vm_compute. reflexivity. Qed.
Example ex1_book_wf : book_wf ex1_bids ex1_al.
Proof. exact (book_wfb_sound _ _ ex1_wf). Qed.
Example ex1_order : valid_order ex1_bids [1; 2]%N = Some ex1_bids.
Proof. vm_compute. reflexivity. Qed.
Example ex1_spec : clearing_spec ex1_bids ex1_al 100 = Some P
                   /\ map (spec_alloc ex1_bids ex1_al 100) [1; 2; 3]%N = [1; 10; 0].
Proof. vm_compute. split; reflexivity. Qed.
Example ex1_code :
  ex_view (calc_batch (ex_auction 100) ex1_bids ex1_bids ex1_al) [1; 2; 3]%N
  = Some (P, 11, [1; 2]%N, [1; 2]%N, [1; 10; 0], [0; 0; 0]).
Proof. vm_compute. reflexivity. Qed.

(* book 2: duplicate prices, a binding cap, supply 80; of the two sweep orders with non-increasing prices only the one
   that keeps the equal-priced bids 2 and 3 in the order of their ids is valid *)
Example ex2_wf : book_wfb ex2_bids ex2_al = true.
Proof. vm_compute. reflexivity. Qed.
Example ex2_orders :
  option_map (map b_id) (valid_order ex2_bids ex2_order_a) = Some ex2_order_a /\
  valid_order ex2_bids ex2_order_b = None.
Proof. vm_compute. split; reflexivity. Qed.
Example ex2_demand :
  map (total_demand ex2_bids ex2_al) [P; 2 * P; 2 * P + P / 2; 3 * P] = [117; 73; 32; 30].
Proof. vm_compute. reflexivity. Qed.
Example ex2_spec : clearing_spec ex2_bids ex2_al 80 = Some (2 * P)
                   /\ map (spec_alloc ex2_bids ex2_al 80) [1; 2; 3; 4]%N = [40; 33; 0; 0].
Proof. vm_compute. split; reflexivity. Qed.
Example ex2_code_a :
  ex2_run ex2_order_a = Some (2 * P, 73, [1; 5; 2; 3]%N, [1; 2; 3]%N, [40; 33; 0; 0], [70; 1; 40; 0]).
Proof. vm_compute. reflexivity. Qed.
Example ex2_code_b : ex2_run ex2_order_b = None.
Proof. vm_compute. reflexivity. Qed.
(* nothing fits: supply 20 is below the demand at every bid price *)
Example ex2_none :
  clearing_spec ex2_bids ex2_al 20 = None /\
  match valid_order ex2_bids ex2_order_a with
  | Some o => ex_view (calc_batch (ex_auction 20) ex2_bids o ex2_al) [1; 2; 3]%N
  | None => None
  end = Some (0, 0, [], [1; 2; 3]%N, [0; 0; 0], [150; 67; 40]).
Proof. vm_compute. split; reflexivity. Qed.
