(* C13, checker link: the executable extended-rounds monitor Checkers.c13_ok can never fire on a transition of the model
   from a state satisfying the global invariant.  Proofs: Proofs/Chk13.v (with BlockFacts.v, LifeTheorems.v). *)
From Coq Require Import ZArith NArith List Bool.
From FR Require Import Dec Types Bank Match Step Genesis Model Spec Checkers.
From FR.Proofs Require Import InvDefs InvAll ExcessExamples Chk13.
From FR.Proofs Require ChkCount13.
Import ListNotations.
Open Scope Z_scope.

Theorem C13_checker : forall s o, Inv s -> oracle_ok s o -> c13_ok (model_trans s o) = true.
Proof. intros s o I _. exact (c13_ok_model s o I). Qed.
Print Assumptions C13_checker.

(* the checker the driver evaluates for C13: c13_ok and c13_count (the count of matched bids that the anti-sniping
   rule compares with is recorded by blocks only; no message or allow-list call alters it) *)
Theorem C13_all_checker : forall s o, Inv s -> c13_all (model_trans s o) = true.
Proof. exact ChkCount13.c13_all_model. Qed.
Print Assumptions C13_all_checker.

(* the oracle hypothesis is not needed *)
Theorem C13_checker_any_oracle : forall s o, Inv s -> c13_ok (model_trans s o) = true.
Proof. exact c13_ok_model. Qed.
Print Assumptions C13_checker_any_oracle.

(* along every history from the empty module *)
Theorem C13_checker_reachable : forall bal now sw p ops o,
  (forall x d, 0 <= bal x d) -> coins_ok (p_cfee p) None = true -> coins_ok (p_bfee p) None = true ->
  c13_ok (model_trans (run (init_state bal now sw p) ops) o) = true.
Proof. intros bal now sw p ops o Hb H1 H2. apply c13_ok_model, Inv_reachable; assumption. Qed.
Print Assumptions C13_checker_reachable.

(* non-vacuity: a batch auction with two possible extensions and one bid.  Its first closing block extends it (no
   previous round to compare with), the second one settles it (1 matched bid after 1 matched bid: no drop). *)
Definition c13_create : op :=
  OTx (MCreateBatch (AGood false 0) (Some P) (Some P) (c01_coin 1 1000) (Some 2%N) [] 2 (Some (P / 2)) 50 200).
Definition c13_allow : op := OTx (MAddAllowed 0 0 (AGood false 2) (Some 100)).
Definition c13_bid : op := OTx (MPlaceBid (AGood false 2) 0 2 (Some P) (c01_coin 2 50)).
Example C13_checker_ex :
  let s := run c01_init [c13_create; c13_allow; c13_bid] in
  let t1 := model_trans s (OBlock 250 [(0%N, [1%N])]) in
  let t2 := model_trans (t_post t1) (OBlock (250 + day_ns) [(0%N, [1%N])]) in
  t_class t1 = KBlockOk /\ map a_ends (st_auctions (t_post t1)) = [[200; 200 + day_ns]]
  /\ map a_status (st_auctions (t_post t1)) = [Started] /\ c13_ok t1 = true
  /\ t_class t2 = KBlockOk /\ map a_ends (st_auctions (t_post t2)) = [[200; 200 + day_ns]]
  /\ map a_status (st_auctions (t_post t2)) = [Finished] /\ c13_ok t2 = true.
Proof. cbv zeta. repeat (match goal with |- _ /\ _ => split end); vm_compute; reflexivity. Qed.
