(* The module's own three invariants (keeper/invariants.go: selling-, paying- and vesting-pool-reserve-amount, which
   compare with >= and are never registered with the application), transcribed as predicates over the model state
   (Proofs/ModuleInv.v) and proved for every reachable state as corollaries of the escrow part of the global invariant.
   They are strictly weaker than C01 (exact equality up to third-party deposits, Properties/C01.v).  The executable
   versions are evaluated by the driver on every state the implementation reaches and compared with the verdicts of
   the Go functions themselves (MINV lines of the harness). *)
From Coq Require Import ZArith NArith List Bool Lia.
From FR Require Import Dec Types Bank Match Step Genesis Model Spec Checkers.
From FR.Proofs Require Import InvDefs InvAll ModuleInv.
Import ListNotations.
Open Scope Z_scope.

Theorem C01_module_invariants : forall s, Inv s ->
  selling_pool_reserve_amount s /\ paying_pool_reserve_amount s /\ vesting_pool_reserve_amount s.
Proof. exact module_invariants_hold. Qed.
Print Assumptions C01_module_invariants.

Theorem C01_module_invariants_reachable : forall bal now sw p ops,
  (forall x d, 0 <= bal x d) -> coins_ok (p_cfee p) None = true -> coins_ok (p_bfee p) None = true ->
  let s := run (init_state bal now sw p) ops in
  selling_pool_reserve_amount s /\ paying_pool_reserve_amount s /\ vesting_pool_reserve_amount s.
Proof. intros bal now sw p ops Hb H1 H2 s. apply module_invariants_hold, Inv_reachable; assumption. Qed.
Print Assumptions C01_module_invariants_reachable.

(* the executable transcriptions mean the same and hold in every state satisfying the invariant *)
Theorem C01_module_invariants_executable : forall s,
  (selling_pool_b s = true <-> selling_pool_reserve_amount s) /\
  (paying_pool_b s = true <-> paying_pool_reserve_amount s) /\
  (vesting_pool_b s = true <-> vesting_pool_reserve_amount s) /\
  (Inv s -> module_invariants_b s = true).
Proof.
  intros s. exact (conj (selling_pool_b_spec s) (conj (paying_pool_b_spec s) (conj (vesting_pool_b_spec s) (module_invariants_b_hold s)))).
Qed.
Print Assumptions C01_module_invariants_executable.

(* the checker the driver evaluates for C01 (escrow equation and module invariants) holds of every model transition *)
Theorem C01_all_checker : forall s o, Inv s -> c01_all (model_trans s o) = true.
Proof. exact c01_all_model. Qed.
Print Assumptions C01_all_checker.
