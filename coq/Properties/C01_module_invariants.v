(* The module's own three invariants (keeper/invariants.go: selling-, paying- and vesting-pool-reserve-amount, which
   compare with >= and are never registered with the application) transcribed as predicates over the model state, and
   proved for every reachable state as corollaries of the escrow part of the global invariant.  They are strictly
   weaker than C01 (exact equality up to third-party deposits, Properties/C01.v). *)
From Coq Require Import ZArith NArith List Bool Lia.
From FR Require Import Dec Types Bank Match Step Genesis Model Spec.
From FR.Proofs Require Import InvDefs InvAll EscrowBase.
Import ListNotations.
Open Scope Z_scope.

(* SellingPoolReserveAmountInvariant: every started auction's selling reserve holds at least the selling coin *)
Definition selling_pool_reserve_amount (s : state) : Prop :=
  forall a, In a (st_auctions s) -> a_status a = Started ->
    a_sell_amt a <= st_bal s (Escrow Selling (a_id a)) (a_sell_denom a).

(* PayingPoolReserveAmountInvariant: every auction's paying reserve holds at least the paying amounts of its bids
   (counted only while the auction is started) *)
Definition paying_pool_reserve_amount (s : state) : Prop :=
  forall a, In a (st_auctions s) ->
    (if status_eqb (a_status a) Started then sumZ (map (pay_amount (a_pay_denom a)) (bids_of s (a_id a))) else 0)
    <= st_bal s (Escrow Paying (a_id a)) (a_pay_denom a).

(* VestingPoolReserveAmountInvariant: every auction's vesting reserve holds at least its unreleased instalments
   (counted only while the auction is vesting) *)
Definition vesting_pool_reserve_amount (s : state) : Prop :=
  forall a, In a (st_auctions s) ->
    (if status_eqb (a_status a) VestingS
     then sumZ (map v_amt (filter (fun v => negb (v_released v)) (vqs_of s (a_id a)))) else 0)
    <= st_bal s (Escrow Vesting (a_id a)) (a_pay_denom a).

Theorem C01_module_invariants : forall s, Inv s ->
  selling_pool_reserve_amount s /\ paying_pool_reserve_amount s /\ vesting_pool_reserve_amount s.
Proof.
  intros s I. destruct (inv_escrow _ I) as [B E]. repeat split.
  - intros a Ha St. specialize (E Selling (a_id a) (a_sell_denom a)). unfold owed in E.
    rewrite (Inv_find_in s a I Ha), N.eqb_refl, St in E. exact E.
  - intros a Ha. specialize (E Paying (a_id a) (a_pay_denom a)). unfold owed in E.
    rewrite (Inv_find_in s a I Ha), N.eqb_refl in E. cbn [andb] in E.
    destruct (status_eqb (a_status a) Started); [exact E|apply B].
  - intros a Ha. specialize (E Vesting (a_id a) (a_pay_denom a)). unfold owed in E.
    rewrite (Inv_find_in s a I Ha), N.eqb_refl in E. cbn [andb] in E.
    destruct (status_eqb (a_status a) VestingS); [exact E|apply B].
Qed.
Print Assumptions C01_module_invariants.

Theorem C01_module_invariants_reachable : forall bal now sw p ops,
  (forall x d, 0 <= bal x d) -> coins_ok (p_cfee p) None = true -> coins_ok (p_bfee p) None = true ->
  let s := run (init_state bal now sw p) ops in
  selling_pool_reserve_amount s /\ paying_pool_reserve_amount s /\ vesting_pool_reserve_amount s.
Proof. intros bal now sw p ops Hb H1 H2 s. apply C01_module_invariants, Inv_reachable; assumption. Qed.
Print Assumptions C01_module_invariants_reachable.
