(* C12 over reachable states: exact acceptance under the global invariant, and the refunded amount. *)
From Coq Require Import ZArith NArith List Bool Lia.
From FR Require Import Dec Types Bank Match Step Genesis Model Spec.
From FR.Proofs Require Import InvDefs InvAll FixedFacts PrecondBase PrecondFacts.
From FR.Properties Require C12.
Import ListNotations.
Open Scope Z_scope.

Theorem C12_cancel_iff_inv : forall s who id, Inv s ->
  (fst (deliver_tx s (MCancel who id)) = Accepted <->
   exists up u a, who = AGood up u /\ find_auction s id = Some a /\ u = a_auctioneer a /\
                  a_status a = StandBy /\ no_veto s H_BeforeCanceled = true).
Proof. intros s who id I. apply C12.C12_cancel_iff, Inv_WF, I. Qed.
Print Assumptions C12_cancel_iff_inv.

(* what is refunded - the whole balance of the selling escrow - covers the full offered amount (it is exactly the
   offered amount plus third-party deposits, Properties/C01.v) *)
Theorem C12_refund_covers_offer : forall s id a, Inv s ->
  find_auction s id = Some a -> a_status a = StandBy ->
  a_sell_amt a <= st_bal s (Escrow Selling id) (a_sell_denom a).
Proof.
  intros s id a I Fa St. destruct (inv_escrow _ I) as [_ E].
  specialize (E Selling id (a_sell_denom a)). unfold owed in E. rewrite Fa, St, N.eqb_refl in E. exact E.
Qed.
Print Assumptions C12_refund_covers_offer.
