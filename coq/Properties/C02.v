(* C02: no fundraising operation creates, destroys or strands coins: the balance changes it causes sum to
   zero per denomination, and the only amounts that ever leave a user's account are the advertised fee and the
   amount reserved for that user's own auction or bid.  Once an auction is finished or cancelled, the auctioneer
   has received the unsold selling coins plus all payments, every bidder has received the coins allocated to
   them plus the unused part of their reservation, the fees are in the community pool, and nothing is left in
   escrow. *)
From Coq Require Import ZArith NArith List Bool Arith.
From FR Require Import Dec Types Bank Match Step Genesis Model Spec Checkers.
From FR.Proofs Require Import InvDefs VestingFacts Ledger LedgerCharges LedgerSettle LedgerBlock LedgerChecker LedgerTerminal
     LedgerVesting.
From FR.Proofs Require InvAll.
Import ListNotations.
Open Scope Z_scope.

(* ---- 1. the balance sheet is the replay of the recorded transfers: every operation (accepted, rejected,
        failing block, fault block, GENESIS) appends transfers with positive amounts to the log, and the new
        balances are the old ones with these transfers applied.  No hypothesis on the state. *)
Theorem C02_ledger : forall s o, exists xs,
  st_xfers (snd (step s o)) = st_xfers s ++ xs /\ st_bal (snd (step s o)) = apply_xfers (st_bal s) xs
  /\ Forall (fun x => 0 < x_amt x) xs.
Proof. exact step_ledger. Qed.
Print Assumptions C02_ledger.

Theorem C02_ledger_run : forall s ops, exists xs,
  st_xfers (run s ops) = st_xfers s ++ xs /\ st_bal (run s ops) = apply_xfers (st_bal s) xs
  /\ Forall (fun x => 0 < x_amt x) xs.
Proof. exact run_ledger. Qed.
Print Assumptions C02_ledger_run.

(* the transfers of the step are the new suffix of the log (step_xfers) *)
Theorem C02_step_xfers : forall s o,
  st_xfers (snd (step s o)) = st_xfers s ++ step_xfers s o
  /\ st_bal (snd (step s o)) = apply_xfers (st_bal s) (step_xfers s o)
  /\ Forall (fun x => 0 < x_amt x) (step_xfers s o).
Proof. intros s o. destruct (step_xfers_spec s o) as [X B Pp]. repeat split; assumption. Qed.
Print Assumptions C02_step_xfers.

(* per account and denomination, the balance change is the net of the step's transfers *)
Theorem C02_delta_is_net : forall s o a d,
  st_bal (snd (step s o)) a d - st_bal s a d = net (step_xfers s o) a d.
Proof. exact step_delta_is_net. Qed.
Print Assumptions C02_delta_is_net.

(* zero sum: over any duplicate-free set of accounts containing the endpoints of the step's transfers,
   the balances of every denomination add up to the same total before and after *)
Theorem C02_zero_sum : forall s o (A : list addr) d,
  NoDup A -> endpoints_in A (step_xfers s o) ->
  sumZ (map (fun a => st_bal (snd (step s o)) a d) A) = sumZ (map (fun a => st_bal s a d) A).
Proof. exact step_zero_sum. Qed.
Print Assumptions C02_zero_sum.

(* ---- 2. only the advertised amounts leave a user's account *)
Theorem C02_charges : forall s o, Inv s -> forall u d,
  sum_xfers (step_xfers s o) (fun x => addr_eqb (x_from x) (User u) && N.eqb (x_denom x) d)
  = if accepted (fst (step s o)) then advertised s o u d else 0.
Proof. exact step_charges. Qed.
Print Assumptions C02_charges.

(* `advertised` is the monitor's advertised_charge *)
Theorem C02_advertised_is_checker : forall t u d, advertised_charge t u d = advertised (t_pre t) (t_op t) u d.
Proof. exact advertised_charge_eq. Qed.

(* the exact transfers of an accepted operation: fee to the pool, then the reservation into the escrow *)
Theorem C02_accepted_xfers : forall s o, Inv s -> fst (step s o) = Accepted -> step_xfers s o = tx_xfers s o.
Proof. exact step_xfers_accepted. Qed.
Print Assumptions C02_accepted_xfers.

(* anything else (rejected message, block, fault block, listeners, GENESIS) only moves coins out of escrows *)
Theorem C02_not_accepted : forall s o, fst (step s o) <> Accepted -> Forall esc_src (step_xfers s o).
Proof. exact step_not_accepted. Qed.
Print Assumptions C02_not_accepted.

(* what leaves a user account goes to the community pool or to the signer's own auction's escrow
   (creation: the new auction's selling escrow; bid: the auction's paying escrow; OSend: where the sender says) *)
Theorem C02_destinations : forall s o, Inv s -> Forall (own_dest s o) (step_xfers s o).
Proof. exact step_dest. Qed.
Print Assumptions C02_destinations.

(* ---- 4. settlement dues, one auction of a block *)
Theorem C02_settlement : forall t orc s a s' a',
  Inv s -> find_auction s (a_id a) = Some a -> a_status a = Started -> process t orc s a = Ok s' ->
  find_auction s' (a_id a) = Some a' -> (a_status a' = VestingS \/ a_status a' = Finished) ->
  exists mi wr,
    settles_with t orc s a mi wr
    /\ ledger_by s s' (settle_xfers s a mi wr)
    /\ dues s a mi wr
    /\ 0 <= unsold_of s a mi /\ 0 <= proceeds_of s a mi wr
    /\ st_bal s' (Escrow Selling (a_id a)) (a_sell_denom a) = 0
    /\ st_bal s' (Escrow Paying (a_id a)) (a_pay_denom a) = 0
    /\ (a_scheds a <> [] ->
        st_bal s' (Escrow Vesting (a_id a)) (a_pay_denom a)
        = st_bal s (Escrow Vesting (a_id a)) (a_pay_denom a) + proceeds_of s a mi wr).
Proof. exact settlement_dues. Qed.
Print Assumptions C02_settlement.

(* what each user receives in a settlement *)
Theorem C02_settlement_received : forall s a mi wr u,
  NoDup (mi_bidders mi) ->
  sum_xfers (settle_xfers s a mi wr) (from_to (Escrow Selling (a_id a)) (User u) (a_sell_denom a))
  = (if existsb (N.eqb u) (mi_bidders mi) then mi_alloc mi u else 0)
    + (if N.eqb (a_auctioneer a) u then unsold_of s a mi else 0)
  /\
  sum_xfers (settle_xfers s a mi wr) (from_to (Escrow Paying (a_id a)) (User u) (a_pay_denom a))
  = (if wr && existsb (N.eqb u) (mi_bidders mi) then mi_refund mi u else 0)
    + (if match a_scheds a with [] => N.eqb (a_auctioneer a) u | _ => false end then proceeds_of s a mi wr else 0).
Proof. exact settle_xfers_received. Qed.
Print Assumptions C02_settlement_received.

(* the same for a whole block: the settlement transfers of every auction the block settles, computed from the
   state at the beginning of the block, are a contiguous segment of the block's transfers *)
Theorem C02_settlement_block : forall s t orc s' a a',
  Inv s -> begin_block s t orc = Ok s' -> In a (st_auctions s) -> a_status a = Started ->
  find_auction s' (a_id a) = Some a' -> (a_status a' = VestingS \/ a_status a' = Finished) ->
  exists mi wr pre post,
    settles_with t orc s a mi wr
    /\ dues s a mi wr
    /\ 0 <= unsold_of s a mi /\ 0 <= proceeds_of s a mi wr
    /\ st_xfers s' = st_xfers s ++ pre ++ settle_xfers s a mi wr ++ post
    /\ st_bal s' (Escrow Selling (a_id a)) (a_sell_denom a) = 0
    /\ st_bal s' (Escrow Paying (a_id a)) (a_pay_denom a) = 0
    /\ (a_scheds a <> [] ->
        st_bal s' (Escrow Vesting (a_id a)) (a_pay_denom a)
        = st_bal s (Escrow Vesting (a_id a)) (a_pay_denom a) + proceeds_of s a mi wr).
Proof. exact block_settlement_dues. Qed.
Print Assumptions C02_settlement_block.

(* ---- 5. terminal auctions *)
Theorem C02_terminal : forall s a,
  Inv s -> In a (st_auctions s) -> a_status a = Finished \/ a_status a = Cancelled ->
  (forall r d, InvDefs.owed s r (a_id a) d = 0)
  /\ (forall v, In v (vqs_of s (a_id a)) -> v_released v = true)
  /\ (a_status a = Cancelled -> vqs_of s (a_id a) = [] /\ bids_of s (a_id a) = []).
Proof. exact terminal_auctions. Qed.
Print Assumptions C02_terminal.

(* the ledger invariant over the log of transfers, from the empty module state: what went from the paying
   escrow into the vesting escrow is the sum of the instalments; what left the vesting escrow went to the
   auctioneer and is the sum of the released instalments; for a Finished auction the two are equal *)
Theorem C02_vesting_ledger : forall bal now sw p ops a,
  (forall x d, 0 <= bal x d) -> coins_ok (p_cfee p) None = true -> coins_ok (p_bfee p) None = true ->
  let s := run (init_state bal now sw p) ops in
  In a (st_auctions s) ->
  let id := a_id a in
  sum_xfers (st_xfers s) (from_to (Escrow Paying id) (Escrow Vesting id) (a_pay_denom a))
  = sumZ (map v_amt (vqs_of s id))
  /\ sum_xfers (st_xfers s) (from_to (Escrow Vesting id) (User (a_auctioneer a)) (a_pay_denom a))
     = sumZ (map v_amt (filter v_released (vqs_of s id)))
  /\ (a_status a = Finished ->
      sum_xfers (st_xfers s) (from_to (Escrow Vesting id) (User (a_auctioneer a)) (a_pay_denom a))
      = sum_xfers (st_xfers s) (from_to (Escrow Paying id) (Escrow Vesting id) (a_pay_denom a))).
Proof.
  intros bal now sw p ops a Hb H1 H2 s Ha.
  exact (vesting_ledger s a (InvAll.Inv_reachable bal now sw p ops Hb H1 H2) (LI_reachable bal now sw p ops Hb H1 H2) Ha).
Qed.
Print Assumptions C02_vesting_ledger.

(* the invariant behind it is preserved by every operation from any state satisfying Inv *)
Theorem C02_vesting_ledger_step : forall s o, Inv s -> LI s -> LI (snd (step s o)).
Proof. exact step_LI. Qed.
Print Assumptions C02_vesting_ledger_step.

(* ---- 3. the monitor *)
Theorem C02_checker : forall s o, Inv s -> tracked s o -> c02_ok (model_trans s o) = true.
Proof. exact c02_ok_model. Qed.
Print Assumptions C02_checker.

Theorem C02_checker_untracked : forall s o, Inv s ->
  deltas_are_transfers (model_trans s o) = true /\ c02_charges (model_trans s o) = true.
Proof. exact c02_ok_model_partial. Qed.
Print Assumptions C02_checker_untracked.

(* ---- the hypotheses are satisfiable: a fixed price auction with a creation fee and one vesting instalment,
        one bid with a bid fee, and the block that settles it *)
Definition ex_bal : addr -> N -> Z := fun a _ => match a with User _ => 1000000 | _ => 0 end.
Definition ex_params : params := {| p_cfee := [(0%N, 10)]; p_bfee := [(0%N, 1)]; p_period := 1 |}.
Definition ex_coin (d : N) (a : Z) : mcoin := {| mc_denom := Some d; mc_amt := Some a |}.
Definition ex_create : op :=
  OTx (MCreateFixed (AGood false 0) (Some P) (ex_coin 1 1000) (Some 2%N) [{| ms_time := 400; ms_weight := Some P |}] 50 200).
Definition ex_allow : op := OTx (MAddAllowed 0 0 (AGood false 2) (Some 100)).
Definition ex_bid : op := OTx (MPlaceBid (AGood false 2) 0 1 (Some P) (ex_coin 2 50)).
Definition ex_block : op := OBlock 250 [].
Definition ex_s : state := run (init_state ex_bal 100 true ex_params) [ex_create; ex_allow; ex_bid].

Example ex_Inv : Inv ex_s.
Proof. apply InvAll.Inv_reachable; [intros [u|r a|] d; cbn; discriminate|reflexivity|reflexivity]. Qed.

(* the fee goes to the pool, the offered coins into the selling escrow, the reservation into the paying escrow *)
Example ex_history_xfers :
  st_xfers ex_s = [ mkx (User 0) Pool 0 10; mkx (User 0) (Escrow Selling 0) 1 1000;
                    mkx (User 2) Pool 0 1;  mkx (User 2) (Escrow Paying 0) 2 50 ].
Proof. vm_compute. reflexivity. Qed.

(* the settling block: allocation to the bidder, unsold coins back, proceeds into the vesting escrow *)
Example ex_block_xfers :
  fst (step ex_s ex_block) = BlockOk /\
  step_xfers ex_s ex_block = [ mkx (Escrow Selling 0) (User 2) 1 50; mkx (Escrow Selling 0) (User 0) 1 950;
                               mkx (Escrow Paying 0) (Escrow Vesting 0) 2 50 ].
Proof. split; vm_compute; reflexivity. Qed.

Example ex_checker :
  trackedb ex_s ex_block = true /\ c02_ok (model_trans ex_s ex_block) = true
  /\ trackedb ex_s ex_bid = true /\ c02_ok (model_trans ex_s ex_bid) = true.
Proof. repeat split; vm_compute; reflexivity. Qed.

(* the hypotheses of C02_settlement *)
Example ex_settlement_hyps :
  exists a s' a', find_auction ex_s (a_id a) = Some a /\ a_status a = Started
    /\ process 250 [] (with_now ex_s 250) a = Ok s'
    /\ find_auction s' (a_id a) = Some a' /\ a_status a' = VestingS.
Proof.
  destruct (find_auction ex_s 0) as [a|] eqn:Fa; [|vm_compute in Fa; discriminate].
  destruct (process 250 [] (with_now ex_s 250) a) as [s'|] eqn:Hp.
  2:{ vm_compute in Fa. injection Fa as <-. vm_compute in Hp. discriminate. }
  destruct (find_auction s' 0) as [a'|] eqn:Fa'.
  2:{ vm_compute in Fa. injection Fa as <-. vm_compute in Hp. injection Hp as <-. vm_compute in Fa'. discriminate. }
  exists a, s', a'. vm_compute in Fa. injection Fa as <-. vm_compute in Hp. injection Hp as <-.
  vm_compute in Fa'. injection Fa' as <-. repeat split; reflexivity.
Qed.

(* the hypotheses of C02_settlement_block *)
Example ex_settlement_block_hyps :
  exists s' a a', begin_block ex_s 250 [] = Ok s' /\ In a (st_auctions ex_s) /\ a_status a = Started
    /\ find_auction s' (a_id a) = Some a' /\ a_status a' = VestingS.
Proof.
  destruct (begin_block ex_s 250 []) as [s'|] eqn:Hb; [|vm_compute in Hb; discriminate].
  destruct (find_auction ex_s 0) as [a|] eqn:Fa; [|vm_compute in Fa; discriminate].
  destruct (find_auction s' 0) as [a'|] eqn:Fa'.
  2:{ vm_compute in Hb. injection Hb as <-. vm_compute in Fa'. discriminate. }
  exists s', a, a'. split; [reflexivity|].
  vm_compute in Fa. injection Fa as <-. vm_compute in Hb. injection Hb as <-. vm_compute in Fa'. injection Fa' as <-.
  split; [vm_compute; left; reflexivity|]. repeat split; reflexivity.
Qed.

(* after the release block the auction is Finished: nothing is owed, the instalment is released *)
Example ex_terminal :
  let s1 := snd (step (snd (step ex_s ex_block)) (OBlock 500 [])) in
  map a_status (st_auctions s1) = [Finished] /\ map v_released (st_vqs s1) = [true]
  /\ st_bal s1 (Escrow Selling 0) 1 = 0 /\ st_bal s1 (Escrow Paying 0) 2 = 0 /\ st_bal s1 (Escrow Vesting 0) 2 = 0
  /\ st_bal s1 (User 0) 2 = 1000050 /\ st_bal s1 Pool 0 = 11.
Proof. vm_compute. repeat split; reflexivity. Qed.

(* the ledger of the vesting escrow in that final state: 50 in, 50 out to the auctioneer *)
Example ex_vesting_ledger :
  let s1 := snd (step (snd (step ex_s ex_block)) (OBlock 500 [])) in
  sum_xfers (st_xfers s1) (from_to (Escrow Paying 0) (Escrow Vesting 0) 2) = 50
  /\ sum_xfers (st_xfers s1) (from_to (Escrow Vesting 0) (User 0) 2) = 50
  /\ map v_amt (vqs_of s1 0) = [50].
Proof. vm_compute. repeat split; reflexivity. Qed.

(* `tracked` is needed for the zero_sum conjunct of the monitor: user 7 is outside Checkers.users *)
Example ex_untracked :
  zero_sum (model_trans ex_s (OSend 7 Pool 0 5)) = false /\ trackedb ex_s (OSend 7 Pool 0 5) = false.
Proof. split; vm_compute; reflexivity. Qed.

(* the complete executable statement evaluated on implementation traces (ledger, charges, and "nothing is stranded":
   whatever an operation sweeps is swept to zero) *)
From FR.Proofs Require LedgerSwept.
Theorem C02_checker_all : forall s o, Inv s -> LedgerChecker.tracked s o -> c02_all (model_trans s o) = true.
Proof. exact LedgerSwept.c02_all_model. Qed.
Print Assumptions C02_checker_all.
