(* C10, second sentence: in a default build no transaction can touch the allow-list.
   The switch keeper.EnableAddAllowedBidder is determined by (a) the string default of the link flag,
   parsed in keeper.init, (b) what the Makefile's default targets pass, (c) any other write to the variable
   in a package of this repository that is linked into cmd/fundraisingd.  All three are regenerated from
   /repo by harness/cmd/switchscan on every run; the run-time value in a binary that links the application
   is additionally observed by the harness (every history records it) -- see bin/check C10. *)
From Coq Require Import String List Bool.
From FR.Generated Require Import BuildSwitch.
Import ListNotations.
Open Scope string_scope.

(* strconv.ParseBool on the values that matter *)
Definition parse_bool (s : string) : option bool :=
  if existsb (String.eqb s) ["1"; "t"; "T"; "TRUE"; "true"; "True"] then Some true
  else if existsb (String.eqb s) ["0"; "f"; "F"; "FALSE"; "false"; "False"] then Some false
  else None.

(* the value of the switch after package initialisation of a default build *)
Definition switch_value : option bool :=
  if keeper_init_parses_flag then
    match foreign_writes with
    | [] => if makefile_default_targets_set_flag then None else parse_bool ldflag_default
    | _ => None          (* some other code writes the variable: not decided here, reported *)
    end
  else None.

Theorem C10_default_build_switch_off : switch_value = Some false.
Proof. vm_compute. reflexivity. Qed.
Print Assumptions C10_default_build_switch_off.

Theorem C10_default_build_facts :
  ldflag_default = "false" /\ keeper_init_parses_flag = true /\ makefile_default_targets_set_flag = false /\ foreign_writes = [].
Proof. vm_compute. repeat split; reflexivity. Qed.
Print Assumptions C10_default_build_facts.
