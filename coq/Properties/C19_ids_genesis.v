(* C19, identifiers, including the GENESIS operation: in EVERY state reachable from the empty module by any
   sequence of operations (OGenesis included, whatever the block oracles are), the auction ids are exactly
   0 .. n-1 in store order and per auction the bid ids are exactly 1 .. k in store order.
   (Uses the genesis round trip of C15: Proofs/GenesisSort, GenesisRT, GenesisImport, GenesisInv.) *)
From Coq Require Import ZArith NArith List Bool.
From FR Require Import Dec Types Bank Match Step Genesis Model Spec.
From FR.Proofs Require Import InvDefs InvStatic InvStaticGenesis InvStaticExamples.
Import ListNotations.
Open Scope Z_scope.

Theorem C19_ids_all : forall bal now sw p ops,
  coins_ok (p_cfee p) None = true -> coins_ok (p_bfee p) None = true ->
  let s := run (init_state bal now sw p) ops in
  map a_id (st_auctions s) = ids_upto (st_aseq s)
  /\ forall id, map b_id (bids_of s id) = map N.succ (ids_upto (st_bseq s id)).
Proof.
  intros bal now sw p ops H1 H2. pose proof (InvS_reachable_all bal now sw p ops H1 H2) as I.
  split; [exact (is_ids _ I)|exact (proj2 (is_bids _ I))].
Qed.
Print Assumptions C19_ids_all.

(* the GENESIS operation itself preserves the static invariant (no hypothesis on the vesting queues) *)
Theorem C19_genesis_step : forall s, InvS s -> InvS (snd (step s OGenesis)).
Proof. exact InvS_genesis. Qed.
Print Assumptions C19_genesis_step.

(* ---- Example: the history of C19_ids followed by GENESIS and one more bid ---- *)
Example ex_genesis_accepted : fst (step c19_s OGenesis) = GenOk true.
Proof. vm_compute. reflexivity. Qed.
Example ex_ids_after_genesis :
  let s := run c19_s [OGenesis; OTx (MPlaceBid (AGood false 2) 1 3 (Some (3 * P)) (c19_coin 1 5))] in
  map a_id (st_auctions s) = [0; 1]%N /\ st_aseq s = 2%N
  /\ map b_id (bids_of s 0) = [1; 2]%N /\ map b_id (bids_of s 1) = [1; 2]%N
  /\ map (fun b => (b_auction b, b_id b)) (st_bids s) = [(0, 1); (0, 2); (1, 1); (1, 2)]%N.
Proof. vm_compute. repeat split; reflexivity. Qed.
