(* C06: fixed price sales are first come first served against an exact remainder.
   Proofs: Proofs/FixedFacts.v (with the acceptance theorem of PrecondFacts.v and the global invariant of InvAll.v).
   Spec.fixed_bid_precond is the documented acceptance condition as a flat conjunction:
   auction is fixed price and started; bid price = auction price; denomination is the paying or the selling one;
   bidder allow-listed and (quantities of the bidder's earlier bids + this quantity) <= allowance;
   this quantity <= published remainder; the bidder can pay the bid fee and the reservation. *)
From Coq Require Import ZArith NArith List Bool.
From FR Require Import Dec Types Bank Match Step Genesis Model Spec Checkers.
From FR.Proofs Require Import InvDefs InvAll FixedFacts ExcessExamples.
Import ListNotations.
Open Scope Z_scope.

(* 1. a well-formed fixed price bid is accepted exactly under the documented condition (no listener vetoing) *)
Theorem C06_accept_iff : forall s up u id price d amt,
  Inv s -> 0 < price -> 0 < amt ->
  (fst (step s (OTx (MPlaceBid (AGood up u) id 1 (Some price) {| mc_denom := Some d; mc_amt := Some amt |}))) = Accepted
   <-> fixed_bid_precond s u id price d amt && no_veto s H_BeforeBidPlaced = true).
Proof. exact fixed_accept_iff. Qed.
Print Assumptions C06_accept_iff.

(* a bid of a batch type can never enter a fixed price auction (it would bypass price, remainder and allowance) *)
Theorem C06_rejects_other_types : forall s who id bt price coin a,
  Inv s -> find_auction s id = Some a -> a_type a = FixedPrice -> bt <> 1%N ->
  fst (step s (OTx (MPlaceBid who id bt price coin))) <> Accepted.
Proof. exact fixed_rejects_other_types. Qed.
Print Assumptions C06_rejects_other_types.

(* 2. the published remainder is exact and never negative, in every reachable state *)
Theorem C06_remaining_exact : forall s, Inv s -> remaining_ok s = true.
Proof. exact remaining_exact. Qed.
Print Assumptions C06_remaining_exact.

Theorem C06_remaining_reachable : forall bal now sw p ops,
  (forall x d, 0 <= bal x d) -> coins_ok (p_cfee p) None = true -> coins_ok (p_bfee p) None = true ->
  remaining_ok (run (init_state bal now sw p) ops) = true.
Proof. intros bal now sw p ops Hb H1 H2. apply remaining_exact, Inv_reachable; assumption. Qed.
Print Assumptions C06_remaining_reachable.

Theorem C06_never_oversells : forall s a,
  Inv s -> In a (st_auctions s) -> a_type a = FixedPrice -> a_status a <> Cancelled ->
  sumZ (map (sell_amount (a_pay_denom a)) (bids_of s (a_id a))) = a_sell_amt a - a_remaining a
  /\ 0 <= a_remaining a <= a_sell_amt a.
Proof. exact fixed_never_oversells. Qed.
Print Assumptions C06_never_oversells.

(* 3. earlier bids are never displaced or scaled down: the bid list of a fixed price auction only grows at its end,
   over every operation (blocks, settlement and GENESIS included) and hence over every history *)
Theorem C06_append_only : forall s o, Inv s -> fixed_appended s (snd (step s o)).
Proof. exact fixed_bids_append_only. Qed.
Print Assumptions C06_append_only.

Theorem C06_append_only_history : forall ops s, Inv s -> fixed_appended s (run s ops).
Proof. exact fixed_bids_append_only_run. Qed.
Print Assumptions C06_append_only_history.

Theorem C06_bid_kept : forall s o b,
  Inv s -> In b (st_bids s) -> b_type b = BFixed -> In b (st_bids (snd (step s o))).
Proof. exact fixed_bid_kept. Qed.
Print Assumptions C06_bid_kept.

(* 4. the executable statement the driver evaluates on implementation traces holds of every model transition *)
Theorem C06_checker : forall s o, Inv s -> c06_ok (model_trans s o) = true.
Proof. exact c06_ok_model. Qed.
Print Assumptions C06_checker.

(* ---- non-vacuity: a reachable state with an open fixed price auction (ExcessExamples.v: offered 1000 at price 1,
   bidder 2 allow-listed up to 100, one bid of 50 recorded) ---- *)
Example C06_ex_reachable : Inv (run c01_init c01_hist1).
Proof. apply Inv_reachable; [intros [u|r a|] d; cbn; discriminate|reflexivity|reflexivity]. Qed.
(* a second bid of exactly the rest of the allowance is accepted, one unit more is refused *)
Example C06_ex_accept :
  fixed_bid_precond (run c01_init c01_hist1) 2 0 P 2 50 = true /\
  fst (step (run c01_init c01_hist1) (OTx (MPlaceBid (AGood false 2) 0 1 (Some P) (c01_coin 2 50)))) = Accepted.
Proof. split; vm_compute; reflexivity. Qed.
Example C06_ex_reject :
  fixed_bid_precond (run c01_init c01_hist1) 2 0 P 2 51 = false /\
  fst (step (run c01_init c01_hist1) (OTx (MPlaceBid (AGood false 2) 0 1 (Some P) (c01_coin 2 51)))) = Rejected E_OVERMAX.
Proof. split; vm_compute; reflexivity. Qed.
Example C06_ex_remaining :
  map a_remaining (st_auctions (run c01_init c01_hist1)) = [950].
Proof. vm_compute. reflexivity. Qed.
