(* C12: an auction can be cancelled exactly by its auctioneer while it is in stand-by (and no listener
   vetoes); the cancellation marks it Cancelled, zeroes the remaining coin of a fixed price auction and
   returns the whole selling escrow to the auctioneer; nothing else changes. *)
From Coq Require Import ZArith NArith List Bool.
From FR Require Import Dec Types Bank Match Step Genesis Model Spec.
From FR.Proofs Require Import PrecondBase PrecondFacts PrecondEffects PrecondExamples.
Import ListNotations.
Open Scope Z_scope.

Theorem C12_cancel_iff : forall s who id,
  WF s ->
  (fst (deliver_tx s (MCancel who id)) = Accepted <->
   exists up u a, who = AGood up u /\ find_auction s id = Some a /\ u = a_auctioneer a /\
                  a_status a = StandBy /\ no_veto s H_BeforeCanceled = true).
Proof. exact C12_cancel_iff_proof. Qed.
Print Assumptions C12_cancel_iff.

Theorem C12_effects : forall s who id a,
  WF s -> fst (deliver_tx s (MCancel who id)) = Accepted -> find_auction s id = Some a ->
  let s' := snd (deliver_tx s (MCancel who id)) in
  let bal := st_bal s (Escrow Selling id) (a_sell_denom a) in
  (* the cancelled auction *)
  (exists a', find_auction s' id = Some a' /\ a_status a' = Cancelled /\
     (a_type a = FixedPrice -> a_remaining a' = 0) /\ (a_type a = Batch -> a_remaining a' = a_remaining a) /\
     a_id a' = a_id a /\ a_type a' = a_type a /\ a_auctioneer a' = a_auctioneer a /\ a_upper a' = a_upper a /\
     a_start_price a' = a_start_price a /\ a_sell_denom a' = a_sell_denom a /\ a_sell_amt a' = a_sell_amt a /\
     a_pay_denom a' = a_pay_denom a /\ a_scheds a' = a_scheds a /\ a_start a' = a_start a /\
     a_ends a' = a_ends a /\ a_min_price a' = a_min_price a /\ a_matched_price a' = a_matched_price a /\
     a_max_round a' = a_max_round a /\ a_rate a' = a_rate a /\
     (* the list of auctions changes only at id *)
     st_auctions s' = map (fun x => if N.eqb (a_id x) id then a' else x) (st_auctions s)) /\
  (forall j, j <> id -> find_auction s' j = find_auction s j) /\
  (* nothing else in the store changes *)
  st_params s' = st_params s /\ st_bids s' = st_bids s /\ st_allowed s' = st_allowed s /\
  st_vqs s' = st_vqs s /\ st_aseq s' = st_aseq s /\ st_bseq s' = st_bseq s /\ st_mlen s' = st_mlen s /\
  st_now s' = st_now s /\ st_listeners s' = st_listeners s /\ st_switch s' = st_switch s /\
  (* the whole selling escrow goes back to the auctioneer, in one transfer (none when it is empty) *)
  st_xfers s' = st_xfers s ++
                (if bal =? 0 then []
                 else [{| x_from := Escrow Selling id; x_to := User (a_auctioneer a);
                          x_denom := a_sell_denom a; x_amt := bal |}]) /\
  st_bal s' (Escrow Selling id) (a_sell_denom a) = 0 /\
  st_bal s' (User (a_auctioneer a)) (a_sell_denom a) = st_bal s (User (a_auctioneer a)) (a_sell_denom a) + bal.
Proof. exact C12_effects_proof. Qed.
Print Assumptions C12_effects.

(* once an auction has left stand-by no cancellation is ever accepted (no hypothesis on the state) *)
Theorem C12_never_after_open : forall s id a who,
  find_auction s id = Some a -> a_status a <> StandBy ->
  exists c, fst (deliver_tx s (MCancel who id)) = Rejected c.
Proof. exact C12_never_after_open_proof. Qed.
Print Assumptions C12_never_after_open.

(* the hypotheses are satisfiable: the stand-by auction 2 of ex_state is cancelled by its auctioneer,
   the started auction 0 is not *)
Example ex_cancel_accepted :
  WF ex_state /\ fst (deliver_tx ex_state (MCancel (AGood true 7) 2)) = Accepted /\
  find_auction ex_state 2 = Some ex_standby.
Proof. split; [exact ex_state_WF|]. split; vm_compute; reflexivity. Qed.
Example ex_cancel_started :
  fst (deliver_tx ex_state (MCancel (AGood true 7) 0)) = Rejected E_STATUS.
Proof. vm_compute. reflexivity. Qed.
