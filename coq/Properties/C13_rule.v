(* C13 (rule arithmetic): the extended-round rule of CloseBatchAuction,
       1 - cur/last >= rate      (cur, last: numbers of matched bids of this and the previous round),
   is evaluated with LegacyDec.Quo, i.e. cur/last rounded to 18 decimals (truncation of a 36-digit
   intermediate followed by banker's rounding).  q below is that rounded quotient scaled by P = 10^18;
   rate is scaled by P as well.  Proofs: Proofs/DecFacts.v. *)
From Coq Require Import ZArith NArith List.
From FR Require Import Dec Proofs.DecFacts.
Open Scope Z_scope.

(* the computed quotient is within one unit of the 18th decimal of the exact cur/last *)
Theorem C13_dec_quo_close : forall cur last, 0 <= cur -> 0 < last ->
  let q := dec_quo (dec_of_int cur) (dec_of_int last) in
  cur * P - last <= q * last <= cur * P + last.
Proof. exact dec_quo_close. Qed.
Print Assumptions C13_dec_quo_close.

(* the tighter version: within (1/2 + 1/P) of a unit; the upper bound is exactly half a unit *)
Theorem C13_dec_quo_half : forall cur last, 0 <= cur -> 0 < last ->
  let q := dec_quo (dec_of_int cur) (dec_of_int last) in
  2 * (q * last) <= 2 * (cur * P) + last
  /\ (2 * (cur * P) - last) * P - 2 * last < 2 * (q * last) * P.
Proof. exact dec_quo_half. Qed.
Print Assumptions C13_dec_quo_half.

(* the rule holds whenever the exact inequality holds with one unit of slack ... *)
Theorem C13_extend_rule_sound : forall cur last rate, 0 <= cur -> 0 < last ->
  rate * last <= (last - cur) * P - last -> extend_rule cur last rate = true.
Proof. exact extend_rule_sound. Qed.
Print Assumptions C13_extend_rule_sound.

(* ... and fails whenever the exact inequality fails by more than one unit *)
Theorem C13_extend_rule_complete : forall cur last rate, 0 <= cur -> 0 < last ->
  (last - cur) * P + last < rate * last -> extend_rule cur last rate = false.
Proof. exact extend_rule_complete. Qed.
Print Assumptions C13_extend_rule_complete.

(* when cur/last has at most 18 decimals there is no rounding at all *)
Theorem C13_extend_rule_exact : forall cur last rate, 0 <= cur -> 0 < last ->
  (cur * P) mod last = 0 ->
  extend_rule cur last rate = (rate * last <=? (last - cur) * P).
Proof. exact extend_rule_exact. Qed.
Print Assumptions C13_extend_rule_exact.

(* nothing matched in this round: the rule holds for every rate up to 1 *)
Theorem C13_extend_rule_nothing_matched : forall last rate, 0 < last -> rate <= P ->
  extend_rule 0 last rate = true.
Proof. exact extend_rule_cur_0. Qed.
Print Assumptions C13_extend_rule_nothing_matched.

(* the number of matched bids did not drop: the rule fails for every positive rate *)
Theorem C13_extend_rule_no_drop : forall cur last rate, 0 < last -> last <= cur -> 0 < rate ->
  extend_rule cur last rate = false.
Proof. exact extend_rule_no_drop. Qed.
Print Assumptions C13_extend_rule_no_drop.

(* ---- examples: 2 matched after 3 matched; 1 - 0.666666666666666667 = 0.333333333333333333 *)
Example ex_quo : dec_quo (dec_of_int 2) (dec_of_int 3) = 666666666666666667.
Proof. vm_compute. reflexivity. Qed.
Example ex_rule_true : extend_rule 2 3 333333333333333333 = true.
Proof. vm_compute. reflexivity. Qed.
Example ex_rule_false : extend_rule 2 3 333333333333333334 = false.
Proof. vm_compute. reflexivity. Qed.
(* the hypotheses of sound / complete are satisfiable with these counts *)
Example ex_sound_hyp : 333333333333333332 * 3 <= (3 - 2) * P - 3.
Proof. vm_compute. discriminate. Qed.
Example ex_complete_hyp : (3 - 2) * P + 3 < 333333333333333335 * 3.
Proof. vm_compute. reflexivity. Qed.
(* exact case: 1 of 2 is 0.5 *)
Example ex_exact_hyp : (1 * P) mod 2 = 0.
Proof. vm_compute. reflexivity. Qed.
Example ex_exact_values : extend_rule 1 2 (P / 2) = true /\ extend_rule 1 2 (P / 2 + 1) = false.
Proof. vm_compute. split; reflexivity. Qed.
Example ex_edges : extend_rule 0 3 P = true /\ extend_rule 3 3 1 = false /\ extend_rule 4 3 1 = false.
Proof. vm_compute. repeat split. Qed.
