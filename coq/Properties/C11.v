(* C11: a bid of a started batch auction can be modified exactly by its bidder, to terms that are nowhere
   lower and somewhere strictly higher, in the same denomination, at or above the minimum bid price, when the
   bidder can pay the increase of the reservation (and no listener vetoes); the modification rewrites price
   and amount of that bid only, never lowers the reservation, and moves exactly the increase into escrow. *)
From Coq Require Import ZArith NArith List Bool.
From FR Require Import Dec Types Bank Match Step Genesis Model Spec.
From FR.Proofs Require Import PrecondBase PrecondFacts PrecondEffects PrecondExamples.
Import ListNotations.
Open Scope Z_scope.

Theorem C11_modify_iff : forall s who id bid_id price coin,
  WF s ->
  (fst (deliver_tx s (MModifyBid who id bid_id price coin)) = Accepted <->
   exists up u p d amt a b,
     (* a well-formed message *)
     who = AGood up u /\ price = Some p /\ 0 < p /\ mc_denom coin = Some d /\ mc_amt coin = Some amt /\ 0 < amt /\
     (* a started batch auction and one of the signer's bids in it *)
     find_auction s id = Some a /\ find_bid s id bid_id = Some b /\
     a_type a = Batch /\ a_status a = Started /\ b_bidder b = u /\
     (* the new terms *)
     a_min_price a <= p /\ d = b_denom b /\ b_price b <= p /\ b_amt b <= amt /\
     (b_price b < p \/ b_amt b < amt) /\
     (* the signer can pay the increase of the reservation *)
     pay_amount (a_pay_denom a) (set_b_terms b p amt) - pay_amount (a_pay_denom a) b
       <= st_bal s (User u) (a_pay_denom a) /\
     no_veto s H_BeforeBidModified = true).
Proof. exact C11_modify_iff_proof. Qed.
Print Assumptions C11_modify_iff.

Theorem C11_effects : forall s up u id bid_id p d amt a b,
  WF s -> bids_pos s ->
  let m := MModifyBid (AGood up u) id bid_id (Some p) {| mc_denom := Some d; mc_amt := Some amt |} in
  fst (deliver_tx s m) = Accepted -> find_auction s id = Some a -> find_bid s id bid_id = Some b ->
  let s' := snd (deliver_tx s m) in
  let b' := set_b_terms b p amt in
  let pd := a_pay_denom a in
  let diff := pay_amount pd b' - pay_amount pd b in
  (* the bid carries the new terms, everything else about it is unchanged *)
  find_bid s' id bid_id = Some b' /\
  b_auction b' = b_auction b /\ b_id b' = b_id b /\ b_bidder b' = b_bidder b /\ b_type b' = b_type b /\
  b_denom b' = b_denom b /\ b_matched b' = b_matched b /\ b_price b' = p /\ b_amt b' = amt /\
  (* no bid is removed or added, every other bid is unchanged *)
  st_bids s' = map (fun x => if N.eqb (b_auction x) id && N.eqb (b_id x) bid_id then b' else x) (st_bids s) /\
  length (st_bids s') = length (st_bids s) /\
  (forall i j, i <> id \/ j <> bid_id -> find_bid s' i j = find_bid s i j) /\
  (* the rest of the store is unchanged *)
  st_params s' = st_params s /\ st_auctions s' = st_auctions s /\ st_allowed s' = st_allowed s /\
  st_vqs s' = st_vqs s /\ st_aseq s' = st_aseq s /\ st_bseq s' = st_bseq s /\ st_mlen s' = st_mlen s /\
  st_now s' = st_now s /\ st_listeners s' = st_listeners s /\ st_switch s' = st_switch s /\
  (* the reservation never decreases; exactly its increase is moved into the paying escrow *)
  0 <= diff /\
  st_xfers s' = st_xfers s ++
                (if 0 <? diff
                 then [{| x_from := User u; x_to := Escrow Paying id; x_denom := pd; x_amt := diff |}]
                 else []) /\
  st_bal s' (User u) pd = st_bal s (User u) pd - diff /\
  st_bal s' (Escrow Paying id) pd = st_bal s (Escrow Paying id) pd + diff.
Proof. exact C11_effects_proof. Qed.
Print Assumptions C11_effects.

(* the hypotheses are satisfiable: in PrecondExamples.ex_state bidder 8 raises the price of worth bid 1 of
   auction 1 (no transfer) or its amount from 10 to 25 (15 more reserved); lowering is rejected *)
Example ex_modify_hyps :
  WF ex_state /\ bids_pos ex_state /\
  find_auction ex_state 1 = Some ex_batch /\ find_bid ex_state 1 1 = Some ex_bid.
Proof.
  split; [exact ex_state_WF|]. split; [exact ex_state_bids_pos|]. split; vm_compute; reflexivity.
Qed.
Example ex_modify_price :
  fst (deliver_tx ex_state (MModifyBid (AGood false 8) 1 1 (Some (2 * P)) (coin 2 10))) = Accepted /\
  st_xfers (snd (deliver_tx ex_state (MModifyBid (AGood false 8) 1 1 (Some (2 * P)) (coin 2 10)))) = [].
Proof. split; vm_compute; reflexivity. Qed.
Example ex_modify_amount :
  fst (deliver_tx ex_state (MModifyBid (AGood false 8) 1 1 (Some P) (coin 2 25))) = Accepted /\
  st_xfers (snd (deliver_tx ex_state (MModifyBid (AGood false 8) 1 1 (Some P) (coin 2 25))))
  = [{| x_from := User 8; x_to := Escrow Paying 1; x_denom := 2; x_amt := 15 |}].
Proof. split; vm_compute; reflexivity. Qed.
Example ex_modify_lower :
  fst (deliver_tx ex_state (MModifyBid (AGood false 8) 1 1 (Some P) (coin 2 9))) = Rejected E_INVALID.
Proof. vm_compute. reflexivity. Qed.
