(* C01 (exact form): "an escrow account of an auction holds exactly what the module's records owe out of it,
   plus whatever third parties deposited into it and has not been swept yet; coins deposited by third parties
   are swept with the escrow (selling: on cancel / settlement, to the auctioneer; paying: on settlement, into
   the proceeds)".
   Model: Model.step / run.  Definitions: Proofs/ExcessDefs.v (excess, sweepsP, donation), Proofs/ExcessAll.v
   (ghost, no_deposit, no_send_to), Proofs/InvDefs.v (Inv, owed, init_state).
   Proofs: Proofs/ExcessTx.v (transactions, API calls, plain sends), Proofs/ExcessBlock.v (blocks),
   Proofs/ExcessAll.v (GENESIS, histories, checker).

   excess s r id d   = st_bal s (Escrow r id) d - owed s r id d
   sweepsP s s' r id d : the operation s -> s' sweeps escrow (r,id) in denom d (selling: the auction leaves
                       stand-by/started in its selling denom; paying: it settles, in its paying denom)
   donation o out r id d : the amount of an accepted OSend into Escrow r id in denom d, else 0
   ghost s ops e r id d : e updated along the history: reset to 0 by a sweep, increased by each donation. *)
From Coq Require Import ZArith NArith List Bool.
From FR Require Import Dec Types Bank Match Step Genesis Model Spec.
From FR Require Checkers.
From FR.Proofs Require Import InvDefs ExcessDefs ExcessAll ExcessExamples.
Import ListNotations.
Open Scope Z_scope.

(* every operation (accepted or rejected transactions, API calls, blocks that succeed, fail or are hit by an
   injected bank fault, plain sends, listener changes, GENESIS), from every state satisfying the invariant *)
Theorem C01_step : forall s o, Inv s -> forall r id d,
  excess (snd (step s o)) r id d
  = if sweepsP s (snd (step s o)) r id d then 0 else excess s r id d + donation o (fst (step s o)) r id d.
Proof. exact excess_step. Qed.
Print Assumptions C01_step.

(* every history *)
Theorem C01_history_run : forall ops s, Inv s -> forall r id d,
  excess (run s ops) r id d = ghost s ops (excess s r id d) r id d.
Proof. exact excess_run. Qed.
Print Assumptions C01_history_run.

(* every history from the empty module over any non-negative bank: balance = owed + unswept deposits *)
Theorem C01_history : forall bal now sw p ops r id d,
  (forall x d, 0 <= bal x d) -> coins_ok (p_cfee p) None = true -> coins_ok (p_bfee p) None = true ->
  let s := run (init_state bal now sw p) ops in
  st_bal s (Escrow r id) d = owed s r id d + ghost (init_state bal now sw p) ops (bal (Escrow r id) d) r id d
  /\ 0 <= ghost (init_state bal now sw p) ops (bal (Escrow r id) d) r id d.
Proof. exact escrow_exact. Qed.
Print Assumptions C01_history.

(* without third-party deposits the ghost stays 0 ... *)
Theorem C01_ghost_no_donations : forall ops s r id d,
  Forall (no_send_to r id) ops -> ghost s ops 0 r id d = 0.
Proof. exact ghost_no_donations. Qed.
Print Assumptions C01_ghost_no_donations.

(* ... so the escrow holds exactly what is owed (the first sentence of the property) *)
Theorem C01_no_donations : forall bal now sw p ops r id d,
  (forall x d, 0 <= bal x d) -> coins_ok (p_cfee p) None = true -> coins_ok (p_bfee p) None = true ->
  bal (Escrow r id) d = 0 -> Forall (no_send_to r id) ops ->
  let s := run (init_state bal now sw p) ops in st_bal s (Escrow r id) d = owed s r id d.
Proof. exact escrow_exact_no_donations. Qed.
Print Assumptions C01_no_donations.

(* the same, per denomination: only deposits in denom d into Escrow r id matter *)
Theorem C01_no_deposits : forall bal now sw p ops r id d,
  (forall x d, 0 <= bal x d) -> coins_ok (p_cfee p) None = true -> coins_ok (p_bfee p) None = true ->
  bal (Escrow r id) d = 0 -> Forall (no_deposit r id d) ops ->
  let s := run (init_state bal now sw p) ops in st_bal s (Escrow r id) d = owed s r id d.
Proof. exact escrow_exact_no_deposits. Qed.
Print Assumptions C01_no_deposits.

(* the executable monitor the driver runs on the implementation's transitions accepts every transition of
   the model from a state satisfying the invariant *)
Theorem C01_checker : forall s o, Inv s -> Checkers.c01_ok (Checkers.model_trans s o) = true.
Proof. exact c01_ok_model. Qed.
Print Assumptions C01_checker.

(* ---- the hypotheses are satisfiable, and what the equations say on a short history
   (ExcessExamples.v: create a fixed price auction with one instalment, allow-list, bid 50, [deposit 7],
   closing block, releasing block); c01_view lists (balance, owed) of Selling/Paying/Vesting of auction 0
   in the denominations 1 (selling) and 2 (paying) *)
Example C01_ex_params : coins_ok (p_cfee c01_params) None = true /\ coins_ok (p_bfee c01_params) None = true.
Proof. vm_compute. split; reflexivity. Qed.

Example C01_ex_open : c01_view (run c01_init c01_hist1) = [(1000, 1000); (0, 0); (0, 0); (50, 50); (0, 0); (0, 0)].
Proof. vm_compute. reflexivity. Qed.
Example C01_ex_closed : c01_view (run c01_init c01_hist2) = [(0, 0); (0, 0); (0, 0); (0, 0); (0, 0); (50, 50)].
Proof. vm_compute. reflexivity. Qed.
Example C01_ex_no_send : Forall (no_send_to Paying 0) c01_hist2.
Proof. repeat constructor. Qed.

(* with a deposit of 7 into the paying escrow: an excess of 7 until the settlement sweeps it into the proceeds *)
Example C01_ex_gift : c01_view (run c01_init c01_hist3) = [(1000, 1000); (0, 0); (0, 0); (57, 50); (0, 0); (0, 0)]
  /\ ghost c01_init c01_hist3 0 Paying 0 2 = 7.
Proof. vm_compute. split; reflexivity. Qed.
Example C01_ex_gift_swept : c01_view (run c01_init c01_hist4) = [(0, 0); (0, 0); (0, 0); (0, 0); (0, 0); (57, 57)]
  /\ ghost c01_init c01_hist4 0 Paying 0 2 = 0.
Proof. vm_compute. split; reflexivity. Qed.
Example C01_ex_released : c01_view (run c01_init c01_hist5) = [(0, 0); (0, 0); (0, 0); (0, 0); (0, 0); (0, 0)]
  /\ map a_status (st_auctions (run c01_init c01_hist5)) = [Finished].
Proof. vm_compute. split; reflexivity. Qed.
Example C01_ex_checker : Checkers.c01_ok (Checkers.model_trans (run c01_init c01_hist3) c01_close) = true.
Proof. vm_compute. reflexivity. Qed.
