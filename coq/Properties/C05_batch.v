(* C05 (batch part): nobody is allocated more than his allowance or more than he asked for,
   and the allocations add up to the matched total, which never exceeds the supply. *)
From Coq Require Import ZArith NArith List Bool.
From FR Require Import Dec Types Match Spec.
From FR.Proofs Require Import MatchBase MatchSweep MatchDemand MatchSearch MatchBatch MatchConseq MatchWf MatchExamples.
Import ListNotations.
Open Scope Z_scope.

(* asked p u bs = sum of bid_qty_at b p over all bids b of bidder u in bs;
   cap_of al u = the bidder's maximum bid amount (0 when not on the allow-list) *)
Theorem C05_batch_alloc_bounds a bs ids order al mi :
  book_wf bs al -> valid_order bs ids = Some order -> 0 <= a_sell_amt a ->
  calc_batch a bs order al = Some mi ->
  (forall u, 0 <= mi_alloc mi u <= cap_of al u) /\
  (forall u, mi_alloc mi u <= asked (mi_price mi) u bs) /\
  sumZ (map (mi_alloc mi) (bidders_of bs)) = mi_total mi /\
  0 <= mi_total mi <= a_sell_amt a.
Proof. exact (batch_alloc_bounds a bs ids order al mi). Qed.
Print Assumptions C05_batch_alloc_bounds.

(* calc_batch never fails (no nil-Int panic) on a well-formed book *)
Theorem C05_batch_no_panic a bs ids order al :
  book_wf bs al -> valid_order bs ids = Some order -> 0 <= a_sell_amt a ->
  exists mi, calc_batch a bs order al = Some mi /\ mi_bidders mi = bidders_of bs.
Proof.
  intros WF VO Hs. destruct (calc_batch_full a bs ids order al WF VO Hs) as (mi & E & Hb & _).
  exists mi. split; [exact E|exact Hb].
Qed.
Print Assumptions C05_batch_no_panic.

(* the bound by the cap is attained: bidder 1 of book 2 asks for 60 at the clearing price 2.0
   and is capped at 40 *)
Example ex2_cap_binds :
  asked (2 * P) 1 ex2_bids = 60 /\ cap_of ex2_al 1 = 40 /\
  ex2_run ex2_order_a = Some (2 * P, 73, [1; 5; 2; 3]%N, [1; 2; 3]%N, [40; 33; 0; 0], [70; 1; 40; 0]).
Proof. vm_compute. repeat split; reflexivity. Qed.
Example ex2_hyps : book_wfb ex2_bids ex2_al = true /\ 0 <= a_sell_amt (ex_auction 80).
Proof. vm_compute. split; [reflexivity|discriminate]. Qed.
