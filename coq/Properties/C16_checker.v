(* C16, checker link: the executable monitor Checkers.c16_ok (a settled batch auction publishes flags, matched length
   and matched price that agree with the coins that moved; the flag of a fixed price bid says whether it bought
   anything; an instalment is flagged released exactly when it has been paid, and a flag is never cleared) can never
   fire on a transition the model makes from a state satisfying the invariant.  Proofs: Proofs/Chk16.v (on top of
   Proofs/Chk09.v). *)
From Coq Require Import ZArith NArith List Bool.
From FR Require Import Dec Types Bank Match Step Genesis Model Spec Checkers.
From FR.Proofs Require ChkGen16.
From FR.Proofs Require Import InvDefs Chk09 Chk16.
From FR.Properties Require C09_release C16.
Import ListNotations.
Open Scope Z_scope.

Theorem C16_checker : forall s o, Inv s -> oracle_ok s o -> c16_ok (model_trans s o) = true.
Proof. exact c16_ok_model. Qed.
Print Assumptions C16_checker.

(* the checker the driver evaluates for C16: c16_ok and c16_genesis (the matched flags of the bids and the released
   flags of the instalments are after an export / import exactly what they were before) *)
Theorem C16_all_checker : forall s o, Inv s -> oracle_ok s o -> c16_all (model_trans s o) = true.
Proof. exact ChkGen16.c16_all_model. Qed.
Print Assumptions C16_all_checker.


(* the two conjuncts separately, for the transition taken from any state with an empty transfer log *)
Theorem C16_checker_settlement : forall s o, Inv s -> st_xfers s = [] -> c16_settle_part (trans_of s o) = true.
Proof. exact c16_settle_trans. Qed.
Print Assumptions C16_checker_settlement.

Theorem C16_checker_released : forall s o, Inv s -> st_xfers s = [] -> c16_vest_part (trans_of s o) = true.
Proof. exact c16_vest_trans. Qed.
Print Assumptions C16_checker_released.

Theorem C16_checker_parts : forall t, c16_ok t = c16_settle_part t && c16_vest_part t.
Proof. exact c16_ok_parts. Qed.

(* not vacuous: true on a batch settlement, a fixed price settlement with a vesting schedule, a release of two
   instalments at once; false when a matched flag is cleared in the observed post-state *)
Example ex_batch_settles : c16_ok (model_trans C16.ex_s (OBlock 200 C16.ex_orc)) = true.
Proof. vm_compute. reflexivity. Qed.
Example ex_batch_is_settling : length (settling (model_trans C16.ex_s (OBlock 200 C16.ex_orc))) = 1%nat.
Proof. vm_compute. reflexivity. Qed.
Example ex_fixed_settles :
  c16_ok (model_trans (run C09_release.ex_init [C09_release.ex_create; C09_release.ex_allow; C09_release.ex_bid]) (OBlock 200 [])) = true.
Proof. vm_compute. reflexivity. Qed.
Example ex_release_two : c16_ok (model_trans C09_release.ex_s1 (OBlock 450 [])) = true.
Proof. vm_compute. reflexivity. Qed.
Example ex_fires :
  let t := model_trans C16.ex_s (OBlock 200 C16.ex_orc) in
  c16_ok {| t_pre := t_pre t; t_op := t_op t; t_class := t_class t; t_xfers := t_xfers t; t_trace := t_trace t;
            t_post := with_bids (t_post t) (map (fun b => set_b_matched b false) (st_bids (t_post t)));
            t_fault := t_fault t; t_gen_valid := t_gen_valid t |} = false.
Proof. vm_compute. reflexivity. Qed.
