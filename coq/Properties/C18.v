(* C18: a message is accepted exactly under its documented precondition (Spec.precond);
   a rejected message leaves the store and the balances unchanged. *)
From Coq Require Import ZArith NArith List Bool.
From FR Require Import Dec Types Bank Match Step Genesis Model Spec.
From FR.Proofs Require Import PrecondBase PrecondFacts PrecondExamples.
Import ListNotations.
Open Scope Z_scope.

Theorem C18_exact : forall s m, WF s -> (fst (deliver_tx s m) = Accepted <-> precond s m = true).
Proof. exact C18_exact_proof. Qed.
Print Assumptions C18_exact.

Theorem C18_rejected_unchanged : forall s m c,
  fst (deliver_tx s m) = Rejected c ->
  let s' := snd (deliver_tx s m) in
  st_params s' = st_params s /\ st_auctions s' = st_auctions s /\ st_bids s' = st_bids s /\
  st_allowed s' = st_allowed s /\ st_vqs s' = st_vqs s /\ st_aseq s' = st_aseq s /\
  st_bseq s' = st_bseq s /\ st_mlen s' = st_mlen s /\ st_bal s' = st_bal s /\ st_now s' = st_now s /\
  st_listeners s' = st_listeners s /\ st_switch s' = st_switch s /\ st_xfers s' = st_xfers s.
Proof. exact C18_rejected_unchanged_proof. Qed.
Print Assumptions C18_rejected_unchanged.

(* ---- the hypothesis is satisfiable (PrecondExamples.ex_state_WF), and both sides of the equivalence occur ---- *)
Example ex_WF : WF ex_state.
Proof. exact ex_state_WF. Qed.
(* fee 1 and reservation 39 in the same denomination, balance 40: accepted; reservation 40: rejected *)
Example ex_accept_fixed :
  precond ex_state (MPlaceBid (AGood false 8) 0 1 (Some (P / 2)) (coin 2 39)) = true /\
  fst (deliver_tx ex_state (MPlaceBid (AGood false 8) 0 1 (Some (P / 2)) (coin 2 39))) = Accepted.
Proof. split; vm_compute; reflexivity. Qed.
Example ex_reject_fixed :
  precond ex_state (MPlaceBid (AGood false 8) 0 1 (Some (P / 2)) (coin 2 40)) = false /\
  fst (deliver_tx ex_state (MPlaceBid (AGood false 8) 0 1 (Some (P / 2)) (coin 2 40))) = Rejected E_FUNDS.
Proof. split; vm_compute; reflexivity. Qed.
Example ex_accept_modify :
  precond ex_state (MModifyBid (AGood false 8) 1 1 (Some (2 * P)) (coin 2 10)) = true /\
  fst (deliver_tx ex_state (MModifyBid (AGood false 8) 1 1 (Some (2 * P)) (coin 2 10))) = Accepted.
Proof. split; vm_compute; reflexivity. Qed.
Example ex_accept_cancel :
  precond ex_state (MCancel (AGood true 7) 2) = true /\
  fst (deliver_tx ex_state (MCancel (AGood true 7) 2)) = Accepted.
Proof. split; vm_compute; reflexivity. Qed.
