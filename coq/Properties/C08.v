(* C08 lifecycle: what each operation of Model.step may do to the status of an auction.
   Proofs: Proofs/FrameFacts.v, TxFacts.v, BlockFacts.v, LifeTheorems.v.
   OGenesis is excluded by an explicit hypothesis. *)
From Coq Require Import ZArith NArith List Bool.
From FR Require Import Dec Types Bank Match Step Genesis Model Spec.
From FR.Proofs Require Import FrameFacts TxFacts BlockFacts LifeTheorems GenesisFacts LifeExamples.
Import ListNotations.
Open Scope Z_scope.

(* 1. no operation removes an auction or moves its status other than forward *)
Theorem C08_forward : forall s o id a,
  ids_ok s -> o <> OGenesis -> find_auction s id = Some a ->
  exists a', find_auction (snd (step s o)) id = Some a' /\ forward (a_status a) (a_status a') = true.
Proof. exact L_C08_forward. Qed.
Print Assumptions C08_forward.

(* the same for every operation, GENESIS included, under the stronger invariant
   gen_ok s := map a_id (st_auctions s) = ids_upto (st_aseq s), which every step preserves *)
Theorem C08_forward_all : forall s o id a,
  gen_ok s -> find_auction s id = Some a ->
  exists a', find_auction (snd (step s o)) id = Some a' /\ forward (a_status a) (a_status a') = true.
Proof. exact L_C08_forward_all. Qed.
Print Assumptions C08_forward_all.

Theorem C08_gen_ok_invariant : forall s o, gen_ok s -> gen_ok (snd (step s o)) /\ ids_ok s.
Proof. intros s o G. split; [apply L_gen_ok_step; exact G|apply gen_ok_ids_ok; exact G]. Qed.
Print Assumptions C08_gen_ok_invariant.

(* 2. outside block processing a status changes only by an accepted cancellation of that very auction *)
Theorem C08_only_block_or_cancel : forall s o id a a',
  o <> OGenesis -> is_block o = false ->
  find_auction s id = Some a -> find_auction (snd (step s o)) id = Some a' ->
  a_status a' = a_status a
  \/ (fst (step s o) = Accepted /\ (exists who, o = OTx (MCancel who id))
      /\ a_status a = StandBy /\ a_status a' = Cancelled).
Proof. exact L_C08_only_block_or_cancel. Qed.
Print Assumptions C08_only_block_or_cancel.

(* 3. a successful block: the exact new record of every auction (block_rel, BlockFacts.v),
   and its reading as timing conditions *)
Theorem C08_block_timing : forall s o id a,
  ids_ok s -> is_block o = true -> fst (step s o) = BlockOk -> find_auction s id = Some a ->
  exists a', find_auction (snd (step s o)) id = Some a'
    /\ block_rel (block_time o) (block_orc o) s a a'
    /\ match a_status a with
       | StandBy => (a_status a' = Started <-> a_start a <= block_time o)
                    /\ (block_time o < a_start a -> a' = a) /\ a_status a' <> Cancelled
       | Started => ((a_status a' = VestingS \/ a_status a' = Finished \/ exists e, a_ends a' = a_ends a ++ [e])
                     <-> last_end a <= block_time o)
                    /\ (block_time o < last_end a -> a' = a)
       | VestingS => (a_status a' = Finished <-> last_due (block_time o) (vqs_of s (a_id a)) = true)
                     /\ (last_due (block_time o) (vqs_of s (a_id a)) = false -> a' = a)
       | Finished | Cancelled => a' = a
       end.
Proof. exact L_C08_block_timing. Qed.
Print Assumptions C08_block_timing.

(* a failing block (also an injected bank fault) leaves every auction record as it was *)
Theorem C08_block_failed : forall s o id a c,
  is_block o = true -> fst (step s o) = BlockErr c -> find_auction s id = Some a ->
  find_auction (snd (step s o)) id = Some a.
Proof.
  intros s o id a c B Ho F. destruct (step_block s o B) as [[Ho' _]|[_ (tr & ->)]]; [congruence|exact F].
Qed.
Print Assumptions C08_block_failed.

(* 4. creation *)
Theorem C08_creation_status : forall s m,
  ids_ok s -> is_create m = true -> fst (step s (OTx m)) = Accepted ->
  exists a, st_auctions (snd (step s (OTx m))) = st_auctions s ++ [a]
    /\ a_id a = st_aseq s /\ find_auction (snd (step s (OTx m))) (st_aseq s) = Some a
    /\ find_auction s (st_aseq s) = None
    /\ st_aseq (snd (step s (OTx m))) = (st_aseq s + 1)%N
    /\ a_status a = (if a_start a <=? st_now s then Started else StandBy)
    /\ (exists e, a_ends a = [e]) /\ (a_max_round a <= MaxExtendedRound)%N /\ (a_type a = FixedPrice -> a_max_round a = 0%N).
Proof. exact L_C08_creation_status. Qed.
Print Assumptions C08_creation_status.

(* nothing but an accepted creation adds an auction or moves the counter *)
Theorem C08_no_other_creation : forall s o,
  ids_ok s -> o <> OGenesis ->
  (forall m, o = OTx m -> is_create m = true -> fst (step s o) <> Accepted) ->
  map a_id (st_auctions (snd (step s o))) = map a_id (st_auctions s) /\ st_aseq (snd (step s o)) = st_aseq s.
Proof. exact L_C08_no_other_creation. Qed.
Print Assumptions C08_no_other_creation.

(* 5. bids and modifications are accepted only while the auction is open *)
Theorem C08_bids_only_open_place : forall s who id bt price coin,
  fst (step s (OTx (MPlaceBid who id bt price coin))) = Accepted ->
  exists a, find_auction s id = Some a /\ a_status a = Started.
Proof. exact L_C08_bids_only_open_place. Qed.
Print Assumptions C08_bids_only_open_place.

Theorem C08_bids_only_open_modify : forall s who id bid price coin,
  fst (step s (OTx (MModifyBid who id bid price coin))) = Accepted ->
  exists a, find_auction s id = Some a /\ a_status a = Started.
Proof. exact L_C08_bids_only_open_modify. Qed.
Print Assumptions C08_bids_only_open_modify.

(* ---- the hypotheses are satisfiable: a concrete state with a started fixed price auction (id 0)
        and a batch auction in stand-by (id 1) ---- *)
Example ex_ids_ok_holds : ids_ok ex_s.
Proof. exact ex_ids_ok. Qed.
Example ex_gen_ok_holds : gen_ok ex_s.
Proof. vm_compute. reflexivity. Qed.
Example ex_genesis_keeps_auctions :
  fst (step ex_s OGenesis) = GenOk true /\ st_auctions (snd (step ex_s OGenesis)) = st_auctions ex_s.
Proof. vm_compute. split; reflexivity. Qed.
Example ex_two_auctions :
  map (fun a => (a_id a, a_type a, a_status a)) (st_auctions ex_s)
  = [(0%N, FixedPrice, Started); (1%N, Batch, StandBy)].
Proof. vm_compute. reflexivity. Qed.
Example ex_block_opens :            (* start time 150 <= 160 *)
  fst (step ex_s (OBlock 160 [])) = BlockOk
  /\ map a_status (st_auctions (snd (step ex_s (OBlock 160 [])))) = [Started; Started].
Proof. vm_compute. split; reflexivity. Qed.
Example ex_block_too_early :        (* 120 < 150: nothing happens *)
  map a_status (st_auctions (snd (step ex_s (OBlock 120 [])))) = [Started; StandBy].
Proof. vm_compute. reflexivity. Qed.
Example ex_block_closes_fixed :     (* end time 200 <= 250, no vesting schedule: Finished *)
  map a_status (st_auctions (snd (step ex_s (OBlock 250 [])))) = [Finished; Started].
Proof. vm_compute. reflexivity. Qed.
Example ex_cancel :
  fst (step ex_s (OTx (MCancel (AGood false 1) 1))) = Accepted
  /\ map a_status (st_auctions (snd (step ex_s (OTx (MCancel (AGood false 1) 1))))) = [Started; Cancelled].
Proof. vm_compute. split; reflexivity. Qed.
Example ex_cancel_started_rejected :
  fst (step ex_s (OTx (MCancel (AGood false 0) 0))) = Rejected E_STATUS.
Proof. vm_compute. reflexivity. Qed.
Example ex_bid_on_standby_rejected :
  fst (step ex_s (OTx (MPlaceBid (AGood false 2) 1 2 (Some P) (coin 2 50)))) = Rejected E_STATUS.
Proof. vm_compute. reflexivity. Qed.
Example ex_creation_standby :
  fst (step ex_s (OTx (MCreateFixed (AGood false 0) (Some P) (coin 1 10) (Some 2%N) [] 500 600))) = Accepted
  /\ map (fun a => (a_id a, a_status a))
         (st_auctions (snd (step ex_s (OTx (MCreateFixed (AGood false 0) (Some P) (coin 1 10) (Some 2%N) [] 500 600)))))
     = [(0%N, Started); (1%N, StandBy); (2%N, StandBy)].
Proof. vm_compute. split; reflexivity. Qed.
