(* C09 (release part): "each instalment is paid to the auctioneer in the first block at or after its
   release time and never again; an auction without a schedule pays all proceeds at settlement",
   and J7 (InvDefs.vqs_wf): the vesting-queue part of the global invariant is preserved.
   Model: Step.release_loop / apply_vesting / process (VestingS branch).
   Proofs: Proofs/VestingFacts.v (release_loop), Proofs/VestingInv.v (invariant, never again). *)
From Coq Require Import ZArith NArith List Bool.
From FR Require Import Dec Types Bank Match Step Genesis Model Spec.
From FR.Proofs Require Import FrameFacts BlockFacts InvDefs VestingFacts VestingInv.
Import ListNotations.
Open Scope Z_scope.

(* ---- (a) what ReleaseVestingPayingCoin does.
   vq_due t v            : v's time has come and v is not released
   due_of t vs           : the due entries of vs, in queue order
   rel_xfers a t vs      : one transfer Escrow Vesting (a_id a) -> User (a_auctioneer a) of v_amt v in v_denom v
                           for each due entry with v_amt v <> 0, in queue order
   mark ks x             : x flagged released when its key (auction, time) is the key of an entry of ks
   release_vq id t x     : x flagged released when it belongs to auction id and is due at t
   last_due_rec t vs     : the last entry of vs is due (= FrameFacts.last_due, BlockFacts.last_due_eq)
   rel_spec a t vs s s'  : all fourteen fields of s' in terms of s (see the record in VestingFacts.v). *)

(* every block processes an auction in status VestingS by releasing its own queue at the block time: so an
   instalment is paid in the first block whose time is at or after its release time *)
Theorem C09_block_releases : forall t orc s a,
  a_status a = VestingS -> process t orc s a = release_loop s a t (vqs_of s (a_id a)).
Proof. intros t orc s a H. unfold process. rewrite H. reflexivity. Qed.
Print Assumptions C09_block_releases.

(* for ANY list vs (this is the statement the induction needs: the loop walks vs but updates st_vqs by key) *)
Theorem C09_release_loop_effect : forall a t vs s s',
  release_loop s a t vs = Ok s' -> rel_spec a t vs s s'.
Proof. exact release_loop_spec. Qed.
Print Assumptions C09_release_loop_effect.

(* the same as one equation between states: nothing else changes *)
Theorem C09_release_loop_state : forall a t vs s s',
  release_loop s a t vs = Ok s' -> s' = released_state s a t vs.
Proof. exact release_loop_state. Qed.
Print Assumptions C09_release_loop_state.

(* for the call BeginBlocker makes (vs = the auction's own queue), with unique keys: exactly the due
   entries of this auction become released; every other queue entry of every auction is unchanged; no entry
   is added or removed *)
Theorem C09_release_own : forall s a t s',
  NoDup (map vkey (st_vqs s)) ->
  release_loop s a t (vqs_of s (a_id a)) = Ok s' ->
  rel_spec a t (vqs_of s (a_id a)) s s' /\
  st_vqs s' = map (release_vq (a_id a) t) (st_vqs s) /\
  vqs_of s' (a_id a) = map (release_vq (a_id a) t) (vqs_of s (a_id a)) /\
  (forall j, j <> a_id a -> vqs_of s' j = vqs_of s j).
Proof. exact release_own_spec. Qed.
Print Assumptions C09_release_own.

(* the new flag of an entry: released before, or (of this auction and) due now *)
Theorem C09_release_flag : forall id t x,
  v_released (release_vq id t x) = v_released x || (N.eqb (v_auction x) id && (v_time x <=? t)).
Proof. exact release_vq_flag. Qed.
Print Assumptions C09_release_flag.

(* the balances: the vesting escrow loses, and the auctioneer gains, the sum of the due amounts *)
Theorem C09_release_balances : forall a t vs s s' pd,
  rel_spec a t vs s s' -> (forall v, In v vs -> vq_due t v = true -> v_denom v = pd) ->
  let paid := sumZ (map v_amt (due_of t vs)) in
  st_bal s' (Escrow Vesting (a_id a)) pd = st_bal s (Escrow Vesting (a_id a)) pd - paid
  /\ st_bal s' (User (a_auctioneer a)) pd = st_bal s (User (a_auctioneer a)) pd + paid
  /\ (forall x d, d <> pd -> st_bal s' x d = st_bal s x d)
  /\ (forall x d, x <> Escrow Vesting (a_id a) -> x <> User (a_auctioneer a) -> st_bal s' x d = st_bal s x d).
Proof. exact rel_spec_balances. Qed.
Print Assumptions C09_release_balances.

(* the loop cannot fail (never Err) when the amounts are non-negative and the vesting escrow holds at least
   the unreleased amounts (the Vesting clause of InvDefs.escrow_inv) *)
Theorem C09_release_never_fails : forall s a t,
  NoDup (map vkey (st_vqs s)) ->
  (forall v, In v (vqs_of s (a_id a)) -> 0 <= v_amt v /\ v_denom v = a_pay_denom a) ->
  sumZ (map v_amt (filter (fun v => negb (v_released v)) (vqs_of s (a_id a))))
    <= st_bal s (Escrow Vesting (a_id a)) (a_pay_denom a) ->
  exists s', release_loop s a t (vqs_of s (a_id a)) = Ok s' /\
    rel_spec a t (vqs_of s (a_id a)) s s' /\
    st_vqs s' = map (release_vq (a_id a) t) (st_vqs s) /\
    let paid := sumZ (map v_amt (due_of t (vqs_of s (a_id a)))) in
    0 <= paid /\
    st_bal s' (Escrow Vesting (a_id a)) (a_pay_denom a) = st_bal s (Escrow Vesting (a_id a)) (a_pay_denom a) - paid /\
    st_bal s' (User (a_auctioneer a)) (a_pay_denom a) = st_bal s (User (a_auctioneer a)) (a_pay_denom a) + paid /\
    (forall x d, d <> a_pay_denom a -> st_bal s' x d = st_bal s x d) /\
    (forall x d, x <> Escrow Vesting (a_id a) -> x <> User (a_auctioneer a) -> st_bal s' x d = st_bal s x d) /\
    (forall u d, st_bal s (User u) d <= st_bal s' (User u) d).
Proof. exact release_loop_ok. Qed.
Print Assumptions C09_release_never_fails.

(* ---- (b) never again *)
(* within one release: an entry that is already released is not due, gets no transfer, and is left alone *)
Theorem C09_released_not_paid_again : forall id t vs v,
  v_released v = true -> vq_due t v = false /\ ~ In v (paid_of t vs) /\ release_vq id t v = v.
Proof.
  intros id t vs v R. split; [apply released_not_due; exact R|].
  split; [apply released_not_paid; exact R|apply released_unchanged; exact R].
Qed.
Print Assumptions C09_released_not_paid_again.

(* across operations: the store of vesting queues only evolves by flagging entries released and appending
   new ones; in particular a released entry stays as it is *)
Theorem C09_queues_evolve : forall s o, o <> OGenesis -> vqs_evolve s (snd (step s o)).
Proof. exact step_vqs_evolve. Qed.
Print Assumptions C09_queues_evolve.

Theorem C09_queues_evolve_run : forall ops s, Forall (fun o => o <> OGenesis) ops -> vqs_evolve s (run s ops).
Proof. exact run_vqs_evolve. Qed.
Print Assumptions C09_queues_evolve_run.

Theorem C09_released_never_reset : forall s o v,
  o <> OGenesis -> In v (st_vqs s) -> v_released v = true -> In v (st_vqs (snd (step s o))).
Proof. exact released_never_reset. Qed.
Print Assumptions C09_released_never_reset.

Theorem C09_entry_never_removed : forall s s' v,
  vqs_evolve s s' -> In v (st_vqs s) ->
  exists v', In v' (st_vqs s') /\ vkey v' = vkey v /\ v_auctioneer v' = v_auctioneer v /\ v_denom v' = v_denom v
             /\ v_amt v' = v_amt v /\ (v_released v = true -> v_released v' = true).
Proof. exact evolve_entry_stays. Qed.
Print Assumptions C09_entry_never_removed.

(* ---- (h) released = paid: the transfers of a release are, in order, those of the entries whose flag flips
   in it and whose amount is not zero *)
Theorem C09_released_iff_paid : forall s a t s',
  NoDup (map vkey (st_vqs s)) -> release_loop s a t (vqs_of s (a_id a)) = Ok s' ->
  let vs := vqs_of s (a_id a) in
  let flipped := filter (fun v => negb (v_released v) && v_released (release_vq (a_id a) t v)) vs in
  vqs_of s' (a_id a) = map (release_vq (a_id a) t) vs
  /\ (forall v, In v vs -> v_released (release_vq (a_id a) t v) = v_released v || (v_time v <=? t))
  /\ st_xfers s' = st_xfers s ++ map (xfer_of a) (filter (fun v => negb (v_amt v =? 0)) flipped).
Proof. exact released_iff_paid. Qed.
Print Assumptions C09_released_iff_paid.

(* ---- (c) J7 is an invariant.  Assumed of the rest of the invariant: J1 (ids_seq, used as ids_ok) and the
   schedule field of J2 (auctions_wf).  The oracle hypothesis is not needed. *)
Theorem C09_vqs_wf_step : forall s o,
  ids_ok s -> scheds_all_wf s -> vqs_wf s -> o <> OGenesis -> vqs_wf (snd (step s o)).
Proof. exact vqs_wf_step. Qed.
Print Assumptions C09_vqs_wf_step.

Theorem C09_vqs_wf_step_inv : forall s o,
  ids_seq s -> auctions_wf s -> vqs_wf s -> oracle_ok s o -> o <> OGenesis -> vqs_wf (snd (step s o)).
Proof. exact vqs_wf_step_inv. Qed.
Print Assumptions C09_vqs_wf_step_inv.

Theorem C09_vqs_wf_step_Inv : forall s o, Inv s -> o <> OGenesis -> vqs_wf (snd (step s o)).
Proof.
  intros s o I Hg. apply vqs_wf_step; [apply ids_seq_ids_ok, (inv_ids s I)|
    apply auctions_wf_scheds, (inv_auctions s I)|apply (inv_vqs s I)|exact Hg].
Qed.
Print Assumptions C09_vqs_wf_step_Inv.

(* at the granularity of one auction inside a block *)
Theorem C09_vqs_wf_process : forall t orc s a s',
  ids_ok s -> vqs_wf s -> find_auction s (a_id a) = Some a -> scheds_wf a ->
  process t orc s a = Ok s' -> vqs_wf s'.
Proof. exact vqs_wf_process. Qed.
Print Assumptions C09_vqs_wf_process.

Theorem C09_vqs_wf_process_all : forall t orc l s s',
  ids_ok s -> vqs_wf s -> NoDup (map a_id l) ->
  (forall a, In a l -> find_auction s (a_id a) = Some a /\ scheds_wf a) ->
  process_all t orc s l = Ok s' -> vqs_wf s' /\ ids_ok s'.
Proof. exact vqs_wf_process_all. Qed.
Print Assumptions C09_vqs_wf_process_all.

(* validated schedules have strictly increasing release times: the due entries are a prefix of the
   unreleased ones, so the released flags stay a prefix *)
Theorem C09_scheds_increasing : forall vs e prev acc,
  scheds_ok vs e prev acc = true -> Sorted.StronglySorted Z.lt (map s_time vs).
Proof. exact scheds_ok_sorted. Qed.
Print Assumptions C09_scheds_increasing.

(* ---- (d) no schedule: all proceeds at settlement, in one transfer, no queue, status Finished *)
Theorem C09_no_schedule : forall s a s',
  a_scheds a = [] -> apply_vesting s a = Ok s' ->
  0 <= st_bal s (Escrow Paying (a_id a)) (a_pay_denom a)
  /\ s' = put_auction (pay_all s a) (set_status a Finished).
Proof. exact apply_vesting_no_sched. Qed.
Print Assumptions C09_no_schedule.

Theorem C09_no_schedule_effects : forall s a s',
  a_scheds a = [] -> apply_vesting s a = Ok s' ->
  let r := st_bal s (Escrow Paying (a_id a)) (a_pay_denom a) in
  st_vqs s' = st_vqs s
  /\ st_xfers s' = st_xfers s ++ (if r =? 0 then [] else [{| x_from := Escrow Paying (a_id a);
                                     x_to := User (a_auctioneer a); x_denom := a_pay_denom a; x_amt := r |}])
  /\ st_bal s' (Escrow Paying (a_id a)) (a_pay_denom a) = 0
  /\ st_bal s' (User (a_auctioneer a)) (a_pay_denom a) = st_bal s (User (a_auctioneer a)) (a_pay_denom a) + r
  /\ (forall a0, find_auction s (a_id a) = Some a0 -> find_auction s' (a_id a) = Some (set_status a Finished))
  /\ (forall j, j <> a_id a -> find_auction s' j = find_auction s j).
Proof. exact no_sched_effects. Qed.
Print Assumptions C09_no_schedule_effects.

Theorem C09_no_schedule_never_fails : forall s a,
  a_scheds a = [] -> 0 <= st_bal s (Escrow Paying (a_id a)) (a_pay_denom a) ->
  apply_vesting s a = Ok (put_auction (pay_all s a) (set_status a Finished)).
Proof. exact apply_vesting_no_sched_ok. Qed.
Print Assumptions C09_no_schedule_never_fails.

(* both kinds of settlement end with apply_vesting, after steps that only move coins and call hooks *)
Theorem C09_settlement_ends_with_vesting : forall s a s',
  close_fixed s a = Ok s' -> exists s1, bt_only (a_id a) s s1 /\ apply_vesting s1 a = Ok s'.
Proof. exact close_fixed_vesting. Qed.
Print Assumptions C09_settlement_ends_with_vesting.
Theorem C09_batch_settlement_ends_with_vesting : forall s a mi s',
  settle_batch s a mi = Ok s' -> exists s1, bt_only (a_id a) s s1 /\ apply_vesting s1 a = Ok s'.
Proof. exact settle_batch_vesting. Qed.
Print Assumptions C09_batch_settlement_ends_with_vesting.

(* ---- example: three instalments (1/4 at 300, 1/4 at 400, 1/2 at 500) of proceeds 400 *)
Definition ex_init : state :=
  {| st_params := {| p_cfee := []; p_bfee := []; p_period := 1 |};
     st_auctions := []; st_bids := []; st_allowed := []; st_vqs := [];
     st_aseq := 0; st_bseq := fun _ => 0%N; st_mlen := fun _ => 0;
     st_bal := fun a _ => match a with User _ => 1000000 | _ => 0 end;
     st_now := 100; st_listeners := []; st_switch := true; st_xfers := []; st_trace := [] |}.
Definition coin (d : N) (a : Z) : mcoin := {| mc_denom := Some d; mc_amt := Some a |}.
Definition ex_create : op :=
  OTx (MCreateFixed (AGood false 0) (Some P) (coin 1 1000) (Some 2%N)
         [ {| ms_time := 300; ms_weight := Some (P / 4) |}; {| ms_time := 400; ms_weight := Some (P / 4) |};
           {| ms_time := 500; ms_weight := Some (P / 2) |} ] 50 200).
Definition ex_allow : op := OTx (MAddAllowed 0 0 (AGood false 7) (Some 1000)).
Definition ex_bid : op := OTx (MPlaceBid (AGood false 7) 0 1 (Some P) (coin 2 400)).

Definition view (s : state) : list (Z * Z * bool) := map (fun v => (v_time v, v_amt v, v_released v)) (st_vqs s).
Definition new_xfers (s s' : state) : list xfer := skipn (length (st_xfers s)) (st_xfers s').
Definition pay (amt : Z) : xfer := {| x_from := Escrow Vesting 0; x_to := User 0; x_denom := 2; x_amt := amt |}.

(* settlement at the end time creates the queue *)
Definition ex_s1 : state := run ex_init [ex_create; ex_allow; ex_bid; OBlock 200 []].
Example ex_settled :
  map a_status (st_auctions ex_s1) = [VestingS]
  /\ view ex_s1 = [(300, 100, false); (400, 100, false); (500, 200, false)]
  /\ st_bal ex_s1 (Escrow Vesting 0) 2%N = 400.
Proof. vm_compute. repeat split. Qed.

(* a block that skips two release times pays both instalments at once, in order *)
Definition ex_s2 : state := snd (step ex_s1 (OBlock 450 [])).
Example ex_two_at_once :
  new_xfers ex_s1 ex_s2 = [pay 100; pay 100]
  /\ view ex_s2 = [(300, 100, true); (400, 100, true); (500, 200, false)]
  /\ map a_status (st_auctions ex_s2) = [VestingS].
Proof. vm_compute. repeat split. Qed.

(* the next block pays nothing *)
Definition ex_s3 : state := snd (step ex_s2 (OBlock 460 [])).
Example ex_nothing : new_xfers ex_s2 ex_s3 = [] /\ view ex_s3 = view ex_s2.
Proof. vm_compute. repeat split. Qed.

(* the last instalment finishes the auction; nothing is ever paid after that *)
Definition ex_s4 : state := snd (step ex_s3 (OBlock 500 [])).
Example ex_finished :
  new_xfers ex_s3 ex_s4 = [pay 200]
  /\ view ex_s4 = [(300, 100, true); (400, 100, true); (500, 200, true)]
  /\ map a_status (st_auctions ex_s4) = [Finished]
  /\ st_bal ex_s4 (Escrow Vesting 0) 2%N = 0.
Proof. vm_compute. repeat split. Qed.
Example ex_after : new_xfers ex_s4 (snd (step ex_s4 (OBlock 900 []))) = [].
Proof. vm_compute. reflexivity. Qed.

(* the hypotheses of the theorems hold in these states *)
Example ex_keys_unique : NoDup (map vkey (st_vqs ex_s1)).
Proof. vm_compute. repeat constructor; cbn; intuition discriminate. Qed.
Example ex_funded :
  (sumZ (map v_amt (filter (fun v => negb (v_released v)) (vqs_of ex_s1 0)))
   <=? st_bal ex_s1 (Escrow Vesting 0) 2%N) = true.
Proof. vm_compute. reflexivity. Qed.
Example ex_init_wf : ids_ok ex_init /\ scheds_all_wf ex_init /\ vqs_wf ex_init.
Proof.
  split; [split; constructor|]. split; [constructor|].
  split; [constructor|]. split; [constructor|]. intros a [].
Qed.

(* no schedule: everything at settlement *)
Definition ex_create0 : op := OTx (MCreateFixed (AGood false 0) (Some P) (coin 1 1000) (Some 2%N) [] 50 200).
Definition ex_t0 : state := run ex_init [ex_create0; ex_allow; ex_bid].
Definition ex_t1 : state := snd (step ex_t0 (OBlock 200 [])).
Example ex_no_schedule :
  last (new_xfers ex_t0 ex_t1) (pay 0)
    = {| x_from := Escrow Paying 0; x_to := User 0; x_denom := 2; x_amt := 400 |}
  /\ st_vqs ex_t1 = [] /\ map a_status (st_auctions ex_t1) = [Finished].
Proof. vm_compute. repeat split. Qed.
