(* Tie of the model's extension rule (Dec.extend_rule: rate <= 1 - Quo(cur, last) with banker's rounding) to the
   library (keeper/auction.go CloseBatchAuction), over all counts cur <= 15, last in 1..14 and sixteen rates including
   the values one unit of the 18th decimal on either side of 1/3, 2/3, 1/7, 6/7; regenerated from /repo on every run. *)
From Coq Require Import ZArith NArith List Bool.
From FR Require Import Dec Types Step.
From FR.Generated Require Consts.
From FR.Properties Require Import C04_table.
Import ListNotations.
Open Scope Z_scope.

Theorem C13_rule_table_agrees : forallb row_ok (rows_of [5%N]) = true.
Proof. vm_compute. reflexivity. Qed.
Print Assumptions C13_rule_table_agrees.
Theorem C13_rule_table_size : length (rows_of [5%N]) = (14 * 16 * 16)%nat.
Proof. vm_compute. reflexivity. Qed.

(* the constants of the rule *)
Theorem C13_consts_agree :
  Z.of_N MaxExtendedRound = Consts.max_extended_round /\ Dec.day_ns = Consts.day_ns.
Proof. split; reflexivity. Qed.
Print Assumptions C13_consts_agree.
