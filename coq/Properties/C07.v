(* C07: block processing never fails, and never hides a failure.
   Proofs: Proofs/InvAll.v (the global invariant holds in every reachable state; liveness per auction and per block),
   Proofs/LiveFacts.v (verdicts, error propagation, existence of a valid sweep order, checker link).
   The sweep order of each due batch auction is oracle data validated by the model (Match.valid_order: a duplicate-free
   rearrangement of the auction's bids with non-increasing prices); every statement quantifies over ALL valid oracles.
   Arithmetic is unbounded in the model: the 256/315-bit overflow panics of the Go types are outside these theorems.
   The one that was reachable inside BeginBlocker below absurd balances (D18: the worth-bid conversion at a probed
   price) is repaired in /repo (92181ac: the quotient is computed on big integers and saturates at what the bidder
   may still receive, which is all the matching uses - the value the unbounded model computes). *)
From Coq Require Import ZArith NArith List Bool.
From FR Require Import Dec Types Bank Match Step Genesis Model Spec Checkers.
From FR.Proofs Require Import InvDefs FrameFacts BlockFacts InvAll FixedFacts LiveFacts ExcessExamples.
Import ListNotations.
Open Scope Z_scope.

(* 0. the invariant these theorems assume holds in every reachable state *)
Theorem C07_invariant_reachable : forall bal now sw p ops,
  (forall x d, 0 <= bal x d) -> coins_ok (p_cfee p) None = true -> coins_ok (p_bfee p) None = true ->
  Inv (run (init_state bal now sw p) ops).
Proof. exact Inv_reachable. Qed.
Print Assumptions C07_invariant_reachable.

Theorem C07_invariant_step : forall s o, Inv s -> Inv (snd (step s o)).
Proof. exact Inv_step. Qed.
Print Assumptions C07_invariant_step.

(* 1. a block succeeds in every such state, at every block time, whatever the (valid) sweep orders, whatever the mix of
   stand-by, started, vesting, finished and cancelled auctions, empty books, zero proceeds - unless a registered listener
   vetoes the allocation hook *)
Theorem C07_block_never_fails : forall s t orc,
  Inv s -> no_veto s H_BeforeAllocated = true -> oracle_ok s (OBlock t orc) ->
  fst (step s (OBlock t orc)) = BlockOk /\ Inv (snd (step s (OBlock t orc))).
Proof. exact block_never_fails. Qed.
Print Assumptions C07_block_never_fails.

Theorem C07_reachable_block_never_fails : forall bal now sw p ops t orc,
  (forall x d, 0 <= bal x d) -> coins_ok (p_cfee p) None = true -> coins_ok (p_bfee p) None = true ->
  let s := run (init_state bal now sw p) ops in
  st_listeners s = [] -> oracle_ok s (OBlock t orc) -> fst (step s (OBlock t orc)) = BlockOk.
Proof.
  intros bal now sw p ops t orc Hb H1 H2 s Hl Ho.
  apply block_never_fails; [apply Inv_reachable; assumption| |exact Ho].
  unfold no_veto. rewrite Hl. reflexivity.
Qed.
Print Assumptions C07_reachable_block_never_fails.

(* the only possible failure is that veto *)
Theorem C07_fails_only_by_veto : forall s t orc,
  Inv s -> oracle_ok s (OBlock t orc) ->
  fst (step s (OBlock t orc)) = BlockOk \/ fst (step s (OBlock t orc)) = BlockErr E_HOOK.
Proof. exact block_fails_only_by_veto. Qed.
Print Assumptions C07_fails_only_by_veto.

(* a valid oracle always exists (bids sorted by price, descending), so the statements above are not vacuous *)
Theorem C07_valid_oracle_exists : forall s t, Inv s -> oracle_ok s (OBlock t (natural_orc s)).
Proof. exact natural_oracle_ok. Qed.
Print Assumptions C07_valid_oracle_exists.

(* one auction at a time: processing succeeds from any state of the walk *)
Theorem C07_process_live : forall t orc s a,
  Inv s -> find_auction s (a_id a) = Some a -> no_veto s H_BeforeAllocated = true ->
  (a_type a = Batch -> a_status a = Started -> last_end a <= t ->
   exists order, valid_order (bids_of s (a_id a)) (oracle_ids orc (a_id a)) = Some order) ->
  exists s', process t orc s a = Ok s'.
Proof. exact process_live. Qed.
Print Assumptions C07_process_live.

(* 2. a failure is never hidden: whichever auction of the walk fails (first, middle or last), the block returns that
   error and none of the block's effects is kept *)
Theorem C07_failure_reported : forall s t orc l1 a l2 s1 c tr,
  st_auctions s = l1 ++ a :: l2 ->
  process_all t orc (with_now s t) l1 = Ok s1 -> process t orc s1 a = Err c tr ->
  fst (step s (OBlock t orc)) = BlockErr c
  /\ st_bal (snd (step s (OBlock t orc))) = st_bal s /\ st_auctions (snd (step s (OBlock t orc))) = st_auctions s
  /\ st_bids (snd (step s (OBlock t orc))) = st_bids s /\ st_vqs (snd (step s (OBlock t orc))) = st_vqs s
  /\ st_mlen (snd (step s (OBlock t orc))) = st_mlen s.
Proof. exact walk_error_is_block_error. Qed.
Print Assumptions C07_failure_reported.

(* a successful block means every auction of the store was processed successfully, in store order *)
Theorem C07_success_means_all : forall t orc l1 a l2 s s',
  process_all t orc s (l1 ++ a :: l2) = Ok s' ->
  exists s1 s2, process_all t orc s l1 = Ok s1 /\ process t orc s1 a = Ok s2 /\ process_all t orc s2 l2 = Ok s'.
Proof. exact process_all_ok_each. Qed.
Print Assumptions C07_success_means_all.

(* an injected failure of the k-th bank transfer of the block is reported and everything is rolled back *)
Theorem C07_fault_reported : forall s t orc k s',
  begin_block s t orc = Ok s' -> (k < length (st_xfers s') - length (st_xfers s))%nat ->
  step s (OFaultBlock t orc k) = (BlockErr E_FAULT, with_now s t).
Proof. exact fault_reported. Qed.
Print Assumptions C07_fault_reported.

(* 3. the executable statement evaluated on implementation traces holds of every model transition *)
Theorem C07_checker : forall s o, Inv s -> oracle_ok s o -> c07_ok (model_trans s o) = true.
Proof. exact c07_ok_model. Qed.
Print Assumptions C07_checker.

(* ---- non-vacuity: the closing block and the releasing block of the history of ExcessExamples.v ---- *)
Example C07_ex_close :
  fst (step (run c01_init c01_hist3) (OBlock 250 (natural_orc (run c01_init c01_hist3)))) = BlockOk.
Proof. vm_compute. reflexivity. Qed.
Example C07_ex_terminal :   (* a block over a finished auction *)
  map a_status (st_auctions (run c01_init c01_hist5)) = [Finished] /\
  fst (step (run c01_init c01_hist5) (OBlock 500 [])) = BlockOk.
Proof. split; vm_compute; reflexivity. Qed.
Example C07_ex_veto :       (* a vetoing listener makes the closing block fail with E_HOOK, nothing is kept *)
  let s := snd (step (run c01_init c01_hist3) (OSetListeners [[]; [H_BeforeAllocated]])) in
  fst (step s (OBlock 250 [])) = BlockErr E_HOOK /\ st_bal (snd (step s (OBlock 250 []))) (Escrow Paying 0) 2 = 57.
Proof. split; vm_compute; reflexivity. Qed.

(* 4. every side condition assumed by the theorems of the other property files is a consequence of the invariant,
   hence holds in every reachable state: distinct auction ids (ids_ok / gen_ok), well-formed order books and
   denominations (C03/C04/C05), WF and positive bids (C11/C12/C18), vesting queues (C09), matched counts (C13/C16) *)
From FR.Proofs Require GenesisFacts MatchDemand MatchConseq PrecondFacts EscrowBlock.
Theorem C07_invariant_consequences : forall s, Inv s ->
  ids_ok s /\ GenesisFacts.gen_ok s /\ PrecondFacts.WF s /\ PrecondFacts.bids_pos s
  /\ (forall id, MatchDemand.book_wf (bids_of s id) (allowed_of s id))
  /\ (forall a, find_auction s (a_id a) = Some a -> a_type a = Batch ->
        MatchConseq.denoms_wf (a_pay_denom a) (bids_of s (a_id a)))
  /\ vqs_wf s /\ mlen_inv s /\ ids_seq s /\ bids_allowed s /\ remaining_inv s /\ escrow_inv s.
Proof.
  intros s I.
  split; [apply (Inv_ids_ok s I)|].
  split; [apply (inv_ids _ I)|].
  split; [apply (Inv_WF s I)|].
  split; [apply (Inv_bids_pos s I)|].
  split; [intros id; apply EscrowBlock.Inv_book_wf, I|].
  split; [intros a Fa Ty; apply EscrowBlock.Inv_denoms_wf; assumption|].
  split; [apply (inv_vqs _ I)|].
  split; [apply (inv_mlen _ I)|].
  split; [apply (inv_ids _ I)|].
  split; [apply (inv_bids_allowed _ I)|].
  split; [apply (inv_remaining _ I)|apply (inv_escrow _ I)].
Qed.
Print Assumptions C07_invariant_consequences.
