(* C11, checker link: the executable monitor Checkers.c11_ok (a modification is accepted exactly under
   Spec.modify_precond without a veto, rewrites price and amount of that bid only and moves exactly the increase of
   the reservation into escrow; no operation other than GENESIS removes a bid, changes its identity, or lowers its
   price, amount or reservation) accepts every transition of the model from a state satisfying the invariant.
   Proof: Proofs/Chk11.v. *)
From Coq Require Import ZArith NArith List Bool.
From FR Require Import Dec Types Bank Match Step Genesis Model Spec Checkers.
From FR.Proofs Require Import InvDefs InvAll ExcessExamples Chk11.
Import ListNotations.
Open Scope Z_scope.

Theorem C11_checker : forall s o, Inv s -> oracle_ok s o -> c11_ok (model_trans s o) = true.
Proof. intros s o I _. exact (c11_ok_model s o I). Qed.
Print Assumptions C11_checker.

(* ---- the hypothesis is satisfiable: a reachable state with a started batch auction and one worth bid of 50;
   raising the amount to 60 is accepted (10 more reserved), lowering it to 40 is rejected, the closing block
   flags the bid ---- *)
Definition c11_hist : list op :=
  [OTx (MCreateBatch (AGood false 0) (Some P) (Some (P / 2)) (c01_coin 1 1000) (Some 2%N) [] 0 (Some (P / 10)) 50 200);
   OTx (MAddAllowed 0 0 (AGood false 2) (Some 100));
   OTx (MPlaceBid (AGood false 2) 0 2 (Some P) (c01_coin 2 50))].
Definition c11_raise : op := OTx (MModifyBid (AGood false 2) 0 1 (Some P) (c01_coin 2 60)).
Definition c11_lower : op := OTx (MModifyBid (AGood false 2) 0 1 (Some P) (c01_coin 2 40)).

Example C11_checker_ex_reachable : Inv (run c01_init c11_hist).
Proof. apply Inv_reachable; [intros [u|r a|] d; cbn; discriminate|reflexivity|reflexivity]. Qed.
Example C11_checker_ex_raise :
  t_class (model_trans (run c01_init c11_hist) c11_raise) = KOk
  /\ t_xfers (model_trans (run c01_init c11_hist) c11_raise)
     = [{| x_from := User 2; x_to := Escrow Paying 0; x_denom := 2; x_amt := 10 |}]
  /\ c11_ok (model_trans (run c01_init c11_hist) c11_raise) = true.
Proof. vm_compute. repeat split; reflexivity. Qed.
Example C11_checker_ex_lower :
  t_class (model_trans (run c01_init c11_hist) c11_lower) = KRej
  /\ c11_ok (model_trans (run c01_init c11_hist) c11_lower) = true.
Proof. vm_compute. split; reflexivity. Qed.
Example C11_checker_ex_block :
  t_class (model_trans (run c01_init c11_hist) (OBlock 250 [(0%N, [1%N])])) = KBlockOk
  /\ map b_matched (st_bids (t_post (model_trans (run c01_init c11_hist) (OBlock 250 [(0%N, [1%N])])))) = [true]
  /\ c11_ok (model_trans (run c01_init c11_hist) (OBlock 250 [(0%N, [1%N])])) = true.
Proof. vm_compute. repeat split; reflexivity. Qed.
