(* Tie of the model's 18-decimal arithmetic (Dec.v) to cosmossdk.io/math as pinned by /repo: the table
   Generated/Consts.v is produced on every run by harness/cmd/consts, which evaluates the very call chains the module
   uses (types/bid.go ConvertToSellingAmount / ConvertToPayingAmount, types/match.go Match, LegacyDec.Quo) with the real
   library on boundary and pseudo-random operands; here every row is recomputed with the model's functions.
   This is a regenerated, finite check (a test of the model against the library, by vm_compute) - the theorems about
   the arithmetic itself are in C04_fixed.v / C04_batch.v. *)
From Coq Require Import ZArith NArith List Bool.
From FR Require Import Dec.
From FR.Generated Require Consts.
Import ListNotations.
Open Scope Z_scope.

Definition row_ok (r : N * Z * Z * Z * Z) : bool :=
  let '(op, a, b, c, res) := r in
  match op with
  | 1%N => qty_of_worth a b =? res
  | 2%N | 3%N => pay_of_qty a b =? res
  | 4%N => share a b =? res
  | 5%N => Bool.eqb (extend_rule a b c) (res =? 1)
  | 6%N => dec_quo a b =? res
  | _ => false
  end.
Definition rows_of (ops : list N) : list (N * Z * Z * Z * Z) :=
  filter (fun r => let '(op, _, _, _, _) := r in existsb (N.eqb op) ops) Consts.dec_table.

(* quantity of a worth bid, reservation / payment of a quantity bid (both call chains), banker's-rounded quotient *)
Theorem C04_dec_table_agrees : forallb row_ok (rows_of [1%N; 2%N; 3%N; 6%N]) = true.
Proof. vm_compute. reflexivity. Qed.
Print Assumptions C04_dec_table_agrees.

Theorem C04_dec_table_nonempty : Nat.leb 1000 (length (rows_of [1%N; 2%N; 3%N; 6%N])) = true.
Proof. vm_compute. reflexivity. Qed.

Theorem C04_scale_agrees : P = Consts.one_dec_raw /\ Consts.dec_precision = 18.
Proof. split; reflexivity. Qed.
Print Assumptions C04_scale_agrees.
