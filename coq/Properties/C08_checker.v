(* C08, checker link: the executable lifecycle monitor Checkers.c08_ok (and its extension c08_all = c08_ok && pending_ok)
   can never fire on a transition of the model from a state satisfying the global invariant.
   Proofs: Proofs/Chk08.v (with LifeTheorems.v, BlockFacts.v, TxFacts.v, GenesisImport.v, VestingPending.v). *)
From Coq Require Import ZArith NArith List Bool.
From FR Require Import Dec Types Bank Match Step Genesis Model Spec Checkers.
From FR.Proofs Require Import InvDefs InvAll VestingPending ExcessExamples Chk08.
Import ListNotations.
Open Scope Z_scope.

Theorem C08_checker : forall s o, Inv s -> oracle_ok s o -> c08_ok (model_trans s o) = true.
Proof. intros s o I _. exact (c08_ok_model s o I). Qed.
Print Assumptions C08_checker.

(* the oracle hypothesis is not needed *)
Theorem C08_checker_any_oracle : forall s o, Inv s -> c08_ok (model_trans s o) = true.
Proof. exact c08_ok_model. Qed.
Print Assumptions C08_checker_any_oracle.

Theorem C08_all_checker : forall s o,
  Inv s -> vesting_pending s -> oracle_ok s o -> c08_all (model_trans s o) = true.
Proof. intros s o I VP _. exact (c08_all_model s o I VP). Qed.
Print Assumptions C08_all_checker.

(* along every history from the empty module *)
Theorem C08_all_checker_reachable : forall bal now sw p ops o,
  (forall x d, 0 <= bal x d) -> coins_ok (p_cfee p) None = true -> coins_ok (p_bfee p) None = true ->
  c08_all (model_trans (run (init_state bal now sw p) ops) o) = true.
Proof.
  intros bal now sw p ops o Hb H1 H2.
  apply c08_all_model; [apply Inv_reachable|apply vesting_pending_reachable]; assumption.
Qed.
Print Assumptions C08_all_checker_reachable.

(* non-vacuity: the checker evaluates to true on the closing and the releasing block of ExcessExamples.v *)
Example C08_checker_ex :
  c08_all (model_trans (run c01_init c01_hist3) c01_close) = true
  /\ c08_all (model_trans (run c01_init c01_hist4) c01_release) = true.
Proof. split; vm_compute; reflexivity. Qed.
