(* C19, checker link: the executable monitor Checkers.c19_ok (an operation leaves everything about the auctions it is
   not about untouched, escrow balances included up to plain deposits; auction terms and the bidder / type of a bid
   never change; the auction counter and the per-auction bid counters never decrease, ids are 0..n-1 and 1..k in
   store order; a rejected operation does not move the auction counter) accepts every transition of the model from a
   state satisfying the invariant.  Proof: Proofs/Chk19.v. *)
From Coq Require Import ZArith NArith List Bool.
From FR Require Import Dec Types Bank Match Step Genesis Model Spec Checkers.
From FR.Proofs Require Import InvDefs InvAll ExcessExamples Chk19.
From FR.Proofs Require ChkOwn19.
Import ListNotations.
Open Scope Z_scope.

Theorem C19_checker : forall s o, Inv s -> oracle_ok s o -> c19_ok (model_trans s o) = true.
Proof. intros s o I _. exact (c19_ok_model s o I). Qed.
Print Assumptions C19_checker.

(* the checker the driver evaluates for C19: c19_ok and c19_release_own (what leaves the vesting escrow of an auction in
   a block is that auction's own due instalments, paid to its own auctioneer) *)
Theorem C19_all_checker : forall s o, Inv s -> oracle_ok s o -> c19_all (model_trans s o) = true.
Proof. exact ChkOwn19.c19_all_model. Qed.
Print Assumptions C19_all_checker.

(* ---- the hypothesis is satisfiable: two auctions (0: fixed price, started, one bid; 1: batch, waiting to open at 150);
   a bid on auction 0, a rejected bid on auction 1, a deposit into an escrow of auction 1, the block that opens
   auction 1, the block that closes auction 0, a cancellation and a creation are all accepted by the monitor ---- *)
Definition c19_create2 : op :=
  OTx (MCreateBatch (AGood false 1) (Some P) (Some (P / 2)) (c01_coin 1 500) (Some 2%N) [] 0 (Some (P / 10)) 150 300).
Definition c19_hist : list op := c01_hist1 ++ [c19_create2].

Example C19_checker_ex_reachable : Inv (run c01_init c19_hist).
Proof. apply Inv_reachable; [intros [u|r a|] d; cbn; discriminate|reflexivity|reflexivity]. Qed.
Example C19_checker_ex_state :
  map (fun a => (a_id a, a_status a)) (st_auctions (run c01_init c19_hist)) = [(0%N, Started); (1%N, StandBy)].
Proof. vm_compute. reflexivity. Qed.
Example C19_checker_ex_ops :
  map (fun o => (t_class (model_trans (run c01_init c19_hist) o), c19_ok (model_trans (run c01_init c19_hist) o)))
      [OTx (MPlaceBid (AGood false 2) 0 1 (Some P) (c01_coin 2 30));
       OTx (MPlaceBid (AGood false 2) 1 2 (Some P) (c01_coin 2 30));
       OSend 3 (Escrow Paying 1) 2 7;
       OBlock 160 []; OBlock 250 [];
       OTx (MCancel (AGood false 1) 1); c19_create2; OGenesis]
  = [(KOk, true); (KRej, true); (KOk, true); (KBlockOk, true); (KBlockOk, true); (KOk, true); (KOk, true); (KGenOk, true)].
Proof. vm_compute. reflexivity. Qed.
