(* C03 at the level of the bank transfers of a settlement (composition of C03_alloc_is_spec_alloc, C02_settlement and
   the global invariant): in every reachable state, when BeginBlocker settles a batch auction, whatever valid sweep
   order the runtime produced, the selling coins bidder u receives are exactly spec_alloc - the capped demand of u at
   the declarative clearing price (lowest bid price whose total capped demand fits the offered amount; nothing when no
   price qualifies or the qualifying demand is zero) - and the published price is that clearing price (0 if nothing
   is sold). *)
From Coq Require Import ZArith NArith List Bool.
From FR Require Import Dec Types Bank Match Step Genesis Model Spec Checkers.
From FR.Proofs Require Import InvDefs InvAll EscrowBase MatchSweep MatchDemand Ledger LedgerSettle.
From FR.Proofs Require EscrowBlock BlockFacts.
From FR.Properties Require C03.
Import ListNotations.
Open Scope Z_scope.

Theorem C03_settlement : forall t orc s a s' a',
  Inv s -> find_auction s (a_id a) = Some a -> a_status a = Started -> a_type a = Batch ->
  process t orc s a = Ok s' ->
  find_auction s' (a_id a) = Some a' -> (a_status a' = VestingS \/ a_status a' = Finished) ->
  let bs := bids_of s (a_id a) in
  let al := allowed_of s (a_id a) in
  exists mi,
    ledger_by s s' (settle_xfers s a mi true)
    /\ (forall u, mi_alloc mi u = spec_alloc bs al (a_sell_amt a) u)
    /\ (forall u, sum_xfers (settle_xfers s a mi true) (from_to (Escrow Selling (a_id a)) (User u) (a_sell_denom a))
                  = (if existsb (N.eqb u) (bidders_of bs) then spec_alloc bs al (a_sell_amt a) u else 0)
                    + (if N.eqb (a_auctioneer a) u then unsold_of s a mi else 0))
    /\ mi_price mi = match clearing_spec bs al (a_sell_amt a) with Some p => p | None => 0 end
    /\ a_matched_price a' = mi_price mi.
Proof.
  intros t orc s a s' a' I Fa St Ty H Fa' Hst' bs al. subst bs al.
  destruct (settlement_dues t orc s a s' a' I Fa St H Fa' Hst') as (mi & wr & Hw & L & D & _).
  destruct Hw as [_ [(Ty' & _)|(_ & -> & Hdec & order & HV & HC)]]; [congruence|].
  exists mi. split; [exact L|].
  pose proof (EscrowBlock.Inv_book_wf s (a_id a) I) as BW.
  pose proof (EscrowBlock.InvStaticBase_find_wf s a I Fa) as AW.
  assert (Hsup : 0 <= a_sell_amt a) by (pose proof (awf_amt _ AW); apply Z.lt_le_incl; assumption).
  destruct (C03.C03_alloc_is_spec_alloc a _ _ order _ BW HV Hsup) as (mi1 & HC1 & Hspec).
  rewrite HC in HC1. injection HC1 as <-.
  destruct (C03.C03_calc_batch_spec a _ _ order _ BW HV Hsup) as (mi2 & HC2 & Hcl).
  rewrite HC in HC2. injection HC2 as <-.
  assert (Hnd : NoDup (mi_bidders mi)).
  { pose proof (du_sorted _ _ _ _ D) as Hs. clear -Hs. induction Hs as [|x l Hs IH Hx]; constructor; [|exact IH].
    intros Hin. rewrite Forall_forall in Hx. specialize (Hx x Hin). apply N.lt_irrefl in Hx. exact Hx. }
  split; [exact Hspec|]. split.
  - intros u. destruct (settle_xfers_received s a mi true u Hnd) as [E _]. rewrite E.
    rewrite (du_bidders _ _ _ _ D). rewrite Hspec. reflexivity.
  - split.
    + destruct (clearing_spec (bids_of s (a_id a)) (allowed_of s (a_id a)) (a_sell_amt a)); apply Hcl.
    + (* the record of the settled auction carries the price *)
      destruct (BlockFacts.process_spec _ _ _ _ _ H) as [_ Hrel]. destruct (Hrel Fa) as (a'' & Fa'' & R).
      rewrite Fa' in Fa''. injection Fa'' as <-.
      unfold BlockFacts.block_rel in R. rewrite St in R.
      destruct (last_end a <=? t); [|subst a'; rewrite St in Hst'; destruct Hst'; discriminate].
      rewrite Ty in R. destruct R as (order' & mi' & HV' & HC' & ->).
      rewrite HV in HV'. injection HV' as <-. rewrite HC in HC'. injection HC' as <-.
      rewrite Hdec. reflexivity.
Qed.
Print Assumptions C03_settlement.
