(* Constants the acceptance conditions depend on, regenerated from /repo on every run (harness/cmd/consts):
   the limits on schedules and rounds, the numbering of bid types that ValidateBasic decodes, the number of statuses,
   and the ten hook methods of types.FundraisingHooks that the model's hook kinds 0..9 stand for. *)
From Coq Require Import ZArith NArith List Bool String.
From FR Require Import Dec Types Step.
From FR.Generated Require Consts.
Import ListNotations.
Open Scope Z_scope.

(* the two limits of the model ARE the values read from the source (Step.v defines them from Generated/Consts.v), so a
   change of a limit in the code changes the model with it; the theorems about the transition function hold for every
   value of them *)
Theorem C18_limits_agree :
  Z.of_nat MaxNumVestingSchedules = Z.max 0 Consts.max_num_vesting_schedules /\
  Z.of_N MaxExtendedRound = Z.max 0 Consts.max_extended_round.
Proof.
  unfold MaxNumVestingSchedules, MaxExtendedRound. split.
  - destruct (Z.le_gt_cases 0 Consts.max_num_vesting_schedules) as [H|H].
    + rewrite Z2Nat.id, Z.max_r by exact H. reflexivity.
    + destruct Consts.max_num_vesting_schedules; try discriminate H; reflexivity.
  - destruct (Z.le_gt_cases 0 Consts.max_extended_round) as [H|H].
    + rewrite Z2N.id, Z.max_r by exact H. reflexivity.
    + destruct Consts.max_extended_round; try discriminate H; reflexivity.
Qed.
Print Assumptions C18_limits_agree.

Theorem C18_bid_types_agree :
  map (fun z => decode_btype (Z.to_N z)) Consts.bid_types = [Some BFixed; Some BWorth; Some BMany]
  /\ decode_btype 0 = None /\ decode_btype 4 = None.
Proof. repeat split; reflexivity. Qed.
Print Assumptions C18_bid_types_agree.

Theorem C18_enums_agree : Consts.statuses = [1; 2; 3; 4; 5] /\ Consts.auction_types = [1; 2].
Proof. split; reflexivity. Qed.

Open Scope string_scope.
Theorem C18_hook_methods_agree :
  Consts.hook_methods =
  ["AfterBatchAuctionCreated"; "AfterFixedPriceAuctionCreated"; "BeforeAllowedBidderUpdated"; "BeforeAllowedBiddersAdded";
   "BeforeAuctionCanceled"; "BeforeBatchAuctionCreated"; "BeforeBidModified"; "BeforeBidPlaced";
   "BeforeFixedPriceAuctionCreated"; "BeforeSellingCoinsAllocated"]
  /\ List.length Consts.hook_methods = 10%nat.
Proof. split; reflexivity. Qed.
Print Assumptions C18_hook_methods_agree.
