(* C18, checker link: the executable monitor Checkers.c18_ok (acceptance exactly under Spec.precond; a rejected
   message leaves store and balances unchanged and moves no coins) accepts every transition of the model from a
   state satisfying the invariant.  Proof: Proofs/Chk18.v. *)
From Coq Require Import ZArith NArith List Bool.
From FR Require Import Dec Types Bank Match Step Genesis Model Spec Checkers.
From FR.Proofs Require Import InvDefs InvAll ExcessExamples Chk18.
Import ListNotations.
Open Scope Z_scope.

Theorem C18_checker : forall s o, Inv s -> oracle_ok s o -> c18_ok (model_trans s o) = true.
Proof. intros s o I _. exact (c18_ok_model s o I). Qed.
Print Assumptions C18_checker.

(* ---- the hypothesis is satisfiable; an accepted and a rejected message in a reachable state ---- *)
Example C18_checker_ex_reachable : Inv (run c01_init c01_hist1).
Proof. apply Inv_reachable; [intros [u|r a|] d; cbn; discriminate|reflexivity|reflexivity]. Qed.
Example C18_checker_ex_accept :
  t_class (model_trans (run c01_init c01_hist1) (OTx (MPlaceBid (AGood false 2) 0 1 (Some P) (c01_coin 2 50)))) = KOk
  /\ c18_ok (model_trans (run c01_init c01_hist1) (OTx (MPlaceBid (AGood false 2) 0 1 (Some P) (c01_coin 2 50)))) = true.
Proof. vm_compute. split; reflexivity. Qed.
Example C18_checker_ex_reject :   (* one unit over the allowance *)
  t_class (model_trans (run c01_init c01_hist1) (OTx (MPlaceBid (AGood false 2) 0 1 (Some P) (c01_coin 2 51)))) = KRej
  /\ c18_ok (model_trans (run c01_init c01_hist1) (OTx (MPlaceBid (AGood false 2) 0 1 (Some P) (c01_coin 2 51)))) = true.
Proof. vm_compute. split; reflexivity. Qed.
