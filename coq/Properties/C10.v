(* C10: the allow-list.  Statements; the proofs are in Proofs/AllowFacts.v. *)
From Coq Require Import ZArith NArith List Bool.
From FR Require Import Dec Types Bank Match Step Genesis Model Spec Checkers.
From FR.Proofs Require Import AllowFacts.
Import ListNotations.
Open Scope Z_scope.

(* With EnableAddAllowedBidder off, no transaction changes the allow-list, and MsgAddAllowedBidder
   is always rejected (leaving the state untouched). *)
Theorem C10_gate : forall s, st_switch s = false ->
  (forall m, st_allowed (snd (deliver_tx s m)) = st_allowed s) /\
  (forall a ea who max,
     deliver_tx s (MAddAllowed a ea who max) =
     (Rejected (match who with AGood _ _ => E_DISABLED | ABad => E_BASIC end), s)).
Proof. intros s H. split; [exact (gate_tx s H) | exact (gate_add_rejected s H)]. Qed.
Print Assumptions C10_gate.

(* Blocks, faulted blocks, bank sends and listener registration never change the allow-list. *)
Theorem C10_gate_other_ops : forall s o,
  match o with OBlock _ _ | OFaultBlock _ _ _ | OSend _ _ _ _ | OSetListeners _ => True | _ => False end ->
  st_allowed (snd (step s o)) = st_allowed s.
Proof. intros s o H. apply allowed_frame_step. destruct o; try contradiction; intros []. Qed.
Print Assumptions C10_gate_other_ops.

(* Only the keeper API (and MsgAddAllowedBidder with the switch on, and a genesis round trip, which
   re-sorts the list) can change the allow-list. *)
Theorem C10_only_api : forall s o,
  st_allowed (snd (step s o)) <> st_allowed s ->
  match o with
  | OApiAdd _ _ | OApiUpdate _ _ _ | OGenesis => True
  | OTx (MAddAllowed _ _ _ _) => st_switch s = true
  | _ => False
  end.
Proof. exact allowed_changes_only_by. Qed.
Print Assumptions C10_only_api.

(* An accepted bid comes from a well-formed bidder address with an allow-list entry for that
   auction; the bid that is appended carries that bidder and auction. *)
Theorem C10_bid_requires_entry : forall s who id bt price coin,
  fst (step s (OTx (MPlaceBid who id bt price coin))) = Accepted ->
  exists up u, who = AGood up u /\ find_allowed s id u <> None /\
    exists b, st_bids (snd (step s (OTx (MPlaceBid who id bt price coin)))) = st_bids s ++ [b]
              /\ b_bidder b = u /\ b_auction b = id.
Proof. exact bid_requires_entry. Qed.
Print Assumptions C10_bid_requires_entry.

(* No operation - the genesis round trip included - removes an allow-list entry. *)
Theorem C10_entries_persist : forall s o a u e,
  find_allowed s a u = Some e -> exists e', find_allowed (snd (step s o)) a u = Some e'.
Proof. exact entries_persist. Qed.
Print Assumptions C10_entries_persist.

(* The entry of (a, u), cap included, is unchanged by every operation other than the allow-list API
   on auction a and the genesis round trip ... *)
Theorem C10_cap_unchanged : forall s o a u,
  match o with
  | OApiAdd a' _ | OApiUpdate a' _ _ | OTx (MAddAllowed a' _ _ _) => a' <> a
  | OGenesis => False
  | _ => True
  end ->
  find_allowed (snd (step s o)) a u = find_allowed s a u.
Proof.
  intros s o a u H. apply cap_unchanged.
  destruct o as [m| | | | | | |]; cbn in *; try tauto. destruct m; cbn in *; tauto.
Qed.
Print Assumptions C10_cap_unchanged.

(* ... and by the genesis round trip too when allow-list keys are unique. *)
Theorem C10_entries_persist_exact : forall s o a u e,
  unique_keys s ->
  match o with
  | OApiAdd a' _ | OApiUpdate a' _ _ | OTx (MAddAllowed a' _ _ _) => a' <> a
  | _ => True
  end ->
  find_allowed s a u = Some e -> find_allowed (snd (step s o)) a u = Some e.
Proof. exact entries_persist_exact. Qed.
Print Assumptions C10_entries_persist_exact.

(* Every stored bid has an allow-list entry: preserved by every step (OGenesis included), true
   without bids, hence true in every reachable state. *)
Theorem C10_invariant_step : forall s o, bids_allowed s -> bids_allowed (snd (step s o)).
Proof. exact bids_allowed_step. Qed.
Print Assumptions C10_invariant_step.

Theorem C10_invariant_init : forall s, st_bids s = [] -> bids_allowed s.
Proof. exact bids_allowed_nobids. Qed.

Theorem C10_invariant : forall s0 ops, bids_allowed s0 -> bids_allowed (run s0 ops).
Proof. intros s0 ops. apply bids_allowed_run. Qed.
Print Assumptions C10_invariant.

(* ---------------------------------------------------------------- examples *)
(* Histories: whatever users send (creations, cancellations, bids, modifications, parameter updates, plain bank sends),
   whatever blocks pass and whatever listeners are registered, in any number and order, the allow-list stays exactly
   what the auctioneer-side API made it.  No hypothesis on the state, none on the switch: the only message that could
   write to the list is MsgAddAllowedBidder itself (C10_gate covers it). *)
Theorem C10_users_never_change_the_list : forall ops s,
  Forall user_op ops -> st_allowed (run s ops) = st_allowed s.
Proof. exact allowed_frame_run. Qed.
Print Assumptions C10_users_never_change_the_list.

Definition ex0 : state :=
  {| st_params := {| p_cfee := [(0%N, 5)]; p_bfee := [(0%N, 1)]; p_period := 1 |};
     st_auctions := []; st_bids := []; st_allowed := []; st_vqs := [];
     st_aseq := 1%N; st_bseq := fun _ => 0%N; st_mlen := fun _ => 0;
     st_bal := fun a _ => match a with User _ => 1000000 | _ => 0 end;
     st_now := 10; st_listeners := []; st_switch := false; st_xfers := []; st_trace := [] |}.
Definition coin (d : N) (a : Z) : mcoin := {| mc_denom := Some d; mc_amt := Some a |}.
Definition ex_create : op :=
  OTx (MCreateFixed (AGood false 7) (Some (2 * P)) (coin 1 1000) (Some 2%N) [] 5 100).
Definition ex_bid : op := OTx (MPlaceBid (AGood false 8) 1 1 (Some (2 * P)) (coin 2 100)).
Definition ex1 : state := run ex0 [ex_create].
Definition ex2 : state := run ex1 [OApiAdd 1 [(1%N, AGood false 8%N, Some 500)]].

(* the hypotheses are satisfiable: without an entry the bid is rejected, with it accepted *)
Example ex_bid_rejected_without_entry : fst (step ex1 ex_bid) = Rejected E_NOTALLOWED.
Proof. vm_compute. reflexivity. Qed.
Example ex_bid_accepted_with_entry : fst (step ex2 ex_bid) = Accepted.
Proof. vm_compute. reflexivity. Qed.
Example ex_entry : find_allowed ex2 1 8 = Some {| al_auction := 1; al_bidder := 8; al_max := 500 |}.
Proof. vm_compute. reflexivity. Qed.
Example ex_gate_hyp : st_switch ex2 = false.
Proof. reflexivity. Qed.
Example ex_msg_add_rejected :
  fst (step ex2 (OTx (MAddAllowed 1 1 (AGood false 9) (Some 10)))) = Rejected E_DISABLED.
Proof. vm_compute. reflexivity. Qed.
Example ex_invariant_reached :
  map (fun b => (b_auction b, b_bidder b)) (st_bids (run ex2 [ex_bid; OBlock 200 []; OGenesis])) = [(1%N, 8%N)]
  /\ find_allowed (run ex2 [ex_bid; OBlock 200 []; OGenesis]) 1 8
     = Some {| al_auction := 1; al_bidder := 8; al_max := 500 |}.
Proof. vm_compute. split; reflexivity. Qed.
Example ex_history_keeps_list :
  Forall user_op [ex_bid; OBlock 200 []; OSend 8 (User 9) 2 5; OSetListeners [[1%N]]]
  /\ st_allowed (run ex2 [ex_bid; OBlock 200 []; OSend 8 (User 9) 2 5; OSetListeners [[1%N]]]) = st_allowed ex2
  /\ st_allowed ex2 <> [].
Proof. split; [repeat constructor|]. split; [vm_compute; reflexivity|vm_compute; discriminate]. Qed.
