(* C13, last clause ("... so every auction eventually settles"), and the same for the whole life of an auction (C08):
   from any state satisfying the global invariant, with no vetoing listener and a non-negative extension period,
   a started batch auction is settled after at most max_extended_round + 2 blocks whose time is late enough, and
   every auction - whatever its status, type, bids, schedule - is finished (or stays cancelled) after at most
   max_extended_round + 4 such blocks.  `blocks s T n` runs n blocks at time T with the price-descending sweep order. *)
From Coq Require Import ZArith NArith List Bool.
From FR Require Import Dec Types Bank Match Step Genesis Model Spec.
From FR.Proofs Require Import InvDefs InvAll VestingPending Termination ExcessExamples.
Import ListNotations.
Open Scope Z_scope.

Theorem C13_batch_auction_settles : forall s id a T,
  Inv s -> st_listeners s = [] -> 0 <= p_period (st_params s) ->
  find_auction s id = Some a -> a_status a = Started -> a_type a = Batch ->
  last_end a + Z.of_N (a_max_round a + 1) * (p_period (st_params s) * day_ns) <= T ->
  exists n a', (n <= N.to_nat (a_max_round a) + 2)%nat /\ find_auction (blocks s T n) id = Some a' /\ is_settled a'.
Proof. exact batch_auction_settles. Qed.
Print Assumptions C13_batch_auction_settles.

Theorem C13_auction_eventually_terminal : forall s id a T,
  Inv s -> vesting_pending s -> st_listeners s = [] -> 0 <= p_period (st_params s) ->
  find_auction s id = Some a -> late_for s a T ->
  exists n a', (n <= N.to_nat (a_max_round a) + 4)%nat /\ find_auction (blocks s T n) id = Some a' /\ is_terminal a'.
Proof. exact auction_eventually_terminal. Qed.
Print Assumptions C13_auction_eventually_terminal.

(* non-vacuity: the open auction of ExcessExamples.v (one instalment at 400) is finished after two blocks at time 500 *)
Example C13_ex_terminates :
  map a_status (st_auctions (blocks (run c01_init c01_hist3) 500 2)) = [Finished].
Proof. vm_compute. reflexivity. Qed.
