(* C13 (structural part): the list of end times only grows by appending one extension round at a time,
   the number of rounds is bounded, and the extend / settle decision of CloseBatchAuction.
   Proofs: Proofs/BlockFacts.v, LifeTheorems.v.  OGenesis is excluded by an explicit hypothesis. *)
From Coq Require Import ZArith NArith List Bool.
From FR Require Import Dec Types Bank Match Step Genesis Model Spec.
From FR.Proofs Require Import FrameFacts TxFacts BlockFacts LifeTheorems GenesisFacts LifeExamples.
Import ListNotations.
Open Scope Z_scope.

(* 6. the end times of an existing auction: unchanged, or one more round, and the latter only for a started
   batch auction that is due in a successful block and has rounds left *)
Theorem C13_ends_grow : forall s o id a,
  ids_ok s -> o <> OGenesis -> find_auction s id = Some a ->
  exists a', find_auction (snd (step s o)) id = Some a'
    /\ (a_ends a' = a_ends a
        \/ (a_ends a' = a_ends a ++ [last_end a + p_period (st_params s) * day_ns]
            /\ a_type a = Batch /\ a_status a = Started /\ a_status a' = Started
            /\ is_block o = true /\ fst (step s o) = BlockOk
            /\ last_end a <= block_time o /\ N.of_nat (length (a_ends a)) <> (a_max_round a + 1)%N)).
Proof. exact L_C13_ends_grow. Qed.
Print Assumptions C13_ends_grow.

(* a new auction has exactly one end time: see C08_creation_status *)

(* 7. 1 <= #rounds <= max_round + 1 <= 31 for every auction: holds initially, kept by every step *)
Theorem C13_bounded_init : forall s, st_auctions s = [] -> bounded s.
Proof. exact bounded_empty. Qed.
Print Assumptions C13_bounded_init.

Theorem C13_bounded : forall s o, ids_ok s -> o <> OGenesis -> bounded s -> bounded (snd (step s o)).
Proof. exact L_C13_bounded. Qed.
Print Assumptions C13_bounded.

Theorem C13_bounded_run : forall ops s,
  Forall (fun o => o <> OGenesis) ops -> ids_ok s -> bounded s -> ids_ok (run s ops) /\ bounded (run s ops).
Proof. exact L_run_invariants. Qed.
Print Assumptions C13_bounded_run.

(* every operation, GENESIS included, under gen_ok (see C08_gen_ok_invariant) *)
Theorem C13_bounded_all : forall s o, gen_ok s -> bounded s -> bounded (snd (step s o)).
Proof. exact L_C13_bounded_all. Qed.
Print Assumptions C13_bounded_all.

Theorem C13_bounded_run_all : forall ops s, gen_ok s -> bounded s -> gen_ok (run s ops) /\ bounded (run s ops).
Proof. exact L_run_invariants_all. Qed.
Print Assumptions C13_bounded_run_all.

Theorem C13_ends_grow_all : forall s o id a,
  gen_ok s -> find_auction s id = Some a ->
  exists a', find_auction (snd (step s o)) id = Some a' /\ ends_rel s o a a'.
Proof. exact L_C13_ends_grow_all. Qed.
Print Assumptions C13_ends_grow_all.

(* ... hence once max_round extensions have happened a due auction is settled *)
Theorem C13_last_round_settles : forall s orc a order mi,
  length (a_ends a) = (N.to_nat (a_max_round a) + 1)%nat ->
  valid_order (bids_of s (a_id a)) (oracle_ids orc (a_id a)) = Some order ->
  calc_batch a (bids_of s (a_id a)) order (allowed_of s (a_id a)) = Some mi ->
  close_batch s orc a
  = settle_batch (set_flags s (a_id a) (mi_matched mi)) (set_matched_price a (mi_price mi)) mi.
Proof. exact L_C13_last_round_settles. Qed.
Print Assumptions C13_last_round_settles.

(* 8. the decision *)
Theorem C13_decision : forall s orc a order mi,
  valid_order (bids_of s (a_id a)) (oracle_ids orc (a_id a)) = Some order ->
  calc_batch a (bids_of s (a_id a)) order (allowed_of s (a_id a)) = Some mi ->
  close_batch s orc a =
    (if decision s a mi
     then Ok (put_auction (set_flags s (a_id a) (mi_matched mi))
                (set_ends (set_matched_price a (mi_price mi))
                          (a_ends a ++ [last_end a + p_period (st_params s) * day_ns])))
     else settle_batch (set_flags s (a_id a) (mi_matched mi)) (set_matched_price a (mi_price mi)) mi)
  /\ (decision s a mi = true <->
      N.of_nat (length (a_ends a)) <> (a_max_round a + 1)%N
      /\ (st_mlen s (a_id a) = 0
          \/ extend_rule (Z.of_nat (length (mi_matched mi))) (st_mlen s (a_id a)) (a_rate a) = true)).
Proof. exact L_C13_decision. Qed.
Print Assumptions C13_decision.

(* ---- examples: the batch auction of ex_s (max_round 2), opened at t = 160, no bids, so every due
        block extends it while rounds remain (last matched length 0) and the third one settles it ---- *)
Example ex_bounded_holds : bounded ex_s.
Proof. exact ex_bounded. Qed.
Example ex_extend_1 :
  map a_ends (st_auctions (snd (step ex_s2 (OBlock 350 [])))) = [[200]; [300; 300 + day_ns]].
Proof. vm_compute. reflexivity. Qed.
Example ex_extend_2_then_settle :
  let s3 := snd (step ex_s2 (OBlock 350 [])) in
  let s4 := snd (step s3 (OBlock (300 + day_ns) [])) in
  let s5 := snd (step s4 (OBlock (300 + 2 * day_ns) [])) in
  map (fun a => length (a_ends a)) (st_auctions s4) = [1%nat; 3%nat]
  /\ map a_status (st_auctions s4) = [Finished; Started]
  /\ map (fun a => length (a_ends a)) (st_auctions s5) = [1%nat; 3%nat]
  /\ map a_status (st_auctions s5) = [Finished; VestingS].
Proof. vm_compute. repeat split; reflexivity. Qed.
