(* C04 at the level of the bank transfers of a batch settlement (composition of C02_settlement, C04_batch and the
   global invariant): in every reachable state, when BeginBlocker settles a batch auction at clearing price p,
   bidder u gets back refund u out of the paying escrow, so he pays  paid u = reserved u - refund u  with
       0 <= refund u <= reserved u     and     p * alloc u <= paid u * 10^18 <= p * alloc u + k_u * (10^18 - 1),
   k_u the number of u's matched bids: everybody pays the same uniform price p per coin, rounded up by less than
   one unit per matched bid, never more than reserved. *)
From Coq Require Import ZArith NArith List Bool.
From FR Require Import Dec Types Bank Match Step Genesis Model Spec Checkers.
From FR.Proofs Require Import InvDefs InvAll EscrowBase Ledger LedgerSettle.
From FR.Proofs Require MatchConseq.
Import ListNotations.
Open Scope Z_scope.

Theorem C04_settlement : forall t orc s a s' a',
  Inv s -> find_auction s (a_id a) = Some a -> a_status a = Started -> a_type a = Batch ->
  process t orc s a = Ok s' ->
  find_auction s' (a_id a) = Some a' -> (a_status a' = VestingS \/ a_status a' = Finished) ->
  let bs := bids_of s (a_id a) in
  exists mi,
    ledger_by s s' (settle_xfers s a mi true)
    /\ (forall u, sum_xfers (settle_xfers s a mi true) (from_to (Escrow Paying (a_id a)) (User u) (a_pay_denom a))
                  = (if existsb (N.eqb u) (bidders_of bs) then mi_refund mi u else 0)
                    + (if match a_scheds a with [] => N.eqb (a_auctioneer a) u | _ => false end
                       then proceeds_of s a mi true else 0))
    /\ (forall u, 0 <= mi_refund mi u <= reserved_of (a_pay_denom a) bs u)
    /\ (forall u, let paid := reserved_of (a_pay_denom a) bs u - mi_refund mi u in
                  mi_price mi * mi_alloc mi u <= paid * P
                  <= mi_price mi * mi_alloc mi u + MatchConseq.matched_count bs (mi_matched mi) u * (P - 1)).
Proof.
  intros t orc s a s' a' I Fa St Ty H Fa' Hst' bs. subst bs.
  destruct (settlement_dues t orc s a s' a' I Fa St H Fa' Hst') as (mi & wr & Hw & L & D & _).
  destruct Hw as [_ [(Ty' & _)|(_ & -> & _)]]; [congruence|].
  exists mi. split; [exact L|].
  assert (Hnd : NoDup (mi_bidders mi)).
  { pose proof (du_sorted _ _ _ _ D) as Hs. clear -Hs. induction Hs as [|x l Hs IH Hx]; constructor; [|exact IH].
    intros Hin. rewrite Forall_forall in Hx. specialize (Hx x Hin). apply N.lt_irrefl in Hx. exact Hx. }
  split.
  - intros u. destruct (settle_xfers_received s a mi true u Hnd) as [_ E]. rewrite E.
    rewrite (du_bidders _ _ _ _ D). reflexivity.
  - split; [apply (du_refund _ _ _ _ D)|]. intros u. apply (du_batch _ _ _ _ D eq_refl u).
Qed.
Print Assumptions C04_settlement.
