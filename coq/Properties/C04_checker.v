(* C04, checker link: the executable statement Checkers.c04_ok holds of every transition the model makes from a state
   satisfying the global invariant.
   Batch clause (c04_batch): at a settlement every bidder other than the auctioneer gets back - summed over ALL the
   transfers of the block out of the auction's paying escrow - a refund between 0 and what was reserved; with nothing
   received everything is refunded; otherwise  price * got <= paid * 10^18 < price * got + k * 10^18  with k the number
   of the bidder's bids flagged matched afterwards; and every flagged bid is priced at or above the published price.
   Fixed price clause (c04_fixed): an accepted fixed price bid moves exactly the reserved amount into the paying
   escrow and lowers the remainder by exactly the quantity asked for, floor/ceiling of amount and price.
   Proofs: Proofs/ChkSettle.v, Proofs/ChkFixedBid.v, Proofs/Chk04.v. *)
From Coq Require Import ZArith NArith List Bool.
From FR Require Import Dec Types Bank Match Step Genesis Model Spec Checkers.
From FR.Proofs Require Import InvDefs InvAll ExcessExamples ChkSettleExamples Chk04 ChkDelivered.
Import ListNotations.
Open Scope Z_scope.

Theorem C04_checker : forall s o, Inv s -> oracle_ok s o -> c04_ok (model_trans s o) = true.
Proof. exact c04_ok_model. Qed.
Print Assumptions C04_checker.

(* the checker the driver evaluates for C04: c04_ok and, at the settlement of a fixed price auction, delivery of
   exactly what each bid paid for (c04_delivered) *)
Theorem C04_all_checker : forall s o, Inv s -> oracle_ok s o -> c04_all (model_trans s o) = true.
Proof. exact c04_all_model. Qed.
Print Assumptions C04_all_checker.
Theorem C04_checker_delivered : forall s o, Inv s -> c04_delivered (model_trans s o) = true.
Proof. exact c04_delivered_model. Qed.
Print Assumptions C04_checker_delivered.

(* the two clauses separately; the oracle hypothesis is not needed *)
Theorem C04_checker_batch : forall s o, Inv s -> c04_batch (model_trans s o) = true.
Proof. exact c04_batch_model. Qed.
Print Assumptions C04_checker_batch.
Theorem C04_checker_fixed : forall s o, Inv s -> c04_fixed (model_trans s o) = true.
Proof. exact c04_fixed_model. Qed.
Print Assumptions C04_checker_fixed.

(* the hypotheses are satisfiable, and the checker is not vacuous there: a block that settles a fixed price and a
   batch auction (history of ChkSettleExamples.v: the batch auction clears at 2.0, user 2 pays 60 of 130 reserved for
   30 coins, user 3 pays 100 of 101 for 50 coins), and the acceptance of a fixed price bid *)
Example C04_checker_ex_hyps : Inv chk_state /\ oracle_ok chk_state chk_close.
Proof. split; [exact chk_state_Inv|exact chk_oracle_ok]. Qed.
Example C04_checker_ex_settles :
  let tr := model_trans chk_state chk_close in
  t_class tr = KBlockOk
  /\ map (fun p => (a_id (fst p), a_type (fst p), a_matched_price (snd p))) (settling tr)
     = [(0%N, FixedPrice, 0); (1%N, Batch, 2 * P)]
  /\ map (fun u => (received tr 1 1 u, refunded tr 1 2 u)) [2%N; 3%N] = [(30, 70); (50, 1)]
  /\ c04_ok tr = true.
Proof. vm_compute. repeat split; reflexivity. Qed.
Example C04_checker_ex_Inv2 : Inv (run c01_init [c01_create; c01_allow]).
Proof. apply Inv_reachable; try reflexivity; intros [u|r a|] d; cbn; discriminate. Qed.
Example C04_checker_ex_accepts :
  t_class (model_trans (run c01_init [c01_create; c01_allow]) c01_bid) = KOk
  /\ c04_ok (model_trans (run c01_init [c01_create; c01_allow]) c01_bid) = true.
Proof. vm_compute. split; reflexivity. Qed.
