(* C17, checker link: the executable statement Checkers.c17_ok holds of every transition the model makes from a state
   satisfying the global invariant: an operation that succeeds made exactly the expected hook calls (every listener
   once per hook, in listener order, with the values of the records it left behind; for a block one BeforeAllocated
   hook per settled auction, in store order, whose maps are the amounts then transferred), none of them vetoed; an
   operation that fails stopped at the first veto; a vetoed call is never followed by success; GENESIS, listener
   registration and bank sends call no hook.  Proofs: Proofs/Chk17.v (messages, API calls), Proofs/Chk17Block.v
   (blocks; the link itself). *)
From Coq Require Import ZArith NArith List Bool.
From FR Require Import Dec Types Bank Match Step Genesis Model Spec Checkers.
From FR.Proofs Require Import InvDefs InvAll GenesisExamples Chk17 Chk17Block.
Import ListNotations.
Open Scope Z_scope.

Theorem C17_checker : forall s o, Inv s -> oracle_ok s o -> c17_ok (model_trans s o) = true.
Proof. exact c17_ok_model. Qed.
Print Assumptions C17_checker.

(* the block part on its own: the hooks of a successful BeginBlocker against the block's transfers *)
Theorem C17_block_hooks : forall s t orc s',
  Inv s -> begin_block s t orc = Ok s' ->
  exists xs G,
    st_xfers s' = st_xfers s ++ xs /\ st_trace s' = st_trace s ++ expected_trace s G /\
    Forall2 hm (map (fun a => chk_hook xs (bids_of s (a_id a)) a) (filter (settles_in s') (st_auctions s))) G.
Proof. exact block_hooks. Qed.
Print Assumptions C17_block_hooks.

(* the hypotheses are satisfiable and the checker is not vacuous there: GenesisExamples.g_state (reached from the empty
   module by 12 accepted operations) with two listeners registered; the block below settles the batch auction 0 with
   the sweep order 2, 1, 3: one BeforeAllocated hook, offered to both listeners, with the allocation map
   {2: 100, 3: 30} and the refund map {2: 10, 3: 45} - the amounts of the block's transfers *)
Definition ex_s : state := with_listeners g_state [[]; []].
Definition ex_t : trans := model_trans ex_s (OBlock (300 * day_ns) [(0%N, [2%N; 1%N; 3%N])]).
Example C17_checker_ex_Inv : Inv ex_s.
Proof. apply Inv_with_listeners, g_state_Inv. Qed.
Example C17_checker_ex :
  c17_ok ex_t = true /\ t_class ex_t = KBlockOk
  /\ map h_args (t_trace ex_t) = [[0; 2; 2; 100; 3; 30; 2; 2; 10; 3; 45]; [0; 2; 2; 100; 3; 30; 2; 2; 10; 3; 45]]
  /\ expected_hooks ex_t = [(H_BeforeAllocated, [0; 2; 2; 100; 3; 30; 2; 2; 10; 3; 45])].
Proof. vm_compute. repeat split; reflexivity. Qed.
