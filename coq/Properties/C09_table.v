(* Tie of the model's vesting share (Dec.share) to the library call chain of keeper/vesting.go
   (LegacyNewDecFromInt(total).MulTruncate(weight).TruncateInt()), on the table regenerated from /repo on every run. *)
From Coq Require Import ZArith NArith List Bool.
From FR Require Import Dec.
From FR.Generated Require Consts.
From FR.Properties Require Import C04_table.
Import ListNotations.
Open Scope Z_scope.

Theorem C09_share_table_agrees : forallb row_ok (rows_of [4%N]) = true.
Proof. vm_compute. reflexivity. Qed.
Print Assumptions C09_share_table_agrees.
Theorem C09_share_table_nonempty : Nat.leb 300 (length (rows_of [4%N])) = true.
Proof. vm_compute. reflexivity. Qed.
