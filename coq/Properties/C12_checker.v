(* C12, checker link: the executable cancellation monitor Checkers.c12_ok can never fire on a transition of the model
   from a state satisfying the global invariant.  Proofs: Proofs/Chk12.v (with PrecondEffects.v, LifeTheorems.v). *)
From Coq Require Import ZArith NArith List Bool.
From FR Require Import Dec Types Bank Match Step Genesis Model Spec Checkers.
From FR.Proofs Require Import InvDefs InvAll ExcessExamples Chk12.
Import ListNotations.
Open Scope Z_scope.

Theorem C12_checker : forall s o, Inv s -> oracle_ok s o -> c12_ok (model_trans s o) = true.
Proof. intros s o I _. exact (c12_ok_model s o I). Qed.
Print Assumptions C12_checker.

(* the oracle hypothesis is not needed *)
Theorem C12_checker_any_oracle : forall s o, Inv s -> c12_ok (model_trans s o) = true.
Proof. exact c12_ok_model. Qed.
Print Assumptions C12_checker_any_oracle.

(* along every history from the empty module *)
Theorem C12_checker_reachable : forall bal now sw p ops o,
  (forall x d, 0 <= bal x d) -> coins_ok (p_cfee p) None = true -> coins_ok (p_bfee p) None = true ->
  c12_ok (model_trans (run (init_state bal now sw p) ops) o) = true.
Proof. intros bal now sw p ops o Hb H1 H2. apply c12_ok_model, Inv_reachable; assumption. Qed.
Print Assumptions C12_checker_reachable.

(* non-vacuity: a stand-by auction (start 500 > now 100) with a third-party deposit in its selling escrow is cancelled by
   its auctioneer (accepted: one transfer of 1000 + 7), by somebody else (rejected), and once more (rejected) *)
Definition c12_create : op :=
  OTx (MCreateFixed (AGood false 0) (Some P) (c01_coin 1 1000) (Some 2%N) [] 500 600).
Definition c12_gift : op := OSend 3 (Escrow Selling 0) 1 7.
Definition c12_cancel : op := OTx (MCancel (AGood true 0) 0).
Example C12_checker_ex :
  let s := run c01_init [c12_create; c12_gift] in
  let t := model_trans s c12_cancel in
  t_class t = KOk /\ map x_amt (t_xfers t) = [1007] /\ c12_ok t = true
  /\ t_class (model_trans s (OTx (MCancel (AGood true 1) 0))) = KRej
  /\ c12_ok (model_trans s (OTx (MCancel (AGood true 1) 0))) = true
  /\ t_class (model_trans (t_post t) c12_cancel) = KRej
  /\ c12_ok (model_trans (t_post t) c12_cancel) = true.
Proof. cbv zeta. repeat (match goal with |- _ /\ _ => split end); vm_compute; reflexivity. Qed.
