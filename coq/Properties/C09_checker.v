(* C09, checker link: the executable monitor Checkers.c09_ok (settlement: the instalments are the weight shares of
   what went into the vesting escrow; every block: exactly the due unreleased instalments are paid, once) can
   never fire on a transition the model makes from a state satisfying the invariant.  A `false` on an
   implementation trace is therefore a behaviour outside the model.  Proofs: Proofs/Chk09.v. *)
From Coq Require Import ZArith NArith List Bool.
From FR Require Import Dec Types Bank Match Step Genesis Model Spec Checkers.
From FR.Proofs Require Import InvDefs Chk09.
From FR.Proofs Require ChkLive09.
From FR.Properties Require C09_release.
Import ListNotations.
Open Scope Z_scope.

Theorem C09_checker : forall s o, Inv s -> oracle_ok s o -> c09_ok (model_trans s o) = true.
Proof. exact c09_ok_model. Qed.
Print Assumptions C09_checker.

(* the two conjuncts separately, for the transition taken from any state with an empty transfer log *)
Theorem C09_checker_settlement : forall s o, Inv s -> st_xfers s = [] -> c09_settle_part (trans_of s o) = true.
Proof. exact c09_settle_trans. Qed.
Print Assumptions C09_checker_settlement.

Theorem C09_checker_release : forall s o, Inv s -> st_xfers s = [] -> c09_release_part (trans_of s o) = true.
Proof. exact c09_release_trans. Qed.
Print Assumptions C09_checker_release.

(* the checker the driver evaluates for C09: c09_ok and c09_live (a block at or after a release time fails, while the
   instalment is due, only when a listener vetoes - otherwise the instalment would not be paid "in the first block at
   or after its release time") *)
Theorem C09_all_checker : forall s o, Inv s -> oracle_ok s o -> c09_all (model_trans s o) = true.
Proof. exact ChkLive09.c09_all_model. Qed.
Print Assumptions C09_all_checker.

Theorem C09_checker_parts : forall t, c09_ok t = c09_settle_part t && c09_release_part t.
Proof. exact c09_ok_parts. Qed.

(* the checker is not vacuous: it evaluates to true on transitions that settle, release two instalments at once,
   release the last one, and settle without a schedule (states of Properties/C09_release.v) *)
Example ex_settle : c09_ok (model_trans (run C09_release.ex_init [C09_release.ex_create; C09_release.ex_allow; C09_release.ex_bid])
                                        (OBlock 200 [])) = true.
Proof. vm_compute. reflexivity. Qed.
Example ex_release_two : c09_ok (model_trans C09_release.ex_s1 (OBlock 450 [])) = true.
Proof. vm_compute. reflexivity. Qed.
Example ex_release_last : c09_ok (model_trans C09_release.ex_s3 (OBlock 500 [])) = true.
Proof. vm_compute. reflexivity. Qed.
Example ex_no_schedule : c09_ok (model_trans C09_release.ex_t0 (OBlock 200 [])) = true.
Proof. vm_compute. reflexivity. Qed.
(* and it does fire on a wrong observation: the same transition with one released flag cleared in the post-state *)
Example ex_fires :
  let t := model_trans C09_release.ex_s1 (OBlock 450 []) in
  c09_ok {| t_pre := t_pre t; t_op := t_op t; t_class := t_class t; t_xfers := t_xfers t; t_trace := t_trace t;
            t_post := with_vqs (t_post t) (map (fun v => set_v_released v false) (st_vqs (t_post t)));
            t_fault := t_fault t; t_gen_valid := t_gen_valid t |} = false.
Proof. vm_compute. reflexivity. Qed.
