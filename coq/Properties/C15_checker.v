(* C15, checker link: the executable statement Checkers.c15_ok (GENESIS is accepted, the exported genesis validates,
   the module state and every tracked balance are the same before and after) holds of every transition the model
   makes from a state satisfying the global invariant.  Proof: Proofs/Chk15.v (from GenesisImport.genesis_step and
   the uniqueness of the sorted stores). *)
From Coq Require Import ZArith NArith List Bool.
From FR Require Import Dec Types Bank Match Step Genesis Model Spec Checkers.
From FR.Proofs Require Import InvDefs GenesisExamples Chk15.
Import ListNotations.
Open Scope Z_scope.

Theorem C15_checker : forall s o, Inv s -> oracle_ok s o -> c15_ok (model_trans s o) = true.
Proof. exact c15_ok_model. Qed.
Print Assumptions C15_checker.

(* the hypotheses are satisfiable, and the checker is not vacuous there *)
Example C15_checker_ex_Inv : Inv g_state.
Proof. exact g_state_Inv. Qed.
Example C15_checker_ex : c15_ok (model_trans g_state OGenesis) = true /\ t_class (model_trans g_state OGenesis) = KGenOk.
Proof. vm_compute. split; reflexivity. Qed.
