(* C03, checker link: the executable statement Checkers.c03_ok (at the settlement of a batch auction every bidder other
   than the auctioneer receives - summed over ALL the transfers of the block out of the auction's selling escrow -
   exactly Spec.spec_alloc, the capped demand at the declarative clearing price, and the published price is that
   clearing price, 0 if there is none) holds of every transition the model makes from a state satisfying the global
   invariant, whatever valid sweep order the block's oracle supplies.
   Proofs: Proofs/ChkSettle.v (which transfers of a block the sums see), Proofs/Chk03.v. *)
From Coq Require Import ZArith NArith List Bool.
From FR Require Import Dec Types Bank Match Step Genesis Model Spec Checkers.
From FR.Proofs Require Import InvDefs ChkSettleExamples Chk03.
Import ListNotations.
Open Scope Z_scope.

Theorem C03_checker : forall s o, Inv s -> oracle_ok s o -> c03_ok (model_trans s o) = true.
Proof. exact c03_ok_model. Qed.
Print Assumptions C03_checker.

(* the oracle hypothesis is not needed: a block whose oracle is invalid settles nothing *)
Theorem C03_checker_inv : forall s o, Inv s -> c03_ok (model_trans s o) = true.
Proof. exact c03_ok_model_inv. Qed.
Print Assumptions C03_checker_inv.

(* the hypotheses are satisfiable, and the checker is not vacuous there (history of ChkSettleExamples.v: supply 100,
   user 2 capped at 60 bids 30 @ 3.0 and 40 @ 1.0, user 3 capped at 100 bids worth 101 @ 2.0; the capped demand is
   30 @ 3.0, 80 @ 2.0, 160 @ 1.0, so the auction clears at 2.0) *)
Example C03_checker_ex_hyps : Inv chk_state /\ oracle_ok chk_state chk_close.
Proof. split; [exact chk_state_Inv|exact chk_oracle_ok]. Qed.
Example C03_checker_ex_settles :
  let tr := model_trans chk_state chk_close in
  t_class tr = KBlockOk
  /\ map (fun p => (a_id (fst p), a_type (fst p), a_matched_price (snd p))) (settling tr)
     = [(0%N, FixedPrice, 0); (1%N, Batch, 2 * P)]
  /\ clearing_spec (bids_of chk_state 1) (allowed_of chk_state 1) 100 = Some (2 * P)
  /\ map (received tr 1 1) [2%N; 3%N; 4%N] = [30; 50; 0]
  /\ c03_ok tr = true.
Proof. vm_compute. repeat split; reflexivity. Qed.
