(* C05, "the maximum bid amount the allow-list granted": the stored maximum after an accepted allow-list operation is
   the one granted last; the complete executable statement c05_all = c05_ok && c05_grants holds of every model
   transition (it is evaluated on every implementation transition). *)
From Coq Require Import ZArith NArith List Bool.
From FR Require Import Dec Types Bank Match Step Genesis Model Spec Checkers.
From FR.Proofs Require Import InvDefs InvAll ChkGrants.
Import ListNotations.
Open Scope Z_scope.

Theorem C05_api_add_grants : forall s id l s', api_add s id l = Ok s' ->
  forallb (fun e => match e with
                    | (_, AGood _ u, _) => optZ_eqb (stored_max s' id u) (granted l u)
                    | _ => true end) l = true.
Proof. exact api_add_grants. Qed.
Print Assumptions C05_api_add_grants.

Theorem C05_api_update_grants : forall s id u max s', api_update s id u max = Ok s' -> optZ_eqb (stored_max s' id u) max = true.
Proof. exact api_update_grants. Qed.
Print Assumptions C05_api_update_grants.

Theorem C05_checker_all : forall s o, Inv s -> oracle_ok s o -> c05_all (model_trans s o) = true.
Proof. exact c05_all_model. Qed.
Print Assumptions C05_checker_all.
