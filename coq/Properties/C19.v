(* C19 isolation, immutable terms, ids.
   Proofs: Proofs/FrameFacts.v, TxFacts.v, BlockFacts.v, LifeTheorems.v.
   OGenesis is excluded by an explicit hypothesis. *)
From Coq Require Import ZArith NArith List Bool.
From FR Require Import Dec Types Bank Match Step Genesis Model Spec.
From FR Require Checkers.
From FR.Proofs Require Import FrameFacts TxFacts BlockFacts LifeTheorems GenesisFacts LifeExamples.
Import ListNotations.
Open Scope Z_scope.

(* 9. a transaction / API call about auction tid changes nothing of any other auction:
   frame tid s s' = forall j <> tid, find_auction, bids_of, allowed_of, vqs_of, st_bseq, st_mlen at j
   and the three escrow balances of j in every denomination are the same in s and s' *)
Theorem C19_frame_tx : forall s o tid j,
  target s o = Some tid -> j <> tid ->
  find_auction (snd (step s o)) j = find_auction s j
  /\ bids_of (snd (step s o)) j = bids_of s j
  /\ allowed_of (snd (step s o)) j = allowed_of s j
  /\ vqs_of (snd (step s o)) j = vqs_of s j
  /\ st_bseq (snd (step s o)) j = st_bseq s j
  /\ st_mlen (snd (step s o)) j = st_mlen s j
  /\ forall r d, st_bal (snd (step s o)) (Escrow r j) d = st_bal s (Escrow r j) d.
Proof.
  intros s o tid j T Hj. destruct (L_C19_frame_tx s o tid T j Hj) as [A1 A2 A3 A4 A5 A6 A7]. auto 10.
Qed.
Print Assumptions C19_frame_tx.

(* 10. processing one auction in a block changes nothing of any other auction *)
Theorem C19_frame_process : forall t orc s a s',
  process t orc s a = Ok s' -> forall j, j <> a_id a -> slice_eq j s s'.
Proof. exact L_C19_frame_process. Qed.
Print Assumptions C19_frame_process.

(* an id without auction, and an auction that is finished, cancelled or not due (idle, BlockFacts.v),
   is left completely unchanged by a block, whatever its outcome *)
Theorem C19_frame_block : forall s o j,
  ids_ok s -> is_block o = true ->
  (find_auction s j = None \/ exists a, find_auction s j = Some a /\ idle (block_time o) s a) ->
  slice_eq j s (snd (step s o)).
Proof. exact L_C19_frame_block. Qed.
Print Assumptions C19_frame_block.

(* what a successful block does to auction a is what process does to it from a state s1 that agrees
   with the pre-state on everything about a (and on the parameters and listeners);
   the other auctions only enter through s1's remaining components *)
Theorem C19_block_independent : forall s t orc s' a,
  ids_ok s -> begin_block s t orc = Ok s' -> In a (st_auctions s) ->
  exists s1 s2, slice_eq (a_id a) s s1 /\ find_auction s1 (a_id a) = Some a
    /\ st_params s1 = st_params s /\ st_listeners s1 = st_listeners s /\ st_now s1 = t
    /\ process t orc s1 a = Ok s2 /\ slice_eq (a_id a) s2 s'.
Proof. exact L_C19_block_independent. Qed.
Print Assumptions C19_block_independent.

(* 11. the terms of an auction never change *)
Theorem C19_terms : forall s o id a,
  ids_ok s -> o <> OGenesis -> find_auction s id = Some a ->
  exists a', find_auction (snd (step s o)) id = Some a'
    /\ (a_id a' = a_id a /\ a_type a' = a_type a /\ a_auctioneer a' = a_auctioneer a /\ a_upper a' = a_upper a
        /\ a_start_price a' = a_start_price a /\ a_sell_denom a' = a_sell_denom a /\ a_sell_amt a' = a_sell_amt a
        /\ a_pay_denom a' = a_pay_denom a /\ a_scheds a' = a_scheds a /\ a_start a' = a_start a
        /\ a_min_price a' = a_min_price a /\ a_max_round a' = a_max_round a /\ a_rate a' = a_rate a)
    /\ (a_ends a <> [] -> first_end a' = first_end a).
Proof. exact L_C19_terms. Qed.
Print Assumptions C19_terms.

Theorem C19_terms_all : forall s o id a,     (* GENESIS included, under gen_ok *)
  gen_ok s -> find_auction s id = Some a ->
  exists a', find_auction (snd (step s o)) id = Some a' /\ terms0_eq a a'
             /\ (a_ends a <> [] -> first_end a' = first_end a).
Proof. exact L_C19_terms_all. Qed.
Print Assumptions C19_terms_all.

Theorem C19_terms_eqb : forall s o id a,
  ids_ok s -> bounded s -> o <> OGenesis -> find_auction s id = Some a ->
  exists a', find_auction (snd (step s o)) id = Some a' /\ Checkers.auction_terms_eqb a a' = true.
Proof. exact L_C19_terms_eqb. Qed.
Print Assumptions C19_terms_eqb.

(* every bid that can be looked up stays, with the same auction, id, bidder, type and denomination *)
Theorem C19_bids : forall s o a i b,
  ids_ok s -> o <> OGenesis -> find_bid s a i = Some b ->
  exists b', find_bid (snd (step s o)) a i = Some b'
    /\ b_auction b' = b_auction b /\ b_id b' = b_id b /\ b_bidder b' = b_bidder b /\ b_type b' = b_type b
    /\ b_denom b' = b_denom b.
Proof. intros s o a i b OK Hg F. exact (L_C19_bids s o OK Hg a i b F). Qed.
Print Assumptions C19_bids.

Theorem C19_bids_in : forall s o b,
  ids_ok s -> bid_keys_unique s -> o <> OGenesis -> In b (st_bids s) ->
  exists b', In b' (st_bids (snd (step s o)))
    /\ b_auction b' = b_auction b /\ b_id b' = b_id b /\ b_bidder b' = b_bidder b /\ b_type b' = b_type b
    /\ b_denom b' = b_denom b.
Proof. exact L_C19_bids_in. Qed.
Print Assumptions C19_bids_in.

(* 12. ids *)
Theorem C19_ids_ok_step : forall s o, ids_ok s -> o <> OGenesis -> ids_ok (snd (step s o)).
Proof. exact L_ids_ok_step. Qed.
Print Assumptions C19_ids_ok_step.

Theorem C19_aseq_mono : forall s o, ids_ok s -> o <> OGenesis -> (st_aseq s <= st_aseq (snd (step s o)))%N.
Proof. exact L_C19_aseq_mono. Qed.
Print Assumptions C19_aseq_mono.

Theorem C19_aseq_mono_all : forall s o, gen_ok s -> (st_aseq s <= st_aseq (snd (step s o)))%N.
Proof. exact L_C19_aseq_mono_all. Qed.
Print Assumptions C19_aseq_mono_all.

(* operations without a target auction (rejected ones, parameter update, listeners, plain sends)
   change no module record at all; only a plain send moves balances *)
Theorem C19_frame_untargeted : forall s o j,
  target s o = None -> is_block o = false -> o <> OGenesis ->
  find_auction (snd (step s o)) j = find_auction s j
  /\ bids_of (snd (step s o)) j = bids_of s j
  /\ allowed_of (snd (step s o)) j = allowed_of s j
  /\ vqs_of (snd (step s o)) j = vqs_of s j
  /\ st_bseq (snd (step s o)) = st_bseq s
  /\ st_mlen (snd (step s o)) = st_mlen s
  /\ ((forall from to d amt, o <> OSend from to d amt) -> st_bal (snd (step s o)) = st_bal s).
Proof. exact L_C19_frame_untargeted. Qed.
Print Assumptions C19_frame_untargeted.

(* a successful creation takes the counter value and increments it: C08_creation_status;
   nothing else moves the counter: C08_no_other_creation *)

(* a rejected operation changes nothing but the hook trace *)
Theorem C19_rejected : forall s o c,
  fst (step s o) = Rejected c -> exists tr, snd (step s o) = with_trace s tr.
Proof. exact L_C19_rejected. Qed.
Print Assumptions C19_rejected.

Theorem C19_place_ids : forall s who id bt price coin,
  fst (step s (OTx (MPlaceBid who id bt price coin))) = Accepted ->
  exists nb, st_bids (snd (step s (OTx (MPlaceBid who id bt price coin)))) = st_bids s ++ [nb]
    /\ b_auction nb = id /\ b_id nb = (st_bseq s id + 1)%N
    /\ st_bseq (snd (step s (OTx (MPlaceBid who id bt price coin)))) = upd (st_bseq s) id (st_bseq s id + 1)%N.
Proof. exact L_C19_place_ids. Qed.
Print Assumptions C19_place_ids.

Theorem C19_bseq_only_place : forall s o,
  ids_ok s -> o <> OGenesis ->
  st_bseq (snd (step s o)) = st_bseq s
  \/ (fst (step s o) = Accepted /\ exists who id bt price coin, o = OTx (MPlaceBid who id bt price coin)).
Proof. exact L_C19_bseq_only_place. Qed.
Print Assumptions C19_bseq_only_place.

(* ---- examples on the two-auction state ---- *)
Example ex_hyps : ids_ok ex_s /\ bounded ex_s /\ bid_keys_unique ex_s.
Proof. exact (conj ex_ids_ok (conj ex_bounded ex_bid_keys_unique)). Qed.
Example ex_bid_targets_0 :          (* a second bid on auction 0: accepted, gets id 2; auction 1 untouched *)
  let o := OTx (MPlaceBid (AGood false 2) 0 1 (Some P) (coin 2 30)) in
  target ex_s o = Some 0%N /\ fst (step ex_s o) = Accepted
  /\ map b_id (bids_of (snd (step ex_s o)) 0) = [1%N; 2%N]
  /\ find_auction (snd (step ex_s o)) 1 = find_auction ex_s 1
  /\ st_bal (snd (step ex_s o)) (Escrow Selling 1) 1%N = 500.
Proof. vm_compute. repeat split; reflexivity. Qed.
Example ex_rejected_keeps_counters : (* over the allowed maximum 100 *)
  let o := OTx (MPlaceBid (AGood false 2) 0 1 (Some P) (coin 2 80)) in
  fst (step ex_s o) = Rejected E_OVERMAX
  /\ st_bseq (snd (step ex_s o)) 0%N = 1%N /\ st_aseq (snd (step ex_s o)) = 2%N.
Proof. vm_compute. repeat split; reflexivity. Qed.
Example ex_block_leaves_idle_alone : (* at t = 120 neither auction is due *)
  Forall (idle 120 ex_s) (st_auctions ex_s).
Proof. vm_compute. repeat constructor. Qed.
Example ex_block_touches_only_due : (* at t = 160 auction 1 opens, auction 0 keeps its record *)
  find_auction (snd (step ex_s (OBlock 160 []))) 0 = find_auction ex_s 0
  /\ option_map a_status (find_auction (snd (step ex_s (OBlock 160 []))) 1) = Some Started.
Proof. vm_compute. split; reflexivity. Qed.
