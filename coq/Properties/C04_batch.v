(* C04 (batch part): what a bidder pays in a batch auction.
   paid u = reserved u - refund u is the bidder's allocation at the clearing price, rounded up
   once per matched bid; it never exceeds what was reserved (the refund is never negative, which
   is also what keeps RefundPayingCoin from panicking), and a bidder who gets nothing gets
   everything back. *)
From Coq Require Import ZArith NArith List Bool.
From FR Require Import Dec Types Match Spec.
From FR.Proofs Require Import MatchBase MatchSweep MatchDemand MatchSearch MatchBatch MatchConseq MatchWf MatchExamples.
Import ListNotations.
Open Scope Z_scope.

(* matched_count bs matched u = number of bids of bidder u in bs whose id is in matched.
   denoms_wf pd bs: worth bids are denominated in the paying coin pd, how-many bids are not. *)
Theorem C04_batch_refund a bs ids order al mi :
  book_wf bs al -> valid_order bs ids = Some order -> 0 <= a_sell_amt a ->
  denoms_wf (a_pay_denom a) bs ->
  calc_batch a bs order al = Some mi ->
  let pd := a_pay_denom a in
  let paid := fun u => reserved_of pd bs u - mi_refund mi u in
  (forall u, 0 <= mi_refund mi u <= reserved_of pd bs u) /\
  (forall u, mi_alloc mi u = 0 -> mi_refund mi u = reserved_of pd bs u) /\
  (forall u, mi_price mi * mi_alloc mi u <= paid u * P <=
             mi_price mi * mi_alloc mi u + matched_count bs (mi_matched mi) u * (P - 1)) /\
  (forall i, In i (mi_matched mi) -> exists b, In b bs /\ b_id b = i /\ mi_price mi <= b_price b).
Proof. exact (batch_refund_facts a bs ids order al mi). Qed.
Print Assumptions C04_batch_refund.

(* strict form of the upper bound (false for a bidder without matched bids: 0 < 0) *)
Theorem C04_batch_paid_strict a bs ids order al mi :
  book_wf bs al -> valid_order bs ids = Some order -> 0 <= a_sell_amt a ->
  denoms_wf (a_pay_denom a) bs ->
  calc_batch a bs order al = Some mi ->
  forall u, 0 < matched_count bs (mi_matched mi) u ->
    (reserved_of (a_pay_denom a) bs u - mi_refund mi u) * P <
    mi_price mi * mi_alloc mi u + matched_count bs (mi_matched mi) u * P.
Proof. exact (batch_paid_strict a bs ids order al mi). Qed.
Print Assumptions C04_batch_paid_strict.

(* the refund in terms of the sweep's assignment: reserved minus the sum over the bidder's bids
   of ceil(p * amount matched to the bid) *)
Theorem C04_batch_refund_formula a bs ids order al :
  book_wf bs al -> valid_order bs ids = Some order -> 0 <= a_sell_amt a ->
  exists mi, calc_batch a bs order al = Some mi /\ batch_result a bs order al mi.
Proof. exact (calc_batch_full a bs ids order al). Qed.
Print Assumptions C04_batch_refund_formula.

(* hypotheses satisfiable; book 2: bidder 1 reserved 150 pays 80 = 2.0 * 40, bidder 2 reserved
   60 + 7 pays 66 = 2.0 * 33 (1 refunded by rounding of the worth bid), bidder 3 gets all 40 back *)
Example ex2_hyps :
  book_wfb ex2_bids ex2_al = true /\ denoms_wfb (a_pay_denom (ex_auction 80)) ex2_bids = true.
Proof. vm_compute. split; reflexivity. Qed.
Example ex2_denoms_wf : denoms_wf (a_pay_denom (ex_auction 80)) ex2_bids.
Proof. exact (denoms_wfb_sound _ _ (proj2 ex2_hyps)). Qed.
Example ex2_refunds :
  map (reserved_of 0 ex2_bids) [1; 2; 3; 4]%N = [150; 67; 40; 0] /\
  ex2_run ex2_order_a = Some (2 * P, 73, [1; 5; 2; 3]%N, [1; 2; 3]%N, [40; 33; 0; 0], [70; 1; 40; 0]) /\
  map (matched_count ex2_bids [1; 5; 2; 3]%N) [1; 2; 3]%N = [2; 2; 0].
Proof. vm_compute. repeat split; reflexivity. Qed.
