(* C20  The shipped node binary starts and wires every message and query correctly.
   Logic part: the AutoCLI options of the module, as the linked code returns them, bind against the
   registered protobuf descriptors (both regenerated from /repo by harness/cmd/clitables on every run).
   The domain is finite (the commands the binary registers), so the check is a complete enumeration.
   The runtime part (the built binary's --help / --generate-only behaviour) is exercised by bin/check C20. *)
From Coq Require Import String List Bool.
From FR Require Import Cli.
From FR.Generated Require Import CliTables.
Import ListNotations.
Open Scope string_scope.

(* documented exceptions: UpdateParams is authority gated (skipped on purpose); AddAllowedBidder has no
   curated command in a default build (C10) -- autocli still generates a plain one, which the node rejects *)
Definition exceptions : list (string * string) := [("tx", "UpdateParams"); ("tx", "AddAllowedBidder")].

Theorem C20_every_option_binds : forallb (binds services messages) cli_options = true.
Proof. vm_compute. reflexivity. Qed.
Print Assumptions C20_every_option_binds.

Theorem C20_every_option_binds_each : forall o, In o cli_options -> binds services messages o = true.
Proof. apply forallb_forall. exact C20_every_option_binds. Qed.
Print Assumptions C20_every_option_binds_each.

Theorem C20_every_rpc_reachable : covered services cli_options exceptions = true.
Proof. vm_compute. reflexivity. Qed.
Print Assumptions C20_every_rpc_reachable.

Theorem C20_command_names_distinct : names_distinct cli_options = true.
Proof. vm_compute. reflexivity. Qed.
Print Assumptions C20_command_names_distinct.

Theorem C20_default_build_has_no_allowlist_command :
  switch_at_link_time = false /\
  existsb (fun o => let '(_, rpc, _, _, _) := o in String.eqb rpc "AddAllowedBidder") cli_options = false.
Proof. vm_compute. split; reflexivity. Qed.
Print Assumptions C20_default_build_has_no_allowlist_command.

(* the binder rejects what the pinned commit shipped: camelCase and non-existent field names *)
Example C20_rejects_camel_case :
  binds services messages ("query", "GetAuction", "get-auction [id]", false, [("id", false, false)]) = false
  /\ binds services messages ("tx", "CancelAuction", "cancel-auction [auction-id]", false, [("auctionId", false, false)]) = false
  /\ binds services messages ("tx", "CancelAuction", "cancel-auction [auction-id]", false, [("auction_id", false, false)]) = true.
Proof. vm_compute. repeat split; reflexivity. Qed.

(* a `varargs` argument on a single-valued field is refused (autocli itself accepts it and keeps only the last word) *)
Example C20_rejects_varargs_on_scalar :
  binds services messages ("tx", "CancelAuction", "cancel-auction [auction-id]...", false, [("auction_id", false, true)]) = false.
Proof. vm_compute. reflexivity. Qed.

(* every (amino.encoding) option on a field of the module's messages is one the answer renderer of the CLI accepts
   for that field: "legacy_coins" only on repeated Coin fields (it was on seven single Coin fields - D19 - and no
   answer containing an auction, a bid or a vesting queue could be displayed) *)
Theorem C20_answers_renderable : forallb encoding_ok amino_encodings = true.
Proof. vm_compute. reflexivity. Qed.
Print Assumptions C20_answers_renderable.

(* no flag option injects a value the user did not type, hides a field or names a field that does not exist *)
Theorem C20_flags_send_what_is_typed : forallb (flag_option_ok services messages) flag_options = true.
Proof. vm_compute. reflexivity. Qed.
Print Assumptions C20_flags_send_what_is_typed.
