(* C19: identifiers.  In every state reachable from the empty module by operations other than OGenesis
   (whatever the block oracles are: a block with an invalid oracle fails and changes nothing),
   the auction ids are exactly 0, 1, ..., n-1 in store order, the store order is the creation order,
   and per auction the bid ids are exactly 1, 2, ..., k in store order, which is the placement order. *)
From Coq Require Import ZArith NArith List Bool.
From FR Require Import Dec Types Bank Match Step Genesis Model Spec.
From FR.Proofs Require Import TxFacts InvDefs InvStatic InvStaticExamples.
Import ListNotations.
Open Scope Z_scope.

(* auction ids are 0 .. n-1 (n = the auction counter), in store order *)
Theorem C19_auction_ids : forall bal now sw p ops,
  coins_ok (p_cfee p) None = true -> coins_ok (p_bfee p) None = true ->
  Forall (fun o => o <> OGenesis) ops ->
  let s := run (init_state bal now sw p) ops in
  map a_id (st_auctions s) = ids_upto (st_aseq s).
Proof. exact reachable_auction_ids. Qed.
Print Assumptions C19_auction_ids.

(* per auction the bid ids are 1 .. k (k = the auction's bid counter), in store order *)
Theorem C19_bid_ids : forall bal now sw p ops,
  coins_ok (p_cfee p) None = true -> coins_ok (p_bfee p) None = true ->
  Forall (fun o => o <> OGenesis) ops ->
  let s := run (init_state bal now sw p) ops in
  forall id, map b_id (bids_of s id) = map N.succ (ids_upto (st_bseq s id)).
Proof. exact reachable_bid_ids. Qed.
Print Assumptions C19_bid_ids.

(* the same, step-wise, from any state satisfying the static invariant *)
Theorem C19_step : forall s o, InvS s -> o <> OGenesis ->
  let s' := snd (step s o) in
  map a_id (st_auctions s') = ids_upto (st_aseq s')
  /\ forall id, map b_id (bids_of s' id) = map N.succ (ids_upto (st_bseq s' id)).
Proof.
  intros s o I Hg. pose proof (InvS_step s o I Hg) as I'. split; [exact (is_ids _ I')|exact (proj2 (is_bids _ I'))].
Qed.
Print Assumptions C19_step.

(* store order is creation order: an accepted creation appends the auction and gives it the next id *)
Theorem C19_creation_order : forall s m,
  is_create m = true -> fst (step s (OTx m)) = Accepted ->
  exists a, st_auctions (snd (step s (OTx m))) = st_auctions s ++ [a] /\ a_id a = st_aseq s
            /\ st_aseq (snd (step s (OTx m))) = (st_aseq s + 1)%N.
Proof. exact create_appends. Qed.
Print Assumptions C19_creation_order.

(* store order is placement order: an accepted bid is appended and gets the auction's next bid id *)
Theorem C19_placement_order : forall s who id bt price coin,
  fst (step s (OTx (MPlaceBid who id bt price coin))) = Accepted ->
  exists nb, st_bids (snd (step s (OTx (MPlaceBid who id bt price coin)))) = st_bids s ++ [nb]
             /\ b_auction nb = id /\ b_id nb = (st_bseq s id + 1)%N
             /\ st_bseq (snd (step s (OTx (MPlaceBid who id bt price coin)))) id = (st_bseq s id + 1)%N.
Proof. exact place_appends. Qed.
Print Assumptions C19_placement_order.

(* ---- the hypotheses are satisfiable: a history with two auctions, an allow-listed bidder, bids ---- *)
Example ex_params_ok : coins_ok (p_cfee c19_params) None = true /\ coins_ok (p_bfee c19_params) None = true.
Proof. split; vm_compute; reflexivity. Qed.
Example ex_no_genesis : Forall (fun o => o <> OGenesis) c19_ops.
Proof. repeat constructor; discriminate. Qed.
Example ex_InvS : InvS c19_s.
Proof. apply InvS_reachable; [apply ex_params_ok|apply ex_params_ok|exact ex_no_genesis]. Qed.
(* auctions 0 and 1; auction 0 has bids 1, 2 (the third was rejected), auction 1 has bid 1 *)
Example ex_ids :
  map a_id (st_auctions c19_s) = [0; 1]%N /\ st_aseq c19_s = 2%N
  /\ map b_id (bids_of c19_s 0) = [1; 2]%N /\ st_bseq c19_s 0 = 2%N
  /\ map b_id (bids_of c19_s 1) = [1]%N /\ st_bseq c19_s 1 = 1%N
  /\ map (fun b => (b_auction b, b_id b)) (st_bids c19_s) = [(0, 1); (1, 1); (0, 2)]%N.
Proof. vm_compute. repeat split; reflexivity. Qed.
Example ex_statuses : map a_status (st_auctions c19_s) = [Finished; Started].
Proof. vm_compute. reflexivity. Qed.
