(* C04 (fixed-price part): how a fixed-price bid is converted.
   A bid of c paying coins at price p asks for q = floor(c/p) selling coins and reserves exactly c;
   a bid for a selling coins at price p reserves r = ceil(a*p) paying coins and asks for exactly a.
   Prices are 18-decimal fixed point: the real price is (b_price b)/P, P = 10^18.
   Proofs: Proofs/DecFacts.v. *)
From Coq Require Import ZArith NArith List.
From FR Require Import Dec Types Match Proofs.DecFacts.
Import ListNotations.
Open Scope Z_scope.

(* paying-denominated bid: c := b_amt b, p := b_price b *)
Theorem C04_paying_denominated_bid : forall (pd : N) (b : bid),
  b_denom b = pd -> 0 < b_amt b -> 0 < b_price b ->
  let q := sell_amount pd b in
  q * b_price b <= b_amt b * P < (q + 1) * b_price b
  /\ 0 <= q
  /\ pay_amount pd b = b_amt b.
Proof. exact fixed_bid_paying. Qed.
Print Assumptions C04_paying_denominated_bid.

(* selling-denominated bid: a := b_amt b, p := b_price b *)
Theorem C04_selling_denominated_bid : forall (pd : N) (b : bid),
  b_denom b <> pd -> 0 < b_amt b -> 0 < b_price b ->
  let r := pay_amount pd b in
  b_amt b * b_price b <= r * P < b_amt b * b_price b + P
  /\ 0 < r
  /\ sell_amount pd b = b_amt b.
Proof. exact fixed_bid_selling. Qed.
Print Assumptions C04_selling_denominated_bid.

(* in either denomination the reserve covers the price of the quantity asked for *)
Theorem C04_reserve_covers_cost : forall (pd : N) (b : bid),
  0 < b_amt b -> 0 < b_price b ->
  pay_of_qty (sell_amount pd b) (b_price b) <= pay_amount pd b.
Proof. exact reserve_covers_cost. Qed.
Print Assumptions C04_reserve_covers_cost.

(* the closed forms of the two conversions *)
Theorem C04_qty_of_worth_is_floor : forall w p, 0 <= w -> 0 < p -> qty_of_worth w p = w * P / p.
Proof. exact qty_of_worth_eq. Qed.
Print Assumptions C04_qty_of_worth_is_floor.

Theorem C04_pay_of_qty_is_ceiling : forall m p, 0 <= m -> 0 <= p -> pay_of_qty m p = (m * p + P - 1) / P.
Proof. exact pay_of_qty_eq. Qed.
Print Assumptions C04_pay_of_qty_is_ceiling.

Theorem C04_worth_never_overpays : forall w p, 0 <= w -> 0 < p -> pay_of_qty (qty_of_worth w p) p <= w.
Proof. exact worth_never_overpays. Qed.
Print Assumptions C04_worth_never_overpays.

(* ---- examples: price 0.333333333333333333, paying denom 1, selling denom 0 *)
Definition ex_bid_paying : bid :=
  {| b_auction := 1; b_id := 1; b_bidder := 2; b_type := BFixed; b_price := 333333333333333333;
     b_denom := 1; b_amt := 1000; b_matched := false |}.
Definition ex_bid_selling : bid :=
  {| b_auction := 1; b_id := 2; b_bidder := 2; b_type := BFixed; b_price := 333333333333333333;
     b_denom := 0; b_amt := 1000; b_matched := false |}.

Example ex_paying_hyps : b_denom ex_bid_paying = 1%N /\ 0 < b_amt ex_bid_paying /\ 0 < b_price ex_bid_paying.
Proof. vm_compute. repeat split. Qed.
(* 1000 paying coins at 0.333333333333333333 buy 3000 selling coins; 1000 are reserved *)
Example ex_paying_values : sell_amount 1 ex_bid_paying = 3000 /\ pay_amount 1 ex_bid_paying = 1000.
Proof. vm_compute. split; reflexivity. Qed.

Example ex_selling_hyps : b_denom ex_bid_selling <> 1%N /\ 0 < b_amt ex_bid_selling /\ 0 < b_price ex_bid_selling.
Proof. vm_compute. repeat split. discriminate. Qed.
(* 1000 selling coins at 0.333333333333333333 cost 333.33..., so 334 are reserved *)
Example ex_selling_values : sell_amount 1 ex_bid_selling = 1000 /\ pay_amount 1 ex_bid_selling = 334.
Proof. vm_compute. split; reflexivity. Qed.
