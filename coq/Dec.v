(* cosmossdk.io/math LegacyDec / Int as used by x/fundraising.
   A LegacyDec is an integer scaled by P = 10^18; an Int is an integer.
   Every function mirrors one call chain of the Go code (named in the comment).
   Unbounded Z: the 256/315-bit overflow panics of the Go types are NOT modelled
   here (see DESIGN.md, trusted base; known finding D18). *)
From Coq Require Import ZArith.
Open Scope Z_scope.

Definition P : Z := 1000000000000000000.

Definition dec_of_int (n : Z) : Z := n * P.               (* LegacyNewDecFromInt / LegacyNewDec *)
Definition truncate_int (d : Z) : Z := Z.quot d P.        (* LegacyDec.TruncateInt (toward zero) *)

(* LegacyDec.Ceil followed by TruncateInt:  smallest integer >= d/P *)
Definition ceil_int (d : Z) : Z :=
  if Z.rem d P =? 0 then Z.quot d P
  else if Z.rem d P <? 0 then Z.quot d P else Z.quot d P + 1.

(* Bid.ConvertToSellingAmount / Match for worth bids:
   LegacyNewDecFromInt(amt).QuoTruncate(price).TruncateInt()
   = trunc( trunc( trunc(amt*P*P^2 / price) / P ) / P ) *)
Definition qty_of_worth (amt price : Z) : Z :=
  truncate_int (Z.quot (Z.quot (dec_of_int amt * (P * P)) price) P).

(* Bid.ConvertToPayingAmount / ModifyBid / Match payment:
   LegacyNewDecFromInt(amt).Mul(price).Ceil().TruncateInt()  and  price.MulInt(amt).Ceil().TruncateInt().
   (amt*P)*price/P is exact, so Mul's rounding never applies.) *)
Definition pay_of_qty (amt price : Z) : Z := ceil_int (amt * price).

(* ApplyVestingSchedules: LegacyNewDecFromInt(total).MulTruncate(weight).TruncateInt() *)
Definition share (total weight : Z) : Z := truncate_int (Z.quot (dec_of_int total * weight) P).

(* chopPrecisionAndRound: divide by P with banker's rounding (operand >= 0 here) *)
Definition chop_round (x : Z) : Z :=
  let q := Z.quot x P in let r := Z.rem x P in
  if r =? 0 then q
  else if r <? P / 2 then q
  else if P / 2 <? r then q + 1
  else if Z.even q then q else q + 1.

(* LegacyDec.Quo for non-negative operands *)
Definition dec_quo (x y : Z) : Z := chop_round (Z.quot (x * (P * P)) y).

(* CloseBatchAuction: 1 - cur/last >= rate, with cur, last matched-bid counts (int64), last <> 0 *)
Definition extend_rule (cur last rate : Z) : bool :=
  rate <=? P - dec_quo (dec_of_int cur) (dec_of_int last).

Definition day_ns : Z := 86400 * 1000000000.
