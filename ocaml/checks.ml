(* glue between the driver and the extracted property checkers (filled in with Checkers.v) *)
module M = Model
let run ~pre:_ ~op:_ ~iclass:_ ~xfers:_ ~trace:_ ~post:_ ~gen:_ : (string * string * string) list = []
let nontrivial ~pre:_ ~op:_ ~iclass:_ ~post:_ : string list = []
