(* glue between the driver and the extracted property checkers (Checkers.v) *)
module M = Model
open Conv

let oclass_of = function
  | "ok" -> M.KOk | "rej" -> M.KRej | "blockok" -> M.KBlockOk | "blockerr" -> M.KBlockErr
  | "panic" -> M.KPanic | "genok" -> M.KGenOk | "generr" -> M.KGenErr | _ -> M.KDone

let mk ~pre ~op ~iclass ~xfers ~trace ~post ~gen ~fault : M.trans =
  { M.t_pre = pre; t_op = op; t_class = oclass_of iclass; t_xfers = xfers; t_trace = trace; t_post = post;
    t_fault = fault; t_gen_valid = (gen = "1") }

(* after a failed block the chain has halted with a partially processed state: only the two properties that
   speak about failing blocks are evaluated there *)
let run ~pre ~op ~iclass ~xfers ~trace ~post ~gen ~fault : (string * string * string) list =
  let t = mk ~pre ~op ~iclass ~xfers ~trace ~post ~gen ~fault in
  let halted = (iclass = "blockerr" || iclass = "panic") in
  let l = List.filter_map (fun n ->
      let i = int_of_n n in
      if halted && i <> 7 && i <> 17 then None
      else Some (Printf.sprintf "C%02d" i, Printf.sprintf "c%02d_ok" i, "")) (M.failing t) in
  (* of C09 only the clause about failing blocks speaks about a halted chain *)
  if halted && not (M.c09_live t) then ("C09", "c09_live", "") :: l else l

let status_in (s : M.state) id = match M.find_auction s id with Some a -> Some a.M.a_status | None -> None

(* tags describing what a step exercised, for the coverage figures in the evidence *)
let nontrivial ~pre ~op ~iclass ~xfers ~trace ~post ~fault : string list =
  let tags = ref [] in
  let add t = tags := t :: !tags in
  let t = mk ~pre ~op ~iclass ~xfers ~trace ~post ~gen:"" ~fault in
  List.iter (fun (a, a') ->
      let nb = List.length (M.bids_of pre a.M.a_id) in
      let prices = List.sort_uniq compare (List.map (fun b -> string_of_z b.M.b_price) (M.bids_of pre a.M.a_id)) in
      (match a.M.a_type with
       | M.Batch ->
           add "settle_batch";
           if nb >= 2 then add "settle_batch_2bids";
           if List.length prices >= 2 then add "settle_batch_2prices";
           if List.length prices >= 3 then add "settle_batch_3prices";
           if a'.M.a_matched_price = M.Z0 then add "settle_batch_nothing_sold" else add "settle_batch_sold";
           if List.length a.M.a_ends > 1 then add "settle_after_extension"
       | M.FixedPrice ->
           add "settle_fixed"; if nb >= 2 then add "settle_fixed_2bids"; if nb = 0 then add "settle_fixed_nobids");
      if a.M.a_scheds = [] then add "settle_no_schedule" else add "settle_with_schedule";
      if List.length a.M.a_scheds >= 2 then add "settle_multi_schedule") (M.settling t);
  List.iter (fun (a, a') ->
      if List.length a'.M.a_ends > List.length a.M.a_ends then add "extend";
      if a.M.a_status = M.StandBy && a'.M.a_status = M.Started then add "open";
      if a.M.a_status = M.VestingS && a'.M.a_status = M.Finished then add "finish_vesting") (M.paired t);
  if List.exists (fun x -> match x.M.x_from with M.Escrow (M.Vesting, _) -> true | _ -> false) xfers then add "release";
  if fault then add "fault_fired";
  if M.vetoed pre trace then add "veto";
  if trace <> [] then add "hook_called";
  if List.length pre.M.st_listeners >= 2 && trace <> [] then add "hook_multi_listener";
  (match op, iclass with
   | M.OTx (M.MCancel _), "ok" -> add "cancel_ok"
   | M.OTx (M.MCancel _), "rej" -> add "cancel_rej"
   | M.OTx (M.MPlaceBid (_, id, bt, _, _)), c ->
       let k = (match int_of_n bt with 1 -> "fixed" | 2 -> "worth" | 3 -> "many" | _ -> "badtype") in
       add ("bid_" ^ k ^ "_" ^ c);
       ignore id
   | M.OTx (M.MModifyBid _), c -> add ("mod_" ^ c)
   | M.OTx (M.MCreateFixed _), c -> add ("create_fixed_" ^ c)
   | M.OTx (M.MCreateBatch _), c -> add ("create_batch_" ^ c)
   | M.OTx (M.MAddAllowed _), c -> add ("addmsg_" ^ c)
   | M.OTx (M.MUpdateParams _), c -> add ("params_" ^ c)
   | M.OApiAdd _, c -> add ("apiadd_" ^ c)
   | M.OApiUpdate _, c -> add ("apiupd_" ^ c)
   | M.OGenesis, c -> add ("genesis_" ^ c); if pre.M.st_bids <> [] then add "genesis_with_bids";
       if List.exists (fun a -> a.M.a_type = M.Batch && a.M.a_status = M.Started && List.length a.M.a_ends > 1) pre.M.st_auctions then add "genesis_mid_extension"
   | M.OSend (_, M.Escrow _, _, _), "ok" -> add "donation"
   | (M.OBlock _ | M.OFaultBlock _), c -> add ("block_" ^ c)
   | _ -> ());
  if List.length (List.filter (fun a -> a.M.a_status = M.Started) pre.M.st_auctions) >= 2 then add "two_open_auctions";
  List.sort_uniq compare !tags
