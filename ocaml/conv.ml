(* conversions between text and the extracted Coq number types (zarith does the decimal work) *)
module BZ = Z
module M = Model

let rec pos_of_bz (x : BZ.t) : M.positive =
  if BZ.equal x BZ.one then M.XH
  else if BZ.is_even x then M.XO (pos_of_bz (BZ.shift_right x 1))
  else M.XI (pos_of_bz (BZ.shift_right x 1))
let z_of_bz (x : BZ.t) : M.z =
  match BZ.sign x with 0 -> M.Z0 | 1 -> M.Zpos (pos_of_bz x) | _ -> M.Zneg (pos_of_bz (BZ.neg x))
let n_of_bz (x : BZ.t) : M.n = if BZ.sign x = 0 then M.N0 else M.Npos (pos_of_bz x)
let rec bz_of_pos (p : M.positive) : BZ.t =
  match p with
  | M.XH -> BZ.one
  | M.XO q -> BZ.shift_left (bz_of_pos q) 1
  | M.XI q -> BZ.succ (BZ.shift_left (bz_of_pos q) 1)
let bz_of_z (x : M.z) : BZ.t =
  match x with M.Z0 -> BZ.zero | M.Zpos p -> bz_of_pos p | M.Zneg p -> BZ.neg (bz_of_pos p)
let bz_of_n (x : M.n) : BZ.t = match x with M.N0 -> BZ.zero | M.Npos p -> bz_of_pos p

let z_of_string s = z_of_bz (BZ.of_string s)
let n_of_string s = n_of_bz (BZ.of_string s)
let n_of_int i = n_of_bz (BZ.of_int i)
let z_of_int i = z_of_bz (BZ.of_int i)
let string_of_z x = BZ.to_string (bz_of_z x)
let string_of_n x = BZ.to_string (bz_of_n x)
let int_of_n x = BZ.to_int (bz_of_n x)
let rec nat_of_int i : M.nat = if i <= 0 then M.O else M.S (nat_of_int (i - 1))
let rec int_of_nat (n : M.nat) = match n with M.O -> 0 | M.S k -> 1 + int_of_nat k

(* optional values: "nil" *)
let optz_of_string s = if s = "nil" then None else Some (z_of_string s)
let optn_of_denom s = if s = "!" then None else Some (n_of_string s)
