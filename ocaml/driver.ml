(* Correspondence driver: replays every logged operation of the implementation on the extracted
   Coq model, one step at a time from the implementation's own pre-state, and compares the
   observable projections.  Also evaluates the extracted property checkers (Checkers.v) on the
   implementation's own transitions. *)
open Conv
module M = Model

let split s = List.filter (fun x -> x <> "") (String.split_on_char ' ' s)
let starts_with p s = String.length s >= String.length p && String.sub s 0 (String.length p) = p

(* ---------- names ---------- *)
let addr_of_name (s : string) : M.addr =
  if s = "pool" then M.Pool
  else if starts_with "es" s then M.Escrow (M.Selling, n_of_string (String.sub s 2 (String.length s - 2)))
  else if starts_with "ep" s then M.Escrow (M.Paying, n_of_string (String.sub s 2 (String.length s - 2)))
  else if starts_with "ev" s then M.Escrow (M.Vesting, n_of_string (String.sub s 2 (String.length s - 2)))
  else if starts_with "u" s then M.User (n_of_string (String.sub s 1 (String.length s - 1)))
  else failwith ("addr name " ^ s)
let name_of_addr (a : M.addr) : string =
  match a with
  | M.Pool -> "pool"
  | M.User u -> "u" ^ string_of_n u
  | M.Escrow (M.Selling, i) -> "es" ^ string_of_n i
  | M.Escrow (M.Paying, i) -> "ep" ^ string_of_n i
  | M.Escrow (M.Vesting, i) -> "ev" ^ string_of_n i

let status_of_int = function 1 -> M.StandBy | 2 -> M.Started | 3 -> M.VestingS | 4 -> M.Finished | 5 -> M.Cancelled
  | _ -> M.StandBy
let int_of_status = function M.StandBy -> 1 | M.Started -> 2 | M.VestingS -> 3 | M.Finished -> 4 | M.Cancelled -> 5
let atype_of_int = function 1 -> M.FixedPrice | _ -> M.Batch
let int_of_atype = function M.FixedPrice -> 1 | M.Batch -> 2
let btype_of_int = function 1 -> M.BFixed | 2 -> M.BWorth | _ -> M.BMany
let int_of_btype = function M.BFixed -> 1 | M.BWorth -> 2 | M.BMany -> 3
let user_n s = let i = int_of_string s in if i < 0 then n_of_int 999 else n_of_int i

(* ---------- state <-> ST lines ---------- *)
let parse_coins s : (M.n * M.z) list =
  if s = "-" then [] else
  List.map (fun c -> match String.split_on_char ':' c with
    | [d; a] -> (n_of_string d, z_of_string a) | _ -> failwith "coin") (String.split_on_char ',' s)
let print_coins (l : (M.n * M.z) list) =
  if l = [] then "-" else String.concat "," (List.map (fun (d, a) -> string_of_n d ^ ":" ^ string_of_z a) l)

let rec take n l = if n = 0 then [] else match l with x :: r -> x :: take (n - 1) r | [] -> failwith "take"
let rec drop n l = if n = 0 then l else match l with _ :: r -> drop (n - 1) r | [] -> failwith "drop"

let parse_auction (t : string list) : M.auction =
  (* id type upper u resok price selld sellamt payd nsched (t w)* start nends e* status rem minp mp maxr rate *)
  match t with
  | id :: ty :: up :: u :: _resok :: price :: sd :: sa :: pd :: ns :: rest ->
      let ns = int_of_string ns in
      let sch = take (2 * ns) rest in
      let rest = drop (2 * ns) rest in
      let rec mk = function a :: b :: r -> { M.s_time = z_of_string a; M.s_weight = z_of_string b } :: mk r | _ -> [] in
      (match rest with
       | start :: ne :: rest ->
           let ne = int_of_string ne in
           let ends = List.map z_of_string (take ne rest) in
           (match drop ne rest with
            | [st; rem; minp; mp; maxr; rate] ->
                { M.a_id = n_of_string id; a_type = atype_of_int (int_of_string ty);
                  a_auctioneer = user_n u; a_upper = (up = "1");
                  a_start_price = z_of_string price; a_sell_denom = user_n sd; a_sell_amt = z_of_string sa;
                  a_pay_denom = user_n pd; a_scheds = mk sch; a_start = z_of_string start; a_ends = ends;
                  a_status = status_of_int (int_of_string st); a_remaining = z_of_string rem;
                  a_min_price = z_of_string minp; a_matched_price = z_of_string mp;
                  a_max_round = n_of_string maxr; a_rate = z_of_string rate }
            | _ -> failwith "auction tail")
       | _ -> failwith "auction mid")
  | _ -> failwith "auction head"

let print_auction (a : M.auction) : string =
  let sch = String.concat "" (List.map (fun s -> " " ^ string_of_z s.M.s_time ^ " " ^ string_of_z s.M.s_weight) a.M.a_scheds) in
  let ends = String.concat "" (List.map (fun e -> " " ^ string_of_z e) a.M.a_ends) in
  Printf.sprintf "ST A %s %d %d %s 1 %s %s %s %s %d%s %s %d%s %d %s %s %s %s %s"
    (string_of_n a.M.a_id) (int_of_atype a.M.a_type) (if a.M.a_upper then 1 else 0) (string_of_n a.M.a_auctioneer)
    (string_of_z a.M.a_start_price) (string_of_n a.M.a_sell_denom) (string_of_z a.M.a_sell_amt)
    (string_of_n a.M.a_pay_denom) (List.length a.M.a_scheds) sch (string_of_z a.M.a_start)
    (List.length a.M.a_ends) ends (int_of_status a.M.a_status) (string_of_z a.M.a_remaining)
    (string_of_z a.M.a_min_price) (string_of_z a.M.a_matched_price) (string_of_n a.M.a_max_round) (string_of_z a.M.a_rate)

let parse_bid t : M.bid = match t with
  | [a; id; u; ty; price; d; amt; m; _ok] ->
      { M.b_auction = n_of_string a; b_id = n_of_string id; b_bidder = user_n u; b_type = btype_of_int (int_of_string ty);
        b_price = z_of_string price; b_denom = user_n d; b_amt = z_of_string amt; b_matched = (m = "1") }
  | _ -> failwith "bid"
let print_bid (b : M.bid) =
  Printf.sprintf "ST B %s %s %s %d %s %s %s %d 1" (string_of_n b.M.b_auction) (string_of_n b.M.b_id) (string_of_n b.M.b_bidder)
    (int_of_btype b.M.b_type) (string_of_z b.M.b_price) (string_of_n b.M.b_denom) (string_of_z b.M.b_amt) (if b.M.b_matched then 1 else 0)
let parse_allowed t : M.allowed = match t with
  | [a; u; max; _ok] -> { M.al_auction = n_of_string a; al_bidder = user_n u; al_max = z_of_string max }
  | _ -> failwith "allowed"
let print_allowed (x : M.allowed) =
  Printf.sprintf "ST L %s %s %s 1" (string_of_n x.M.al_auction) (string_of_n x.M.al_bidder) (string_of_z x.M.al_max)
let parse_vq t : M.vq = match t with
  | [a; tm; u; d; amt; r; _ok] ->
      { M.v_auction = n_of_string a; v_time = z_of_string tm; v_auctioneer = user_n u; v_denom = user_n d;
        v_amt = z_of_string amt; v_released = (r = "1") }
  | _ -> failwith "vq"
let print_vq (v : M.vq) =
  Printf.sprintf "ST V %s %s %s %s %s %d 1" (string_of_n v.M.v_auction) (string_of_z v.M.v_time) (string_of_n v.M.v_auctioneer)
    (string_of_n v.M.v_denom) (string_of_z v.M.v_amt) (if v.M.v_released then 1 else 0)

let n_users = 6
let n_denoms = 5

let build_state ~(switch : bool) ~(listeners : M.n list list) (lines : string list) : M.state =
  let params = ref { M.p_cfee = []; p_bfee = []; p_period = M.Z0 } in
  let aus = ref [] and bids = ref [] and als = ref [] and vqs = ref [] in
  let aseq = ref M.N0 and now = ref M.Z0 in
  let bseq = Hashtbl.create 8 and mlen = Hashtbl.create 8 and bal = Hashtbl.create 64 in
  List.iter (fun l ->
    match split l with
    | "ST" :: "P" :: [c; b; p] -> params := { M.p_cfee = parse_coins c; p_bfee = parse_coins b; p_period = z_of_string p }
    | "ST" :: "Q" :: [q] -> aseq := n_of_string q
    | "ST" :: "A" :: t -> aus := parse_auction t :: !aus
    | "ST" :: "B" :: t -> bids := parse_bid t :: !bids
    | "ST" :: "L" :: t -> als := parse_allowed t :: !als
    | "ST" :: "V" :: t -> vqs := parse_vq t :: !vqs
    | "ST" :: "S" :: [a; v] -> Hashtbl.replace bseq (int_of_string a) (n_of_string v)
    | "ST" :: "M" :: [a; v] -> Hashtbl.replace mlen (int_of_string a) (z_of_string v)
    | "ST" :: "BAL" :: [a; d; v] -> Hashtbl.replace bal (a, int_of_string d) (z_of_string v)
    | "ST" :: "NOW" :: [t] -> now := z_of_string t
    | _ -> failwith ("state line: " ^ l)) lines;
  { M.st_params = !params; st_auctions = List.rev !aus; st_bids = List.rev !bids; st_allowed = List.rev !als;
    st_vqs = List.rev !vqs; st_aseq = !aseq;
    st_bseq = (fun a -> try Hashtbl.find bseq (int_of_n a) with Not_found -> M.N0);
    st_mlen = (fun a -> try Hashtbl.find mlen (int_of_n a) with Not_found -> M.Z0);
    st_bal = (fun a d -> try Hashtbl.find bal (name_of_addr a, int_of_n d) with Not_found -> M.Z0);
    st_now = !now; st_listeners = listeners; st_switch = switch; st_xfers = []; st_trace = [] }

let cmp_bid (x : M.bid) (y : M.bid) = compare (int_of_n x.M.b_auction, int_of_n x.M.b_id) (int_of_n y.M.b_auction, int_of_n y.M.b_id)

let dump_state (s : M.state) : string list =
  let out = ref [] in
  let add l = out := l :: !out in
  let p = s.M.st_params in
  add (Printf.sprintf "ST P %s %s %s" (print_coins p.M.p_cfee) (print_coins p.M.p_bfee) (string_of_z p.M.p_period));
  add ("ST Q " ^ string_of_n s.M.st_aseq);
  List.iter (fun a -> add (print_auction a)) s.M.st_auctions;
  List.iter (fun b -> add (print_bid b)) s.M.st_bids;
  List.iter (fun x -> add (print_allowed x)) s.M.st_allowed;
  List.iter (fun v -> add (print_vq v)) s.M.st_vqs;
  let na = int_of_n s.M.st_aseq in
  for a = 0 to na + 2 do
    let v = s.M.st_bseq (n_of_int a) in
    if v <> M.N0 then add (Printf.sprintf "ST S %d %s" a (string_of_n v));
    let m = s.M.st_mlen (n_of_int a) in
    if m <> M.Z0 then add (Printf.sprintf "ST M %d %s" a (string_of_z m))
  done;
  let bal name =
    for d = 0 to n_denoms - 1 do
      let v = s.M.st_bal (addr_of_name name) (n_of_int d) in
      if v <> M.Z0 then add (Printf.sprintf "ST BAL %s %d %s" name d (string_of_z v))
    done in
  for u = 0 to n_users - 1 do bal (Printf.sprintf "u%d" u) done;
  bal "pool";
  for a = 0 to na + 1 do
    bal (Printf.sprintf "es%d" a); bal (Printf.sprintf "ep%d" a); bal (Printf.sprintf "ev%d" a)
  done;
  add ("ST NOW " ^ string_of_z s.M.st_now);
  List.rev !out

(* ---------- operations ---------- *)
let who_of s : M.addr_str =
  if s = "bad" then M.ABad
  else if s = "gov" then M.AGood (false, n_of_int 900)   (* the module authority: a well-formed address of an account that is none of the users *)
  else if s.[0] = 'u' then M.AGood (false, n_of_string (String.sub s 1 (String.length s - 1)))
  else if s.[0] = 'U' then M.AGood (true, n_of_string (String.sub s 1 (String.length s - 1)))
  else failwith ("who " ^ s)
let mcoin_of s : M.mcoin = match String.split_on_char ':' s with
  | [d; a] -> { M.mc_denom = optn_of_denom d; mc_amt = optz_of_string a } | _ -> failwith "mcoin"
let mcoins_of s = if s = "-" then [] else List.map mcoin_of (String.split_on_char ',' s)
let mscheds_of s : M.msched list =
  if s = "-" then [] else
  List.map (fun x -> match String.split_on_char '@' x with
    | [t; w] -> { M.ms_time = z_of_string t; ms_weight = optz_of_string w } | _ -> failwith "sched") (String.split_on_char ';' s)

let parse_kv (toks : string list) : (string * string) list =
  List.map (fun p -> let i = String.index p '=' in (String.sub p 0 i, String.sub p (i + 1) (String.length p - i - 1))) toks

let parse_op (line : string) (orc : (M.n * M.n list) list) : M.op =
  match split line with
  | "OP" :: kind :: rest ->
      let kv = parse_kv rest in
      let f k = try List.assoc k kv with Not_found -> failwith ("field " ^ k ^ " in " ^ line) in
      (match kind with
       | "CFA" -> M.OTx (M.MCreateFixed (who_of (f "who"), optz_of_string (f "price"), mcoin_of (f "sell"), optn_of_denom (f "pay"),
                                         mscheds_of (f "vs"), z_of_string (f "start"), z_of_string (f "end")))
       | "CBA" -> M.OTx (M.MCreateBatch (who_of (f "who"), optz_of_string (f "price"), optz_of_string (f "minp"), mcoin_of (f "sell"),
                                         optn_of_denom (f "pay"), mscheds_of (f "vs"), n_of_string (f "maxr"), optz_of_string (f "rate"),
                                         z_of_string (f "start"), z_of_string (f "end")))
       | "CAN" -> M.OTx (M.MCancel (who_of (f "who"), n_of_string (f "a")))
       | "BID" -> M.OTx (M.MPlaceBid (who_of (f "who"), n_of_string (f "a"), n_of_string (f "bt"), optz_of_string (f "price"), mcoin_of (f "coin")))
       | "MOD" -> M.OTx (M.MModifyBid (who_of (f "who"), n_of_string (f "a"), n_of_string (f "b"), optz_of_string (f "price"), mcoin_of (f "coin")))
       | "ADDMSG" -> M.OTx (M.MAddAllowed (n_of_string (f "a"), n_of_string (f "ea"), who_of (f "who"), optz_of_string (f "max")))
       | "PARAMS" ->
           let auth = if f "auth" = "gov" then M.AuthGov else M.AuthOther (who_of (f "auth")) in
           M.OTx (M.MUpdateParams (auth, mcoins_of (f "cfee"), mcoins_of (f "bfee"), z_of_string (f "period")))
       | "APIADD" ->
           let l = if f "l" = "-" then [] else
             List.map (fun x -> match String.split_on_char '/' x with
               | [ea; w; m] -> ((n_of_string ea, who_of w), optz_of_string m) | _ -> failwith "entry") (String.split_on_char ';' (f "l")) in
           M.OApiAdd (n_of_string (f "a"), l)
       | "APIUPD" -> M.OApiUpdate (n_of_string (f "a"), n_of_string (f "u"), optz_of_string (f "max"))
       | "BLOCK" -> M.OBlock (z_of_string (f "t"), orc)
       | "FBLOCK" -> M.OFaultBlock (z_of_string (f "t"), orc, nat_of_int (int_of_string (f "k")))
       | "SEND" -> M.OSend (n_of_string (f "from"), addr_of_name (f "to"), n_of_string (f "d"), z_of_string (f "amt"))
       | "LISTEN" ->
           let l = if f "l" = "none" then [] else
             List.map (fun x -> if x = "-" then [] else List.map n_of_string (String.split_on_char ',' x)) (String.split_on_char ';' (f "l")) in
           M.OSetListeners l
       | "GENESIS" -> M.OGenesis
       | _ -> failwith ("op kind " ^ kind))
  | _ -> failwith ("op line " ^ line)

let parse_orc (line : string) : M.n * M.n list =
  match split line with
  | ["ORC"; a; ids] ->
      let a = String.sub a 2 (String.length a - 2) and ids = String.sub ids 4 (String.length ids - 4) in
      (n_of_string a, if ids = "-" then [] else List.map n_of_string (String.split_on_char ',' ids))
  | _ -> failwith "orc"

let class_of_outcome (o : M.outcome) : string =
  match o with
  | M.Accepted -> "ok" | M.Rejected _ -> "rej" | M.BlockOk -> "blockok"
  | M.BlockErr c -> if int_of_n c = 17 then "panic" else "blockerr"
  | M.GenOk _ -> "genok" | M.GenFail -> "generr" | M.Done -> "done"
let code_of_outcome (o : M.outcome) : int =
  match o with M.Rejected c | M.BlockErr c -> int_of_n c | _ -> 0

let print_xfer (x : M.xfer) =
  Printf.sprintf "X %s %s %s %s" (name_of_addr x.M.x_from) (name_of_addr x.M.x_to) (string_of_n x.M.x_denom) (string_of_z x.M.x_amt)
let print_hook (h : M.hookcall) =
  String.concat " " ("H" :: string_of_n h.M.h_listener :: string_of_n h.M.h_kind :: List.map string_of_z h.M.h_args)
let norm_ws s = String.concat " " (split s)

(* ---------- comparison ---------- *)
let key_of_line l =
  match split l with
  | "ST" :: "A" :: id :: _ -> "A " ^ id
  | "ST" :: "B" :: a :: id :: _ -> "B " ^ a ^ " " ^ id
  | "ST" :: "L" :: a :: u :: _ -> "L " ^ a ^ " " ^ u
  | "ST" :: "V" :: a :: t :: _ -> "V " ^ a ^ " " ^ t
  | "ST" :: "S" :: a :: _ -> "S " ^ a
  | "ST" :: "M" :: a :: _ -> "M " ^ a
  | "ST" :: "BAL" :: a :: d :: _ -> "BAL " ^ a ^ " " ^ d
  | "ST" :: k :: _ -> k
  | _ -> l

(* finer projection names for auction records *)
let auction_proj (ml : string) (il : string) : string =
  try
    let tl l = match split l with "ST" :: "A" :: t -> t | _ -> failwith "" in
    let m = parse_auction (tl ml) and i = parse_auction (tl il) in
    let terms (a : M.auction) = { a with M.a_status = M.StandBy; a_ends = [List.hd a.M.a_ends]; a_remaining = M.Z0; a_matched_price = M.Z0 } in
    let ps = ref [] in
    if terms m <> terms i || (split ml |> fun t -> List.nth t 6) <> (split il |> fun t -> List.nth t 6) then ps := "auction.terms" :: !ps;
    if m.M.a_status <> i.M.a_status then ps := "auction.status" :: !ps;
    if m.M.a_ends <> i.M.a_ends then ps := "auction.end_times" :: !ps;
    if m.M.a_remaining <> i.M.a_remaining then ps := "auction.remaining" :: !ps;
    if m.M.a_matched_price <> i.M.a_matched_price then ps := "auction.matched_price" :: !ps;
    if !ps = [] then "auction.terms" else String.concat "+" !ps
  with _ -> "auction.terms"

let proj_of_key (k : string) (ml : string) (il : string) : string =
  match split k with
  | "A" :: _ -> if ml <> "" && il <> "" then auction_proj ml il else "auction.terms"
  | "B" :: _ ->
      (match split ml, split il with
       | mt, it when List.length mt = 11 && List.length it = 11 ->
           let strip t = List.filteri (fun idx _ -> idx <> 9) t in
           if strip mt = strip it then "bid.flag" else "bid.terms"
       | _ -> "bid.terms")
  | "L" :: _ -> "allowed"
  | "V" :: _ -> "vqueue"
  | "S" :: _ | "Q" :: _ -> "seq"
  | "M" :: _ -> "matched_len"
  | "BAL" :: a :: _ -> if a.[0] = 'e' then "bal.escrow" else if a = "pool" then "bal.pool" else "bal.user"
  | "P" :: _ -> "params"
  | "NOW" :: _ -> "now"
  | _ -> "other"

let diff_lines (model : string list) (impl : string list) : (string * string * string) list =
  (* returns (projection, model line, impl line) *)
  let tbl = Hashtbl.create 64 in
  List.iter (fun l -> Hashtbl.replace tbl (key_of_line l) (l, "")) model;
  List.iter (fun l ->
    let k = key_of_line l in
    match Hashtbl.find_opt tbl k with
    | Some (m, _) -> Hashtbl.replace tbl k (m, l)
    | None -> Hashtbl.replace tbl k ("", l)) impl;
  Hashtbl.fold (fun k (m, i) acc -> if norm_ws m = norm_ws i then acc else (proj_of_key k m i, m, i) :: acc) tbl []
  |> List.sort compare


(* ---------- queries ---------- *)
let status_opt s = if s = "-" then None else (try Some (status_of_int (int_of_string s)) with _ -> None)
let atype_opt s = if s = "-" then None else (try Some (atype_of_int (int_of_string s)) with _ -> None)
let lines_of_qres (r : M.qres) : string list option =
  let strip l = String.sub l 3 (String.length l - 3) in
  match r with
  | M.RNotFound -> None
  | M.RAuctions l -> Some (List.map (fun a -> strip (print_auction a)) l)
  | M.RBids l -> Some (List.map (fun b -> strip (print_bid b)) l)
  | M.RAllowed l -> Some (List.map (fun x -> strip (print_allowed x)) l)
  | M.RVqs l -> Some (List.map (fun v -> strip (print_vq v)) l)
  | M.RParams p -> Some [Printf.sprintf "P %s %s %s" (print_coins p.M.p_cfee) (print_coins p.M.p_bfee) (string_of_z p.M.p_period)]

(* returns None when the implementation's answer is what the specification of the query says; otherwise
   a structured identity of the disagreement, and both answers *)
let check_query (pre : M.state) (op_line : string) (iclass : string) (qr : string list) : (string * string * string) option =
  match split op_line with
  | "OP" :: "QUERY" :: rest ->
      let kv = parse_kv rest in
      let f k = List.assoc k kv in
      let who s = match who_of s with M.AGood (_, u) -> u | M.ABad -> n_of_int 999 in
      let name, q, unfiltered = match f "q" with
        | "geta" -> "GetAuction", M.QGetAuction (n_of_string (f "a")), None
        | "lista" -> "ListAuction", M.QListAuction (status_opt (f "st"), atype_opt (f "ty")), None
        | "getb" -> "GetBid", M.QGetBid (n_of_string (f "a"), n_of_string (f "b")), None
        | "listb" -> "ListBid", M.QListBid (n_of_string (f "a"), (if f "u" = "-" then None else Some (who (f "u"))),
                                            (if f "m" = "-" then None else Some (f "m" = "1"))), None
        | "getl" -> "GetAllowedBidder", M.QGetAllowed (n_of_string (f "a"), n_of_string (f "u")), None
        | "listl" -> "ListAllowedBidder", M.QListAllowed (n_of_string (f "a")),
                     Some (List.map (fun x -> let l = print_allowed x in String.sub l 3 (String.length l - 3))
                             (List.sort (fun (x : M.allowed) y -> compare (int_of_n x.M.al_auction, int_of_n x.M.al_bidder) (int_of_n y.M.al_auction, int_of_n y.M.al_bidder)) pre.M.st_allowed))
        | "listv" -> "ListVestingQueue", M.QListVesting (n_of_string (f "a")),
                     Some (List.map (fun v -> let l = print_vq v in String.sub l 3 (String.length l - 3)) pre.M.st_vqs)
        | "params" -> "Params", M.QParams, None
        | x -> failwith ("query " ^ x) in
      let impl = List.map (fun l -> norm_ws (String.sub l 3 (String.length l - 3))) qr in
      (* ListAuction refuses a filter that is not the name of one of the five statuses / two types
         (the unspecified value 0 included); the model's query takes typed filters, so that is decided here *)
      let bad_filter = f "q" = "lista" &&
        ((f "st" <> "-" && (let n = int_of_string (f "st") in n < 1 || n > 5)) ||
         (f "ty" <> "-" && (let n = int_of_string (f "ty") in n < 1 || n > 2))) in
      let model = if bad_filter then None else lines_of_qres (M.run_query pre q) in
      let show = function None -> "notfound" | Some l -> String.concat " | " l in
      (* allow-list entries are stored by address bytes: compare as sets *)
      let canon l = if name = "ListAllowedBidder" then List.sort compare l else l in
      (match model, iclass with
       | None, "qerr" -> None
       | Some m, "qok" when canon (List.map norm_ws m) = canon impl -> None
       | _ ->
           let key =
             match unfiltered with
             | Some all when iclass = "qok" && List.sort compare (List.map norm_ws all) = List.sort compare impl ->
                 Printf.sprintf "query=%s ignored=auction_id" name
             | _ -> Printf.sprintf "query=%s wrong-answer" name in
           Some (key, show model, (if iclass = "qerr" then "error" else String.concat " | " impl)))
  | _ -> None
