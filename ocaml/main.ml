open Conv
open Driver
module M = Model

let counters : (string, int) Hashtbl.t = Hashtbl.create 64
let bump k = Hashtbl.replace counters k (1 + (try Hashtbl.find counters k with Not_found -> 0))
let bumpn k n = Hashtbl.replace counters k (n + (try Hashtbl.find counters k with Not_found -> 0))

let parse_xfer l : M.xfer = match split l with
  | ["X"; f; t; d; a] -> { M.x_from = addr_of_name f; x_to = addr_of_name t; x_denom = n_of_string d; x_amt = z_of_string a }
  | _ -> failwith ("xfer " ^ l)
let parse_hook l : M.hookcall = match split l with
  | "H" :: li :: k :: args -> { M.h_listener = n_of_string li; h_kind = n_of_string k; h_args = List.map z_of_string args }
  | _ -> failwith ("hook " ^ l)

let opkind line = match split line with _ :: k :: _ -> k | _ -> "?"

let () =
  let file = Sys.argv.(1) in
  let ic = open_in file in
  let hist = ref "" and switch = ref false and listeners = ref [] in
  let hist_meta = ref "" in
  let step_no = ref 0 in
  let pre_lines = ref [] and cur_st = ref [] in
  let cur_op = ref None and orc = ref [] and res = ref ("", "") and xs = ref [] and hs = ref [] and gen = ref "" and fault = ref false and qr = ref [] and indep = ref "" and qpage = ref "" and order = ref "" and minv = ref "" and hookchk = ref [] in
  let mismatches = ref 0 and checkfails = ref 0 in
  let report_mismatch proj m i =
    incr mismatches;
    Printf.printf "MISMATCH hist=%s step=%d proj=%s op=[%s] model=[%s] impl=[%s] %s\n" !hist !step_no proj
      (match !cur_op with Some o -> o | None -> "") m i !hist_meta in
  let process () =
    match !cur_op with
    | None -> ()
    | Some op_line ->
        let kind = opkind op_line in
        let iclass, idetail = !res in
        bump ("op." ^ kind ^ "." ^ iclass);
        bump "steps";
        if kind = "FUND" || kind = "LOCK" then () else
        if kind = "QUERY" then begin
          (try
            let pre = build_state ~switch:!switch ~listeners:!listeners !pre_lines in
            let verdict = Driver.check_query pre op_line iclass (List.rev !qr) in
            bump "queries";
            (match verdict with
             | None -> ()
             | Some (key, m, i) ->
                 incr checkfails;
                 Printf.printf "CHECK hist=%s step=%d prop=C16 checker=query op=[%s] detail=[%s model=(%s) impl=(%s)] %s\n" !hist !step_no op_line key m i !hist_meta);
            if !qpage <> "" then begin
              bump "paged_listings";
              if starts_with "QPAGE same=0" !qpage then begin
                incr checkfails;
                Printf.printf "CHECK hist=%s step=%d prop=C16 checker=query_pagination op=[%s] detail=[paging through the listing does not give the unpaginated answer or the reported total is wrong: %s] %s\n" !hist !step_no op_line !qpage !hist_meta
              end
            end;
            Printf.printf "TAGS hist=%s step=%d query\n" !hist !step_no;
            (* a query must not change anything *)
            if List.sort compare !pre_lines <> List.sort compare (List.rev !cur_st) then
              report_mismatch "query" "state unchanged" "state changed by a query"
          with e -> report_mismatch "driver" (Printexc.to_string e) "")
        end else
        (try
          let pre = build_state ~switch:!switch ~listeners:!listeners !pre_lines in
          let op = parse_op op_line (List.rev !orc) in
          let out, post = M.step pre op in
          listeners := post.M.st_listeners;
          let mclass = class_of_outcome out in
          let post_lines = List.rev !cur_st in
          let ixs = List.rev !xs and ihs = List.rev !hs in
          if mclass <> iclass then
            report_mismatch "result" (Printf.sprintf "%s code=%d" mclass (code_of_outcome out)) (iclass ^ " " ^ idetail)
          else begin
            bump "steps_compared";
            (match out with
             | M.GenOk v -> if (if v then "1" else "0") <> !gen then report_mismatch "genesis" (if v then "validate=1" else "validate=0") ("validate=" ^ !gen ^ " " ^ idetail)
             | _ -> ());
            if iclass <> "blockerr" && iclass <> "panic" && iclass <> "generr" then begin
              List.iter (fun (p, m, i) -> report_mismatch p m i) (diff_lines (dump_state post) post_lines);
              let mxs = List.map print_xfer post.M.st_xfers in
              (* the same transfers in another order within one operation: no property constrains the order relative
                 to the model (reproducibility of the order is C14's repeated-execution check, hook-before-transfer is
                 the ORDER check), so this is recorded under a projection of its own that is in no footprint *)
              if mxs <> List.map norm_ws ixs then
                report_mismatch (if List.sort compare mxs = List.sort compare (List.map norm_ws ixs) then "transfer_order" else "transfers")
                  (String.concat "; " mxs) (String.concat "; " ixs);
              bumpn "transfers" (List.length ixs)
            end
          end;
          if kind <> "FBLOCK" then begin
            let mhs = List.map print_hook post.M.st_trace in
            if mhs <> List.map norm_ws ihs then
              report_mismatch "hooks" (String.concat "; " mhs) (String.concat "; " ihs);
            bumpn "hookcalls" (List.length ihs)
          end;
          (* property checkers on the implementation's own transition *)
          (if iclass <> "generr" then
            let post_impl = build_state ~switch:!switch ~listeners:post.M.st_listeners post_lines in
            let pxs = List.map parse_xfer ixs and phs = List.map parse_hook ihs in
            let fails = Checks.run ~pre ~op ~iclass ~xfers:pxs ~trace:phs ~post:post_impl ~gen:!gen ~fault:!fault in
            List.iter (fun (prop, checker, detail) ->
              incr checkfails;
              Printf.printf "CHECK hist=%s step=%d prop=%s checker=%s op=[%s] detail=[%s] %s\n" !hist !step_no prop checker op_line (detail ^ " res=" ^ iclass ^ " " ^ idetail) !hist_meta) fails;
            (* C19 independence probe of the harness: the same message on a fork without the signer's items in the
               other auctions must get the same verdict *)
            if !indep <> "" then begin
              bump "indep_probes";
              if starts_with "INDEP same=0" !indep then begin
                incr checkfails;
                Printf.printf "CHECK hist=%s step=%d prop=C19 checker=independence op=[%s] detail=[the verdict changes when the signer's bids and allow-list entries in the other auctions are deleted: real=%s %s] %s\n" !hist !step_no op_line iclass !indep !hist_meta
              end
            end;
            (* C17: the allocation hook of auction A is offered before any coin leaves A's selling or paying escrow
               in this operation ("before the change it announces is committed") *)
            if !order <> "" then begin
              let toks = List.tl (split !order) in
              let rec scan seen = function
                | [] -> None
                | tk :: rest ->
                    if starts_with "H9:" tk then begin
                      let a = String.sub tk 3 (String.length tk - 3) in
                      if List.mem ("X:es" ^ a) seen || List.mem ("X:ep" ^ a) seen then Some a else scan (tk :: seen) rest
                    end else scan (tk :: seen) rest in
              bump "order_lines";
              match scan [] toks with
              | Some a ->
                  incr checkfails;
                  Printf.printf "CHECK hist=%s step=%d prop=C17 checker=hook_before_transfers op=[%s] detail=[BeforeSellingCoinsAllocated of auction %s was called after coins had already left its escrow: %s] %s\n" !hist !step_no op_line a !order !hist_meta
              | None -> ()
            end;
            (* C17: a listener that reads the store while it is told that an auction is about to be created must not
               find the auction there already (and must find it when told it has been created) *)
            List.iter (fun l ->
              incr checkfails;
              Printf.printf "CHECK hist=%s step=%d prop=C17 checker=before_means_before op=[%s] detail=[a listener looked into the store during a creation hook: %s] %s\n" !hist !step_no op_line l !hist_meta) (List.rev !hookchk);
            (* C01: the module's own invariants, as reported by the Go functions on this state and as the model's
               transcription (Checkers.selling_pool_b ...) evaluates on the same state *)
            if !minv <> "" then begin
              bump "module_invariant_runs";
              let b x = if x then "0" else "1" in
              let mine = Printf.sprintf "MINV s=%s p=%s v=%s" (b (M.selling_pool_b post_impl)) (b (M.paying_pool_b post_impl)) (b (M.vesting_pool_b post_impl)) in
              let theirs = (match split !minv with [a; s; p; v; _] -> String.concat " " [a; s; p; v] | _ -> !minv) in
              let all_consistent = (match split !minv with
                | [_; s; p; v; all] -> (all = "all=1") = (s = "s=1" || p = "p=1" || v = "v=1")
                | _ -> false) in
              if mine <> theirs || not all_consistent then
                report_mismatch "module_invariants" mine !minv;
              if theirs <> "MINV s=0 p=0 v=0" then begin
                incr checkfails;
                Printf.printf "CHECK hist=%s step=%d prop=C01 checker=module_invariants op=[%s] detail=[the module's own invariants report a broken escrow in a reachable state: %s] %s\n" !hist !step_no op_line !minv !hist_meta
              end
            end;
            let tags = Checks.nontrivial ~pre ~op ~iclass ~xfers:pxs ~trace:phs ~post:post_impl ~fault:!fault in
            let tags = if !indep <> "" then "indep_probe" :: tags else tags in
            List.iter (fun k -> bump ("nt." ^ k)) tags;
            Printf.printf "TAGS hist=%s step=%d %s\n" !hist !step_no (String.concat "," tags))
        with e ->
          report_mismatch "driver" (Printexc.to_string e) "")
  in
  (try
    while true do
      let l = input_line ic in
      if starts_with "ST " l then cur_st := l :: !cur_st
      else if starts_with "HIST" l then begin
        bump "histories";
        let kv = parse_kv (List.tl (split l)) in
        hist := List.assoc "id" kv; switch := (List.assoc "switch" kv = "1");
        hist_meta := Printf.sprintf "gen=%s seed=%s t0=%s" (List.assoc "gen" kv) (List.assoc "seed" kv) (try List.assoc "t0" kv with Not_found -> "");
        listeners := []; step_no := 0; cur_op := None; cur_st := []; pre_lines := [];
        (* the harness is a default build (no link flags) that links the application: the switch must be off *)
        if !switch && (try List.assoc "forced" kv <> "1" with Not_found -> true) then begin
          incr checkfails;
          Printf.printf "CHECK hist=%s step=0 prop=C10 checker=default_build_switch op=[] detail=[keeper.EnableAddAllowedBidder is true at run time in a binary built without the testing link flag] %s\n" !hist !hist_meta
        end
      end
      else if starts_with "OP " l then begin
        cur_op := Some l; orc := []; res := ("", ""); xs := []; hs := []; gen := ""; fault := false; qr := []; indep := ""; qpage := ""; order := ""; minv := ""; hookchk := []
      end
      else if starts_with "ORC " l then orc := parse_orc l :: !orc
      else if starts_with "RES " l then begin
        match split l with
        | _ :: c :: rest -> res := (c, String.concat " " rest)
        | _ -> ()
      end
      else if starts_with "X " l then xs := l :: !xs
      else if starts_with "H " l then hs := l :: !hs
      else if starts_with "GEN " l then gen := String.sub l 13 1
      else if starts_with "FAULT " l then fault := true
      else if starts_with "QR " l then qr := l :: !qr
      else if starts_with "INDEP " l then indep := l
      else if starts_with "QPAGE " l then qpage := l
      else if starts_with "ORDER " l then order := l
      else if starts_with "MINV " l then minv := l
      else if starts_with "HOOKCHECK " l then hookchk := l :: !hookchk
      else if l = "END" then begin
        process ();
        if !cur_op <> None then incr step_no;
        pre_lines := List.rev !cur_st; cur_st := []; cur_op := None
      end
      else ()
    done
  with End_of_file -> ());
  let items = Hashtbl.fold (fun k v acc -> Printf.sprintf "\"%s\": %d" k v :: acc) counters [] |> List.sort compare in
  Printf.printf "SUMMARY {\"mismatches\": %d, \"checkfails\": %d, %s}\n" !mismatches !checkfails (String.concat ", " items)
