(* Feasibility prototype referenced by DESIGN.md appendix B.  Not part of any check. *)
From Coq Require Import ZArith Lia List Bool Arith.
Import ListNotations.
Open Scope Z_scope.

Definition P : Z := 10^18.
Lemma P_pos : 0 < P. Proof. reflexivity. Qed.
Global Opaque P.

Record bid := { bidder : nat; is_worth : bool; price : Z; amt : Z }.

Definition qty (mp : Z) (b : bid) : Z :=
  if is_worth b then (amt b * P) / mp else amt b.

Definition upd (f : nat -> Z) (k : nat) (v : Z) : nat -> Z :=
  fun n => if Nat.eqb n k then v else f n.

(* the sequential sweep of types.Match over the bids it includes *)
Fixpoint sweep (mp S : Z) (bs : list bid) (rem : nat -> Z) (tot : Z) (alloc : nat -> Z)
  : option (Z * (nat -> Z)) :=
  match bs with
  | [] => Some (tot, alloc)
  | b :: bs' =>
      let m := Z.min (qty mp b) (rem (bidder b)) in
      if tot + m >? S then None
      else sweep mp S bs' (upd rem (bidder b) (rem (bidder b) - m)) (tot + m)
                 (upd alloc (bidder b) (alloc (bidder b) + m))
  end.

(* declarative side *)
Fixpoint asked (mp : Z) (n : nat) (bs : list bid) : Z :=
  match bs with
  | [] => 0
  | b :: bs' => (if Nat.eqb (bidder b) n then qty mp b else 0) + asked mp n bs'
  end.

Definition capped (mp : Z) (rem : nat -> Z) (bs : list bid) (n : nat) : Z :=
  Z.min (rem n) (asked mp n bs).

Fixpoint sumf (f : nat -> Z) (U : list nat) : Z :=
  match U with [] => 0 | n :: U' => f n + sumf f U' end.

Definition wf_bid (b : bid) := 0 < price b /\ 0 <= amt b.

Lemma qty_nonneg mp b : 0 < mp -> wf_bid b -> 0 <= qty mp b.
Proof.
  intros Hmp [_ Ha]. unfold qty. destruct (is_worth b); [|lia].
  apply Z.div_pos; [|lia]. pose proof P_pos. nia.
Qed.

Lemma asked_nonneg mp n bs : 0 < mp -> Forall wf_bid bs -> 0 <= asked mp n bs.
Proof.
  intros Hmp H. induction H as [|b bs Hb _ IH]; cbn [asked]; [lia|].
  pose proof (qty_nonneg mp b Hmp Hb). destruct (Nat.eqb _ _); lia.
Qed.

Lemma sumf_ext f g U : (forall n, In n U -> f n = g n) -> sumf f U = sumf g U.
Proof.
  induction U as [|a U IH]; cbn [sumf]; intros H; [reflexivity|].
  rewrite (H a) by (left; reflexivity). rewrite IH; [reflexivity|].
  intros n Hn. apply H. right. exact Hn.
Qed.

Lemma sumf_upd_notin f k v U : ~ In k U -> sumf (upd f k v) U = sumf f U.
Proof.
  intros Hk. apply sumf_ext. intros n Hn. unfold upd.
  destruct (Nat.eqb_spec n k) as [->|]; [contradiction|reflexivity].
Qed.

Lemma sumf_upd_in f k v U : NoDup U -> In k U -> sumf (upd f k v) U = sumf f U - f k + v.
Proof.
  induction 1 as [|a U Ha HU IH]; intros Hin; [destruct Hin|].
  cbn [sumf]. destruct Hin as [->|Hin].
  - rewrite sumf_upd_notin by exact Ha. unfold upd at 1. rewrite Nat.eqb_refl. lia.
  - rewrite IH by exact Hin. unfold upd at 1.
    destruct (Nat.eqb_spec a k) as [->|]; [contradiction|]. lia.
Qed.

(* the demand of everybody in U under remaining caps rem *)
Definition demand (mp : Z) (rem : nat -> Z) (bs : list bid) (U : list nat) : Z :=
  sumf (capped mp rem bs) U.

Lemma capped_step mp rem b bs n :
  0 < mp -> wf_bid b -> Forall wf_bid bs -> 0 <= rem (bidder b) ->
  let m := Z.min (qty mp b) (rem (bidder b)) in
  capped mp rem (b :: bs) n =
  (if Nat.eqb n (bidder b) then m else 0) +
  capped mp (upd rem (bidder b) (rem (bidder b) - m)) bs n.
Proof.
  intros Hmp Hb Hbs Hrem m. unfold capped, upd. cbn [asked].
  pose proof (qty_nonneg mp b Hmp Hb). pose proof (asked_nonneg mp n bs Hmp Hbs).
  rewrite (Nat.eqb_sym (bidder b) n).
  destruct (Nat.eqb_spec n (bidder b)) as [->|]; subst m; lia.
Qed.

Lemma demand_step mp rem b bs U :
  0 < mp -> wf_bid b -> Forall wf_bid bs -> 0 <= rem (bidder b) ->
  NoDup U -> In (bidder b) U ->
  let m := Z.min (qty mp b) (rem (bidder b)) in
  demand mp rem (b :: bs) U = m + demand mp (upd rem (bidder b) (rem (bidder b) - m)) bs U.
Proof.
  intros Hmp Hb Hbs Hrem HU Hin m. unfold demand.
  rewrite (sumf_ext _ (fun n => (if Nat.eqb n (bidder b) then m else 0) +
       capped mp (upd rem (bidder b) (rem (bidder b) - m)) bs n)).
  2:{ intros n _. apply capped_step; assumption. }
  clear Hrem Hb Hbs. generalize (capped mp (upd rem (bidder b) (rem (bidder b) - m)) bs) as g.
  intros g. induction HU as [|a U Ha HU IH]; [destruct Hin|].
  cbn [sumf]. destruct Hin as [->|Hin].
  - rewrite Nat.eqb_refl.
    rewrite (sumf_ext _ g U); [lia|].
    intros n Hn. destruct (Nat.eqb_spec n (bidder b)) as [->|]; [contradiction|lia].
  - destruct (Nat.eqb_spec a (bidder b)) as [->|]; [contradiction|].
    rewrite IH by exact Hin. lia.
Qed.

Definition rem_ok (rem : nat -> Z) := forall n, 0 <= rem n.

Lemma rem_ok_upd rem k m : rem_ok rem -> 0 <= m <= rem k -> rem_ok (upd rem k (rem k - m)).
Proof. intros H Hm n. unfold upd. destruct (Nat.eqb n k); [lia|apply H]. Qed.

Lemma demand_nonneg mp rem bs U : 0 < mp -> Forall wf_bid bs -> rem_ok rem -> 0 <= demand mp rem bs U.
Proof.
  intros Hmp Hbs Hr. unfold demand. induction U as [|a U IH]; cbn [sumf]; [lia|].
  unfold capped at 1. pose proof (Hr a). pose proof (asked_nonneg mp a bs Hmp Hbs). lia.
Qed.

(* Closed form: the sweep fails iff total demand exceeds what is left of the supply,
   and otherwise hands every bidder exactly his capped demand. *)
Theorem sweep_closed_form mp S U :
  0 < mp -> NoDup U ->
  forall bs rem tot alloc,
    Forall wf_bid bs -> rem_ok rem -> (forall b, In b bs -> In (bidder b) U) -> tot <= S ->
    match sweep mp S bs rem tot alloc with
    | None => tot + demand mp rem bs U > S
    | Some (tot', alloc') =>
        tot' = tot + demand mp rem bs U /\ tot' <= S /\
        forall n, alloc' n = alloc n + capped mp rem bs n
    end.
Proof.
  intros Hmp HU. induction bs as [|b bs IH]; intros rem tot alloc Hbs Hr HinU Htot.
  - cbn [sweep]. unfold demand, capped. cbn [asked].
    assert (E : sumf (fun n => Z.min (rem n) 0) U = 0).
    { clear -Hr. induction U as [|a U IH]; cbn [sumf]; [reflexivity|]. pose proof (Hr a). lia. }
    rewrite E. repeat split; try lia. intros n. pose proof (Hr n). lia.
  - inversion Hbs as [|? ? Hb Hbs']; subst.
    assert (HbU : In (bidder b) U) by (apply HinU; left; reflexivity).
    pose proof (qty_nonneg mp b Hmp Hb) as Hq. pose proof (Hr (bidder b)) as Hrb.
    cbn [sweep]. set (m := Z.min (qty mp b) (rem (bidder b))).
    assert (Hm : 0 <= m <= rem (bidder b)) by (subst m; lia).
    rewrite (demand_step mp rem b bs U Hmp Hb Hbs' Hrb HU HbU). fold m.
    pose proof (demand_nonneg mp (upd rem (bidder b) (rem (bidder b) - m)) bs U Hmp Hbs'
                  (rem_ok_upd rem (bidder b) m Hr Hm)) as Hd.
    destruct (Z.gtb_spec (tot + m) S) as [Hgt|Hle].
    + lia.
    + specialize (IH (upd rem (bidder b) (rem (bidder b) - m)) (tot + m)
                     (upd alloc (bidder b) (alloc (bidder b) + m)) Hbs'
                     (rem_ok_upd rem (bidder b) m Hr Hm)
                     (fun b' H' => HinU b' (or_intror H')) Hle).
      destruct (sweep mp S bs _ _ _) as [[tot' alloc']|].
      * destruct IH as (E1 & E2 & E3). repeat split; try lia.
        intros n. rewrite E3. rewrite (capped_step mp rem b bs n Hmp Hb Hbs' Hrb). fold m.
        unfold upd at 1. destruct (Nat.eqb_spec n (bidder b)) as [->|]; lia.
      * lia.
Qed.

(* demand is antitone in the match price *)
Lemma qty_antitone mp mp' b : 0 < mp <= mp' -> wf_bid b -> qty mp' b <= qty mp b.
Proof.
  intros Hmp [_ Ha]. unfold qty. destruct (is_worth b); [|lia].
  apply Z.div_le_compat_l; [|lia]. pose proof P_pos. nia.
Qed.

Definition included (mp : Z) (bs : list bid) := filter (fun b => mp <=? price b) bs.

Lemma asked_included_antitone mp mp' n bs :
  0 < mp <= mp' -> Forall wf_bid bs ->
  asked mp' n (included mp' bs) <= asked mp n (included mp bs).
Proof.
  intros Hmp H. induction H as [|b bs Hb _ IH]; cbn [included filter asked]; [lia|].
  fold (included mp' bs). fold (included mp bs).
  pose proof (qty_antitone mp mp' b Hmp Hb). pose proof (qty_nonneg mp b ltac:(lia) Hb).
  destruct (Z.leb_spec mp' (price b)); destruct (Z.leb_spec mp (price b)); cbn [asked];
    try lia; destruct (Nat.eqb _ _); lia.
Qed.

Theorem demand_antitone mp mp' rem bs U :
  0 < mp <= mp' -> Forall wf_bid bs ->
  demand mp' rem (included mp' bs) U <= demand mp rem (included mp bs) U.
Proof.
  intros Hmp Hbs. unfold demand. induction U as [|a U IH]; cbn [sumf]; [lia|].
  unfold capped at 1 3. pose proof (asked_included_antitone mp mp' a bs Hmp Hbs). lia.
Qed.

(* sort.Search *)
Fixpoint search (fuel : nat) (f : nat -> bool) (i j : nat) : nat :=
  match fuel with
  | O => i
  | Datatypes.S k =>
      if (i <? j)%nat then
        let h := ((i + j) / 2)%nat in
        if f h then search k f i h else search k f (Datatypes.S h) j
      else i
  end.

Theorem search_least f : 
  (forall a b, (a <= b)%nat -> f a = true -> f b = true) ->
  forall fuel i j, (j - i <= fuel)%nat -> (i <= j)%nat ->
    (forall k, (k < i)%nat -> f k = false) -> (forall k, (j <= k)%nat -> f k = true \/ True) ->
    let r := search fuel f i j in
    (i <= r <= j)%nat /\ (forall k, (k < r)%nat -> f k = false) /\ ((r < j)%nat -> f r = true).
Proof.
  intros Hmono. induction fuel as [|fuel IH]; intros i j Hf Hij Hlo _; cbn [search].
  - assert (i = j) by lia. subst. repeat split; try lia. exact Hlo.
  - destruct (Nat.ltb_spec i j) as [Hlt|Hge].
    + set (h := ((i + j) / 2)%nat).
      assert (Hh : (i <= h < j)%nat).
      { subst h. split; [apply Nat.div_le_lower_bound; lia | apply Nat.div_lt_upper_bound; lia]. }
      destruct (f h) eqn:Efh.
      * specialize (IH i h ltac:(lia) ltac:(lia) Hlo (fun _ _ => or_intror I)).
        cbn zeta in IH. destruct IH as (B & L & T). repeat split; try lia; [exact L|].
        intros Hr. destruct (Nat.eq_dec (search fuel f i h) h) as [E|NE]; [rewrite E; exact Efh|].
        apply T. lia.
      * assert (Hlo' : forall k, (k < Datatypes.S h)%nat -> f k = false).
        { intros k Hk. destruct (f k) eqn:Efk; [|reflexivity].
          rewrite (Hmono k h ltac:(lia) Efk) in Efh. discriminate. }
        specialize (IH (Datatypes.S h) j ltac:(lia) ltac:(lia) Hlo' (fun _ _ => or_intror I)).
        cbn zeta in IH. destruct IH as (B & L & T). repeat split; try lia; assumption.
    + assert (i = j) by lia. subst. repeat split; try lia. exact Hlo.
Qed.
Print Assumptions sweep_closed_form.
Print Assumptions demand_antitone.
Print Assumptions search_least.
