(* Feasibility prototype referenced by DESIGN.md appendix B.  Not part of any check. *)
From Coq Require Import ZArith Lia List.
Open Scope Z_scope.

Definition P : Z := 10^18.
Lemma P_pos : 0 < P. Proof. reflexivity. Qed.
Global Opaque P.

(* LegacyDec as an integer scaled by P *)
Definition dec_of_int (n : Z) : Z := n * P.
Definition truncate_int (d : Z) : Z := d / P.
Definition ceil (d : Z) : Z := if d mod P =? 0 then d else (d / P + 1) * P.
Definition quo_trunc (x y : Z) : Z := (x * (P * P) / y) / P.
Definition mul_int (d n : Z) : Z := d * n.

(* worth bid: quantity at price p (Match: NewDecFromInt(w).QuoTruncate(p).TruncateInt()),
   and what a matched amount m pays (p.MulInt(m).Ceil().TruncateInt()) *)
Definition qty_worth (w p : Z) : Z := truncate_int (quo_trunc (dec_of_int w) p).
Definition pay (p m : Z) : Z := truncate_int (ceil (mul_int p m)).

Lemma qty_worth_eq w p : 0 <= w -> 0 < p -> qty_worth w p = (w * P) / p.
Proof.
  intros Hw Hp. unfold qty_worth, truncate_int, quo_trunc, dec_of_int.
  pose proof P_pos.
  rewrite !Z.div_div by lia.
  replace (w * P * (P * P)) with ((w * P) * (P * P)) by ring.
  replace (p * P * P) with (p * (P * P)) by ring.
  rewrite Z.div_mul_cancel_r by nia. reflexivity.
Qed.

Lemma pay_bounds p m : 0 <= p -> 0 <= m -> p * m <= pay p m * P < p * m + P.
Proof.
  intros Hp Hm. unfold pay, truncate_int, ceil, mul_int. pose proof P_pos.
  assert (0 <= p * m) by nia.
  destruct (Z.eqb_spec ((p*m) mod P) 0) as [E|E].
  - pose proof (Z.div_mod (p*m) P ltac:(lia)). nia.
  - rewrite Z.div_mul by lia. pose proof (Z.div_mod (p*m) P ltac:(lia)).
    pose proof (Z.mod_pos_bound (p*m) P ltac:(lia)). nia.
Qed.

(* a winning worth bid never pays more than it reserved *)
Theorem worth_never_overpays w p : 0 <= w -> 0 < p -> pay p (qty_worth w p) <= w.
Proof.
  intros Hw Hp. rewrite qty_worth_eq by assumption.
  pose proof P_pos as HP.
  assert (Hq : 0 <= w * P / p) by (apply Z.div_pos; nia).
  pose proof (pay_bounds p (w * P / p) ltac:(lia) Hq) as [_ Hub].
  assert (p * (w * P / p) <= w * P) by (apply Z.mul_div_le; lia).
  nia.
Qed.
Print Assumptions worth_never_overpays.
