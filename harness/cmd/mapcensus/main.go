// mapcensus lists every `range` over a map-typed expression in the non-test files of the module's keeper, types,
// module and simulation packages, classifies what its body does, and writes the census as a Coq data file.
// Ranging over a Go map is the one place where the runtime chooses an order; a loop is order-insensitive when its
// body (a) only writes entries of maps indexed by the loop's own key ("keyed"), and/or (b) only collects into slices
// that are sorted afterwards in the same function ("collect_sorted"), calls nothing with an effect on the store,
// the bank or the listeners, and has no early exit.  Everything else is reported as "other" with the reason.
package main

import (
	"fmt"
	"go/ast"
	"go/printer"
	"go/token"
	"go/types"
	"os"
	"sort"
	"strings"

	"golang.org/x/tools/go/packages"
)

type loop struct {
	pkg, file, fn, expr string
	idx                 int
	shapes              map[string]bool
	reasons             []string // why the loop is not (only) of a safe shape
	impure              []string // calls with an effect
}

type classifier struct {
	info    *types.Info
	rs      *ast.RangeStmt
	fn      *ast.FuncDecl
	keyObj  types.Object
	l       *loop
	collect map[types.Object]string
}

func (c *classifier) other(why string) { c.l.reasons = append(c.l.reasons, why) }

func (c *classifier) inBody(o types.Object) bool {
	return o != nil && o.Pos() >= c.rs.Body.Pos() && o.Pos() <= c.rs.Body.End()
}

func exprString(e ast.Expr) string {
	var sb strings.Builder
	printer.Fprint(&sb, token.NewFileSet(), e)
	return sb.String()
}

func (c *classifier) lhs(e ast.Expr, st *ast.AssignStmt) {
	switch x := e.(type) {
	case *ast.Ident:
		if x.Name == "_" {
			return
		}
		o := c.info.ObjectOf(x)
		if c.inBody(o) {
			return
		}
		if st != nil && len(st.Rhs) == 1 {
			if call, ok := st.Rhs[0].(*ast.CallExpr); ok {
				if f, ok := call.Fun.(*ast.Ident); ok && f.Name == "append" && len(call.Args) > 0 {
					if a0, ok := call.Args[0].(*ast.Ident); ok && c.info.ObjectOf(a0) == o {
						c.collect[o] = x.Name
						return
					}
				}
			}
		}
		c.other("assigns the outer variable " + x.Name)
	case *ast.IndexExpr:
		bt := c.info.TypeOf(x.X)
		if bt != nil {
			if _, isMap := bt.Underlying().(*types.Map); isMap {
				if id, ok := x.Index.(*ast.Ident); ok && c.keyObj != nil && c.info.ObjectOf(id) == c.keyObj {
					c.l.shapes["keyed"] = true
					return
				}
				c.other("writes " + exprString(x) + ", not indexed by the loop key")
				return
			}
			if _, isSlice := bt.Underlying().(*types.Slice); isSlice {
				if id, ok := x.X.(*ast.Ident); ok {
					o := c.info.ObjectOf(id)
					if c.inBody(o) {
						return
					}
					c.collect[o] = id.Name
					return
				}
			}
		}
		c.other("writes " + exprString(x))
	default:
		c.other("assigns " + exprString(e))
	}
}

func (c *classifier) stmts(list []ast.Stmt) {
	for _, st := range list {
		switch s := st.(type) {
		case *ast.AssignStmt:
			for _, l := range s.Lhs {
				c.lhs(l, s)
			}
		case *ast.IncDecStmt:
			if id, ok := s.X.(*ast.Ident); ok {
				if b, ok := c.info.TypeOf(id).Underlying().(*types.Basic); ok && b.Info()&types.IsInteger != 0 {
					continue // a counter (used as the next free index of a collected slice)
				}
			}
			c.lhs(s.X, nil)
		case *ast.IfStmt:
			if s.Init != nil {
				c.stmts([]ast.Stmt{s.Init})
			}
			c.stmts(s.Body.List)
			if s.Else != nil {
				c.stmts([]ast.Stmt{s.Else})
			}
		case *ast.BlockStmt:
			c.stmts(s.List)
		case *ast.DeclStmt:
		case *ast.BranchStmt:
			if s.Tok != token.CONTINUE {
				c.other("early exit (" + s.Tok.String() + ")")
			}
		case *ast.ReturnStmt:
			c.other("early exit (return)")
		case *ast.ExprStmt:
			c.other("statement " + exprString(s.X))
		default:
			c.other(fmt.Sprintf("statement of kind %T", st))
		}
	}
}

// a call has an effect when it can reach the store, the bank, the listeners or anything else behind a context
func (c *classifier) impureCall(call *ast.CallExpr) (string, bool) {
	var id *ast.Ident
	switch f := call.Fun.(type) {
	case *ast.Ident:
		id = f
	case *ast.SelectorExpr:
		id = f.Sel
	default:
		return exprString(call.Fun), true // a computed function value
	}
	o := c.info.Uses[id]
	switch fo := o.(type) {
	case *types.Builtin, *types.TypeName, nil:
		return "", false
	case *types.Var:
		return id.Name, true // a closure or a function-typed field
	case *types.Func:
		sig := fo.Type().(*types.Signature)
		if sig.Params().Len() > 0 {
			pt := sig.Params().At(0).Type().String()
			if strings.HasSuffix(pt, "context.Context") || strings.HasSuffix(pt, "types.Context") {
				return id.Name, true
			}
		}
		if r := sig.Recv(); r != nil {
			rt := r.Type().String()
			if strings.Contains(rt, "/x/fundraising/keeper.") || strings.Contains(rt, "collections.") ||
				(strings.Contains(rt, "/x/fundraising/types.") && (strings.HasSuffix(rt, "Keeper") || strings.HasSuffix(rt, "Hooks"))) {
				return id.Name, true
			}
		}
	}
	return "", false
}

func (c *classifier) sortedAfter(o types.Object) bool {
	found := false
	ast.Inspect(c.fn.Body, func(n ast.Node) bool {
		call, ok := n.(*ast.CallExpr)
		if !ok || call.Pos() < c.rs.End() || len(call.Args) == 0 {
			return true
		}
		sel, ok := call.Fun.(*ast.SelectorExpr)
		if !ok {
			return true
		}
		if pk, ok := sel.X.(*ast.Ident); !ok || pk.Name != "sort" {
			return true
		}
		if a0, ok := call.Args[0].(*ast.Ident); ok && c.info.ObjectOf(a0) == o {
			found = true
		}
		return true
	})
	return found
}

func main() {
	repo := os.Args[1]
	out := os.Args[2]
	cfg := &packages.Config{Mode: packages.LoadSyntax, Dir: repo, Tests: false}
	pkgs, err := packages.Load(cfg,
		"github.com/tendermint/fundraising/x/fundraising/keeper",
		"github.com/tendermint/fundraising/x/fundraising/types",
		"github.com/tendermint/fundraising/x/fundraising/module",
		"github.com/tendermint/fundraising/x/fundraising/simulation")
	if err != nil {
		panic(err)
	}
	var loops []loop
	type clockUse struct{ pkg, file, fn, call, context string }
	var clocks []clockUse
	for _, p := range pkgs {
		if len(p.Errors) > 0 {
			fmt.Fprintln(os.Stderr, "package errors:", p.Errors)
			os.Exit(2)
		}
		for _, f := range p.Syntax {
			fname := p.Fset.Position(f.Pos()).Filename
			if strings.HasSuffix(fname, ".pb.go") || strings.HasSuffix(fname, ".pb.gw.go") || strings.HasSuffix(fname, "_test.go") {
				continue
			}
			for _, d := range f.Decls {
				fd, ok := d.(*ast.FuncDecl)
				if !ok || fd.Body == nil {
					continue
				}
				// reads of the wall clock, of the environment or of a global random source: the outcome of a message or a
				// block must not depend on them; the one accepted use is as an argument of a telemetry call
				if p.Name != "simulation" && !strings.HasSuffix(fname, "simulation.go") {
					var stack []ast.Node
					ast.Inspect(fd.Body, func(node ast.Node) bool {
						if node == nil {
							stack = stack[:len(stack)-1]
							return true
						}
						stack = append(stack, node)
						call, ok := node.(*ast.CallExpr)
						if !ok {
							return true
						}
						sel, ok := call.Fun.(*ast.SelectorExpr)
						if !ok {
							return true
						}
						pk, ok := sel.X.(*ast.Ident)
						if !ok {
							return true
						}
						pn, ok := p.TypesInfo.Uses[pk].(*types.PkgName)
						if !ok {
							return true
						}
						path, name := pn.Imported().Path(), sel.Sel.Name
						bad := (path == "time" && (name == "Now" || name == "Since" || name == "Until")) ||
							(path == "os" && (name == "Getenv" || name == "LookupEnv" || name == "Hostname" || name == "Getpid")) ||
							(path == "math/rand" || path == "math/rand/v2" || path == "crypto/rand")
						if !bad {
							return true
						}
						ctx := "other"
						for i := len(stack) - 2; i >= 0; i-- {
							if outer, ok := stack[i].(*ast.CallExpr); ok {
								if osel, ok := outer.Fun.(*ast.SelectorExpr); ok {
									if opk, ok := osel.X.(*ast.Ident); ok {
										if opn, ok := p.TypesInfo.Uses[opk].(*types.PkgName); ok && strings.HasSuffix(opn.Imported().Path(), "/telemetry") {
											ctx = "telemetry"
										}
									}
								}
								break
							}
						}
						clocks = append(clocks, clockUse{p.Name, fname[strings.LastIndex(fname, "/")+1:], fd.Name.Name, path + "." + name, ctx})
						return true
					})
				}
				n := 0
				ast.Inspect(fd.Body, func(node ast.Node) bool {
					rs, ok := node.(*ast.RangeStmt)
					if !ok {
						return true
					}
					t := p.TypesInfo.TypeOf(rs.X)
					if t == nil {
						return true
					}
					if _, isMap := t.Underlying().(*types.Map); !isMap {
						return true
					}
					l := loop{pkg: p.Name, file: fname[strings.LastIndex(fname, "/")+1:], fn: fd.Name.Name, expr: exprString(rs.X), idx: n, shapes: map[string]bool{}}
					n++
					c := &classifier{info: p.TypesInfo, rs: rs, fn: fd, l: &l, collect: map[types.Object]string{}}
					if k, ok := rs.Key.(*ast.Ident); ok && k.Name != "_" {
						c.keyObj = p.TypesInfo.ObjectOf(k)
					}
					c.stmts(rs.Body.List)
					for o, name := range c.collect {
						if c.sortedAfter(o) {
							l.shapes["collect_sorted"] = true
						} else {
							c.other("collects into " + name + ", which is not sorted afterwards")
						}
					}
					seen := map[string]bool{}
					ast.Inspect(rs.Body, func(x ast.Node) bool {
						if call, ok := x.(*ast.CallExpr); ok {
							if name, bad := c.impureCall(call); bad && !seen[name] {
								seen[name] = true
								l.impure = append(l.impure, name)
							}
						}
						return true
					})
					sort.Strings(l.impure)
					sort.Strings(l.reasons)
					loops = append(loops, l)
					return true
				})
			}
		}
	}
	sort.Slice(loops, func(i, j int) bool {
		a, b := loops[i], loops[j]
		if a.pkg != b.pkg {
			return a.pkg < b.pkg
		}
		if a.file != b.file {
			return a.file < b.file
		}
		if a.fn != b.fn {
			return a.fn < b.fn
		}
		return a.idx < b.idx
	})
	qs := func(l []string) string {
		var r []string
		for _, x := range l {
			r = append(r, fmt.Sprintf("%q", strings.ReplaceAll(x, "\"", "'")))
		}
		return strings.Join(r, "; ")
	}
	var sb strings.Builder
	sb.WriteString("(* GENERATED by harness/cmd/mapcensus from /repo on every run -- do not edit *)\n")
	sb.WriteString("From Coq Require Import String List.\nImport ListNotations.\nOpen Scope string_scope.\n")
	sb.WriteString("(* package, file, function, index of the loop in the function, ranged expression,\n   safe shapes found, reasons it is not (only) of a safe shape, calls with an effect *)\n")
	sb.WriteString("Definition map_loops : list (string * string * string * nat * string * list string * list string * list string) := [\n")
	unsafe := 0
	for i, l := range loops {
		var shapes []string
		for s := range l.shapes {
			shapes = append(shapes, s)
		}
		sort.Strings(shapes)
		if len(l.reasons) > 0 || len(l.impure) > 0 || len(shapes) == 0 {
			unsafe++
		}
		sep := ";"
		if i == len(loops)-1 {
			sep = ""
		}
		fmt.Fprintf(&sb, "  (%q, %q, %q, %d, %q, [%s], [%s], [%s])%s\n", l.pkg, l.file, l.fn, l.idx, l.expr, qs(shapes), qs(l.reasons), qs(l.impure), sep)
	}
	sb.WriteString("].\n")
	sort.Slice(clocks, func(i, j int) bool {
		a, b := clocks[i], clocks[j]
		return a.pkg+a.file+a.fn+a.call < b.pkg+b.file+b.fn+b.call
	})
	sb.WriteString("(* reads of the wall clock, the environment or a random source outside the simulation code:\n   package, file, function, what is called, where the value goes *)\n")
	sb.WriteString("Definition clock_uses : list (string * string * string * string * string) := [\n")
	for i, c := range clocks {
		sep := ";"
		if i == len(clocks)-1 {
			sep = ""
		}
		fmt.Fprintf(&sb, "  (%q, %q, %q, %q, %q)%s\n", c.pkg, c.file, c.fn, c.call, c.context, sep)
	}
	sb.WriteString("].\n")
	if err := os.WriteFile(out, []byte(sb.String()), 0o644); err != nil {
		panic(err)
	}
	fmt.Printf("%d map-range loops, %d not of a safe shape; %d reads of clock/environment/randomness\n", len(loops), unsafe, len(clocks))
}
