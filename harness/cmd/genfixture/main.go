// genfixture writes the fundraising genesis state that the C20 live-node check starts its single-node chain from:
// three auctions (an open fixed price one, an open batch one with a bid, a fixed price one in its vesting period with a
// matched bid and two instalments), with the given account allow-listed in all of them - the only way to get an
// allow-list entry into a chain built with default settings; a second account, when given, has a bid of its own in the
// batch auction.  usage: genfixture <repo> <out.json> <bech32 account> [<second account>]
package main

import (
	"fmt"
	"os"
	"time"

	"cosmossdk.io/math"
	codectypes "github.com/cosmos/cosmos-sdk/codec/types"
	sdk "github.com/cosmos/cosmos-sdk/types"

	"github.com/tendermint/fundraising/testutil/testutil/simapp"
	"github.com/tendermint/fundraising/x/fundraising/types"
)

func main() {
	out, who := os.Args[2], os.Args[3]
	acc, err := sdk.AccAddressFromBech32(who)
	if err != nil {
		panic(err)
	}
	a, err := simapp.New("fixture")
	if err != nil {
		panic(err)
	}
	dec := func(s string) math.LegacyDec { return math.LegacyMustNewDecFromStr(s) }
	tm := func(s string) time.Time { t, _ := time.Parse(time.RFC3339, s); return t }
	base := func(id uint64, typ types.AuctionType, price string, vs []types.VestingSchedule, st types.AuctionStatus, end string) *types.BaseAuction {
		return types.NewBaseAuction(id, typ, acc.String(), types.SellingReserveAddress(id).String(), types.PayingReserveAddress(id).String(),
			dec(price), sdk.NewInt64Coin("denoma", 1000), "denomb", types.VestingReserveAddress(id).String(), vs,
			tm("2020-01-01T00:00:00Z"), []time.Time{tm(end)}, st)
	}
	one := []types.VestingSchedule{{ReleaseTime: tm("2031-01-01T00:00:00Z"), Weight: dec("1.0")}}
	two := []types.VestingSchedule{{ReleaseTime: tm("2021-01-01T00:00:00Z"), Weight: dec("0.25")}, {ReleaseTime: tm("2031-06-01T00:00:00Z"), Weight: dec("0.75")}}
	a0 := types.NewFixedPriceAuction(base(0, types.AuctionTypeFixedPrice, "0.5", one, types.AuctionStatusStarted, "2029-06-01T00:00:00Z"), sdk.NewInt64Coin("denoma", 1000))
	a1 := types.NewBatchAuction(base(1, types.AuctionTypeBatch, "1.0", nil, types.AuctionStatusStarted, "2029-07-01T00:00:00Z"), dec("0.1"), dec("0"), 2, dec("0.2"))
	a2 := types.NewFixedPriceAuction(base(2, types.AuctionTypeFixedPrice, "2.0", two, types.AuctionStatusVesting, "2020-06-01T00:00:00Z"), sdk.NewInt64Coin("denoma", 0))
	gs := types.DefaultGenesis()
	for _, x := range []types.AuctionI{a0, a1, a2} {
		any, err := codectypes.NewAnyWithValue(x)
		if err != nil {
			panic(err)
		}
		gs.AuctionList = append(gs.AuctionList, any)
	}
	for id := uint64(0); id < 3; id++ {
		gs.AllowedBidderList = append(gs.AllowedBidderList, types.NewAllowedBidder(id, acc, math.NewInt(500)))
	}
	gs.BidList = []types.Bid{
		types.NewBid(1, acc, 1, types.BidTypeBatchWorth, dec("0.8"), sdk.NewInt64Coin("denomb", 40), false),
		types.NewBid(2, acc, 1, types.BidTypeFixedPrice, dec("2.0"), sdk.NewInt64Coin("denomb", 80), true),
	}
	second := int64(0)
	if len(os.Args) > 4 {
		bob, err := sdk.AccAddressFromBech32(os.Args[4])
		if err != nil {
			panic(err)
		}
		gs.AllowedBidderList = append(gs.AllowedBidderList, types.NewAllowedBidder(1, bob, math.NewInt(500)))
		gs.BidList = append(gs.BidList[:1], types.NewBid(1, bob, 2, types.BidTypeBatchWorth, dec("0.9"), sdk.NewInt64Coin("denomb", 30), false), gs.BidList[1])
		second = 30
	}
	gs.VestingQueueList = []types.VestingQueue{
		types.NewVestingQueue(2, acc, sdk.NewInt64Coin("denomb", 20), tm("2021-01-01T00:00:00Z"), true),
		types.NewVestingQueue(2, acc, sdk.NewInt64Coin("denomb", 60), tm("2031-06-01T00:00:00Z"), false),
	}
	if err := gs.Validate(); err != nil {
		fmt.Fprintln(os.Stderr, "the fixture does not validate:", err)
		os.Exit(2)
	}
	bz := a.AppCodec().MustMarshalJSON(gs)
	if err := os.WriteFile(out, bz, 0o644); err != nil {
		panic(err)
	}
	// the escrow accounts the fixture's records refer to, for the bank genesis
	fmt.Printf("%s 1000denoma\n%s %ddenomb\n%s 60denomb\n", types.SellingReserveAddress(0), types.PayingReserveAddress(1), 40+second, types.VestingReserveAddress(2))
	fmt.Printf("%s 1000denoma\n", types.SellingReserveAddress(1))
}
