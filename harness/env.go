package main

import (
	"context"
	"crypto/sha256"
	"fmt"
	"sort"
	"strings"
	"time"

	"cosmossdk.io/math"
	addresscodec "github.com/cosmos/cosmos-sdk/codec/address"
	"github.com/cosmos/cosmos-sdk/runtime"
	sdk "github.com/cosmos/cosmos-sdk/types"
	authtypes "github.com/cosmos/cosmos-sdk/x/auth/types"
	bankkeeper "github.com/cosmos/cosmos-sdk/x/bank/keeper"
	banktypes "github.com/cosmos/cosmos-sdk/x/bank/types"
	distrkeeper "github.com/cosmos/cosmos-sdk/x/distribution/keeper"
	distrtypes "github.com/cosmos/cosmos-sdk/x/distribution/types"
	govtypes "github.com/cosmos/cosmos-sdk/x/gov/types"
	minttypes "github.com/cosmos/cosmos-sdk/x/mint/types"

	"github.com/tendermint/fundraising/app"
	"github.com/tendermint/fundraising/testutil/testutil/simapp"
	"github.com/tendermint/fundraising/x/fundraising/keeper"
	"github.com/tendermint/fundraising/x/fundraising/types"
)

const NUsers = 6

var Denoms = []string{"denoma", "denomb", "denomc", "denomd", "stake"}

// T0 is the time of the first block of a history: 2030-01-01T00:00:00Z, or - for every seventh history - 2001-09-09:
// a chain whose whole history lies in the past of the machine that executes it (a node that replays old blocks)
var T0 = int64(1893456000)

const tFuture, tPast = int64(1893456000), int64(1000000000)

type Xfer struct {
	From, To string
	Denom    int
	Amt      math.Int
}

type Env struct {
	app      *app.App
	ctx      sdk.Context
	k        keeper.Keeper
	ms       types.MsgServer
	qs       types.QueryServer
	users    []sdk.AccAddress
	userStr  []string
	upperStr []string
	pool     sdk.AccAddress
	gov      string
	listen   [][]int // nil = no hooks object with listeners (empty dispatcher)
	// recording
	xfers    []Xfer
	trace    []string
	bankCall int
	order    []string // interleaving of hook calls and bank transfers, in the order they happened
	hookViol []string // what a listener saw in the store that contradicts "before" / "after"
	failAt   int      // -1: never
}

func denomIdx(d string) int {
	for i, x := range Denoms {
		if x == d {
			return i
		}
	}
	return -1
}

// useKeyedUsers: derive the user accounts from secp256k1 keys (full-application path) instead of hashes
var useKeyedUsers bool

// extremeFunds: the users hold 2^230 of every denomination (profile "extreme")
var extremeFunds bool

func NewEnv() *Env {
	var users []sdk.AccAddress
	if useKeyedUsers {
		_, users = keyedUsers()
	} else {
		// users: deterministic addresses, numbered in bech32 string order
		for i := 0; i < NUsers; i++ {
			h := sha256.Sum256([]byte(fmt.Sprintf("verif-user-%d", i)))
			users = append(users, sdk.AccAddress(h[:20]))
		}
		sort.Slice(users, func(i, j int) bool { return users[i].String() < users[j].String() })
	}
	e := NewEnvWith(users)
	e.ctx = e.app.BaseApp.NewContext(false).WithBlockTime(time.Unix(T0, 0).UTC()).WithBlockHeight(1)
	e.fund()
	e.rebuild()
	return e
}

// NewEnvWith: a fresh application and the given user accounts; no context, no funding, no keeper yet
func NewEnvWith(users []sdk.AccAddress) *Env {
	a, err := simapp.New("verif-1")
	if err != nil {
		panic(err)
	}
	e := &Env{app: a, failAt: -1}
	e.users = users
	for _, u := range e.users {
		e.userStr = append(e.userStr, u.String())
		e.upperStr = append(e.upperStr, strings.ToUpper(u.String()))
	}
	e.pool = authtypes.NewModuleAddress(distrtypes.ModuleName)
	e.gov = authtypes.NewModuleAddress(govtypes.ModuleName).String()
	return e
}

// fund gives every user the same starting balances (the last one is poor) in the context e.ctx
func (e *Env) fund() {
	a := e.app
	rich, _ := math.NewIntFromString("1000000000000000000000000")
	if extremeFunds {
		// 2^230: amounts far beyond any real supply, close to the 256-bit limit of math.Int
		rich, _ = math.NewIntFromString("1725436586697640946858688965569256363112777243042596638790631055949824")
	}
	for i, u := range e.users {
		amt := rich
		if i == NUsers-1 {
			amt = math.NewInt(1000)
		}
		var cs sdk.Coins
		for _, d := range Denoms {
			cs = cs.Add(sdk.NewCoin(d, amt))
		}
		if err := a.BankKeeper.MintCoins(e.ctx, minttypes.ModuleName, cs); err != nil {
			panic(err)
		}
		if err := a.BankKeeper.SendCoinsFromModuleToAccount(e.ctx, minttypes.ModuleName, u, cs); err != nil {
			panic(err)
		}
	}
}

// rebuild constructs the keeper under test over the application's store, with the recording
// bank / distribution wrappers and the current listeners behind the module's own dispatcher.
func (e *Env) rebuild() {
	a := e.app
	k := keeper.NewKeeper(
		a.AppCodec(),
		addresscodec.NewBech32Codec(sdk.GetConfig().GetBech32AccountAddrPrefix()),
		runtime.NewKVStoreService(a.GetKey(types.StoreKey)),
		a.Logger(),
		e.gov,
		a.AccountKeeper,
		&recBank{e, a.BankKeeper},
		&recDistr{e, a.DistrKeeper},
	)
	hs := []types.FundraisingHooks{}
	for i, f := range e.listen {
		hs = append(hs, &listener{e: e, idx: i, fails: f})
	}
	// the listeners reach the keeper the way several modules hand them over: flat, or with the first two (or the last
	// two) already combined by their module into a dispatcher of their own, and with an empty slot of a module that
	// provides none.  The order in which a hook reaches them must be the same in every arrangement
	switch {
	case len(hs) >= 3 && len(hs)%2 == 1:
		k.SetHooks(types.NewMultiFundraisingHooks(types.NewMultiFundraisingHooks(hs[0], hs[1]), types.NewMultiFundraisingHooks(hs[2:]...)))
	case len(hs) >= 3:
		k.SetHooks(types.NewMultiFundraisingHooks(append([]types.FundraisingHooks{types.NewMultiFundraisingHooks(hs[:2]...)}, hs[2:]...)...))
	case len(hs) == 2:
		k.SetHooks(types.NewMultiFundraisingHooks(hs[0], types.NewMultiFundraisingHooks(hs[1])))
	default:
		k.SetHooks(types.NewMultiFundraisingHooks(hs...))
	}
	e.k = k
	e.ms = keeper.NewMsgServerImpl(k)
	e.qs = keeper.NewQueryServerImpl(k)
}

// ---- address naming ----
func (e *Env) addrName(a sdk.AccAddress, nAuctions uint64) string {
	for i, u := range e.users {
		if u.Equals(a) {
			return fmt.Sprintf("u%d", i)
		}
	}
	if a.Equals(e.pool) {
		return "pool"
	}
	for id := uint64(0); id < nAuctions+3; id++ {
		if a.Equals(types.SellingReserveAddress(id)) {
			return fmt.Sprintf("es%d", id)
		}
		if a.Equals(types.PayingReserveAddress(id)) {
			return fmt.Sprintf("ep%d", id)
		}
		if a.Equals(types.VestingReserveAddress(id)) {
			return fmt.Sprintf("ev%d", id)
		}
	}
	return "x" + a.String()
}

func (e *Env) addrByName(n string) sdk.AccAddress {
	var id uint64
	switch {
	case n == "pool":
		return e.pool
	case strings.HasPrefix(n, "es"):
		fmt.Sscanf(n[2:], "%d", &id)
		return types.SellingReserveAddress(id)
	case strings.HasPrefix(n, "ep"):
		fmt.Sscanf(n[2:], "%d", &id)
		return types.PayingReserveAddress(id)
	case strings.HasPrefix(n, "ev"):
		fmt.Sscanf(n[2:], "%d", &id)
		return types.VestingReserveAddress(id)
	case strings.HasPrefix(n, "u"):
		fmt.Sscanf(n[1:], "%d", &id)
		return e.users[id]
	}
	panic("bad addr name " + n)
}

// whoStr: "u3" canonical, "U3" upper-case spelling, "bad" invalid
func (e *Env) whoStr(w string) string {
	var i int
	switch {
	case w == "bad":
		return "cosmos1notanaddress"
	case w == "gov":
		return e.gov
	case w[0] == 'u':
		fmt.Sscanf(w[1:], "%d", &i)
		return e.userStr[i]
	case w[0] == 'U':
		fmt.Sscanf(w[1:], "%d", &i)
		return e.upperStr[i]
	}
	panic("bad who " + w)
}

// nameOfStr maps a stored address string back: "0 i" canonical, "1 i" upper, "-1 -1" otherwise
func (e *Env) encAddrStr(s string) string {
	for i := range e.users {
		if s == e.userStr[i] {
			return fmt.Sprintf("0 %d", i)
		}
		if s == e.upperStr[i] {
			return fmt.Sprintf("1 %d", i)
		}
	}
	if s == e.gov {
		return "0 900" // the module authority: account 900 of the model
	}
	return "-1 -1"
}

// ---- recording wrappers ----
// recBank records the transfers the module makes.  It embeds the application's bank keeper, so that a method added to
// the module's expected-keeper interface (a read such as GetBalance) is served by the real keeper without a change
// here; only the methods that move coins are intercepted
type recBank struct {
	e *Env
	bankkeeper.Keeper
}

func (b *recBank) nAuctions() uint64 {
	n, _ := b.e.k.AuctionSeq.Peek(b.e.ctx)
	return n
}
func (b *recBank) fault(c sdk.Coins) error {
	if c.IsZero() {
		return nil
	}
	n := b.e.bankCall
	b.e.bankCall++
	if n == b.e.failAt {
		return fmt.Errorf("injected bank failure at transfer %d", n)
	}
	return nil
}
func (b *recBank) rec(from, to sdk.AccAddress, amt sdk.Coins) {
	na := b.nAuctions()
	for _, c := range amt {
		if c.Amount.IsZero() {
			continue
		}
		b.e.xfers = append(b.e.xfers, Xfer{b.e.addrName(from, na), b.e.addrName(to, na), denomIdx(c.Denom), c.Amount})
		b.e.order = append(b.e.order, "X:"+b.e.addrName(from, na))
	}
}
func (b *recBank) SendCoins(ctx context.Context, from, to sdk.AccAddress, amt sdk.Coins) error {
	if err := b.fault(amt); err != nil {
		return err
	}
	if err := b.e.app.BankKeeper.SendCoins(ctx, from, to, amt); err != nil {
		return err
	}
	b.rec(from, to, amt)
	return nil
}
func (b *recBank) SpendableCoins(ctx context.Context, addr sdk.AccAddress) sdk.Coins {
	return b.e.app.BankKeeper.SpendableCoins(ctx, addr)
}
func (b *recBank) SendCoinsFromAccountToModule(ctx context.Context, senderAddr sdk.AccAddress, recipientModule string, amt sdk.Coins) error {
	if err := b.e.app.BankKeeper.SendCoinsFromAccountToModule(ctx, senderAddr, recipientModule, amt); err != nil {
		return err
	}
	b.rec(senderAddr, authtypes.NewModuleAddress(recipientModule), amt)
	return nil
}
func (b *recBank) InputOutputCoins(ctx context.Context, input banktypes.Input, outputs []banktypes.Output) error {
	if err := b.fault(input.Coins); err != nil {
		return err
	}
	if err := b.e.app.BankKeeper.InputOutputCoins(ctx, input, outputs); err != nil {
		return err
	}
	from := sdk.MustAccAddressFromBech32(input.Address)
	for _, o := range outputs {
		b.rec(from, sdk.MustAccAddressFromBech32(o.Address), o.Coins)
	}
	return nil
}
func (b *recBank) MintCoins(ctx context.Context, moduleName string, amt sdk.Coins) error {
	return b.e.app.BankKeeper.MintCoins(ctx, moduleName, amt)
}
func (b *recBank) SendCoinsFromModuleToAccount(ctx context.Context, senderModule string, recipientAddr sdk.AccAddress, amt sdk.Coins) error {
	if err := b.e.app.BankKeeper.SendCoinsFromModuleToAccount(ctx, senderModule, recipientAddr, amt); err != nil {
		return err
	}
	b.rec(authtypes.NewModuleAddress(senderModule), recipientAddr, amt)
	return nil
}

type recDistr struct {
	e *Env
	distrkeeper.Keeper
}

func (d *recDistr) FundCommunityPool(ctx context.Context, amount sdk.Coins, sender sdk.AccAddress) error {
	if err := d.e.app.DistrKeeper.FundCommunityPool(ctx, amount, sender); err != nil {
		return err
	}
	na, _ := d.e.k.AuctionSeq.Peek(d.e.ctx)
	for _, c := range amount {
		if c.Amount.IsZero() {
			continue
		}
		d.e.xfers = append(d.e.xfers, Xfer{d.e.addrName(sender, na), "pool", denomIdx(c.Denom), c.Amount})
	}
	return nil
}

// ---- recording listeners ----
type listener struct {
	e     *Env
	idx   int
	fails []int
}

// storedAtHook: a listener may read the module's store.  When it is told that an auction is ABOUT to be created the
// auction must not be in the store yet (the sequence is one ahead of the stored auctions); when it is told that the
// auction HAS been created it must be there
func (l *listener) storedAtHook(ctx context.Context, kind int) {
	n := uint64(0)
	_ = l.e.k.Auction.Walk(ctx, nil, func(uint64, types.AuctionI) (bool, error) { n++; return false, nil })
	seq, err := l.e.k.AuctionSeq.Peek(ctx)
	if err != nil {
		return
	}
	before := kind == 0 || kind == 2
	if (before && n+1 != seq) || (!before && n != seq) {
		l.e.hookViol = append(l.e.hookViol, fmt.Sprintf("listener=%d hook=%d auctions_in_store=%d sequence=%d", l.idx, kind, n, seq))
	}
}

func (l *listener) call(kind int, args string) error {
	l.e.trace = append(l.e.trace, fmt.Sprintf("%d %d %s", l.idx, kind, args))
	first := args
	if i := strings.Index(args, " "); i >= 0 {
		first = args[:i]
	}
	l.e.order = append(l.e.order, fmt.Sprintf("H%d:%s", kind, first))
	for _, f := range l.fails {
		if f == kind {
			return fmt.Errorf("listener %d vetoes hook %d", l.idx, kind)
		}
	}
	return nil
}

func encDec(d math.LegacyDec) string {
	if d.IsNil() {
		return "nil"
	}
	return d.BigInt().String()
}
func encTime(t time.Time) string { return fmt.Sprint(t.UnixNano()) }
func encScheds(vs []types.VestingSchedule) string {
	s := fmt.Sprint(len(vs))
	for _, v := range vs {
		s += " " + encTime(v.ReleaseTime) + " " + encDec(v.Weight)
	}
	return s
}
func (e *Env) encMap(m map[string]math.Int) string {
	keys := make([]string, 0, len(m))
	for k := range m {
		keys = append(keys, k)
	}
	sort.Strings(keys)
	s := fmt.Sprint(len(keys))
	for _, k := range keys {
		idx := -1
		for i := range e.userStr {
			if e.userStr[i] == k {
				idx = i
			}
		}
		s += fmt.Sprintf(" %d %s", idx, m[k].String())
	}
	return s
}

func (l *listener) BeforeFixedPriceAuctionCreated(ctx context.Context, auctioneer string, startPrice math.LegacyDec, sellingCoin sdk.Coin, payingCoinDenom string, vestingSchedules []types.VestingSchedule, startTime, endTime time.Time) error {
	l.storedAtHook(ctx, 0)
	return l.call(0, fmt.Sprintf("%s %s %d %s %d %s %s %s", l.e.encAddrStr(auctioneer), encDec(startPrice), denomIdx(sellingCoin.Denom), sellingCoin.Amount, denomIdx(payingCoinDenom), encScheds(vestingSchedules), encTime(startTime), encTime(endTime)))
}
func (l *listener) AfterFixedPriceAuctionCreated(ctx context.Context, auctionId uint64, auctioneer string, startPrice math.LegacyDec, sellingCoin sdk.Coin, payingCoinDenom string, vestingSchedules []types.VestingSchedule, startTime, endTime time.Time) error {
	l.storedAtHook(ctx, 1)
	return l.call(1, fmt.Sprintf("%d %s %s %d %s %d %s %s %s", auctionId, l.e.encAddrStr(auctioneer), encDec(startPrice), denomIdx(sellingCoin.Denom), sellingCoin.Amount, denomIdx(payingCoinDenom), encScheds(vestingSchedules), encTime(startTime), encTime(endTime)))
}
func (l *listener) BeforeBatchAuctionCreated(ctx context.Context, auctioneer string, startPrice, minBidPrice math.LegacyDec, sellingCoin sdk.Coin, payingCoinDenom string, vestingSchedules []types.VestingSchedule, maxExtendedRound uint32, extendedRoundRate math.LegacyDec, startTime, endTime time.Time) error {
	l.storedAtHook(ctx, 2)
	return l.call(2, fmt.Sprintf("%s %s %s %d %s %d %s %d %s %s %s", l.e.encAddrStr(auctioneer), encDec(startPrice), encDec(minBidPrice), denomIdx(sellingCoin.Denom), sellingCoin.Amount, denomIdx(payingCoinDenom), encScheds(vestingSchedules), maxExtendedRound, encDec(extendedRoundRate), encTime(startTime), encTime(endTime)))
}
func (l *listener) AfterBatchAuctionCreated(ctx context.Context, auctionId uint64, auctioneer string, startPrice, minBidPrice math.LegacyDec, sellingCoin sdk.Coin, payingCoinDenom string, vestingSchedules []types.VestingSchedule, maxExtendedRound uint32, extendedRoundRate math.LegacyDec, startTime, endTime time.Time) error {
	l.storedAtHook(ctx, 3)
	return l.call(3, fmt.Sprintf("%d %s %s %s %d %s %d %s %d %s %s %s", auctionId, l.e.encAddrStr(auctioneer), encDec(startPrice), encDec(minBidPrice), denomIdx(sellingCoin.Denom), sellingCoin.Amount, denomIdx(payingCoinDenom), encScheds(vestingSchedules), maxExtendedRound, encDec(extendedRoundRate), encTime(startTime), encTime(endTime)))
}
func (l *listener) BeforeAuctionCanceled(ctx context.Context, auctionId uint64, auctioneer string) error {
	return l.call(4, fmt.Sprintf("%d %s", auctionId, l.e.encAddrStr(auctioneer)))
}
func (l *listener) bidArgs(auctionId, bidId uint64, bidder string, bidType types.BidType, price math.LegacyDec, coin sdk.Coin) string {
	enc := l.e.encAddrStr(bidder)
	u := "-1"
	if strings.HasPrefix(enc, "0 ") {
		u = enc[2:]
	}
	return fmt.Sprintf("%d %d %s %d %s %d %s", auctionId, bidId, u, int(bidType), encDec(price), denomIdx(coin.Denom), coin.Amount)
}
func (l *listener) BeforeBidPlaced(ctx context.Context, auctionId, bidId uint64, bidder string, bidType types.BidType, price math.LegacyDec, coin sdk.Coin) error {
	return l.call(5, l.bidArgs(auctionId, bidId, bidder, bidType, price, coin))
}
func (l *listener) BeforeBidModified(ctx context.Context, auctionId, bidId uint64, bidder string, bidType types.BidType, price math.LegacyDec, coin sdk.Coin) error {
	return l.call(6, l.bidArgs(auctionId, bidId, bidder, bidType, price, coin))
}
func (l *listener) BeforeAllowedBiddersAdded(ctx context.Context, allowedBidders []types.AllowedBidder) error {
	s := fmt.Sprint(len(allowedBidders))
	for _, ab := range allowedBidders {
		max := "0 0"
		if !ab.MaxBidAmount.IsNil() {
			max = "1 " + ab.MaxBidAmount.String()
		}
		s += fmt.Sprintf(" %d %s %s", ab.AuctionId, l.e.encAddrStr(ab.Bidder), max)
	}
	return l.call(7, s)
}
func (l *listener) BeforeAllowedBidderUpdated(ctx context.Context, auctionId uint64, bidder sdk.AccAddress, maxBidAmount math.Int) error {
	return l.call(8, fmt.Sprintf("%d %s %s", auctionId, l.e.addrName(bidder, 0)[1:], maxBidAmount))
}
func (l *listener) BeforeSellingCoinsAllocated(ctx context.Context, auctionId uint64, allocationMap map[string]math.Int, refundMap map[string]math.Int) error {
	return l.call(9, fmt.Sprintf("%d %s %s", auctionId, l.e.encMap(allocationMap), l.e.encMap(refundMap)))
}
