package main

import (
	"fmt"
	"math/big"
	"sort"
	"strconv"
	"strings"
	"time"

	"cosmossdk.io/collections"
	"cosmossdk.io/math"
	sdk "github.com/cosmos/cosmos-sdk/types"
	"github.com/cosmos/cosmos-sdk/types/query"
	authtypes "github.com/cosmos/cosmos-sdk/x/auth/types"
	vestingtypes "github.com/cosmos/cosmos-sdk/x/auth/vesting/types"
	minttypes "github.com/cosmos/cosmos-sdk/x/mint/types"

	fundraising "github.com/tendermint/fundraising/x/fundraising/module"
	"github.com/tendermint/fundraising/x/fundraising/types"
)

// Op is one operation of a history: a kind and its fields in a fixed order.
type Op struct {
	Kind string
	Keys []string
	F    map[string]string
}

func NewOp(kind string, kv ...string) Op {
	o := Op{Kind: kind, F: map[string]string{}}
	for i := 0; i+1 < len(kv); i += 2 {
		o.Keys = append(o.Keys, kv[i])
		o.F[kv[i]] = kv[i+1]
	}
	return o
}
func (o Op) String() string {
	s := "OP " + o.Kind
	for _, k := range o.Keys {
		s += " " + k + "=" + o.F[k]
	}
	return s
}
func ParseOp(line string) Op {
	parts := strings.Fields(line)
	o := Op{Kind: parts[1], F: map[string]string{}}
	for _, p := range parts[2:] {
		i := strings.Index(p, "=")
		o.Keys = append(o.Keys, p[:i])
		o.F[p[:i]] = p[i+1:]
	}
	return o
}

func pInt(s string) math.Int {
	if s == "nil" {
		return math.Int{}
	}
	v, ok := math.NewIntFromString(s)
	if !ok {
		panic("bad int " + s)
	}
	return v
}
func pDec(s string) math.LegacyDec {
	if s == "nil" {
		return math.LegacyDec{}
	}
	v, ok := new(big.Int).SetString(s, 10)
	if !ok {
		panic("bad dec " + s)
	}
	return math.LegacyNewDecFromBigIntWithPrec(v, 18)
}
func pDenom(s string) string {
	if s == "!" {
		return "!"
	}
	i, _ := strconv.Atoi(s)
	return Denoms[i]
}
func pCoin(s string) sdk.Coin {
	p := strings.SplitN(s, ":", 2)
	return sdk.Coin{Denom: pDenom(p[0]), Amount: pInt(p[1])}
}
func pCoins(s string) sdk.Coins {
	if s == "-" {
		return sdk.Coins{}
	}
	var cs sdk.Coins
	for _, c := range strings.Split(s, ",") {
		cs = append(cs, pCoin(c))
	}
	return cs
}
func pTime(s string) time.Time {
	n, _ := strconv.ParseInt(s, 10, 64)
	return time.Unix(0, n).UTC()
}
func pU64(s string) uint64 { n, _ := strconv.ParseUint(s, 10, 64); return n }
func pScheds(s string) []types.VestingSchedule {
	if s == "-" {
		return nil
	}
	var vs []types.VestingSchedule
	for _, x := range strings.Split(s, ";") {
		p := strings.SplitN(x, "@", 2)
		vs = append(vs, types.VestingSchedule{ReleaseTime: pTime(p[0]), Weight: pDec(p[1])})
	}
	return vs
}

type Result struct {
	Class  string // ok rej blockok blockerr panic genok generr done
	Detail string
}

func oneLine(s string) string {
	s = strings.ReplaceAll(s, "\n", " ")
	if len(s) > 160 {
		s = s[:160]
	}
	return s
}

// safely runs f, converting a panic into an error flagged as panic
func safely(f func() error) (err error, panicked bool) {
	defer func() {
		if r := recover(); r != nil {
			err = fmt.Errorf("panic: %v", r)
			panicked = true
		}
	}()
	return f(), false
}

// tx executes one message like baseapp executes a single-message transaction:
// ValidateBasic, then the handler on a cached context that is written back only on success.
// simulateFirst: every message is first executed on a discarded branch (flag -sim)
var simulateFirst bool
var simCount int

func (e *Env) tx(vb func() error, h func(ctx sdk.Context) error) Result {
	if vb != nil {
		if err, _ := safely(vb); err != nil {
			return Result{"rej", "basic: " + oneLine(err.Error())}
		}
	}
	if simulateFirst {
		// what a node does for gas estimation and in CheckTx: the message is executed on a branch of the state that
		// is thrown away.  Nothing of that execution may be visible afterwards (C14: the outcome of a history does
		// not depend on what else the process has executed)
		sctx, _ := e.ctx.CacheContext()
		nx0, nt0, no0 := len(e.xfers), len(e.trace), len(e.order)
		_, _ = safely(func() error { return h(sctx) })
		simCount++
		if simCount%3 == 0 {
			// and now and then a parameter change that is only ever simulated (a transaction that passes CheckTx
			// but is never included): fees and period as no generated history sets them
			_, _ = safely(func() error {
				_, err := e.ms.UpdateParams(sctx, &types.MsgUpdateParams{Authority: e.whoStr("gov"), Params: types.Params{
					AuctionCreationFee: sdk.NewCoins(sdk.NewCoin(Denoms[4], math.NewInt(777777))), PlaceBidFee: sdk.NewCoins(sdk.NewCoin(Denoms[3], math.NewInt(55555))), ExtendedPeriod: 2}})
				return err
			})
		}
		e.xfers, e.trace, e.order = e.xfers[:nx0], e.trace[:nt0], e.order[:no0]
		e.hookViol = e.hookViol[:0]
	}
	cctx, write := e.ctx.CacheContext()
	nx := len(e.xfers)
	err, _ := safely(func() error { return h(cctx) })
	if err != nil {
		e.xfers = e.xfers[:nx]
		return Result{"rej", oneLine(err.Error())}
	}
	write()
	return Result{"ok", ""}
}

// indepProbe (C19): the verdict on a bid or a modification in auction aid must not depend on what the signer has in
// any OTHER auction.  The handler is executed on a discarded fork of the state from which the signer's bids and
// allow-list entries of every other auction have been deleted; the caller compares its accept/reject class with the
// real execution.  Returns probed=false when there is nothing to delete (or the signer string is not an address).
func (e *Env) indepProbe(who string, aid uint64, vb func() error, h func(ctx sdk.Context) error) (string, bool) {
	addr, err := sdk.AccAddressFromBech32(who)
	if err != nil {
		return "", false
	}
	fork, _ := e.ctx.CacheContext()
	var bidKeys []collections.Pair[uint64, uint64]
	_ = e.k.Bid.Walk(fork, nil, func(key collections.Pair[uint64, uint64], b types.Bid) (bool, error) {
		if key.K1() != aid {
			if a2, err := sdk.AccAddressFromBech32(b.Bidder); err == nil && a2.Equals(addr) {
				bidKeys = append(bidKeys, key)
			}
		}
		return false, nil
	})
	var alKeys []collections.Pair[uint64, sdk.AccAddress]
	_ = e.k.AllowedBidder.Walk(fork, nil, func(key collections.Pair[uint64, sdk.AccAddress], ab types.AllowedBidder) (bool, error) {
		if key.K1() != aid && key.K2().Equals(addr) {
			alKeys = append(alKeys, key)
		}
		return false, nil
	})
	if len(bidKeys)+len(alKeys) == 0 {
		return "", false
	}
	for _, k := range bidKeys {
		_ = e.k.Bid.Remove(fork, k)
	}
	for _, k := range alKeys {
		_ = e.k.AllowedBidder.Remove(fork, k)
	}
	nx, nt, bc, saved, no := len(e.xfers), len(e.trace), e.bankCall, e.ctx, len(e.order)
	e.ctx = fork
	r := e.tx(vb, h)
	e.ctx = saved
	e.xfers, e.trace, e.bankCall, e.order = e.xfers[:nx], e.trace[:nt], bc, e.order[:no]
	return r.Class, true
}

// sweepOrders: what types.BidsByPrice yields for every batch auction that is due at time t
func (e *Env) sweepOrders(t time.Time) []string {
	var out []string
	auctions, _ := e.k.Auctions(e.ctx)
	for _, a := range auctions {
		if a.GetType() != types.AuctionTypeBatch || a.GetStatus() != types.AuctionStatusStarted || !a.ShouldAuctionClosed(t) {
			continue
		}
		bids, _ := e.k.GetBidsByAuctionId(e.ctx, a.GetId())
		prices, byPrice := types.BidsByPrice(bids)
		var ids []string
		for _, p := range prices {
			for _, b := range byPrice[p.String()] {
				ids = append(ids, fmt.Sprint(b.Id))
			}
		}
		s := "-"
		if len(ids) > 0 {
			s = strings.Join(ids, ",")
		}
		out = append(out, fmt.Sprintf("ORC a=%d ids=%s", a.GetId(), s))
	}
	return out
}

// Exec runs one operation; pre is what must be logged before the result (oracle lines).
func (e *Env) Exec(o Op) (pre []string, res Result, post []string) {
	f := o.F
	switch o.Kind {
	case "CFA":
		m := &types.MsgCreateFixedPriceAuction{Auctioneer: e.whoStr(f["who"]), StartPrice: pDec(f["price"]), SellingCoin: pCoin(f["sell"]),
			PayingCoinDenom: pDenom(f["pay"]), VestingSchedules: pScheds(f["vs"]), StartTime: pTime(f["start"]), EndTime: pTime(f["end"])}
		res = e.tx(m.ValidateBasic, func(c sdk.Context) error { _, err := e.ms.CreateFixedPriceAuction(c, m); return err })
	case "CBA":
		m := &types.MsgCreateBatchAuction{Auctioneer: e.whoStr(f["who"]), StartPrice: pDec(f["price"]), MinBidPrice: pDec(f["minp"]), SellingCoin: pCoin(f["sell"]),
			PayingCoinDenom: pDenom(f["pay"]), VestingSchedules: pScheds(f["vs"]), MaxExtendedRound: uint32(pU64(f["maxr"])), ExtendedRoundRate: pDec(f["rate"]),
			StartTime: pTime(f["start"]), EndTime: pTime(f["end"])}
		res = e.tx(m.ValidateBasic, func(c sdk.Context) error { _, err := e.ms.CreateBatchAuction(c, m); return err })
	case "CAN":
		m := &types.MsgCancelAuction{Auctioneer: e.whoStr(f["who"]), AuctionId: pU64(f["a"])}
		res = e.tx(m.ValidateBasic, func(c sdk.Context) error { _, err := e.ms.CancelAuction(c, m); return err })
	case "BID":
		m := &types.MsgPlaceBid{Bidder: e.whoStr(f["who"]), AuctionId: pU64(f["a"]), BidType: types.BidType(pU64(f["bt"])), Price: pDec(f["price"]), Coin: pCoin(f["coin"])}
		h := func(c sdk.Context) error { _, err := e.ms.PlaceBid(c, m); return err }
		alt, probed := e.indepProbe(m.Bidder, m.AuctionId, m.ValidateBasic, h)
		res = e.tx(m.ValidateBasic, h)
		if probed {
			post = append(post, fmt.Sprintf("INDEP same=%d alt=%s", b2i(alt == res.Class), alt))
		}
	case "MOD":
		m := &types.MsgModifyBid{Bidder: e.whoStr(f["who"]), AuctionId: pU64(f["a"]), BidId: pU64(f["b"]), Price: pDec(f["price"]), Coin: pCoin(f["coin"])}
		h := func(c sdk.Context) error { _, err := e.ms.ModifyBid(c, m); return err }
		alt, probed := e.indepProbe(m.Bidder, m.AuctionId, m.ValidateBasic, h)
		res = e.tx(m.ValidateBasic, h)
		if probed {
			post = append(post, fmt.Sprintf("INDEP same=%d alt=%s", b2i(alt == res.Class), alt))
		}
	case "ADDMSG":
		m := &types.MsgAddAllowedBidder{AuctionId: pU64(f["a"]), AllowedBidder: types.AllowedBidder{AuctionId: pU64(f["ea"]), Bidder: e.whoStr(f["who"]), MaxBidAmount: pInt(f["max"])}}
		res = e.tx(m.ValidateBasic, func(c sdk.Context) error { _, err := e.ms.AddAllowedBidder(c, m); return err })
	case "PARAMS":
		m := &types.MsgUpdateParams{Authority: e.whoStr(f["auth"]), Params: types.Params{AuctionCreationFee: pCoins(f["cfee"]), PlaceBidFee: pCoins(f["bfee"]), ExtendedPeriod: uint32(pU64(f["period"]))}}
		res = e.tx(nil, func(c sdk.Context) error { _, err := e.ms.UpdateParams(c, m); return err })
	case "APIADD":
		var l []types.AllowedBidder
		if f["l"] != "-" {
			for _, x := range strings.Split(f["l"], ";") {
				p := strings.Split(x, "/")
				l = append(l, types.AllowedBidder{AuctionId: pU64(p[0]), Bidder: e.whoStr(p[1]), MaxBidAmount: pInt(p[2])})
			}
		}
		res = e.tx(nil, func(c sdk.Context) error { return e.k.AddAllowedBidders(c, pU64(f["a"]), l) })
	case "APIUPD":
		res = e.tx(nil, func(c sdk.Context) error {
			return e.k.UpdateAllowedBidder(c, pU64(f["a"]), e.users[pU64(f["u"])], pInt(f["max"]))
		})
	case "SEND":
		amt := pInt(f["amt"])
		res = e.tx(nil, func(c sdk.Context) error {
			if !amt.IsPositive() {
				return fmt.Errorf("non-positive amount")
			}
			return e.app.BankKeeper.SendCoins(c, e.users[pU64(f["from"])], e.addrByName(f["to"]), sdk.NewCoins(sdk.NewCoin(pDenom(f["d"]), amt)))
		})
		if res.Class == "ok" {
			e.xfers = append(e.xfers, Xfer{"u" + f["from"], f["to"], int(pU64(f["d"])), amt})
		}
	case "LOCK":
		// a third party (an account the model does not track) creates a delayed vesting account at the address of an
		// escrow of a future auction and locks a few coins there for a century: the module can receive at that address
		// and spend what it received, but the locked coins are never spendable
		to := e.addrByName(f["to"])
		coins := sdk.NewCoins(sdk.NewCoin(pDenom(f["d"]), pInt(f["amt"])))
		res = e.tx(nil, func(c sdk.Context) error {
			if e.app.AccountKeeper.HasAccount(c, to) {
				return fmt.Errorf("account exists")
			}
			if err := e.app.BankKeeper.MintCoins(c, minttypes.ModuleName, coins); err != nil {
				return err
			}
			base := authtypes.NewBaseAccountWithAddress(to)
			base.AccountNumber = e.app.AccountKeeper.NextAccountNumber(c)
			va, err := vestingtypes.NewDelayedVestingAccount(base, coins, c.BlockTime().Unix()+100*365*86400)
			if err != nil {
				return err
			}
			e.app.AccountKeeper.SetAccount(c, va)
			return e.app.BankKeeper.SendCoinsFromModuleToAccount(c, minttypes.ModuleName, to, coins)
		})
	case "BLOCK", "FBLOCK":
		t := pTime(f["t"])
		pre = e.sweepOrders(t)
		e.ctx = e.ctx.WithBlockTime(t).WithBlockHeight(e.ctx.BlockHeight() + 1)
		e.bankCall = 0
		e.failAt = -1
		if o.Kind == "FBLOCK" {
			e.failAt = int(pU64(f["k"]))
		}
		err, panicked := safely(func() error { return e.k.BeginBlocker(e.ctx) })
		if e.failAt >= 0 && e.bankCall > e.failAt {
			post = append(post, "FAULT fired=1")
		}
		e.failAt = -1
		switch {
		case panicked:
			res = Result{"panic", oneLine(err.Error())}
		case err != nil:
			res = Result{"blockerr", oneLine(err.Error())}
		default:
			res = Result{"blockok", ""}
		}
	case "LISTEN":
		e.listen = nil
		if f["l"] != "none" {
			for _, x := range strings.Split(f["l"], ";") {
				fs := []int{}
				if x != "-" {
					for _, y := range strings.Split(x, ",") {
						n, _ := strconv.Atoi(y)
						fs = append(fs, n)
					}
				}
				e.listen = append(e.listen, fs)
			}
		}
		e.rebuild()
		res = Result{"done", ""}
	case "FUND":
		// harness-level: mint coins to a user (set-up of corpus histories that need unusual balances)
		cs := sdk.NewCoins(sdk.NewCoin(pDenom(f["d"]), pInt(f["amt"])))
		if err := e.app.BankKeeper.MintCoins(e.ctx, minttypes.ModuleName, cs); err != nil {
			panic(err)
		}
		if err := e.app.BankKeeper.SendCoinsFromModuleToAccount(e.ctx, minttypes.ModuleName, e.users[pU64(f["u"])], cs); err != nil {
			panic(err)
		}
		res = Result{"done", ""}
	case "GENESIS":
		res, post = e.genesis()
	case "QUERY":
		res, post = e.query(f)
	default:
		panic("unknown op " + o.Kind)
	}
	return
}

// genesis: export, JSON round trip, validate, wipe the module's store, import.
func (e *Env) genesis() (Result, []string) {
	gs, err := fundraising.ExportGenesis(e.ctx, e.k)
	if err != nil {
		return Result{"generr", "export: " + oneLine(err.Error())}, nil
	}
	cdc := e.app.AppCodec()
	bz, err := cdc.MarshalJSON(gs)
	if err != nil {
		return Result{"generr", "marshal: " + oneLine(err.Error())}, nil
	}
	var gs2 types.GenesisState
	if err := cdc.UnmarshalJSON(bz, &gs2); err != nil {
		return Result{"generr", "unmarshal: " + oneLine(err.Error())}, nil
	}
	valid := "1"
	detail := ""
	if err, _ := safely(gs2.Validate); err != nil {
		valid = "0"
		detail = oneLine(err.Error())
	}
	// wipe the module store
	store := e.ctx.KVStore(e.app.GetKey(types.StoreKey))
	var keys [][]byte
	it := store.Iterator(nil, nil)
	for ; it.Valid(); it.Next() {
		keys = append(keys, append([]byte{}, it.Key()...))
	}
	it.Close()
	for _, k := range keys {
		store.Delete(k)
	}
	if err, _ := safely(func() error { return fundraising.InitGenesis(e.ctx, e.k, gs2) }); err != nil {
		return Result{"generr", "import: " + oneLine(err.Error())}, []string{"GEN validate=" + valid}
	}
	return Result{"genok", detail}, []string{"GEN validate=" + valid}
}

var _ = sort.Strings

// query runs one gRPC query handler and renders the answer in the record format of the state dump
func (e *Env) query(f map[string]string) (Result, []string) {
	out, _, err := e.queryPage(f, &query.PageRequest{Limit: 100000})
	if err != nil {
		return Result{"qerr", oneLine(err.Error())}, nil
	}
	full := append([]string{}, out...)
	for i := range out {
		out[i] = "QR " + strings.TrimPrefix(out[i], "ST ")
	}
	// listings: paging through the answer with a small page size must give exactly the unpaginated answer,
	// and the reported total must be its length (C16: listings return exactly the stored objects that qualify)
	switch f["q"] {
	case "lista", "listb", "listl", "listv":
		limit := uint64(1 + (len(full)+len(f["a"]))%3)
		var paged []string
		var key []byte
		total := uint64(0)
		ok := true
		for it := 0; it < 10000; it++ {
			pr := &query.PageRequest{Limit: limit, Key: key, CountTotal: key == nil}
			lines, res, perr := e.queryPage(f, pr)
			if perr != nil {
				ok = false
				break
			}
			if key == nil && res != nil {
				total = res.Total
			}
			paged = append(paged, lines...)
			if res == nil || len(res.NextKey) == 0 {
				break
			}
			key = res.NextKey
		}
		same := ok && len(paged) == len(full) && total == uint64(len(full))
		if same {
			for i := range full {
				if full[i] != paged[i] {
					same = false
				}
			}
		}
		out = append(out, fmt.Sprintf("QPAGE same=%d limit=%d paged=%d full=%d total=%d", b2i(same), limit, len(paged), len(full), total))
	}
	return Result{"qok", ""}, out
}

// queryPage runs one gRPC query handler with the given page request
func (e *Env) queryPage(f map[string]string, page *query.PageRequest) ([]string, *query.PageResponse, error) {
	var out []string
	var err error
	var pres *query.PageResponse
	opt := func(k string) string {
		if f[k] == "-" {
			return ""
		}
		return f[k]
	}
	e2 := &Env{app: e.app, ctx: e.ctx, k: e.k, users: e.users, userStr: e.userStr, upperStr: e.upperStr, pool: e.pool, gov: e.gov}
	switch f["q"] {
	case "geta":
		var r *types.QueryGetAuctionResponse
		r, err = e.qs.GetAuction(e.ctx, &types.QueryGetAuctionRequest{AuctionId: pU64(f["a"])})
		if err == nil {
			a, _ := types.UnpackAuction(r.Auction)
			out = append(out, e2.auctionLine(a.GetId(), a))
		}
	case "lista":
		st, ty := "", ""
		if f["st"] != "-" {
			st = types.AuctionStatus(pU64(f["st"])).String()
		}
		if f["ty"] != "-" {
			ty = types.AuctionType(pU64(f["ty"])).String()
		}
		var r *types.QueryAllAuctionResponse
		r, err = e.qs.ListAuction(e.ctx, &types.QueryAllAuctionRequest{Status: st, Type: ty, Pagination: page})
		if err == nil {
			pres = r.Pagination
			for _, any := range r.Auction {
				a, _ := types.UnpackAuction(any)
				out = append(out, e2.auctionLine(a.GetId(), a))
			}
		}
	case "getb":
		var r *types.QueryGetBidResponse
		r, err = e.qs.GetBid(e.ctx, &types.QueryGetBidRequest{AuctionId: pU64(f["a"]), BidId: pU64(f["b"])})
		if err == nil {
			out = append(out, e2.bidLine(r.Bid.AuctionId, r.Bid.Id, r.Bid))
		}
	case "listb":
		bidder := ""
		if f["u"] != "-" {
			bidder = e.whoStr(f["u"])
		}
		m := opt("m")
		if m == "1" {
			m = "true"
		} else if m == "0" {
			m = "false"
		}
		var r *types.QueryAllBidResponse
		r, err = e.qs.ListBid(e.ctx, &types.QueryAllBidRequest{AuctionId: pU64(f["a"]), Bidder: bidder, IsMatched: m, Pagination: page})
		if err == nil {
			pres = r.Pagination
			for _, b := range r.Bid {
				out = append(out, e2.bidLine(b.AuctionId, b.Id, b))
			}
		}
	case "getl":
		var r *types.QueryGetAllowedBidderResponse
		r, err = e.qs.GetAllowedBidder(e.ctx, &types.QueryGetAllowedBidderRequest{AuctionId: pU64(f["a"]), Bidder: e.userStr[pU64(f["u"])]})
		if err == nil {
			out = append(out, e2.allowedLine(r.AllowedBidder))
		}
	case "listl":
		var r *types.QueryAllAllowedBidderResponse
		r, err = e.qs.ListAllowedBidder(e.ctx, &types.QueryAllAllowedBidderRequest{AuctionId: pU64(f["a"]), Pagination: page})
		if err == nil {
			pres = r.Pagination
			for _, ab := range r.AllowedBidder {
				out = append(out, e2.allowedLine(ab))
			}
		}
	case "listv":
		var r *types.QueryAllVestingQueueResponse
		r, err = e.qs.ListVestingQueue(e.ctx, &types.QueryAllVestingQueueRequest{AuctionId: pU64(f["a"]), Pagination: page})
		if err == nil {
			pres = r.Pagination
			for _, v := range r.VestingQueue {
				out = append(out, e2.vqLine(v))
			}
		}
	case "params":
		var r *types.QueryParamsResponse
		r, err = e.qs.Params(e.ctx, &types.QueryParamsRequest{})
		if err == nil {
			out = append(out, fmt.Sprintf("ST P %s %s %d", encCoins(r.Params.AuctionCreationFee), encCoins(r.Params.PlaceBidFee), r.Params.ExtendedPeriod))
		}
	}
	return out, pres, err
}
