package main

import (
	"context"
	"fmt"
	"strings"

	"github.com/tendermint/fundraising/x/fundraising/keeper"
	fundraising "github.com/tendermint/fundraising/x/fundraising/module"
	"github.com/tendermint/fundraising/x/fundraising/types"
)

// wiringProbe: the application hands the listeners of other modules to the keeper through module.InvokeSetHooks
// (a map from module name to listener).  The stock application has no such module, so no generated history can show
// in which order several of them would be called; this probe calls the wiring function itself with six named
// listeners, forty times on fresh keepers, fires one hook and records the order in which the listeners were reached.
// Every execution must give the same order (C14), and it is the lexical order of the module names the code promises.
func wiringProbe() string {
	names := []string{"vesting", "alpha", "zeta", "bank", "gov", "mint"}
	orders := map[string]int{}
	first := ""
	for i := 0; i < 40; i++ {
		e := &Env{}
		hooks := map[string]types.FundraisingHooks{}
		for j, n := range names {
			hooks[n] = &listener{e: e, idx: j}
		}
		k := &keeper.Keeper{}
		var err error
		func() {
			defer func() {
				if r := recover(); r != nil {
					err = fmt.Errorf("panic: %v", r)
				}
			}()
			if err = fundraising.InvokeSetHooks(k, hooks); err == nil {
				err = k.BeforeAuctionCanceled(context.Background(), 0, "x")
			}
		}()
		if err != nil {
			return "WIRING error=" + oneLine(err.Error())
		}
		var got []string
		for _, t := range e.trace {
			var li, kind int
			fmt.Sscanf(t, "%d %d", &li, &kind)
			got = append(got, names[li])
		}
		o := strings.Join(got, ",")
		if i == 0 {
			first = o
		}
		orders[o]++
	}
	other := ""
	for o := range orders {
		if o != first {
			other = o
		}
	}
	return fmt.Sprintf("WIRING runs=40 distinct=%d first=%s other=%s lexical=%d", len(orders), first, other, b2i(first == "alpha,bank,gov,mint,vesting,zeta"))
}
