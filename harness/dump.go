package main

import (
	"fmt"
	"strings"
	"time"

	"cosmossdk.io/collections"
	sdk "github.com/cosmos/cosmos-sdk/types"

	"github.com/tendermint/fundraising/x/fundraising/types"
)

func b2i(b bool) int {
	if b {
		return 1
	}
	return 0
}

func encCoins(cs sdk.Coins) string {
	if len(cs) == 0 {
		return "-"
	}
	var p []string
	for _, c := range cs {
		p = append(p, fmt.Sprintf("%d:%s", denomIdx(c.Denom), c.Amount))
	}
	return strings.Join(p, ",")
}

// Dump writes the complete module state and the tracked balances, one record per line.
func (e *Env) Dump() []string {
	var out []string
	ctx := e.ctx
	k := e.k
	p, _ := k.Params.Get(ctx)
	out = append(out, fmt.Sprintf("ST P %s %s %d", encCoins(p.AuctionCreationFee), encCoins(p.PlaceBidFee), p.ExtendedPeriod))
	seq, _ := k.AuctionSeq.Peek(ctx)
	out = append(out, fmt.Sprintf("ST Q %d", seq))
	_ = k.Auction.Walk(ctx, nil, func(key uint64, a types.AuctionI) (bool, error) {
		out = append(out, e.auctionLine(key, a))
		return false, nil
	})
	_ = k.Bid.Walk(ctx, nil, func(key collections.Pair[uint64, uint64], b types.Bid) (bool, error) {
		out = append(out, e.bidLine(key.K1(), key.K2(), b))
		return false, nil
	})
	_ = k.AllowedBidder.Walk(ctx, nil, func(key collections.Pair[uint64, sdk.AccAddress], ab types.AllowedBidder) (bool, error) {
		name := e.addrName(key.K2(), seq)
		ok := ab.AuctionId == key.K1() && ab.Bidder == key.K2().String()
		who := strings.TrimPrefix(name, "u")
		if !strings.HasPrefix(name, "u") {
			// an entry for an account that is none of the users: the module authority is account 900 of the model
			// (the driver reads the signer "gov" as that account), anything else 999
			who = "999"
			if key.K2().String() == e.gov {
				who = "900"
			}
		}
		out = append(out, fmt.Sprintf("ST L %d %s %s %d", key.K1(), who, ab.MaxBidAmount, b2i(ok)))
		return false, nil
	})
	_ = k.VestingQueue.Walk(ctx, nil, func(key collections.Pair[uint64, time.Time], v types.VestingQueue) (bool, error) {
		l := e.vqLine(v)
		if !(v.AuctionId == key.K1() && v.ReleaseTime.Equal(key.K2())) {
			l = l[:len(l)-1] + "0"
		}
		out = append(out, l)
		return false, nil
	})
	return e.dumpRest(out, seq)
}

func (e *Env) vqLine(v types.VestingQueue) string {
	enc := e.encAddrStr(v.Auctioneer)
	u := "-1"
	if strings.HasPrefix(enc, "0 ") {
		u = enc[2:]
	}
	return fmt.Sprintf("ST V %d %s %s %d %s %d 1", v.AuctionId, encTime(v.ReleaseTime), u, denomIdx(v.PayingCoin.Denom), v.PayingCoin.Amount, b2i(v.Released))
}

func (e *Env) allowedLine(ab types.AllowedBidder) string {
	enc := e.encAddrStr(ab.Bidder)
	u := "-1"
	if strings.HasPrefix(enc, "0 ") {
		u = enc[2:]
	}
	return fmt.Sprintf("ST L %d %s %s 1", ab.AuctionId, u, ab.MaxBidAmount)
}

func (e *Env) bidLine(ka, kb uint64, b types.Bid) string {
	ok := b.AuctionId == ka && b.Id == kb
	enc := e.encAddrStr(b.Bidder)
	u := "-1"
	if strings.HasPrefix(enc, "0 ") {
		u = enc[2:]
	} else if strings.HasPrefix(enc, "1 ") {
		// the account is known but recorded in another spelling than the canonical one: the record keeps its
		// owner (so that every later check about this bidder sees the bid) and the consistency flag says no
		u = enc[2:]
		ok = false
	}
	return fmt.Sprintf("ST B %d %d %s %d %s %d %s %d %d", ka, kb, u, int(b.Type), encDec(b.Price),
		denomIdx(b.Coin.Denom), b.Coin.Amount, b2i(b.IsMatched), b2i(ok))
}

func (e *Env) auctionLine(key uint64, a types.AuctionI) string {
	{
		resok := a.GetSellingReserveAddress().Equals(types.SellingReserveAddress(key)) &&
			a.GetPayingReserveAddress().Equals(types.PayingReserveAddress(key)) &&
			a.GetVestingReserveAddress().Equals(types.VestingReserveAddress(key)) && a.GetId() == key
		var base *types.BaseAuction
		rem, minp, mp, maxr, rate := "0", "0", "0", "0", "0"
		switch x := a.(type) {
		case *types.FixedPriceAuction:
			base = x.BaseAuction
			rem = x.RemainingSellingCoin.Amount.String()
			if x.RemainingSellingCoin.Denom != x.SellingCoin.Denom {
				resok = false
			}
		case *types.BatchAuction:
			base = x.BaseAuction
			minp, mp, maxr, rate = encDec(x.MinBidPrice), encDec(x.MatchedPrice), fmt.Sprint(x.MaxExtendedRound), encDec(x.ExtendedRoundRate)
		}
		ends := fmt.Sprint(len(base.EndTimes))
		for _, t := range base.EndTimes {
			ends += " " + encTime(t)
		}
		return fmt.Sprintf("ST A %d %d %s %d %s %d %s %d %s %s %s %d %s %s %s %s %s",
			key, int(base.Type), e.encAddrStr(base.Auctioneer), b2i(resok), encDec(base.StartPrice),
			denomIdx(base.SellingCoin.Denom), base.SellingCoin.Amount, denomIdx(base.PayingCoinDenom),
			encScheds(base.VestingSchedules), encTime(base.StartTime), ends, int(base.Status), rem, minp, mp, maxr, rate)
	}
}

func (e *Env) dumpRest(out []string, seq uint64) []string {
	ctx := e.ctx
	k := e.k
	_ = k.BidSeq.Walk(ctx, nil, func(key uint64, v uint64) (bool, error) {
		out = append(out, fmt.Sprintf("ST S %d %d", key, v))
		return false, nil
	})
	_ = k.MatchedBidsLen.Walk(ctx, nil, func(key uint64, v int64) (bool, error) {
		if v != 0 {
			out = append(out, fmt.Sprintf("ST M %d %d", key, v))
		}
		return false, nil
	})
	// balances
	bal := func(name string, a sdk.AccAddress) {
		for i, d := range Denoms {
			// what the account can spend: coins a third party locked in a vesting account at an escrow address
			// (operation LOCK) are not the module's to move and are invisible to the model
			amt := e.app.BankKeeper.SpendableCoin(ctx, a, d).Amount
			if !amt.IsZero() {
				out = append(out, fmt.Sprintf("ST BAL %s %d %s", name, i, amt))
			}
		}
	}
	for i, u := range e.users {
		bal(fmt.Sprintf("u%d", i), u)
	}
	bal("pool", e.pool)
	for id := uint64(0); id < seq+2; id++ {
		bal(fmt.Sprintf("es%d", id), types.SellingReserveAddress(id))
		bal(fmt.Sprintf("ep%d", id), types.PayingReserveAddress(id))
		bal(fmt.Sprintf("ev%d", id), types.VestingReserveAddress(id))
	}
	out = append(out, fmt.Sprintf("ST NOW %d", ctx.BlockTime().UnixNano()))
	return out
}
