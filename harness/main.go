package main

import (
	"bufio"
	"flag"
	"fmt"
	"os"
	"strings"

	"github.com/tendermint/fundraising/x/fundraising/keeper"
)

// runHistory executes one history (generated on the fly or replayed) and writes its log
func runHistory(w *bufio.Writer, id int, profile string, seed uint64, nOps int, replay []Op) {
	e := NewEnv()
	fmt.Fprintf(w, "HIST id=%d gen=%s seed=%d switch=%d\n", id, profile, seed, b2i(keeper.EnableAddAllowedBidder))
	for _, l := range e.Dump() {
		fmt.Fprintln(w, l)
	}
	fmt.Fprintln(w, "END")
	var g *Gen
	if replay == nil {
		g = NewGen(seed, e, profile)
	}
	for i := 0; ; i++ {
		var o Op
		if replay != nil {
			if i >= len(replay) {
				break
			}
			o = replay[i]
		} else {
			if i >= nOps {
				break
			}
			o = g.Next()
		}
		nx, nt := len(e.xfers), len(e.trace)
		pre, res, post := e.Exec(o)
		fmt.Fprintln(w, o.String())
		for _, l := range pre {
			fmt.Fprintln(w, l)
		}
		fmt.Fprintf(w, "RES %s %s\n", res.Class, res.Detail)
		for _, x := range e.xfers[nx:] {
			fmt.Fprintf(w, "X %s %s %d %s\n", x.From, x.To, x.Denom, x.Amt)
		}
		for _, t := range e.trace[nt:] {
			fmt.Fprintf(w, "H %s\n", t)
		}
		for _, l := range post {
			fmt.Fprintln(w, l)
		}
		for _, l := range e.Dump() {
			fmt.Fprintln(w, l)
		}
		fmt.Fprintln(w, "END")
		if res.Class == "blockerr" || res.Class == "panic" || res.Class == "generr" {
			break // the chain has halted
		}
	}
	fmt.Fprintln(w, "HEND")
}

func main() {
	seed := flag.Uint64("seed", 1, "seed")
	n := flag.Int("n", 10, "number of histories")
	ops := flag.Int("ops", 40, "operations per history")
	first := flag.Int("first", 0, "index of the first history (for sharding)")
	profile := flag.String("profile", "", "generator profile (default: rotate)")
	replay := flag.String("replay", "", "file with OP lines (several histories separated by HIST lines) to execute instead of generating")
	out := flag.String("out", "-", "output file")
	flag.Parse()

	var f *os.File = os.Stdout
	if *out != "-" {
		var err error
		f, err = os.Create(*out)
		if err != nil {
			panic(err)
		}
		defer f.Close()
	}
	w := bufio.NewWriterSize(f, 1<<20)
	defer w.Flush()

	if *replay != "" {
		data, err := os.ReadFile(*replay)
		if err != nil {
			panic(err)
		}
		var hists [][]Op
		var names []string
		cur := -1
		for _, line := range strings.Split(string(data), "\n") {
			line = strings.TrimSpace(line)
			switch {
			case strings.HasPrefix(line, "HIST"):
				hists = append(hists, []Op{})
				names = append(names, line)
				cur = len(hists) - 1
			case strings.HasPrefix(line, "OP "):
				if cur < 0 {
					hists = append(hists, []Op{})
					names = append(names, "HIST")
					cur = 0
				}
				hists[cur] = append(hists[cur], ParseOp(line))
			}
		}
		for i, h := range hists {
			runHistory(w, *first+i, "replay", 0, 0, h)
		}
		return
	}
	for i := 0; i < *n; i++ {
		id := *first + i
		p := *profile
		if p == "" {
			p = profileOrder[id%len(profileOrder)]
		}
		s := *seed*1000003 + uint64(id)*7919 + 17
		nops := *ops
		runHistory(w, id, p, s, nops, nil)
	}
}
