package main

import (
	"bufio"
	"bytes"
	"crypto/sha256"
	"flag"
	"fmt"
	"os"
	"strings"

	sdk "github.com/cosmos/cosmos-sdk/types"

	"github.com/tendermint/fundraising/x/fundraising/keeper"
)

// runHistory executes one history (generated on the fly or replayed) and writes its log
// replayMeta: the HIST line of the history being replayed (its settings are restored)
var replayMeta string

func runHistory(w *bufio.Writer, id int, profile string, seed uint64, nOps int, replay []Op) {
	e := NewEnv()
	// every eleventh generated history runs as a testing build does: the switch that enables MsgAddAllowedBidder is
	// turned on for its duration (forced=1 tells the driver that this is the harness's doing, not the binary's)
	forced := 0
	if replay == nil && id%11 == 5 && !keeper.EnableAddAllowedBidder {
		forced = 1
	}
	for _, f := range strings.Fields(replayMeta) {
		if f == "forced=1" {
			forced = 1
		}
	}
	if forced == 1 {
		keeper.EnableAddAllowedBidder = true
		defer func() { keeper.EnableAddAllowedBidder = false }()
	}
	fmt.Fprintf(w, "HIST id=%d gen=%s seed=%d switch=%d t0=%d forced=%d\n", id, profile, seed, b2i(keeper.EnableAddAllowedBidder), T0, forced)
	for _, l := range e.Dump() {
		fmt.Fprintln(w, l)
	}
	fmt.Fprintln(w, "END")
	var g *Gen
	if replay == nil {
		g = NewGen(seed, e, profile)
		if forced == 1 {
			g.w = map[string]int{}
			for k, v := range profiles[profile] {
				g.w[k] = v
			}
			g.w["ADDMSG"] = 14
		}
	}
	for i := 0; ; i++ {
		var o Op
		if replay != nil {
			if i >= len(replay) {
				break
			}
			o = replay[i]
		} else {
			if (i >= nOps && !g.Busy()) || i >= nOps+170 {
				break
			}
			o = g.SafeNext()
		}
		nx, nt := len(e.xfers), len(e.trace)
		e.order = e.order[:0]
		e.hookViol = e.hookViol[:0]
		e.ctx = e.ctx.WithEventManager(sdk.NewEventManager())
		pre, res, post := e.Exec(o)
		evh := sha256.New()
		nev := 0
		for _, ev := range e.ctx.EventManager().Events() {
			nev++
			evh.Write([]byte(ev.Type))
			for _, a := range ev.Attributes {
				evh.Write([]byte("|" + a.Key + "=" + a.Value))
			}
			evh.Write([]byte("\n"))
		}
		fmt.Fprintln(w, o.String())
		for _, l := range pre {
			fmt.Fprintln(w, l)
		}
		fmt.Fprintf(w, "RES %s %s\n", res.Class, res.Detail)
		for _, x := range e.xfers[nx:] {
			fmt.Fprintf(w, "X %s %s %d %s\n", x.From, x.To, x.Denom, x.Amt)
		}
		for _, t := range e.trace[nt:] {
			fmt.Fprintf(w, "H %s\n", t)
		}
		for _, l := range post {
			fmt.Fprintln(w, l)
		}
		if len(e.order) > 0 && (res.Class == "blockok" || res.Class == "ok") {
			fmt.Fprintf(w, "ORDER %s\n", strings.Join(e.order, " "))
		}
		for _, v := range e.hookViol {
			fmt.Fprintf(w, "HOOKCHECK %s\n", v)
		}
		fmt.Fprintf(w, "EVH n=%d h=%x\n", nev, evh.Sum(nil)[:8])
		if res.Class != "blockerr" && res.Class != "panic" && res.Class != "generr" && o.Kind != "QUERY" {
			fmt.Fprintf(w, "MINV %s\n", e.moduleInvariants())
		}
		for _, l := range e.Dump() {
			fmt.Fprintln(w, l)
		}
		fmt.Fprintln(w, "END")
		if res.Class == "blockerr" || res.Class == "panic" || res.Class == "generr" {
			break // the chain has halted
		}
	}
	fmt.Fprintln(w, "HEND")
}

func main() {
	seed := flag.Uint64("seed", 1, "seed")
	n := flag.Int("n", 10, "number of histories")
	ops := flag.Int("ops", 40, "operations per history")
	first := flag.Int("first", 0, "index of the first history (for sharding)")
	profile := flag.String("profile", "", "generator profile (default: rotate)")
	replay := flag.String("replay", "", "file with OP lines (several histories separated by HIST lines) to execute instead of generating")
	out := flag.String("out", "-", "output file")
	full := flag.Bool("fullapp", false, "execute every history on the shortcut path and through the application (signed transactions, FinalizeBlock) and compare")
	det := flag.Int("det", 1, "run every history this many times in-process and report differing logs (NONDET lines)")
	sim := flag.Bool("sim", false, "execute every message first on a discarded branch of the state, as a node does in CheckTx and for gas estimation; the log must be the same as without")
	flag.Parse()
	simulateFirst = *sim

	var f *os.File = os.Stdout
	if *out != "-" {
		var err error
		f, err = os.Create(*out)
		if err != nil {
			panic(err)
		}
		defer f.Close()
	}
	w := bufio.NewWriterSize(f, 1<<20)
	defer w.Flush()

	if *det > 1 {
		fmt.Fprintln(w, wiringProbe())
	}
	if *replay != "" {
		data, err := os.ReadFile(*replay)
		if err != nil {
			panic(err)
		}
		var hists [][]Op
		var names []string
		cur := -1
		for _, line := range strings.Split(string(data), "\n") {
			line = strings.TrimSpace(line)
			switch {
			case strings.HasPrefix(line, "HIST"):
				hists = append(hists, []Op{})
				names = append(names, line)
				cur = len(hists) - 1
			case strings.HasPrefix(line, "OP "):
				if cur < 0 {
					hists = append(hists, []Op{})
					names = append(names, "HIST")
					cur = 0
				}
				hists[cur] = append(hists[cur], ParseOp(line))
			}
		}
		for i, h := range hists {
			// a replayed history starts at the time its original started at
			T0 = tFuture
			for _, f := range strings.Fields(names[i]) {
				if strings.HasPrefix(f, "t0=") {
					fmt.Sscanf(f[3:], "%d", &T0)
				}
				if f == "gen=extreme" {
					extremeFunds = true
				}
			}
			replayMeta = names[i]
			runHistory(w, *first+i, "replay", 0, 0, h)
			replayMeta = ""
			extremeFunds = false
		}
		return
	}
	if *full {
		profs := []string{"fixed", "batch", "multi", "crowd", "malformed"}
		steps, txs, diffs := 0, 0, 0
		for i := 0; i < *n; i++ {
			id := *first + i
			p := *profile
			if p == "" {
				p = profs[id%len(profs)]
			}
			s, t, d := runFullApp(w, id, p, *seed*1000003+uint64(id)*7919+29, *ops)
			steps += s
			txs += t
			fmt.Fprintln(w, "HEND")
			if d != "" {
				diffs++
				fmt.Fprintf(w, "FULLDIFF hist=%d %s gen=fullapp-%s seed=%d\n", id, d, p, *seed*1000003+uint64(id)*7919+29)
			}
		}
		fmt.Fprintf(w, "FULLSUMMARY histories=%d steps=%d transactions=%d accepted=%d foreign_signatures=%d blocks=%d app_exports=%d diffs=%d\n", *n, steps, txs, acceptedTotal, foreignTotal, blocksTotal, appExports, diffs)
		return
	}
	for i := 0; i < *n; i++ {
		id := *first + i
		p := *profile
		if p == "" {
			p = profileOrder[id%len(profileOrder)]
		}
		s := *seed*1000003 + uint64(id)*7919 + 17
		extremeFunds = (p == "extreme")
		T0 = tFuture
		if id%7 == 3 {
			T0 = tPast
		}
		nops := *ops
		if *det > 1 {
			// the same history several times in this process: every line of the log must be identical
			var ref []byte
			for k := 0; k < *det; k++ {
				var buf bytes.Buffer
				bw := bufio.NewWriter(&buf)
				runHistory(bw, id, p, s, nops, nil)
				bw.Flush()
				if k == 0 {
					ref = buf.Bytes()
					w.Write(ref)
					continue
				}
				if !bytes.Equal(ref, buf.Bytes()) {
					a, b := strings.Split(string(ref), "\n"), strings.Split(buf.String(), "\n")
					line, step, lastOp := 0, -1, ""
					for line < len(a) && line < len(b) && a[line] == b[line] {
						if strings.HasPrefix(a[line], "OP ") {
							step++
							lastOp = a[line]
						}
						line++
					}
					x, y := "", ""
					if line < len(a) {
						x = a[line]
					}
					if line < len(b) {
						y = b[line]
					}
					fmt.Fprintf(w, "NONDET hist=%d run=%d step=%d op=[%s] first=[%s] other=[%s]\n", id, k, step, lastOp, x, y)
				}
			}
			continue
		}
		runHistory(w, id, p, s, nops, nil)
	}
}
