package main

import (
	"fmt"
	"os"

	sdk "github.com/cosmos/cosmos-sdk/types"

	"github.com/tendermint/fundraising/x/fundraising/keeper"
)

var devNull, _ = os.OpenFile(os.DevNull, os.O_WRONLY, 0)

// moduleInvariants runs the module's own three invariants (keeper/invariants.go) on the current state;
// 1 = reported broken.  The functions print to standard output, which is silenced for the call.
func (e *Env) moduleInvariants() (out string) {
	saved := os.Stdout
	if devNull != nil {
		os.Stdout = devNull
	}
	defer func() {
		os.Stdout = saved
		if r := recover(); r != nil {
			out = fmt.Sprintf("panic=%v", r)
		}
	}()
	ctx := sdk.UnwrapSDKContext(e.ctx)
	_, s := keeper.SellingPoolReserveAmountInvariant(e.k)(ctx)
	_, p := keeper.PayingPoolReserveAmountInvariant(e.k)(ctx)
	_, v := keeper.VestingPoolReserveAmountInvariant(e.k)(ctx)
	_, all := keeper.AllInvariants(e.k)(ctx)
	return fmt.Sprintf("s=%d p=%d v=%d all=%d", b2i(s), b2i(p), b2i(v), b2i(all))
}
