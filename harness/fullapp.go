package main

// Full-application path (translation validation of the harness shortcut, and of the application wiring):
// the same generated history is executed twice,
//   A  the way every other run of this harness executes it: ValidateBasic + msg server on a CacheContext of the
//      keeper under test, BeginBlocker called directly;
//   B  through the application as a node runs it: every message is a signed single-message transaction delivered by
//      FinalizeBlock/Commit (ante handler, signature verification against the signer the message declares, message
//      router, baseapp's own ValidateBasic call and rollback), every block runs the module manager's BeginBlock.
// After every operation the result class and the complete module state and user / escrow balances must be equal.
// A block of B runs BeginBlocker before its transaction, so in A every transaction is preceded by a block at the
// current time.

import (
	"bufio"
	"encoding/json"
	"fmt"
	"math/rand"
	"os"
	"sort"
	"strings"
	"time"

	abci "github.com/cometbft/cometbft/abci/types"
	cmtproto "github.com/cometbft/cometbft/proto/tendermint/types"
	"github.com/cosmos/cosmos-sdk/client"
	"github.com/cosmos/cosmos-sdk/crypto/keys/secp256k1"
	cryptotypes "github.com/cosmos/cosmos-sdk/crypto/types"
	simtestutil "github.com/cosmos/cosmos-sdk/testutil/sims"
	sdk "github.com/cosmos/cosmos-sdk/types"
	authtx "github.com/cosmos/cosmos-sdk/x/auth/tx"

	fundraising "github.com/tendermint/fundraising/x/fundraising/module"
	"github.com/tendermint/fundraising/x/fundraising/types"
)

// keyed users: the same deterministic secret gives the same address in A and in B
func keyedUsers() ([]cryptotypes.PrivKey, []sdk.AccAddress) {
	type ku struct {
		k cryptotypes.PrivKey
		a sdk.AccAddress
	}
	var l []ku
	for i := 0; i < NUsers; i++ {
		k := secp256k1.GenPrivKeyFromSecret([]byte(fmt.Sprintf("verif-user-%d", i)))
		l = append(l, ku{k, sdk.AccAddress(k.PubKey().Address())})
	}
	sort.Slice(l, func(i, j int) bool { return l[i].a.String() < l[j].a.String() })
	var ks []cryptotypes.PrivKey
	var as []sdk.AccAddress
	for _, x := range l {
		ks = append(ks, x.k)
		as = append(as, x.a)
	}
	return ks, as
}

var foreignTotal, acceptedTotal, blocksTotal int

type FullEnv struct {
	*Env
	keys   []cryptotypes.PrivKey
	height int64
	now    time.Time
	rnd    *rand.Rand
	txCfg  client.TxConfig
}

func (b *FullEnv) header() cmtproto.Header {
	return cmtproto.Header{ChainID: "verif-1", Height: b.height, Time: b.now}
}

// a context on the committed store, for reads and for the operations that are not transactions
func (b *FullEnv) refresh() {
	b.ctx = b.app.BaseApp.NewUncachedContext(false, b.header())
}

// one block at time t carrying the given transactions; returns the codes of the transaction results
func (b *FullEnv) block(t time.Time, txs [][]byte) (codes []uint32, logs []string, err error) {
	b.height++
	blocksTotal++
	b.now = t
	var res *abci.ResponseFinalizeBlock
	e1, _ := safely(func() error {
		var e error
		res, e = b.app.FinalizeBlock(&abci.RequestFinalizeBlock{Height: b.height, Time: t, Txs: txs})
		return e
	})
	if e1 != nil {
		return nil, nil, e1
	}
	if _, e2 := b.app.Commit(); e2 != nil {
		return nil, nil, e2
	}
	for _, r := range res.TxResults {
		codes = append(codes, r.Code)
		logs = append(logs, oneLine(r.Log))
	}
	b.refresh()
	return codes, logs, nil
}

func newFullEnv(a *Env) *FullEnv {
	keys, users := keyedUsers()
	e := NewEnvWith(users)
	b := &FullEnv{Env: e, keys: keys, rnd: rand.New(rand.NewSource(7))}
	b.txCfg = authtx.NewTxConfig(e.app.AppCodec(), authtx.DefaultSignModes)
	// the application's own keeper (no recording wrappers, no listeners): what a node runs
	b.k = b.app.FundraisingKeeper
	b.now = a.ctx.BlockTime()
	return b
}

// buildMsg: the message of a transaction operation and the index of the user who signs it (-1: no usable signer)
func (e *Env) buildMsg(o Op) (sdk.Msg, int) {
	f := o.F
	signer := func(s string) int {
		if strings.HasPrefix(s, "u") || strings.HasPrefix(s, "U") {
			return int(pU64(s[1:]))
		}
		return -1
	}
	switch o.Kind {
	case "CFA":
		return &types.MsgCreateFixedPriceAuction{Auctioneer: e.whoStr(f["who"]), StartPrice: pDec(f["price"]), SellingCoin: pCoin(f["sell"]),
			PayingCoinDenom: pDenom(f["pay"]), VestingSchedules: pScheds(f["vs"]), StartTime: pTime(f["start"]), EndTime: pTime(f["end"])}, signer(f["who"])
	case "CBA":
		return &types.MsgCreateBatchAuction{Auctioneer: e.whoStr(f["who"]), StartPrice: pDec(f["price"]), MinBidPrice: pDec(f["minp"]), SellingCoin: pCoin(f["sell"]),
			PayingCoinDenom: pDenom(f["pay"]), VestingSchedules: pScheds(f["vs"]), MaxExtendedRound: uint32(pU64(f["maxr"])), ExtendedRoundRate: pDec(f["rate"]),
			StartTime: pTime(f["start"]), EndTime: pTime(f["end"])}, signer(f["who"])
	case "CAN":
		return &types.MsgCancelAuction{Auctioneer: e.whoStr(f["who"]), AuctionId: pU64(f["a"])}, signer(f["who"])
	case "BID":
		return &types.MsgPlaceBid{Bidder: e.whoStr(f["who"]), AuctionId: pU64(f["a"]), BidType: types.BidType(pU64(f["bt"])), Price: pDec(f["price"]), Coin: pCoin(f["coin"])}, signer(f["who"])
	case "MOD":
		return &types.MsgModifyBid{Bidder: e.whoStr(f["who"]), AuctionId: pU64(f["a"]), BidId: pU64(f["b"]), Price: pDec(f["price"]), Coin: pCoin(f["coin"])}, signer(f["who"])
	case "ADDMSG":
		return &types.MsgAddAllowedBidder{AuctionId: pU64(f["a"]), AllowedBidder: types.AllowedBidder{AuctionId: pU64(f["ea"]), Bidder: e.whoStr(f["who"]), MaxBidAmount: pInt(f["max"])}}, signer(f["who"])
	}
	return nil, -1
}

// deliver: one signed single-message transaction in its own block at the current time
func (b *FullEnv) deliver(o Op, signAs int) Result {
	msg, who := b.buildMsg(o)
	if signAs >= 0 {
		who = signAs
	} else if os.Getenv("FULLAPP_SELFTEST") == "wrongkey" && who >= 0 {
		who = (who + 1) % NUsers // self-test of the comparison: every transaction is signed by the wrong account
	}
	if who < 0 || who >= len(b.keys) {
		who = 0 // a message without a usable signer string: any key, the transaction must be refused
	}
	acc := b.app.AccountKeeper.GetAccount(b.ctx, b.users[who])
	if acc == nil {
		return Result{"rej", "signer has no account"}
	}
	var txBytes []byte
	err, _ := safely(func() error {
		tx, e := simtestutil.GenSignedMockTx(b.rnd, b.txCfg, []sdk.Msg{msg}, sdk.Coins{}, 50_000_000, "verif-1",
			[]uint64{acc.GetAccountNumber()}, []uint64{acc.GetSequence()}, b.keys[who])
		if e != nil {
			return e
		}
		txBytes, e = b.txCfg.TxEncoder()(tx)
		return e
	})
	if err != nil {
		// a message that cannot even be encoded never reaches a node
		if _, _, e := b.block(b.now, nil); e != nil {
			return Result{"blockerr", oneLine(e.Error())}
		}
		return Result{"rej", "encode: " + oneLine(err.Error())}
	}
	codes, logs, e := b.block(b.now, [][]byte{txBytes})
	if e != nil {
		return Result{"blockerr", oneLine(e.Error())}
	}
	if len(codes) == 1 && codes[0] == 0 {
		return Result{"ok", ""}
	}
	return Result{"rej", strings.Join(logs, " ")}
}

// projOf names the projection (as the driver does) that a differing dump line belongs to
func projOf(x, y string) string {
	l := x
	if l == "" {
		l = y
	}
	f := strings.Fields(l)
	if len(f) < 2 {
		return "state"
	}
	switch f[1] {
	case "A":
		return "auction.status+auction.end_times+auction.remaining+auction.matched_price"
	case "B":
		return "bid.terms+bid.flag"
	case "L":
		return "allowed"
	case "V":
		return "vqueue"
	case "Q", "S":
		return "seq"
	case "M":
		return "matched_len"
	case "BAL":
		if len(f) > 2 && strings.HasPrefix(f[2], "u") {
			return "bal.user"
		}
		return "bal.escrow"
	}
	return "state"
}

func filterDump(l []string) []string {
	var out []string
	for _, x := range l {
		if strings.HasPrefix(x, "ST BAL pool") {
			continue // the distribution module account also receives the application's own inflation
		}
		out = append(out, x)
	}
	return out
}

var appExports int

// appExport: what a node operator gets from `fundraisingd export` (app/export.go -> module manager ->
// AppModule.ExportGenesis) must carry the same fundraising genesis as the module-level export used by the GENESIS
// operation of the shortcut path, and must pass the module's ValidateGenesis as the application calls it
func (b *FullEnv) appExport() (diff string) {
	defer func() {
		if r := recover(); r != nil {
			diff = fmt.Sprintf("proj=genesis.app_export model=[module-level export] impl=[application export panicked: %v]", r)
		}
	}()
	appExports++
	exp, err := b.app.ExportAppStateAndValidators(false, nil, nil)
	if err != nil {
		return "proj=genesis.app_export model=[module-level export] impl=[application export failed: " + oneLine(err.Error()) + "]"
	}
	var state map[string]json.RawMessage
	if err := json.Unmarshal(exp.AppState, &state); err != nil {
		return "proj=genesis.app_export model=[module-level export] impl=[application state is not a JSON object: " + oneLine(err.Error()) + "]"
	}
	raw, ok := state[types.ModuleName]
	if !ok {
		return "proj=genesis.app_export model=[module-level export] impl=[the application export has no fundraising section]"
	}
	cdc := b.app.AppCodec()
	if err := fundraising.NewAppModuleBasic(cdc).ValidateGenesis(cdc, b.txCfg, raw); err != nil {
		return "proj=genesis.app_export model=[valid] impl=[ValidateGenesis rejects the application's own export: " + oneLine(err.Error()) + "]"
	}
	var gs types.GenesisState
	if err := cdc.UnmarshalJSON(raw, &gs); err != nil {
		return "proj=genesis.app_export model=[module-level export] impl=[cannot decode: " + oneLine(err.Error()) + "]"
	}
	direct, err := fundraising.ExportGenesis(b.ctx, b.k)
	if err != nil {
		return "proj=genesis.app_export model=[module-level export failed: " + oneLine(err.Error()) + "] impl=[application export ok]"
	}
	x, y := string(cdc.MustMarshalJSON(direct)), string(cdc.MustMarshalJSON(&gs))
	if x != y {
		i := 0
		for i < len(x) && i < len(y) && x[i] == y[i] {
			i++
		}
		lo := i - 60
		if lo < 0 {
			lo = 0
		}
		cut := func(s string) string {
			hi := i + 80
			if hi > len(s) {
				hi = len(s)
			}
			if lo > len(s) {
				return ""
			}
			return s[lo:hi]
		}
		return "proj=genesis.app_export model=[module-level: ..." + cut(x) + "] impl=[application: ..." + cut(y) + "]"
	}
	return ""
}

// runFullApp executes one generated history on both paths and reports the first difference
func runFullApp(w *bufio.Writer, id int, profile string, seed uint64, nOps int) (steps, txs int, diff string) {
	useKeyedUsers = true
	defer func() { useKeyedUsers = false }()
	a := NewEnv()
	b := newFullEnv(a)
	// block 1 commits the genesis of B; then the users of B are funded exactly like those of A
	if _, _, err := b.block(a.ctx.BlockTime(), nil); err != nil {
		return 0, 0, "first block of the application failed: " + err.Error()
	}
	b.fund()
	if _, _, err := b.block(a.ctx.BlockTime(), nil); err != nil {
		return 0, 0, "second block of the application failed: " + err.Error()
	}
	g := NewGen(seed, a, profile)
	foreign := 0
	defer func() { foreignTotal += foreign }()
	fmt.Fprintf(w, "HIST id=%d gen=fullapp-%s seed=%d switch=0\n", id, profile, seed)
	cmp := func(o Op, ra, rb Result) string {
		if ra.Class != rb.Class {
			return fmt.Sprintf("proj=result model=[shortcut: %s %s] impl=[application: %s %s]", ra.Class, ra.Detail, rb.Class, rb.Detail)
		}
		da, db := filterDump(a.Dump()), filterDump(b.Dump())
		sort.Strings(da)
		sort.Strings(db)
		for i := 0; i < len(da) || i < len(db); i++ {
			x, y := "", ""
			if i < len(da) {
				x = da[i]
			}
			if i < len(db) {
				y = db[i]
			}
			if x != y {
				return fmt.Sprintf("proj=%s model=[shortcut: %s] impl=[application: %s]", projOf(x, y), x, y)
			}
		}
		return ""
	}
	for i := 0; i < nOps; i++ {
		o := g.Next()
		switch o.Kind {
		case "LISTEN", "FBLOCK", "GENESIS", "QUERY", "PARAMS":
			continue
		}
		fmt.Fprintln(w, o.String())
		steps++
		var ra, rb Result
		switch o.Kind {
		case "CFA", "CBA", "CAN", "BID", "MOD", "ADDMSG":
			txs++
			now := a.ctx.BlockTime()
			if g.r.P(35) {
				// the transaction travels in a block of its own time: often exactly a start, end or release instant,
				// so that the order "lifecycle first, then the transactions of the block" matters
				if t := time.Unix(0, g.blockTime()).UTC(); t.After(now) {
					now = t
					b.now = t
				}
			}
			if _, who := b.buildMsg(o); who >= 0 && g.r.P(5) {
				// somebody else signs a message that names user `who`: the application must refuse it and change nothing
				other := (who + 1 + g.r.N(NUsers-1)) % NUsers
				_, r0, _ := a.Exec(NewOp("BLOCK", "t", fmt.Sprint(now.UnixNano())))
				if r0.Class != "blockok" {
					return steps, txs, ""
				}
				rf := b.deliver(o, other)
				foreign++
				if d := cmp(o, Result{"rej", "foreign signature"}, rf); d != "" {
					return steps, txs, fmt.Sprintf("step=%d op=[%s signedby=u%d] %s", steps-1, o.String(), other, d)
				}
			}
			_, r0, _ := a.Exec(NewOp("BLOCK", "t", fmt.Sprint(now.UnixNano())))
			if r0.Class != "blockok" {
				return steps, txs, "" // the chain of A halted (known finding territory); nothing to compare
			}
			_, ra, _ = a.Exec(o)
			rb = b.deliver(o, -1)
			if rb.Class == "ok" {
				acceptedTotal++
				if o.Kind == "BID" || o.Kind == "MOD" {
					// C08 on the application path: a bid or a modification is accepted only while the auction is open.
					// A block runs the lifecycle first and its transactions afterwards, and no transaction changes the
					// status of an open auction, so the auction must still be open when the block is over; if it is
					// not, the block that took the bid also settled it
					if au, err := b.k.Auction.Get(b.ctx, pU64(o.F["a"])); err == nil && au.GetStatus() != types.AuctionStatusStarted {
						fmt.Fprintf(w, "FULLCHECK hist=%d step=%d prop=C08 checker=accepted_only_while_open op=[%s] detail=[the application accepted this in a block of time %d, after which auction %s has status %d: the block that took it also closed the auction] gen=fullapp-%s seed=%d\n",
							id, steps-1, o.String(), b.now.UnixNano(), o.F["a"], int(au.GetStatus()), profile, seed)
					}
				}
			}
		case "BLOCK":
			_, ra, _ = a.Exec(o)
			if _, _, err := b.block(pTime(o.F["t"]), nil); err != nil {
				rb = Result{"blockerr", oneLine(err.Error())}
			} else {
				rb = Result{"blockok", ""}
			}
		default: // APIADD, APIUPD, SEND: not transactions of this module; applied directly on both sides
			_, ra, _ = a.Exec(o)
			saved := b.ctx
			_, rb, _ = b.Env.Exec(o)
			b.ctx = saved
			// make the direct writes visible to the next block
			if _, _, err := b.block(b.now, nil); err != nil {
				rb = Result{"blockerr", oneLine(err.Error())}
			}
			_, r0, _ := a.Exec(NewOp("BLOCK", "t", fmt.Sprint(a.ctx.BlockTime().UnixNano())))
			if r0.Class != "blockok" {
				return steps, txs, ""
			}
		}
		if d := cmp(o, ra, rb); d != "" {
			return steps, txs, fmt.Sprintf("step=%d op=[%s] %s", steps-1, o.String(), d)
		}
		if rb.Class != "blockerr" && rb.Class != "panic" && (i == nOps-1 || g.r.P(6)) {
			if d := b.appExport(); d != "" {
				return steps, txs, fmt.Sprintf("step=%d op=[%s] %s", steps-1, o.String(), d)
			}
		}
		if ra.Class == "blockerr" || ra.Class == "panic" {
			break
		}
	}
	return steps, txs, ""
}
