package main

import (
	"fmt"
	"math/big"
	"sort"
	"strings"

	"cosmossdk.io/math"

	"github.com/tendermint/fundraising/x/fundraising/types"
)

// splitmix64: every random choice of a run derives from one seed
type Rng struct{ s uint64 }

func (r *Rng) U64() uint64 {
	r.s += 0x9e3779b97f4a7c15
	z := r.s
	z = (z ^ (z >> 30)) * 0xbf58476d1ce4e5b9
	z = (z ^ (z >> 27)) * 0x94d049bb133111eb
	return z ^ (z >> 31)
}
func (r *Rng) N(n int) int              { return int(r.U64() % uint64(n)) }
func (r *Rng) P(pct int) bool           { return r.N(100) < pct }
func (r *Rng) Pick(xs ...string) string { return xs[r.N(len(xs))] }
func (r *Rng) PickI(xs ...int64) int64  { return xs[r.N(len(xs))] }

const E18 = "1000000000000000000"

// prices with 18 decimals, including non-terminating ratios
var pricePool = []string{
	"1000000000000000000", "500000000000000000", "2000000000000000000", "333333333333333333",
	"142857142857142857", "1500000000000000000", "100000000000000000", "3000000000000000000",
	"1000000000000000001", "999999999999999999", "250000000000000000", "7000000000000000000",
	"1", "1000000000000", "10000000000000000000000", "666666666666666667", "1100000000000000000",
}

type Gen struct {
	r       *Rng
	e       *Env
	profile string
	w       map[string]int
	nOps    int
	pending []string // op kinds to generate next (directed hook scenarios)
	// directed scenario of profile "heavy": one allow-listed bidder places many bids on a few price levels of one
	// batch auction, more than its maximum allows, and the auction is then closed
	heavyA      uint64
	heavyU      int
	heavyCap    math.Int
	heavyPrices []string
	heavyDone   map[uint64]bool
	// directed scenario "snipe": in an extended round two bidders outbid everybody at a new top price with more than
	// the offer between them, so that the next matching matches nothing at all
	snipeDone map[uint64]bool
	snipeU    [2]int
	snipeAmt  math.Int
	snipePx   string
	// directed scenarios "crowded book" (more than a hundred bids in one batch auction, the last one decisive) and
	// "marathon" (an auction with the largest admissible number of extended rounds is extended every time)
	crowdN       int
	crowdTried   bool
	marathonWait bool
}

// Busy: a directed scenario is under way; the history may run past its nominal length to finish it
func (g *Gen) Busy() bool { return len(g.pending) > 0 }

var profiles = map[string]map[string]int{
	"fixed":     {"CFA": 8, "CBA": 1, "CAN": 3, "BID": 40, "MOD": 2, "ADDMSG": 1, "PARAMS": 2, "APIADD": 10, "APIUPD": 6, "BLOCK": 22, "SEND": 3, "LISTEN": 0, "GENESIS": 1, "FBLOCK": 0, "QUERY": 4},
	"batch":     {"CFA": 1, "CBA": 8, "CAN": 2, "BID": 34, "MOD": 14, "ADDMSG": 1, "PARAMS": 3, "APIADD": 10, "APIUPD": 5, "BLOCK": 18, "SEND": 2, "LISTEN": 0, "GENESIS": 1, "FBLOCK": 0, "QUERY": 4},
	"multi":     {"CFA": 8, "CBA": 8, "CAN": 3, "BID": 30, "MOD": 8, "ADDMSG": 1, "PARAMS": 3, "APIADD": 12, "APIUPD": 4, "BLOCK": 16, "SEND": 6, "LISTEN": 0, "GENESIS": 1, "FBLOCK": 0, "QUERY": 4},
	"hooks":     {"CFA": 8, "CBA": 8, "CAN": 4, "BID": 24, "MOD": 8, "ADDMSG": 1, "PARAMS": 1, "APIADD": 12, "APIUPD": 6, "BLOCK": 14, "SEND": 1, "LISTEN": 12, "GENESIS": 0, "FBLOCK": 0, "QUERY": 4},
	"genesis":   {"CFA": 6, "CBA": 8, "CAN": 2, "BID": 30, "MOD": 8, "ADDMSG": 0, "PARAMS": 2, "APIADD": 12, "APIUPD": 3, "BLOCK": 18, "SEND": 2, "LISTEN": 0, "GENESIS": 9, "FBLOCK": 0, "QUERY": 4},
	"fault":     {"CFA": 6, "CBA": 8, "CAN": 1, "BID": 34, "MOD": 6, "ADDMSG": 0, "PARAMS": 1, "APIADD": 14, "APIUPD": 2, "BLOCK": 16, "SEND": 1, "LISTEN": 2, "GENESIS": 0, "FBLOCK": 9, "QUERY": 2},
	"malformed": {"CFA": 14, "CBA": 14, "CAN": 8, "BID": 22, "MOD": 10, "ADDMSG": 4, "PARAMS": 8, "APIADD": 8, "APIUPD": 4, "BLOCK": 6, "SEND": 2, "LISTEN": 0, "GENESIS": 0, "FBLOCK": 0, "QUERY": 4},
}

func init() {
	profiles["extreme"] = map[string]int{"CFA": 6, "CBA": 8, "CAN": 1, "BID": 44, "MOD": 8, "ADDMSG": 0, "PARAMS": 1, "APIADD": 14, "APIUPD": 3, "BLOCK": 18, "SEND": 1, "LISTEN": 0, "GENESIS": 1, "FBLOCK": 0, "QUERY": 1}
	// crowd: every account may bid in every auction; many bidders per settlement
	profiles["heavy"] = map[string]int{"CFA": 1, "CBA": 10, "CAN": 1, "BID": 30, "MOD": 8, "ADDMSG": 0, "PARAMS": 1, "APIADD": 12, "APIUPD": 3, "BLOCK": 10, "SEND": 1, "LISTEN": 0, "GENESIS": 1, "FBLOCK": 0, "QUERY": 1}
	profiles["crowd"] = map[string]int{"CFA": 3, "CBA": 5, "CAN": 0, "BID": 60, "MOD": 8, "ADDMSG": 0, "PARAMS": 1, "APIADD": 4, "APIUPD": 2, "BLOCK": 10, "SEND": 1, "LISTEN": 0, "GENESIS": 1, "FBLOCK": 0, "QUERY": 2}
}

var profileOrder = []string{"fixed", "batch", "multi", "hooks", "genesis", "fault", "malformed", "batch", "crowd", "fixed", "crowd", "multi", "extreme", "heavy"}

func NewGen(seed uint64, e *Env, profile string) *Gen {
	return &Gen{r: &Rng{seed}, e: e, profile: profile, w: profiles[profile], heavyDone: map[uint64]bool{}, snipeDone: map[uint64]bool{}}
}

func (g *Gen) bad() int { // percentage of deliberately malformed field values
	if g.profile == "malformed" {
		return 30
	}
	return 3
}

func (g *Gen) now() int64 { return g.e.ctx.BlockTime().UnixNano() }

func (g *Gen) who(u int) string {
	switch {
	case g.r.P(g.bad()):
		return g.r.Pick("bad", fmt.Sprintf("U%d", u))
	case g.r.P(6):
		return fmt.Sprintf("U%d", u)
	}
	return fmt.Sprintf("u%d", u)
}

func (g *Gen) price() string {
	if g.r.P(g.bad()) {
		return g.r.Pick("0", "nil", "-1000000000000000000")
	}
	if g.profile == "extreme" && g.r.P(40) {
		return g.r.Pick("1", "7", "1000", "1000000000000000000000000000000", "10000000000000000000000000000000000000000000000000000000000",
			"100000000000000000000000000000000000000000000000000000000000000000000000000000", "999999999999999999999999999999999999")
	}
	if g.r.P(15) {
		return ulpPrices[g.r.N(len(ulpPrices))]
	}
	return pricePool[g.r.N(len(pricePool))]
}

// prices a few units of the 18th decimal away from a round value: worth/price then lands within 1e-18 of an
// integer, where truncation and rounding differ
var ulpPrices = []string{
	"7000000000000000001", "3000000000000000001", "2000000000000000001", "33333333333333333334", "6666666666666666667",
	"1999999999999999999", "2999999999999999999", "14285714285714285715", "100000000000000000001", "2500000000000000001",
	"3333333333333333334", "11000000000000000001",
}

func (g *Gen) normalPrice() string {
	if g.r.P(22) {
		return ulpPrices[g.r.N(len(ulpPrices))]
	}
	return pricePool[g.r.N(12)]
}

func (g *Gen) amount() string {
	if g.r.P(g.bad()) {
		return g.r.Pick("0", "nil", "-5")
	}
	if g.profile == "extreme" && g.r.P(70) {
		// 2^64 .. 2^224
		x := new(big.Int).Lsh(big.NewInt(1), uint(64+g.r.N(161)))
		x.Add(x, big.NewInt(int64(g.r.N(1000))))
		return x.String()
	}
	switch g.r.N(10) {
	case 0:
		return fmt.Sprint(1 + g.r.N(5))
	case 1, 2, 3:
		return fmt.Sprint(10 + g.r.N(1000))
	case 4, 5, 6:
		return fmt.Sprint(1000 + g.r.N(1000000))
	case 7:
		return fmt.Sprint(1000000000 + g.r.N(1000000000))
	case 8:
		return "1000000000000000"
	}
	return fmt.Sprint(100 * (1 + g.r.N(100)))
}

const (
	nsHour = int64(3600) * 1000000000
	nsDay  = 24 * nsHour
)

func (g *Gen) scheds(end int64) string {
	n := g.r.N(5)
	if g.r.P(30) {
		n = 0
	}
	if n == 0 {
		return "-"
	}
	if g.r.P(g.bad()) || (g.r.P(2) && g.profile != "extreme") {
		// at the limit on the number of instalments: exactly the maximum, or one more
		n = types.MaxNumVestingSchedules + g.r.N(2)
	}
	big := n >= types.MaxNumVestingSchedules // then the entries themselves stay well-formed
	// weights: a random partition of 10^18
	cuts := []uint64{0, 1000000000000000000}
	for i := 0; i < n-1; i++ {
		c := g.r.U64() % 1000000000000000000
		if big {
			c = uint64(i+1) * (1000000000000000000 / uint64(n))
		} else if g.r.P(15) {
			c = uint64(1 + g.r.N(3))
		}
		cuts = append(cuts, c)
	}
	sort.Slice(cuts, func(i, j int) bool { return cuts[i] < cuts[j] })
	var parts []string
	t := end
	prevT := end
	for i := 0; i < n; i++ {
		w := cuts[i+1] - cuts[i]
		t += g.r.PickI(1, nsHour, nsDay, 3*nsDay, 1000000000)
		ws := fmt.Sprint(w)
		if !big && g.r.P(g.bad()) {
			ws = g.r.Pick("0", "nil", "1000000000000000001", fmt.Sprint(w+1))
		}
		tt := t
		if !big && g.r.P(g.bad()) {
			tt = end - g.r.PickI(0, 1, nsHour)
		}
		if i > 0 && !big && g.r.P(g.bad()) {
			// not strictly after the previous release time: equal, or one nanosecond earlier
			tt = prevT - g.r.PickI(0, 0, 1)
		}
		prevT = tt
		parts = append(parts, fmt.Sprintf("%d@%s", tt, ws))
	}
	return strings.Join(parts, ";")
}

func (g *Gen) denomPair() (string, string) {
	s := g.r.N(4)
	p := g.r.N(4)
	for p == s {
		p = g.r.N(4)
	}
	ss, ps := fmt.Sprint(s), fmt.Sprint(p)
	if g.r.P(g.bad()) {
		switch g.r.N(3) {
		case 0:
			ps = ss
		case 1:
			ps = "!"
		case 2:
			ss = "!"
		}
	}
	return ss, ps
}

func (g *Gen) create(fixed bool) Op {
	now := g.now()
	start := now + g.r.PickI(-nsHour, 0, 1, nsHour, nsDay, 2*nsHour)
	end := start + g.r.PickI(1, nsHour, nsDay, 2*nsDay, 6*nsHour)
	if g.r.P(g.bad()) {
		end = start - g.r.PickI(0, 1, nsHour)
	}
	if g.r.P(g.bad()) {
		start = now - 3*nsDay
		end = now - nsDay
	}
	sd, pd := g.denomPair()
	sell := sd + ":" + g.amount()
	who := g.who(g.r.N(NUsers - 1))
	if g.r.P(4) {
		who = g.who(NUsers - 1) // the poor account
	}
	if fixed {
		return NewOp("CFA", "who", who, "price", g.price(), "sell", sell, "pay", pd, "vs", g.scheds(end),
			"start", fmt.Sprint(start), "end", fmt.Sprint(end))
	}
	maxr := fmt.Sprint(g.r.N(4))
	if g.r.P(g.bad()) {
		maxr = g.r.Pick(fmt.Sprint(types.MaxExtendedRound+1), fmt.Sprint(types.MaxExtendedRound+1), "4294967295", "4294967294", "65536")
	} else if (g.profile == "batch" || g.profile == "heavy") && g.r.P(3) {
		maxr = fmt.Sprint(types.MaxExtendedRound)
		g.marathonWait = true
	}
	rate := g.r.Pick("1", "50000000000000000", "100000000000000000", "300000000000000000", "500000000000000000", E18, "5000000000000000000", "333333333333333333",
		"250000000000000000", "200000000000000000", "750000000000000000", "666666666666666667", "333333333333333334", "500000000000000000", "250000000000000000")
	if g.r.P(g.bad()) {
		rate = g.r.Pick("0", "nil")
	}
	minp := g.r.Pick("1", "100000000000000000", "500000000000000000", E18)
	if g.r.P(g.bad()) {
		minp = g.r.Pick("0", "nil")
	}
	return NewOp("CBA", "who", who, "price", g.price(), "minp", minp, "sell", sell, "pay", pd, "vs", g.scheds(end),
		"maxr", maxr, "rate", rate, "start", fmt.Sprint(start), "end", fmt.Sprint(end))
}

func (g *Gen) auctions() []types.AuctionI {
	as, _ := g.e.k.Auctions(g.e.ctx)
	return as
}

// pickAuction prefers auctions in the given status
func (g *Gen) pickAuction(pref types.AuctionStatus) (types.AuctionI, bool) {
	as := g.auctions()
	if len(as) == 0 {
		return nil, false
	}
	var cand []types.AuctionI
	for _, a := range as {
		if a.GetStatus() == pref {
			cand = append(cand, a)
		}
	}
	if len(cand) > 0 && g.r.P(94) {
		return cand[g.r.N(len(cand))], true
	}
	return as[g.r.N(len(as))], true
}

func (g *Gen) auctionId(a types.AuctionI) string {
	if g.r.P(g.bad()) {
		return fmt.Sprint(a.GetId() + 7)
	}
	return fmt.Sprint(a.GetId())
}

func auctioneerIdx(e *Env, a types.AuctionI) int {
	for i, u := range e.users {
		if u.Equals(a.GetAuctioneer()) {
			return i
		}
	}
	return 0
}

func (g *Gen) allowedOf(id uint64) []types.AllowedBidder {
	l, _ := g.e.k.GetAllowedBiddersByAuction(g.e.ctx, id)
	return l
}
func (g *Gen) userIdx(s string) int {
	for i := range g.e.userStr {
		if g.e.userStr[i] == s {
			return i
		}
	}
	return 0
}

func mulDiv(a math.Int, num, den int64) math.Int {
	return a.MulRaw(num).QuoRaw(den)
}

func (g *Gen) bid() Op {
	a, ok := g.pickAuction(types.AuctionStatusStarted)
	if !ok {
		return g.create(g.r.P(50))
	}
	id := a.GetId()
	al := g.allowedOf(id)
	u := g.r.N(NUsers)
	cap := a.GetSellingCoin().Amount
	if len(al) > 0 && g.r.P(88) {
		x := al[g.r.N(len(al))]
		u = g.userIdx(x.Bidder)
		cap = x.MaxBidAmount
	}
	if p, err := g.e.k.Params.Get(g.e.ctx); err == nil && !p.PlaceBidFee.IsZero() && g.r.P(30) {
		// a bid fee is in force: let the poor account bid when it may
		for _, x := range al {
			if g.userIdx(x.Bidder) == NUsers-1 {
				u, cap = NUsers-1, x.MaxBidAmount
			}
		}
	}
	supply := a.GetSellingCoin().Amount
	sd, pd := fmt.Sprint(denomIdx(a.GetSellingCoin().Denom)), fmt.Sprint(denomIdx(a.GetPayingCoinDenom()))
	if g.r.P(g.bad()) {
		sd, pd = g.r.Pick("0", "1", "2", "3", "!"), g.r.Pick("0", "1", "2", "3", "4")
	}
	price := a.GetStartPrice()
	var bt, coin, ps string
	// quantities (in selling coin) worth trying
	qty := func() math.Int {
		base := supply
		if g.r.P(70) {
			base = cap
		}
		var q math.Int
		switch g.r.N(12) {
		case 9, 10:
			q = mulDiv(base, 1, 5)
		case 11:
			q = mulDiv(base, 1, 7)
		case 0:
			q = math.NewInt(1)
		case 1:
			q = mulDiv(base, 1, 4)
		case 2:
			q = mulDiv(base, 1, 2)
		case 3:
			q = base
		case 4:
			q = base.AddRaw(1)
		case 5:
			q = mulDiv(base, 1, 3)
		case 6:
			q = mulDiv(base, 2, 1)
		case 7:
			q = mulDiv(base, 1, 10)
		default:
			q = math.NewInt(int64(1 + g.r.N(50)))
		}
		if !q.IsPositive() {
			q = math.NewInt(1)
		}
		return q
	}
	if a.GetType() == types.AuctionTypeFixedPrice {
		bt = "1"
		ps = encDec(price)
		if g.r.P(4) {
			ps = g.normalPrice()
		}
		if g.r.P(22) && len(al) > 0 {
			// aim at what is left of the bidder's allowance: exactly that much, one more, one less, in either coin
			used := math.ZeroInt()
			bs, _ := g.e.k.GetBidsByAuctionId(g.e.ctx, id)
			for _, b := range bs {
				if g.userIdx(b.Bidder) == u {
					used = used.Add(b.ConvertToSellingAmount(a.GetPayingCoinDenom()))
				}
			}
			left := cap.Sub(used).AddRaw(g.r.PickI(0, 0, 1, -1))
			if !left.IsPositive() {
				left = math.NewInt(1)
			}
			if g.r.P(50) {
				coin = sd + ":" + left.String()
			} else {
				w := math.LegacyNewDecFromInt(left).Mul(price).Ceil().TruncateInt().AddRaw(g.r.PickI(0, 0, 1, -1, 2))
				if !w.IsPositive() {
					w = math.NewInt(1)
				}
				coin = pd + ":" + w.String()
			}
		} else if fa, ok := a.(*types.FixedPriceAuction); ok && g.r.P(30) {
			// aim at the remainder
			rem := fa.RemainingSellingCoin.Amount
			q := rem.AddRaw(g.r.PickI(0, 0, 1, -1))
			if !q.IsPositive() {
				q = math.NewInt(1)
			}
			coin = sd + ":" + q.String()
		} else if g.r.P(50) {
			coin = sd + ":" + qty().String()
		} else {
			// paying-denominated: worth = qty*price, perturbed so that it does not divide evenly
			w := math.LegacyNewDecFromInt(qty()).Mul(price).Ceil().TruncateInt().AddRaw(g.r.PickI(0, 0, 1, -1, 2))
			if g.r.P(8) { // dust: worth less than one coin
				w = price.TruncateInt().SubRaw(1)
			}
			if !w.IsPositive() {
				w = math.NewInt(1)
			}
			coin = pd + ":" + w.String()
		}
	} else {
		ps = g.normalPrice()
		if ba, ok := a.(*types.BatchAuction); ok {
			for i := 0; i < 6 && pDec(ps).LT(ba.MinBidPrice); i++ {
				ps = g.normalPrice()
			}
		}
		if g.r.P(5) {
			ps = g.price()
		}
		if g.r.P(50) {
			bt = "3"
			coin = sd + ":" + qty().String()
		} else {
			bt = "2"
			p := pDec(pricePool[0])
			if ps != "nil" {
				p = pDec(ps)
			}
			w := math.LegacyNewDecFromInt(qty()).Mul(p).Ceil().TruncateInt().AddRaw(g.r.PickI(0, 0, 1, -1, 3))
			if g.r.P(8) {
				w = math.NewInt(1)
			}
			if g.r.P(18) {
				// worth/price within 1e-18 of a small integer: price a few ulps off a round value, worth = floor or ceil of k*price
				ps = ulpPrices[g.r.N(len(ulpPrices))]
				p = pDec(ps)
				k := int64(1 + g.r.N(1+int(p.TruncateInt64()/2)%40))
				w = p.MulInt64(k).TruncateInt()
				if g.r.P(35) {
					w = p.MulInt64(k).Ceil().TruncateInt()
				}
				if !w.IsPositive() {
					w = math.NewInt(1)
				}
			}
			if !w.IsPositive() {
				w = math.NewInt(1)
			}
			coin = pd + ":" + w.String()
		}
	}
	if g.r.P(g.bad()) {
		bt = g.r.Pick("0", "1", "2", "3", "4")
	}
	if g.r.P(g.bad()) {
		coin = strings.SplitN(coin, ":", 2)[0] + ":" + g.r.Pick("0", "nil", "-3")
	}
	return NewOp("BID", "who", g.who(u), "a", g.auctionId(a), "bt", bt, "price", ps, "coin", coin)
}

// one bid of the heavy scenario: a quarter or so of the bidder's maximum, on one of the chosen price levels
func (g *Gen) heavyBid() Op {
	var a types.AuctionI
	for _, x := range g.auctions() {
		if x.GetId() == g.heavyA {
			a = x
		}
	}
	if a == nil || a.GetStatus() != types.AuctionStatusStarted {
		return g.bid()
	}
	sd, pd := fmt.Sprint(denomIdx(a.GetSellingCoin().Denom)), fmt.Sprint(denomIdx(a.GetPayingCoinDenom()))
	ps := g.heavyPrices[g.r.N(len(g.heavyPrices))]
	q := mulDiv(g.heavyCap, 1, g.r.PickI(3, 4, 4, 5, 7)).AddRaw(int64(g.r.N(4)))
	if !q.IsPositive() {
		q = math.NewInt(1)
	}
	if g.r.P(75) {
		return NewOp("BID", "who", fmt.Sprintf("u%d", g.heavyU), "a", fmt.Sprint(g.heavyA), "bt", "3", "price", ps, "coin", sd+":"+q.String())
	}
	w := pDec(ps).MulInt(q).Ceil().TruncateInt().AddRaw(g.r.PickI(0, 1, -1))
	if !w.IsPositive() {
		w = math.NewInt(1)
	}
	return NewOp("BID", "who", fmt.Sprintf("u%d", g.heavyU), "a", fmt.Sprint(g.heavyA), "bt", "2", "price", ps, "coin", pd+":"+w.String())
}

func (g *Gen) crowdOp(kind string, as []types.AuctionI) Op {
	now := g.now()
	switch kind {
	case "CROWD_CBA":
		// a plain batch auction: no instalments, no extension, opens one hour from now for a day
		g.heavyA = uint64(len(as))
		return NewOp("CBA", "who", "u0", "price", E18, "minp", "100000000000000000", "sell", "0:100000", "pay", "1", "vs", "-",
			"maxr", "0", "rate", "100000000000000000", "start", fmt.Sprint(now+nsHour), "end", fmt.Sprint(now+nsHour+nsDay))
	case "CROWD_START":
		return NewOp("BLOCK", "t", fmt.Sprint(now+nsHour))
	case "CROWD_ADD":
		var l []string
		for u := 1; u < NUsers-1; u++ {
			l = append(l, fmt.Sprintf("%d/u%d/100000", g.heavyA, u))
		}
		return NewOp("APIADD", "a", fmt.Sprint(g.heavyA), "l", strings.Join(l, ";"))
	case "CROWD_BID":
		// small how-many bids on two low price levels
		u := 1 + g.r.N(NUsers-2)
		return NewOp("BID", "who", fmt.Sprintf("u%d", u), "a", fmt.Sprint(g.heavyA), "bt", "3", "price", g.r.Pick(E18, "1100000000000000000"), "coin", fmt.Sprintf("0:%d", 1+g.r.N(3)))
	case "CROWD_TOP":
		// the decisive late bid: the whole offer at a higher price
		return NewOp("BID", "who", fmt.Sprintf("u%d", 1+g.r.N(NUsers-2)), "a", fmt.Sprint(g.heavyA), "bt", "3", "price", "2000000000000000000", "coin", "0:100000")
	case "MARATHON":
		for _, a := range as {
			if a.GetId() == g.heavyA && len(a.GetEndTimes()) > 0 {
				t := a.GetEndTimes()[len(a.GetEndTimes())-1].UnixNano()
				if t < now {
					t = now
				}
				return NewOp("BLOCK", "t", fmt.Sprint(t))
			}
		}
	}
	return NewOp("BLOCK", "t", fmt.Sprint(now))
}

func (g *Gen) mod() Op {
	// pick a bid of a started batch auction when there is one
	var cands []types.Bid
	for _, a := range g.auctions() {
		if a.GetType() == types.AuctionTypeBatch && a.GetStatus() == types.AuctionStatusStarted {
			bs, _ := g.e.k.GetBidsByAuctionId(g.e.ctx, a.GetId())
			cands = append(cands, bs...)
		}
	}
	if len(cands) == 0 || g.r.P(4) {
		all, _ := g.e.k.Bids(g.e.ctx)
		cands = append(cands, all...)
	}
	if len(cands) == 0 {
		return g.bid()
	}
	b := cands[g.r.N(len(cands))]
	u := g.userIdx(b.Bidder)
	if g.r.P(8) {
		u = g.r.N(NUsers)
	}
	price := b.Price.BigInt()
	np := new(big.Int).Set(price)
	switch g.r.N(8) {
	case 0, 1: // same
	case 2:
		np.Add(np, big.NewInt(1))
	case 3:
		np.Mul(np, big.NewInt(11)).Quo(np, big.NewInt(10))
	case 4:
		np.Mul(np, big.NewInt(2))
	case 5:
		np.Sub(np, big.NewInt(1))
	case 6:
		np = pDec(g.normalPrice()).BigInt()
	case 7:
		np.Mul(np, big.NewInt(3)).Quo(np, big.NewInt(2))
	}
	amt := b.Coin.Amount
	switch g.r.N(7) {
	case 0, 1:
	case 2:
		amt = amt.AddRaw(1)
	case 3:
		amt = amt.MulRaw(2)
	case 4:
		amt = amt.SubRaw(1)
	case 5:
		amt = mulDiv(amt, 3, 2)
	case 6:
		amt = amt.AddRaw(int64(g.r.N(100)))
	}
	d := fmt.Sprint(denomIdx(b.Coin.Denom))
	if g.r.P(g.bad()) {
		d = g.r.Pick("0", "1", "2", "3", "!")
	}
	as := amt.String()
	if g.r.P(g.bad()) {
		as = g.r.Pick("0", "nil", "-1")
	}
	ps := np.String()
	if g.r.P(g.bad()) {
		ps = g.r.Pick("0", "nil")
	}
	bid := fmt.Sprint(b.Id)
	if g.r.P(g.bad()) {
		bid = fmt.Sprint(b.Id + 9)
	}
	return NewOp("MOD", "who", g.who(u), "a", fmt.Sprint(b.AuctionId), "b", bid, "price", ps, "coin", d+":"+as)
}

func (g *Gen) maxAmt(a types.AuctionI) string {
	s := a.GetSellingCoin().Amount
	if g.r.P(g.bad() + 3) {
		return g.r.Pick("0", "nil", "-1", s.AddRaw(1).String())
	}
	var v math.Int
	switch g.r.N(6) {
	case 0:
		v = s
	case 1:
		v = mulDiv(s, 1, 2)
	case 2:
		v = mulDiv(s, 1, 3)
	case 3:
		v = mulDiv(s, 1, 10)
	case 4:
		v = math.NewInt(1)
	default:
		v = mulDiv(s, 3, 4)
	}
	if !v.IsPositive() {
		v = math.NewInt(1)
	}
	return v.String()
}

func (g *Gen) apiAdd() Op {
	a, ok := g.pickAuction(types.AuctionStatusStarted)
	if !ok {
		return g.create(g.r.P(50))
	}
	if g.r.P(g.bad()) {
		return NewOp("APIADD", "a", g.auctionId(a), "l", "-")
	}
	n := 1 + g.r.N(3)
	var l []string
	for i := 0; i < n; i++ {
		ea := fmt.Sprint(a.GetId())
		if g.r.P(6) {
			ea = fmt.Sprint(a.GetId() + 1)
		}
		l = append(l, ea+"/"+g.who(g.r.N(NUsers))+"/"+g.maxAmt(a))
	}
	return NewOp("APIADD", "a", g.auctionId(a), "l", strings.Join(l, ";"))
}

func (g *Gen) apiUpd() Op {
	a, ok := g.pickAuction(types.AuctionStatusStarted)
	if !ok {
		return g.create(g.r.P(50))
	}
	al := g.allowedOf(a.GetId())
	u := g.r.N(NUsers)
	if len(al) > 0 && g.r.P(90) {
		u = g.userIdx(al[g.r.N(len(al))].Bidder)
	}
	max := g.maxAmt(a)
	if g.r.P(20) {
		// the update call accepts any positive maximum, also one above what the auction offers
		max = mulDiv(a.GetSellingCoin().Amount, g.r.PickI(2, 3, 1), 1).AddRaw(g.r.PickI(1, 0, 7)).String()
	}
	return NewOp("APIUPD", "a", g.auctionId(a), "u", fmt.Sprint(u), "max", max)
}

func (g *Gen) cancel() Op {
	a, ok := g.pickAuction(types.AuctionStatusStandBy)
	if !ok {
		return g.create(g.r.P(50))
	}
	u := auctioneerIdx(g.e, a)
	if g.r.P(25) {
		u = g.r.N(NUsers)
	}
	who := g.who(u)
	if g.r.P(8) {
		who = "gov" // the module authority is not the auctioneer either
	}
	return NewOp("CAN", "who", who, "a", g.auctionId(a))
}

func (g *Gen) blockTime() int64 {
	now := g.now()
	var inst []int64
	for _, a := range g.auctions() {
		switch a.GetStatus() {
		case types.AuctionStatusStandBy:
			inst = append(inst, a.GetStartTime().UnixNano())
		case types.AuctionStatusStarted:
			ts := a.GetEndTimes()
			inst = append(inst, ts[len(ts)-1].UnixNano())
		case types.AuctionStatusVesting:
			vqs, _ := g.e.k.GetVestingQueuesByAuctionId(g.e.ctx, a.GetId())
			for _, v := range vqs {
				if !v.Released {
					inst = append(inst, v.ReleaseTime.UnixNano())
				}
			}
		}
	}
	var fut []int64
	for _, t := range inst {
		if t+1 >= now {
			fut = append(fut, t)
		}
	}
	t := now
	switch {
	case len(fut) > 0 && g.r.P(65):
		t = fut[g.r.N(len(fut))] + g.r.PickI(-1, 0, 0, 1)
	case g.r.P(12):
		t = now + g.r.PickI(3*nsDay, 10*nsDay)
	default:
		t = now + g.r.PickI(0, 1, 1000000000, nsHour, 5*nsHour, nsDay)
	}
	if t < now {
		t = now
	}
	return t
}

// lock: a third party locks a few coins in a vesting account at an escrow address of the next auction(s)
func (g *Gen) lock() Op {
	n := uint64(len(g.auctions())) + uint64(g.r.N(2))
	return NewOp("LOCK", "to", fmt.Sprintf("%s%d", g.r.Pick("es", "ep", "ev", "ep", "ev"), n), "d", fmt.Sprint(g.r.N(4)), "amt", fmt.Sprint(1+g.r.N(3)))
}

func (g *Gen) send() Op {
	as := g.auctions()
	id := uint64(0)
	if len(as) > 0 {
		id = uint64(g.r.N(len(as) + 2))
	}
	role := g.r.Pick("es", "ep", "ev")
	to := role + fmt.Sprint(id)
	d := fmt.Sprint(g.r.N(5))
	amt := fmt.Sprint(1 + g.r.N(500))
	if int(id) < len(as) && g.r.P(65) {
		// a deposit that matters: the denomination this escrow works with, an amount comparable to the offer
		a := as[id]
		if role == "es" {
			d = fmt.Sprint(denomIdx(a.GetSellingCoin().Denom))
		} else {
			d = fmt.Sprint(denomIdx(a.GetPayingCoinDenom()))
		}
		if g.r.P(60) {
			x := mulDiv(a.GetSellingCoin().Amount, g.r.PickI(1, 1, 2, 3), g.r.PickI(1, 2, 3))
			if x.IsPositive() && x.LT(math.NewIntWithDecimal(1, 22)) {
				amt = x.String()
			}
		}
	}
	if g.r.P(15) {
		to = fmt.Sprintf("u%d", g.r.N(NUsers))
	}
	return NewOp("SEND", "from", fmt.Sprint(g.r.N(NUsers-1)), "to", to, "d", d, "amt", amt)
}

var hookTrigger = []string{"CFA", "CFA", "CBA", "CBA", "CAN", "BID", "MOD", "APIADD", "APIUPD", "BLOCK"}

func (g *Gen) listen() Op {
	if g.profile == "hooks" && g.r.P(65) {
		// directed: 2-3 listeners, exactly one of them (first, middle or last) vetoes hook k; the next
		// operations are of the kind that fires k, so that the dispatcher is exercised at every position
		k := g.r.N(10)
		n := 2 + g.r.N(2)
		pos := g.r.N(n)
		l := make([]string, n)
		for i := range l {
			l[i] = "-"
			if i > pos && g.r.P(15) {
				l[i] = fmt.Sprint(g.r.N(10))
			}
		}
		l[pos] = fmt.Sprint(k)
		g.pending = []string{hookTrigger[k], hookTrigger[k]}
		if k == 9 {
			g.pending = []string{"BLOCK", "BLOCK", "BLOCK"}
		}
		return NewOp("LISTEN", "l", strings.Join(l, ";"))
	}
	n := g.r.N(4)
	if n == 0 {
		return NewOp("LISTEN", "l", "none")
	}
	var l []string
	for i := 0; i < n; i++ {
		if g.r.P(45) {
			l = append(l, fmt.Sprint(g.r.N(10)))
		} else {
			l = append(l, "-")
		}
	}
	return NewOp("LISTEN", "l", strings.Join(l, ";"))
}

func (g *Gen) params() Op {
	auth := "gov"
	if g.r.P(15 + g.bad()) {
		auth = g.who(g.r.N(NUsers))
	}
	cfee := g.r.Pick("-", "4:100000000", "0:5,4:7", "4:1", "1:2,2:3")
	bfee := g.r.Pick("-", "-", "4:10", "1:3", "0:1,4:2", "4:2000", "3:1500") // the last two: more than the poor account holds
	if g.r.P(g.bad() + 3) {
		cfee = g.r.Pick("4:7,0:5", "0:5,0:6", "0:0", "!:5", "0:nil")
	}
	if g.r.P(g.bad()) {
		bfee = g.r.Pick("4:7,0:5", "1:-3")
	}
	return NewOp("PARAMS", "auth", auth, "cfee", cfee, "bfee", bfee, "period", fmt.Sprint(g.r.N(3)))
}

func (g *Gen) addMsg() Op {
	a, ok := g.pickAuction(types.AuctionStatusStarted)
	if !ok {
		return g.create(true)
	}
	ea := fmt.Sprint(a.GetId())
	if g.r.P(40) {
		// the entry inside the message names another auction than the message itself (or none: 0)
		ea = g.r.Pick("0", fmt.Sprint(a.GetId()+1), fmt.Sprint(g.r.N(4)))
	}
	who := g.who(g.r.N(NUsers))
	if g.r.P(12) {
		who = "gov" // the module authority names itself
	}
	return NewOp("ADDMSG", "a", g.auctionId(a), "ea", ea, "who", who, "max", g.maxAmt(a))
}

// Next yields the next operation of the history
// SafeNext: the generator's own arithmetic may overflow in the extreme profile; a block at the current time then
func (g *Gen) SafeNext() (o Op) {
	defer func() {
		if r := recover(); r != nil {
			o = NewOp("BLOCK", "t", fmt.Sprint(g.now()))
		}
	}()
	return g.Next()
}

func (g *Gen) Next() Op {
	g.nOps++
	as := g.auctions()
	if len(g.pending) > 0 && (strings.HasPrefix(g.pending[0], "CROWD_") || g.pending[0] == "MARATHON") {
		kind := g.pending[0]
		g.pending = g.pending[1:]
		return g.crowdOp(kind, as)
	}
	if g.profile == "heavy" && !g.crowdTried && len(as) == 0 {
		g.crowdTried = true
		if g.r.P(5) {
			g.crowdN = 101 + g.r.N(4)
			g.pending = []string{"CROWD_CBA", "CROWD_START", "CROWD_ADD"}
			for i := 0; i < g.crowdN; i++ {
				g.pending = append(g.pending, "CROWD_BID")
			}
			g.pending = append(g.pending, "CROWD_TOP", "HEND")
			return g.Next()
		}
	}
	if g.marathonWait && len(g.pending) == 0 {
		g.marathonWait = false
		for _, a := range as {
			if ba, ok := a.(*types.BatchAuction); ok && ba.MaxExtendedRound == types.MaxExtendedRound && a.GetStatus() != types.AuctionStatusCancelled && a.GetStatus() != types.AuctionStatusFinished {
				g.heavyA = a.GetId()
				for i := 0; i < types.MaxExtendedRound+3; i++ {
					g.pending = append(g.pending, "MARATHON")
				}
				g.nOps--
				return g.Next()
			}
		}
	}
	if len(as) == 0 && g.r.P(85) {
		switch g.profile {
		case "fixed":
			return g.create(true)
		case "batch":
			return g.create(false)
		}
		return g.create(g.r.P(50))
	}
	if g.profile == "crowd" {
		for _, a := range as {
			if (a.GetStatus() == types.AuctionStatusStarted || a.GetStatus() == types.AuctionStatusStandBy) && len(g.allowedOf(a.GetId())) < NUsers-1 {
				var l []string
				for u := 0; u < NUsers; u++ {
					l = append(l, fmt.Sprintf("%d/u%d/%s", a.GetId(), u, mulDiv(a.GetSellingCoin().Amount, int64(1+g.r.N(4)), 4).AddRaw(1).SubRaw(1).String()))
				}
				if a.GetSellingCoin().Amount.GTE(math.NewInt(4)) {
					return NewOp("APIADD", "a", fmt.Sprint(a.GetId()), "l", strings.Join(l, ";"))
				}
			}
		}
	}
	if g.profile == "heavy" && len(g.pending) == 0 {
		for _, a := range as {
			ba, ok := a.(*types.BatchAuction)
			al := g.allowedOf(a.GetId())
			if !ok || a.GetStatus() != types.AuctionStatusStarted || g.heavyDone[a.GetId()] || len(al) == 0 || !g.r.P(60) {
				continue
			}
			g.heavyDone[a.GetId()] = true
			x := al[0]
			for _, y := range al {
				if y.MaxBidAmount.GT(x.MaxBidAmount) {
					x = y
				}
			}
			g.heavyA, g.heavyU, g.heavyCap = a.GetId(), g.userIdx(x.Bidder), x.MaxBidAmount
			g.heavyPrices = nil
			for _, c := range []string{"250000000000000000", "333333333333333333", "142857142857142857", "666666666666666667", "1100000000000000000",
				"1500000000000000000", "1000000000000000001", "2000000000000000001", "3000000000000000000", "7000000000000000001"} {
				if pDec(c).GTE(ba.MinBidPrice) && g.r.P(60) && len(g.heavyPrices) < 4 {
					g.heavyPrices = append(g.heavyPrices, c)
				}
			}
			if len(g.heavyPrices) == 0 {
				g.heavyPrices = []string{encDec(ba.MinBidPrice)}
			}
			for i := 0; i < 14+g.r.N(8); i++ {
				g.pending = append(g.pending, "HBID")
			}
			g.pending = append(g.pending, "HEND")
			break
		}
	}
	if (g.profile == "heavy" || g.profile == "batch" || g.profile == "crowd") && len(g.pending) == 0 {
		for _, a := range as {
			if a.GetType() != types.AuctionTypeBatch || a.GetStatus() != types.AuctionStatusStarted || len(a.GetEndTimes()) < 2 || g.snipeDone[a.GetId()] || !g.r.P(50) {
				continue
			}
			g.snipeDone[a.GetId()] = true
			bs, _ := g.e.k.GetBidsByAuctionId(g.e.ctx, a.GetId())
			if len(bs) == 0 {
				continue
			}
			top := bs[0].Price
			for _, b := range bs {
				if b.Price.GT(top) {
					top = b.Price
				}
			}
			supply := a.GetSellingCoin().Amount
			if supply.LT(math.NewInt(4)) {
				continue
			}
			g.heavyA = a.GetId()
			// not the last account, which is the poor one
			g.snipeU = [2]int{g.r.N(NUsers - 1), 0}
			g.snipeU[1] = (g.snipeU[0] + 1 + g.r.N(NUsers-2)) % (NUsers - 1)
			g.snipeAmt = mulDiv(supply, 3, 5).AddRaw(1)
			g.snipePx = encDec(top.Add(math.LegacyNewDecWithPrec(1, int64(g.r.PickI(0, 1, 18)))))
			g.pending = []string{"SNIPE_ADD", "SNIPE_BID0", "SNIPE_BID1", "HEND"}
			if g.r.P(40) {
				// variant "whale": one bidder whose maximum was raised above the whole offer (the update call allows
				// that) places a single how-much-worth bid at the new top price that asks for more than the offer
				g.pending = []string{"SNIPE_ADD", "WHALE_UPD", "WHALE_BID", "HEND"}
			}
			break
		}
	}
	// an auction nobody may bid in is dull: allow-list somebody soon
	for _, a := range as {
		if (a.GetStatus() == types.AuctionStatusStarted || a.GetStatus() == types.AuctionStatusStandBy) && len(g.allowedOf(a.GetId())) == 0 && g.r.P(40) {
			n := 1 + g.r.N(4)
			var l []string
			for i := 0; i < n; i++ {
				l = append(l, fmt.Sprintf("%d/u%d/%s", a.GetId(), g.r.N(NUsers), g.maxAmt(a)))
			}
			return NewOp("APIADD", "a", fmt.Sprint(a.GetId()), "l", strings.Join(l, ";"))
		}
	}
	nStarted, nStandBy := 0, 0
	var nextStart int64
	for _, a := range as {
		switch a.GetStatus() {
		case types.AuctionStatusStarted:
			nStarted++
		case types.AuctionStatusStandBy:
			if nStandBy == 0 || a.GetStartTime().UnixNano() < nextStart {
				nextStart = a.GetStartTime().UnixNano()
			}
			nStandBy++
		}
	}
	if nStarted == 0 && nStandBy > 0 && g.r.P(55) {
		t := nextStart + g.r.PickI(-1, 0, 0, 1, 1)
		if t < g.now() {
			t = g.now()
		}
		return NewOp("BLOCK", "t", fmt.Sprint(t))
	}
	if nStarted == 0 && nStandBy == 0 && g.r.P(60) {
		return g.create(g.profile == "fixed" || (g.profile != "batch" && g.r.P(50)))
	}
	total := 0
	kinds := []string{"CFA", "CBA", "CAN", "BID", "MOD", "ADDMSG", "PARAMS", "APIADD", "APIUPD", "BLOCK", "SEND", "LISTEN", "GENESIS", "FBLOCK", "QUERY"}
	for _, k := range kinds {
		total += g.w[k]
	}
	x := g.r.N(total)
	kind := ""
	for _, k := range kinds {
		if x < g.w[k] {
			kind = k
			break
		}
		x -= g.w[k]
	}
	if len(g.pending) > 0 {
		kind = g.pending[0]
		g.pending = g.pending[1:]
	}
	switch kind {
	case "HBID":
		return g.heavyBid()
	case "SNIPE_ADD":
		return NewOp("APIADD", "a", fmt.Sprint(g.heavyA), "l", fmt.Sprintf("%d/u%d/%s;%d/u%d/%s", g.heavyA, g.snipeU[0], g.snipeAmt, g.heavyA, g.snipeU[1], g.snipeAmt))
	case "WHALE_UPD":
		for _, a := range as {
			if a.GetId() == g.heavyA {
				return NewOp("APIUPD", "a", fmt.Sprint(g.heavyA), "u", fmt.Sprint(g.snipeU[0]), "max", mulDiv(a.GetSellingCoin().Amount, 2, 1).AddRaw(1).String())
			}
		}
		return g.bid()
	case "WHALE_BID":
		for _, a := range as {
			if a.GetId() == g.heavyA {
				w := pDec(g.snipePx).MulInt(mulDiv(a.GetSellingCoin().Amount, 3, 2)).Ceil().TruncateInt()
				return NewOp("BID", "who", fmt.Sprintf("u%d", g.snipeU[0]), "a", fmt.Sprint(g.heavyA), "bt", "2", "price", g.snipePx,
					"coin", fmt.Sprint(denomIdx(a.GetPayingCoinDenom()))+":"+w.String())
			}
		}
		return g.bid()
	case "SNIPE_BID0", "SNIPE_BID1":
		for _, a := range as {
			if a.GetId() == g.heavyA {
				u := g.snipeU[0]
				if kind == "SNIPE_BID1" {
					u = g.snipeU[1]
				}
				return NewOp("BID", "who", fmt.Sprintf("u%d", u), "a", fmt.Sprint(g.heavyA), "bt", "3", "price", g.snipePx,
					"coin", fmt.Sprint(denomIdx(a.GetSellingCoin().Denom))+":"+g.snipeAmt.String())
			}
		}
		return g.bid()
	case "HEND":
		for _, a := range as {
			if a.GetId() == g.heavyA && len(a.GetEndTimes()) > 0 {
				t := a.GetEndTimes()[len(a.GetEndTimes())-1].UnixNano() + g.r.PickI(0, 1)
				if t < g.now() {
					t = g.now()
				}
				return NewOp("BLOCK", "t", fmt.Sprint(t))
			}
		}
		return NewOp("BLOCK", "t", fmt.Sprint(g.blockTime()))
	case "CFA":
		return g.create(true)
	case "CBA":
		return g.create(false)
	case "CAN":
		return g.cancel()
	case "BID":
		return g.bid()
	case "MOD":
		return g.mod()
	case "ADDMSG":
		return g.addMsg()
	case "PARAMS":
		return g.params()
	case "APIADD":
		return g.apiAdd()
	case "APIUPD":
		return g.apiUpd()
	case "BLOCK":
		return NewOp("BLOCK", "t", fmt.Sprint(g.blockTime()))
	case "FBLOCK":
		return NewOp("FBLOCK", "t", fmt.Sprint(g.blockTime()), "k", fmt.Sprint(g.r.N(6)))
	case "SEND":
		if g.r.P(35) {
			return g.lock()
		}
		return g.send()
	case "LISTEN":
		return g.listen()
	case "GENESIS":
		return NewOp("GENESIS")
	case "QUERY":
		return g.query()
	}
	panic("no kind")
}

func (g *Gen) query() Op {
	as := g.auctions()
	a := "0"
	if len(as) > 0 {
		a = fmt.Sprint(g.r.N(len(as) + 1))
	}
	optU := func() string {
		if g.r.P(50) {
			return "-"
		}
		return fmt.Sprintf("u%d", g.r.N(NUsers))
	}
	switch g.r.N(8) {
	case 0:
		return NewOp("QUERY", "q", "geta", "a", a)
	case 1:
		return NewOp("QUERY", "q", "lista", "st", g.r.Pick("-", "-", "1", "2", "3", "4", "5", "-", "1", "2", "3", "4", "5", "0", "6"), "ty", g.r.Pick("-", "-", "1", "2", "-", "1", "2", "-", "1", "2", "0", "3"))
	case 2:
		return NewOp("QUERY", "q", "getb", "a", a, "b", fmt.Sprint(g.r.N(5)))
	case 3:
		return NewOp("QUERY", "q", "listb", "a", a, "u", optU(), "m", g.r.Pick("-", "-", "0", "1"))
	case 4:
		return NewOp("QUERY", "q", "getl", "a", a, "u", fmt.Sprint(g.r.N(NUsers)))
	case 5:
		return NewOp("QUERY", "q", "listl", "a", a)
	case 6:
		return NewOp("QUERY", "q", "listv", "a", a)
	}
	return NewOp("QUERY", "q", "params")
}
